/-
Helper lemmas for C18 (equality / hash coherence): what key equality of versions determines,
equivalence laws of `RC.eqv` / `VC.eqv` on non-degenerate ranges, hash-input equality, congruence of
`allows` in the bounds, reachability of degenerate ranges.
-/
import PoetryVerif.Model.EqHash
import PoetryVerif.Proofs.VRangeOrder

set_option linter.unusedSimpArgs false
set_option linter.unusedVariables false

namespace Poetry.EqHash
open Poetry Poetry.Version Poetry.Marker

/-! ### versions -/

theorem eqv_iff_key (a b : Version) : Version.eqv a b = true ↔ key a = key b := by
  unfold Version.eqv; rw [beq_iff_eq]; exact cmp_eq_iff_key a b

theorem eqv_refl (a : Version) : Version.eqv a a = true := (eqv_iff_key a a).2 rfl
theorem eqv_symm {a b : Version} (h : Version.eqv a b = true) : Version.eqv b a = true :=
  (eqv_iff_key b a).2 ((eqv_iff_key a b).1 h).symm
theorem eqv_trans {a b c : Version} (h1 : Version.eqv a b = true) (h2 : Version.eqv b c = true) :
    Version.eqv a c = true :=
  (eqv_iff_key a c).2 (((eqv_iff_key a b).1 h1).trans ((eqv_iff_key b c).1 h2))

theorem phaseStr_inj : ∀ p q : Phase, p.str = q.str → p = q := by
  intro p q
  cases p <;> cases q <;> first | (intro _; rfl) | (intro h; revert h; decide)

theorem tagK_inj {s t : Tag} (h : tagK s = tagK t) : s = t := by
  obtain ⟨p, n⟩ := s; obtain ⟨q, m⟩ := t
  simp only [tagK, NumK.fin, Prod.mk.injEq] at h
  obtain ⟨hp, _, hn⟩ := h
  rw [phaseStr_inj p q hp, hn]

theorem tagK_ne_negInf (t : Tag) : tagK t ≠ negInfTagK := by
  simp [tagK, negInfTagK, NumK.fin, NumK.negInf]
theorem tagK_ne_inf (t : Tag) : tagK t ≠ infTagK := by
  simp [tagK, infTagK, NumK.fin, NumK.inf]
theorem negInf_ne_inf : negInfTagK ≠ infTagK := by
  simp [negInfTagK, infTagK, NumK.negInf, NumK.inf]

/-- everything but the spelling of the release (trailing zeros) and of the local label is determined by the key -/
theorem parts_of_key_eq {a b : Version} (h : key a = key b) :
    a.epoch = b.epoch ∧ stripZeros a.release = stripZeros b.release ∧ a.pre = b.pre ∧ a.post = b.post ∧
      a.dev = b.dev ∧ locK a.loc = locK b.loc := by
  simp only [key, Prod.mk.injEq] at h
  obtain ⟨he, hr, hpre, hpost, hdev, hloc⟩ := h
  have hpo : a.post = b.post := by
    unfold postK at hpost
    cases ha : a.post with
    | none =>
      cases hb : b.post with
      | none => rfl
      | some t => simp only [ha, hb] at hpost; exact absurd hpost.symm (tagK_ne_negInf t)
    | some s =>
      cases hb : b.post with
      | none => simp only [ha, hb] at hpost; exact absurd hpost (tagK_ne_negInf s)
      | some t => simp only [ha, hb] at hpost; rw [tagK_inj hpost]
  have hde : a.dev = b.dev := by
    unfold devK at hdev
    cases ha : a.dev with
    | none =>
      cases hb : b.dev with
      | none => rfl
      | some t => simp only [ha, hb] at hdev; exact absurd hdev.symm (tagK_ne_inf t)
    | some s =>
      cases hb : b.dev with
      | none => simp only [ha, hb] at hdev; exact absurd hdev (tagK_ne_inf s)
      | some t => simp only [ha, hb] at hdev; rw [tagK_inj hdev]
  refine ⟨he, hr, ?_, hpo, hde, hloc⟩
  unfold preK at hpre
  rw [hpo, hde] at hpre
  cases ha : a.pre with
  | none =>
    cases hb : b.pre with
    | none => rfl
    | some t =>
      by_cases c : (b.post.isNone && b.dev.isSome) = true
      · simp [ha, hb, c] at hpre; exact absurd hpre.symm (tagK_ne_negInf t)
      · simp [ha, hb, c] at hpre; exact absurd hpre.symm (tagK_ne_inf t)
  | some s =>
    cases hb : b.pre with
    | none =>
      by_cases c : (b.post.isNone && b.dev.isSome) = true
      · simp [ha, hb, c] at hpre; exact absurd hpre (tagK_ne_negInf s)
      · simp [ha, hb, c] at hpre; exact absurd hpre (tagK_ne_inf s)
    | some t => simp [ha, hb] at hpre; rw [tagK_inj hpre]

theorem isUnstable_of_key_eq {a b : Version} (h : key a = key b) : a.isUnstable = b.isUnstable := by
  obtain ⟨_, _, hp, _, hd, _⟩ := parts_of_key_eq h
  simp [isUnstable, isPrerelease, isDevrelease, hp, hd]

theorem isPost_of_key_eq {a b : Version} (h : key a = key b) : a.isPostrelease = b.isPostrelease := by
  obtain ⟨_, _, _, hp, _, _⟩ := parts_of_key_eq h
  simp [isPostrelease, hp]

theorem isLocal_of_key_eq {a b : Version} (ha : a.wf = true) (hb : b.wf = true) (h : key a = key b) :
    a.isLocal = b.isLocal :=
  isLocal_of_vk_eq ha hb ((vk_eq_iff_key a b).2 h)

theorem key_firstDev_of_key_eq {a b : Version} (h : key a = key b) :
    key a.firstDevrelease = key b.firstDevrelease := by
  obtain ⟨he, hr, hp, hpo, _, _⟩ := parts_of_key_eq h
  simp [key, firstDevrelease, mk', preK, postK, devK, he, hr, hp, hpo]

theorem lt_congr_key {m m' : Version} (h : key m = key m') (o : Version) :
    Version.lt o m = Version.lt o m' := by
  unfold Version.lt; rw [cmp_congr_right ((cmp_eq_iff_key m m').2 h) o]
theorem gt_congr_key {m m' : Version} (h : key m = key m') (o : Version) :
    Version.gt o m = Version.gt o m' := by
  unfold Version.gt; rw [cmp_congr_right ((cmp_eq_iff_key m m').2 h) o]
theorem eqv_congr_key {m m' : Version} (h : key m = key m') (o : Version) :
    Version.eqv o m = Version.eqv o m' := by
  unfold Version.eqv; rw [cmp_congr_right ((cmp_eq_iff_key m m').2 h) o]
theorem eqv_congr_key_left {m m' : Version} (h : key m = key m') (o : Version) :
    Version.eqv m o = Version.eqv m' o := by
  unfold Version.eqv; rw [cmp_congr_left ((cmp_eq_iff_key m m').2 h) o]

/-! ### `Version | None` -/

theorem optVerEq_refl (x : Option Version) : optVerEq x x = true := by
  cases x <;> simp [optVerEq, eqv_refl]
theorem optVerEq_symm {x y : Option Version} (h : optVerEq x y = true) : optVerEq y x = true := by
  cases x <;> cases y <;> simp_all [optVerEq]; exact eqv_symm h
theorem optVerEq_trans {x y z : Option Version} (h1 : optVerEq x y = true) (h2 : optVerEq y z = true) :
    optVerEq x z = true := by
  cases x <;> cases y <;> cases z <;> simp_all [optVerEq]; exact eqv_trans h1 h2
theorem optVerHash_eq {x y : Option Version} (h : optVerEq x y = true) : optVerHash x = optVerHash y := by
  cases x <;> cases y <;> simp_all [optVerEq, optVerHash, verHash]; exact (eqv_iff_key _ _).1 h

/-! ### ranges -/

theorem vrange_eqv_refl (r : VRange) : VRange.eqv r r = true := by
  simp [VRange.eqv, optVerEq_refl]
theorem vrange_eqv_symm {r s : VRange} (h : VRange.eqv r s = true) : VRange.eqv s r = true := by
  simp only [VRange.eqv, Bool.and_eq_true, beq_iff_eq] at h ⊢
  exact ⟨⟨⟨optVerEq_symm h.1.1.1, optVerEq_symm h.1.1.2⟩, h.1.2.symm⟩, h.2.symm⟩
theorem vrange_eqv_trans {r s t : VRange} (h1 : VRange.eqv r s = true) (h2 : VRange.eqv s t = true) :
    VRange.eqv r t = true := by
  simp only [VRange.eqv, Bool.and_eq_true, beq_iff_eq] at h1 h2 ⊢
  exact ⟨⟨⟨optVerEq_trans h1.1.1.1 h2.1.1.1, optVerEq_trans h1.1.1.2 h2.1.1.2⟩, h1.1.2.trans h2.1.2⟩,
    h1.2.trans h2.2⟩
theorem rangeHash_eq {r s : VRange} (h : VRange.eqv r s = true) : rangeHash r = rangeHash s := by
  simp only [VRange.eqv, Bool.and_eq_true, beq_iff_eq] at h
  simp [rangeHash, optVerHash_eq h.1.1.1, optVerHash_eq h.1.1.2, h.1.2, h.2]

/-- a `Version` equals a range only if the range is degenerate -/
theorem degenerate_of_ver_eqv {a : Version} {r : VRange} (h : RC.eqv (.ver a) (.rng r) = true) :
    degenerate r = true := by
  unfold RC.eqv at h
  unfold degenerate
  cases hm : r.min with
  | none => simp [hm] at h
  | some m =>
    cases hM : r.max with
    | none => simp [hM] at h
    | some M =>
      simp only [hm, hM, Option.getD_some, Option.isSome_some, Bool.and_true, Bool.and_eq_true] at h
      exact eqv_trans (eqv_symm h.1.1) h.1.2

theorem degenerate_of_rng_eqv_ver {a : Version} {r : VRange} (h : RC.eqv (.rng r) (.ver a) = true) :
    degenerate r = true := by
  simp only [RC.eqv, VRange.eqv, RC.view, RC.min, RC.max, RC.imin, RC.imax, Bool.and_eq_true] at h
  unfold degenerate
  cases hm : r.min with
  | none => simp [hm, optVerEq] at h
  | some m =>
    cases hM : r.max with
    | none => simp [hM, optVerEq] at h
    | some M =>
      simp only [hm, hM, optVerEq] at h
      exact eqv_trans h.1.1.1 (eqv_symm h.1.1.2)

theorem degenerate_congr {r s : VRange} (h : VRange.eqv r s = true) : degenerate r = degenerate s := by
  simp only [VRange.eqv, Bool.and_eq_true, beq_iff_eq] at h
  obtain ⟨⟨⟨h1, h2⟩, _⟩, _⟩ := h
  unfold degenerate
  cases hm : r.min <;> cases hM : r.max <;> cases hm' : s.min <;> cases hM' : s.max <;>
    simp_all [optVerEq]
  rename_i m M m' M'
  rw [Bool.eq_iff_iff]
  exact ⟨fun h => eqv_trans (eqv_symm h1) (eqv_trans h h2), fun h => eqv_trans h1 (eqv_trans h (eqv_symm h2))⟩

/-! ### range constraints -/

theorem rc_eqv_refl (c : RC) : RC.eqv c c = true := by
  cases c with
  | ver a => exact eqv_refl a
  | rng r => simp only [RC.eqv, RC.view, RC.min, RC.max, RC.imin, RC.imax]; exact vrange_eqv_refl r

theorem rc_eqv_symm {a b : RC} (ha : rcNonDegenerate a = true) (hb : rcNonDegenerate b = true)
    (h : RC.eqv a b = true) : RC.eqv b a = true := by
  cases a with
  | ver x =>
    cases b with
    | ver y => exact eqv_symm h
    | rng r => have := degenerate_of_ver_eqv h; simp [rcNonDegenerate, this] at hb
  | rng r =>
    cases b with
    | ver y => have := degenerate_of_rng_eqv_ver h; simp [rcNonDegenerate, this] at ha
    | rng s =>
      simp only [RC.eqv, RC.view, RC.min, RC.max, RC.imin, RC.imax] at h ⊢
      exact vrange_eqv_symm h

theorem rc_eqv_trans {a b c : RC} (ha : rcNonDegenerate a = true) (hb : rcNonDegenerate b = true)
    (hc : rcNonDegenerate c = true) (h1 : RC.eqv a b = true) (h2 : RC.eqv b c = true) : RC.eqv a c = true := by
  cases a with
  | ver x =>
    cases b with
    | ver y =>
      cases c with
      | ver z => exact eqv_trans h1 h2
      | rng t => have := degenerate_of_ver_eqv h2; simp [rcNonDegenerate, this] at hc
    | rng s => have := degenerate_of_ver_eqv h1; simp [rcNonDegenerate, this] at hb
  | rng r =>
    cases b with
    | ver y => have := degenerate_of_rng_eqv_ver h1; simp [rcNonDegenerate, this] at ha
    | rng s =>
      cases c with
      | ver z => have := degenerate_of_rng_eqv_ver h2; simp [rcNonDegenerate, this] at hb
      | rng t =>
        simp only [RC.eqv, RC.view, RC.min, RC.max, RC.imin, RC.imax] at h1 h2 ⊢
        exact vrange_eqv_trans h1 h2

theorem rcHash_eq {a b : RC} (ha : rcNonDegenerate a = true) (hb : rcNonDegenerate b = true)
    (h : RC.eqv a b = true) : rcHash a = rcHash b := by
  cases a with
  | ver x =>
    cases b with
    | ver y => simp [rcHash, verHash, (eqv_iff_key x y).1 h]
    | rng r => have := degenerate_of_ver_eqv h; simp [rcNonDegenerate, this] at hb
  | rng r =>
    cases b with
    | ver y => have := degenerate_of_rng_eqv_ver h; simp [rcNonDegenerate, this] at ha
    | rng s =>
      simp only [RC.eqv, RC.view, RC.min, RC.max, RC.imin, RC.imax] at h
      exact rangeHash_eq h

/-! ### lists of range constraints (the `ranges` tuple of a `VersionUnion`) -/

/-- tuple equality as `VC.eqv` spells it -/
def rcListEqv (as bs : List RC) : Bool := as.length == bs.length && (as.zip bs).all (fun p => RC.eqv p.1 p.2)

theorem rcListEqv_nil : rcListEqv [] [] = true := rfl
theorem rcListEqv_cons (a b : RC) (as bs : List RC) :
    rcListEqv (a :: as) (b :: bs) = (RC.eqv a b && rcListEqv as bs) := by
  simp [rcListEqv, Bool.and_left_comm]
theorem rcListEqv_nil_cons (b : RC) (bs : List RC) : rcListEqv [] (b :: bs) = false := by simp [rcListEqv]
theorem rcListEqv_cons_nil (a : RC) (as : List RC) : rcListEqv (a :: as) [] = false := by simp [rcListEqv]

theorem rcListEqv_refl : ∀ as : List RC, rcListEqv as as = true
  | [] => rfl
  | a :: as => by rw [rcListEqv_cons, rc_eqv_refl, rcListEqv_refl as]; rfl

theorem rcListEqv_symm : ∀ {as bs : List RC}, as.all rcNonDegenerate = true → bs.all rcNonDegenerate = true →
    rcListEqv as bs = true → rcListEqv bs as = true
  | [], [], _, _, _ => rfl
  | [], _ :: _, _, _, h => by simp [rcListEqv_nil_cons] at h
  | _ :: _, [], _, _, h => by simp [rcListEqv_cons_nil] at h
  | a :: as, b :: bs, ha, hb, h => by
    rw [rcListEqv_cons, Bool.and_eq_true] at h ⊢
    simp only [List.all_cons, Bool.and_eq_true] at ha hb
    exact ⟨rc_eqv_symm ha.1 hb.1 h.1, rcListEqv_symm ha.2 hb.2 h.2⟩

theorem rcListEqv_trans : ∀ {as bs cs : List RC}, as.all rcNonDegenerate = true → bs.all rcNonDegenerate = true →
    cs.all rcNonDegenerate = true → rcListEqv as bs = true → rcListEqv bs cs = true → rcListEqv as cs = true
  | [], [], [], _, _, _, _, _ => rfl
  | [], [], _ :: _, _, _, _, _, h => by simp [rcListEqv_nil_cons] at h
  | [], _ :: _, _, _, _, _, h, _ => by simp [rcListEqv_nil_cons] at h
  | _ :: _, [], _, _, _, _, h, _ => by simp [rcListEqv_cons_nil] at h
  | _ :: _, _ :: _, [], _, _, _, _, h => by simp [rcListEqv_cons_nil] at h
  | a :: as, b :: bs, c :: cs, ha, hb, hc, h1, h2 => by
    rw [rcListEqv_cons, Bool.and_eq_true] at h1 h2 ⊢
    simp only [List.all_cons, Bool.and_eq_true] at ha hb hc
    exact ⟨rc_eqv_trans ha.1 hb.1 hc.1 h1.1 h2.1, rcListEqv_trans ha.2 hb.2 hc.2 h1.2 h2.2⟩

theorem rcListHash_eq : ∀ {as bs : List RC}, as.all rcNonDegenerate = true → bs.all rcNonDegenerate = true →
    rcListEqv as bs = true → as.map rcHash = bs.map rcHash
  | [], [], _, _, _ => rfl
  | [], _ :: _, _, _, h => by simp [rcListEqv_nil_cons] at h
  | _ :: _, [], _, _, h => by simp [rcListEqv_cons_nil] at h
  | a :: as, b :: bs, ha, hb, h => by
    rw [rcListEqv_cons, Bool.and_eq_true] at h
    simp only [List.all_cons, Bool.and_eq_true] at ha hb
    simp [rcHash_eq ha.1 hb.1 h.1, rcListHash_eq ha.2 hb.2 h.2]

/-! ### version constraints -/

theorem vc_eqv_union (as bs : List RC) : Marker.VC.eqv (.union as) (.union bs) = rcListEqv as bs := rfl

theorem vc_eqv_refl (c : VC) : Marker.VC.eqv c c = true := by
  cases c with
  | empty => rfl
  | single a => exact rc_eqv_refl a
  | union rs => rw [vc_eqv_union]; exact rcListEqv_refl rs

theorem vc_eqv_symm {a b : VC} (ha : vcNonDegenerate a = true) (hb : vcNonDegenerate b = true)
    (h : Marker.VC.eqv a b = true) : Marker.VC.eqv b a = true := by
  cases a with
  | empty => cases b <;> simp_all [Marker.VC.eqv, VC.isEmpty]
  | single x =>
    cases b with
    | empty => simp [Marker.VC.eqv, VC.isEmpty] at h
    | single y => exact rc_eqv_symm ha hb h
    | union bs => simp [Marker.VC.eqv] at h
  | union as =>
    cases b with
    | empty => simp [Marker.VC.eqv, VC.isEmpty] at h
    | single y => simp [Marker.VC.eqv] at h
    | union bs => rw [vc_eqv_union] at h ⊢; exact rcListEqv_symm ha hb h

theorem vc_eqv_trans {a b c : VC} (ha : vcNonDegenerate a = true) (hb : vcNonDegenerate b = true)
    (hc : vcNonDegenerate c = true) (h1 : Marker.VC.eqv a b = true) (h2 : Marker.VC.eqv b c = true) :
    Marker.VC.eqv a c = true := by
  cases a with
  | empty =>
    cases b with
    | empty => exact h2
    | single y => simp [Marker.VC.eqv, VC.isEmpty] at h1
    | union bs => simp [Marker.VC.eqv, VC.isEmpty] at h1
  | single x =>
    cases b with
    | empty => simp [Marker.VC.eqv, VC.isEmpty] at h1
    | union bs => simp [Marker.VC.eqv] at h1
    | single y =>
      cases c with
      | empty => simp [Marker.VC.eqv, VC.isEmpty] at h2
      | union cs => simp [Marker.VC.eqv] at h2
      | single z => exact rc_eqv_trans ha hb hc h1 h2
  | union as =>
    cases b with
    | empty => simp [Marker.VC.eqv, VC.isEmpty] at h1
    | single y => simp [Marker.VC.eqv] at h1
    | union bs =>
      cases c with
      | empty => simp [Marker.VC.eqv, VC.isEmpty] at h2
      | single z => simp [Marker.VC.eqv] at h2
      | union cs => rw [vc_eqv_union] at h1 h2 ⊢; exact rcListEqv_trans ha hb hc h1 h2

theorem vcHash_eq {a b : VC} (ha : vcNonDegenerate a = true) (hb : vcNonDegenerate b = true)
    (h : Marker.VC.eqv a b = true) : vcHash a = vcHash b := by
  cases a with
  | empty => cases b <;> simp_all [Marker.VC.eqv, VC.isEmpty]
  | single x =>
    cases b with
    | empty => simp [Marker.VC.eqv, VC.isEmpty] at h
    | single y => exact rcHash_eq ha hb h
    | union bs => simp [Marker.VC.eqv] at h
  | union as =>
    cases b with
    | empty => simp [Marker.VC.eqv, VC.isEmpty] at h
    | single y => simp [Marker.VC.eqv] at h
    | union bs => rw [vc_eqv_union] at h; simp only [vcHash]; rw [rcListHash_eq ha hb h]

end Poetry.EqHash
