/-
Semantics of marker trees over an abstract leaf evaluator, the leaf invariant the simplifier's
soundness needs, and the list-level lemmas (duplicates, flattening, `itertools.product`,
`min(key=complexity)`, singleton unwrapping) that the soundness proofs of the mutual block use.

`M.sem ev m` is the truth value of `m` when every leaf `l` evaluates to `ev l`.  Marker equality
(`M.beq`, Python's `__eq__`) ignores the constraint object of a `SingleMarker`; it implies equal
truth only on leaves satisfying an invariant `G` (`LeafSpec.congr`), which every operation preserves.
-/
import PoetryVerif.Model.MarkerOps

set_option linter.unusedSimpArgs false
set_option linter.unusedVariables false

namespace Poetry.Marker

/-! ### semantics -/

mutual
def M.sem (ev : Leaf → Bool) : M → Bool
  | .any => true
  | .empty => false
  | .leaf l => ev l
  | .multi ms => M.semAll ev ms
  | .union ms => M.semAny ev ms
def M.semAll (ev : Leaf → Bool) : List M → Bool
  | [] => true
  | m :: ms => M.sem ev m && M.semAll ev ms
def M.semAny (ev : Leaf → Bool) : List M → Bool
  | [] => false
  | m :: ms => M.sem ev m || M.semAny ev ms
end

mutual
def M.Good (G : Leaf → Prop) : M → Prop
  | .any => True
  | .empty => True
  | .leaf l => G l
  | .multi ms => M.GoodAll G ms
  | .union ms => M.GoodAll G ms
def M.GoodAll (G : Leaf → Prop) : List M → Prop
  | [] => True
  | m :: ms => M.Good G m ∧ M.GoodAll G ms
end

/-- what the soundness of the simplifier needs from the leaves: marker equality implies equal truth,
and a successful merge of two leaves is their conjunction / disjunction -/
structure LeafSpec (ev : Leaf → Bool) (G : Leaf → Prop) : Prop where
  congr : ∀ a b, G a → G b → Leaf.beq a b = true → ev a = ev b
  merge : ∀ l1 l2 im r, G l1 → G l2 → mergeLeaves l1 l2 im = .ok (some r) →
    M.Good G r ∧ M.sem ev r = (if im then (ev l1 && ev l2) else (ev l1 || ev l2))

variable {ev : Leaf → Bool} {G : Leaf → Prop}

theorem M.semAll_eq (ms : List M) : M.semAll ev ms = ms.all (M.sem ev) := by
  induction ms with
  | nil => simp [M.semAll]
  | cons m ms ih => simp [M.semAll, ih]

theorem M.semAny_eq (ms : List M) : M.semAny ev ms = ms.any (M.sem ev) := by
  induction ms with
  | nil => simp [M.semAny]
  | cons m ms ih => simp [M.semAny, ih]

theorem M.goodAll_iff (ms : List M) : M.GoodAll G ms ↔ ∀ m ∈ ms, M.Good G m := by
  induction ms with
  | nil => simp [M.GoodAll]
  | cons m ms ih => simp [M.GoodAll, ih]

mutual
theorem M.good_trivial : ∀ m : M, M.Good (fun _ => True) m
  | .any => trivial
  | .empty => trivial
  | .leaf _ => trivial
  | .multi ms => M.goodAll_trivial ms
  | .union ms => M.goodAll_trivial ms
theorem M.goodAll_trivial : ∀ ms : List M, M.GoodAll (fun _ => True) ms
  | [] => trivial
  | a :: l => ⟨M.good_trivial a, M.goodAll_trivial l⟩
end

@[simp] theorem M.sem_any : M.sem ev .any = true := by simp [M.sem]
@[simp] theorem M.sem_empty : M.sem ev .empty = false := by simp [M.sem]
@[simp] theorem M.sem_leaf (l : Leaf) : M.sem ev (.leaf l) = ev l := by simp [M.sem]
@[simp] theorem M.sem_multi (ms : List M) : M.sem ev (.multi ms) = ms.all (M.sem ev) := by
  simp [M.sem, M.semAll_eq]
@[simp] theorem M.sem_union (ms : List M) : M.sem ev (.union ms) = ms.any (M.sem ev) := by
  simp [M.sem, M.semAny_eq]
@[simp] theorem M.good_any : M.Good G .any := by simp [M.Good]
@[simp] theorem M.good_empty : M.Good G .empty := by simp [M.Good]
@[simp] theorem M.good_leaf (l : Leaf) : M.Good G (.leaf l) ↔ G l := by simp [M.Good]
@[simp] theorem M.good_multi (ms : List M) : M.Good G (.multi ms) ↔ ∀ m ∈ ms, M.Good G m := by
  simp [M.Good, M.goodAll_iff]
@[simp] theorem M.good_union (ms : List M) : M.Good G (.union ms) ↔ ∀ m ∈ ms, M.Good G m := by
  simp [M.Good, M.goodAll_iff]

theorem M.isAny_sem {m : M} (h : m.isAny = true) : M.sem ev m = true := by
  cases m <;> simp [M.isAny] at h ⊢

theorem M.isEmpty_sem {m : M} (h : m.isEmpty = true) : M.sem ev m = false := by
  cases m <;> simp [M.isEmpty] at h ⊢

/-! ### marker equality -/

theorem Leaf.beq_symm (a b : Leaf) : Leaf.beq a b = Leaf.beq b a := by
  cases a <;> cases b <;> simp [Leaf.beq, Bool.and_comm, eq_comm] <;> grind

mutual
theorem M.beq_symm : ∀ a b : M, M.beq a b = M.beq b a
  | .any, b => by cases b <;> simp [M.beq]
  | .empty, b => by cases b <;> simp [M.beq]
  | .leaf l, b => by cases b <;> simp [M.beq, Leaf.beq_symm]
  | .multi as, b => by
      cases b <;> simp [M.beq]
      exact M.beqList_symm as _
  | .union as, b => by
      cases b <;> simp [M.beq]
      exact M.beqList_symm as _
theorem M.beqList_symm : ∀ as bs : List M, M.beqList as bs = M.beqList bs as
  | [], bs => by cases bs <;> simp [M.beqList]
  | a :: as, [] => by simp [M.beqList]
  | a :: as, b :: bs => by
      simp [M.beqList, M.beq_symm a b, M.beqList_symm as bs]
end

mutual
theorem M.beq_sem (S : LeafSpec ev G) : ∀ a b : M, M.Good G a → M.Good G b → M.beq a b = true →
    M.sem ev a = M.sem ev b
  | .any, b, _, _, h => by cases b <;> simp [M.beq] at h ⊢
  | .empty, b, _, _, h => by cases b <;> simp [M.beq] at h ⊢
  | .leaf l, b, ha, hb, h => by
      cases b <;> simp [M.beq] at h ⊢
      exact S.congr _ _ (by simpa using ha) (by simpa using hb) h
  | .multi as, b, ha, hb, h => by
      cases b <;> simp [M.beq] at h
      simp only [M.sem]
      exact (M.beqList_sem S as _ (by simpa [M.Good] using ha) (by simpa [M.Good] using hb) h).1
  | .union as, b, ha, hb, h => by
      cases b <;> simp [M.beq] at h
      simp only [M.sem]
      exact (M.beqList_sem S as _ (by simpa [M.Good] using ha) (by simpa [M.Good] using hb) h).2
theorem M.beqList_sem (S : LeafSpec ev G) : ∀ as bs : List M, M.GoodAll G as → M.GoodAll G bs →
    M.beqList as bs = true → M.semAll ev as = M.semAll ev bs ∧ M.semAny ev as = M.semAny ev bs
  | [], bs, _, _, h => by cases bs <;> simp [M.beqList] at h ⊢
  | a :: as, [], _, _, h => by simp [M.beqList] at h
  | a :: as, b :: bs, ha, hb, h => by
      simp [M.beqList] at h
      have h1 := M.beq_sem S a b ha.1 hb.1 h.1
      have h2 := M.beqList_sem S as bs ha.2 hb.2 h.2
      simp [M.semAll, M.semAny, h1, h2.1, h2.2]
end

theorem M.mem_nil (m : M) : M.mem m [] = false := rfl
theorem M.mem_cons (m x : M) (xs : List M) : M.mem m (x :: xs) = (M.beq m x || M.mem m xs) := by
  simp [M.mem]

/-- `m in markers` (by `__eq__`): some member has the same truth value -/
theorem M.mem_sem (S : LeafSpec ev G) {m : M} {l : List M} (hm : M.Good G m)
    (hl : ∀ x ∈ l, M.Good G x) (h : M.mem m l = true) : ∃ x ∈ l, M.sem ev x = M.sem ev m := by
  simp only [M.mem, List.any_eq_true] at h
  obtain ⟨x, hx, hb⟩ := h
  exact ⟨x, hx, (M.beq_sem S m x hm (hl x hx) hb).symm⟩

theorem M.mem_all (S : LeafSpec ev G) {m : M} {l : List M} (hm : M.Good G m)
    (hl : ∀ x ∈ l, M.Good G x) (h : M.mem m l = true) :
    (l.all (M.sem ev) && M.sem ev m) = l.all (M.sem ev) := by
  obtain ⟨x, hx, he⟩ := M.mem_sem S hm hl h
  cases hs : M.sem ev m
  · have : l.all (M.sem ev) = false := by
      simp only [List.all_eq_false]; exact ⟨x, hx, by simp [he, hs]⟩
    simp [this]
  · simp

theorem M.mem_any (S : LeafSpec ev G) {m : M} {l : List M} (hm : M.Good G m)
    (hl : ∀ x ∈ l, M.Good G x) (h : M.mem m l = true) :
    (l.any (M.sem ev) || M.sem ev m) = l.any (M.sem ev) := by
  obtain ⟨x, hx, he⟩ := M.mem_sem S hm hl h
  cases hs : M.sem ev m
  · simp
  · have : l.any (M.sem ev) = true := by
      simp only [List.any_eq_true]; exact ⟨x, hx, by simp [he, hs]⟩
    simp [this]

/-! ### duplicates and flattening -/

theorem appendOne_spec (S : LeafSpec ev G) (acc : List M) (m : M) (ha : ∀ x ∈ acc, M.Good G x)
    (hm : M.Good G m) :
    (∀ x ∈ (if M.mem m acc = true then acc else acc ++ [m]), M.Good G x) ∧
    (if M.mem m acc = true then acc else acc ++ [m]).all (M.sem ev) = (acc.all (M.sem ev) && M.sem ev m) ∧
    (if M.mem m acc = true then acc else acc ++ [m]).any (M.sem ev) = (acc.any (M.sem ev) || M.sem ev m) := by
  by_cases h : M.mem m acc = true
  · simp only [h, if_true]
    exact ⟨ha, (M.mem_all S hm ha h).symm, (M.mem_any S hm ha h).symm⟩
  · simp only [h, if_false]
    refine ⟨?_, by simp, by simp⟩
    intro x hx
    simp at hx
    rcases hx with hx | rfl
    · exact ha x hx
    · exact hm

theorem appendNew_spec (S : LeafSpec ev G) (ms : List M) : ∀ (acc : List M), (∀ x ∈ acc, M.Good G x) →
    (∀ x ∈ ms, M.Good G x) →
    (∀ x ∈ appendNew acc ms, M.Good G x) ∧
    (appendNew acc ms).all (M.sem ev) = (acc.all (M.sem ev) && ms.all (M.sem ev)) ∧
    (appendNew acc ms).any (M.sem ev) = (acc.any (M.sem ev) || ms.any (M.sem ev)) := by
  induction ms with
  | nil => intro acc ha _; simp [appendNew]; exact ha
  | cons m ms ih =>
    intro acc ha hm
    have h1 := appendOne_spec S acc m ha (hm m (by simp))
    have h2 := ih (if M.mem m acc = true then acc else acc ++ [m]) h1.1 (fun x hx => hm x (by simp [hx]))
    simp only [appendNew, List.foldl_cons] at h2 ⊢
    refine ⟨h2.1, ?_, ?_⟩
    · rw [h2.2.1, h1.2.1]; simp [Bool.and_assoc]
    · rw [h2.2.2, h1.2.2]; simp [Bool.or_assoc]

theorem flattenAux_multi (S : LeafSpec ev G) (ms acc : List M) : (∀ x ∈ ms, M.Good G x) →
    (∀ x ∈ acc, M.Good G x) →
    (∀ x ∈ flattenAux true ms acc, M.Good G x) ∧
    (flattenAux true ms acc).all (M.sem ev) = (acc.all (M.sem ev) && ms.all (M.sem ev)) := by
  induction ms, acc using flattenAux.induct true with
  | case1 acc => intro _ ha; rw [flattenAux.eq_def]; simp; exact ha
  | case2 rest acc inner _ ih1 ih2 =>
    intro hm ha
    rw [flattenAux.eq_def]
    simp only
    have hi : ∀ x ∈ inner, M.Good G x := by
      have := hm (.multi inner) (by simp); simpa using this
    have h1 := ih1 hi (by simp)
    have h2 := appendNew_spec S (flattenAux true inner []) acc ha h1.1
    have h3 := ih2 (fun x hx => hm x (by simp [hx])) h2.1
    refine ⟨h3.1, ?_⟩
    rw [h3.2, h2.2.1, h1.2]; simp [Bool.and_assoc]
  | case3 rest acc inner h => exact absurd h (by simp)
  | case4 rest acc m hn1 hn2 ih =>
    intro hm ha
    have h1 := appendOne_spec S acc m ha (hm m (by simp))
    simp only [dite_eq_ite] at ih
    have h3 := ih (fun x hx => hm x (by simp [hx])) h1.1
    rw [flattenAux.eq_def]
    have e : (match m, true with
      | M.multi inner, true => flattenAux true rest (appendNew acc (flattenAux true inner []))
      | M.union inner, false => flattenAux true rest (appendNew acc (flattenAux true inner []))
      | m, x => flattenAux true rest (if m.mem acc = true then acc else acc ++ [m])) =
        flattenAux true rest (if m.mem acc = true then acc else acc ++ [m]) := by
      cases m <;> first | rfl | (exact absurd rfl (fun h => hn1 _ h rfl))
    simp only [e]
    refine ⟨h3.1, ?_⟩
    rw [h3.2, h1.2.1]; simp [Bool.and_assoc]
theorem flattenAux_union (S : LeafSpec ev G) (ms acc : List M) : (∀ x ∈ ms, M.Good G x) →
    (∀ x ∈ acc, M.Good G x) →
    (∀ x ∈ flattenAux false ms acc, M.Good G x) ∧
    (flattenAux false ms acc).any (M.sem ev) = (acc.any (M.sem ev) || ms.any (M.sem ev)) := by
  induction ms, acc using flattenAux.induct false with
  | case1 acc => intro _ ha; rw [flattenAux.eq_def]; simp; exact ha
  | case2 rest acc inner h => exact absurd h (by simp)
  | case3 rest acc inner _ ih1 ih2 =>
    intro hm ha
    rw [flattenAux.eq_def]
    simp only
    have hi : ∀ x ∈ inner, M.Good G x := by
      have := hm (.union inner) (by simp); simpa using this
    have h1 := ih1 hi (by simp)
    have h2 := appendNew_spec S (flattenAux false inner []) acc ha h1.1
    have h3 := ih2 (fun x hx => hm x (by simp [hx])) h2.1
    refine ⟨h3.1, ?_⟩
    rw [h3.2, h2.2.2, h1.2]; simp [Bool.or_assoc]
  | case4 rest acc m hn1 hn2 ih =>
    intro hm ha
    have h1 := appendOne_spec S acc m ha (hm m (by simp))
    simp only [dite_eq_ite] at ih
    have h3 := ih (fun x hx => hm x (by simp [hx])) h1.1
    rw [flattenAux.eq_def]
    have e : (match m, false with
      | M.multi inner, true => flattenAux false rest (appendNew acc (flattenAux false inner []))
      | M.union inner, false => flattenAux false rest (appendNew acc (flattenAux false inner []))
      | m, x => flattenAux false rest (if m.mem acc = true then acc else acc ++ [m])) =
        flattenAux false rest (if m.mem acc = true then acc else acc ++ [m]) := by
      cases m <;> first | rfl | (exact absurd rfl (fun h => hn2 _ h rfl))
    simp only [e]
    refine ⟨h3.1, ?_⟩
    rw [h3.2, h1.2.2]; simp [Bool.or_assoc]

theorem flattenMulti_spec (S : LeafSpec ev G) (ms : List M) (hm : ∀ x ∈ ms, M.Good G x) :
    (∀ x ∈ flattenMarkers true ms, M.Good G x) ∧
    (flattenMarkers true ms).all (M.sem ev) = ms.all (M.sem ev) := by
  have := flattenAux_multi S ms [] hm (by simp)
  simpa [flattenMarkers] using this

theorem flattenUnion_spec (S : LeafSpec ev G) (ms : List M) (hm : ∀ x ∈ ms, M.Good G x) :
    (∀ x ∈ flattenMarkers false ms, M.Good G x) ∧
    (flattenMarkers false ms).any (M.sem ev) = ms.any (M.sem ev) := by
  have := flattenAux_union S ms [] hm (by simp)
  simpa [flattenMarkers] using this

theorem mkMulti_spec (S : LeafSpec ev G) (ms : List M) (hm : ∀ x ∈ ms, M.Good G x) :
    M.Good G (mkMulti ms) ∧ M.sem ev (mkMulti ms) = ms.all (M.sem ev) := by
  have := flattenMulti_spec S ms hm
  simpa [mkMulti] using this

theorem mkUnion_spec (S : LeafSpec ev G) (ms : List M) (hm : ∀ x ∈ ms, M.Good G x) :
    M.Good G (mkUnion ms) ∧ M.sem ev (mkUnion ms) = ms.any (M.sem ev) := by
  have := flattenUnion_spec S ms hm
  simpa [mkUnion] using this

/-! ### `new_markers[i] = x` -/

theorem setAt_spec (pre : List M) (mark : M) (more : List M) (x : M) :
    setAt (pre ++ mark :: more) pre.length x = pre ++ x :: more := by
  simp [setAt]

/-! ### `itertools.product`: distributivity -/

theorem product_mem {ls : List (List M)} {combo : List M} (h : combo ∈ product ls) :
    ∀ x ∈ combo, ∃ l ∈ ls, x ∈ l := by
  induction ls generalizing combo with
  | nil => simp [product] at h; subst h; simp
  | cons l ls ih =>
    simp only [product, List.mem_flatMap, List.mem_map] at h
    obtain ⟨a, ha, rest, hr, rfl⟩ := h
    intro x hx
    simp at hx
    rcases hx with rfl | hx
    · exact ⟨l, by simp, ha⟩
    · obtain ⟨l', hl', hx'⟩ := ih hr x hx
      exact ⟨l', by simp [hl'], hx'⟩

/-- a conjunction of disjunctions over all choices = the disjunction of the conjunctions -/
theorem product_all_any (p : M → Bool) (ls : List (List M)) :
    (product ls).all (fun combo => combo.any p) = ls.any (fun l => l.all p) := by
  induction ls with
  | nil => simp [product]
  | cons l ls ih =>
    simp only [product, List.any_cons, ← ih]
    rw [Bool.eq_iff_iff]
    simp only [List.all_eq_true, List.mem_flatMap, List.mem_map, Bool.or_eq_true, List.any_cons]
    constructor
    · intro h
      by_cases hl : ∀ x ∈ l, p x = true
      · exact Or.inl hl
      · right
        have hl' : ∃ x, x ∈ l ∧ ¬ p x = true := by
          apply Classical.byContradiction
          intro hc
          apply hl
          intro x hx
          apply Classical.byContradiction
          intro hp
          exact hc ⟨x, hx, hp⟩
        obtain ⟨x, hx, hpx⟩ := hl'
        intro rest hr
        have := h (x :: rest) ⟨x, hx, rest, hr, rfl⟩
        simpa [hpx] using this
    · rintro h combo ⟨x, hx, rest, hr, rfl⟩
      rcases h with h | h
      · simp [h x hx]
      · simp [h rest hr]

theorem product_any_all (p : M → Bool) (ls : List (List M)) :
    (product ls).any (fun combo => combo.all p) = ls.all (fun l => l.any p) := by
  induction ls with
  | nil => simp [product]
  | cons l ls ih =>
    simp only [product, List.all_cons, ← ih]
    rw [Bool.eq_iff_iff]
    simp only [List.any_eq_true, List.mem_flatMap, List.mem_map, Bool.and_eq_true, List.all_cons]
    constructor
    · rintro ⟨combo, ⟨x, hx, rest, hr, rfl⟩, h⟩
      simp only [List.all_cons, Bool.and_eq_true] at h
      exact ⟨⟨x, hx, h.1⟩, rest, hr, h.2⟩
    · rintro ⟨⟨x, hx, hpx⟩, rest, hr, h⟩
      exact ⟨x :: rest, ⟨x, hx, rest, hr, rfl⟩, by simp [hpx, h]⟩

/-! ### `min(*candidates, key=complexity)` returns one of the candidates -/

theorem minByComplexity_mem {cs : List M} {r : M} (h : minByComplexity cs = some r) : r ∈ cs := by
  cases cs with
  | nil => simp [minByComplexity] at h
  | cons c cs =>
    simp only [minByComplexity, Option.some.injEq] at h
    subst h
    have : ∀ (l : List M) (b : M),
        l.foldl (fun best x => if cmpComplexity x.complexity best.complexity then x else best) b ∈ b :: l := by
      intro l
      induction l with
      | nil => intro b; simp
      | cons x l ih =>
        intro b
        simp only [List.foldl_cons]
        have := ih (if cmpComplexity x.complexity b.complexity then x else b)
        split at this <;> simp at this ⊢ <;> grind
    exact this cs c

/-! ### unwrapping `MultiMarker(x)` / `MarkerUnion(x)` -/

theorem unwrapSingleton_spec (k : Nat) (m : M) (hg : M.Good G m) :
    M.Good G (unwrapSingleton k m) ∧ M.sem ev (unwrapSingleton k m) = M.sem ev m := by
  induction k, m using unwrapSingleton.induct with
  | case1 m => simp [unwrapSingleton, hg]
  | case2 d x ih =>
    have := ih (by simpa using hg)
    simpa [unwrapSingleton] using this
  | case3 d x ih =>
    have := ih (by simpa using hg)
    simpa [unwrapSingleton] using this
  | case4 d m h1 h2 =>
    rw [unwrapSingleton]
    · exact ⟨hg, rfl⟩
    · exact h1
    · exact h2

end Poetry.Marker
