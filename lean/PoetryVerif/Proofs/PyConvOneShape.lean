/-
One-sided ranges `>= V` and `< W` under `intersect` and `union`, structurally: the result is Empty, Any, one of the
operands as written, the two-sided range `[V, W)`, or the two-member union `<W || >=V` with `W` strictly below `V`
(which is not "simple": its complement is a range, not a single version).  No comparison of versions is needed for
the intersection; the union uses only that a final release `W` with `W.dev0 ≤ V`, `W ≠ V` lies below `V`.
(Used for the merge of `python_version >= "…"` / `< "…"` leaves with one- or two-component literals, C11.)
-/
import PoetryVerif.Proofs.PyConvNestedBoundary
import PoetryVerif.Proofs.VRangeSharp
import PoetryVerif.Proofs.VRangeFinalSet

set_option linter.unusedSimpArgs false
set_option linter.unusedVariables false

namespace Poetry.Marker
open Poetry Poetry.Version

/-- the range of `>= V` -/
def geR (V : Version) : VRange := ⟨some V, none, true, false⟩
/-- the range of `< V` -/
def ltR (V : Version) : VRange := ⟨none, some V, false, false⟩

inductive OneSided : VRange → Prop
  | ge (V : Version) : OneSided (geR V)
  | lt (V : Version) : OneSided (ltR V)

/-- **`intersect` of two one-sided ranges**, by shape -/
theorem inter_shape {a b : VRange} (ha : OneSided a) (hb : OneSided b) {c : VC}
    (h : RC.rngIntersectRng a b = .ok c) :
    c = .empty ∨ c = .single (.rng VRange.any) ∨ c = .single (.rng a) ∨ c = .single (.rng b) ∨
      ∃ V W, (a = geR V ∨ b = geR V) ∧ (a = ltR W ∨ b = ltR W) ∧ Version.eqv V W = false ∧
        c = .single (.rng ⟨some V, some W, true, false⟩) := by
  rcases VRange.rngIntersectRng_shape a b c h with rfl | ⟨L, H, hL, hH, hf⟩
  · exact Or.inl rfl
  have hLs : OneSided L := by rcases hL with rfl | rfl <;> assumption
  have hHs : OneSided H := by rcases hH with rfl | rfl <;> assumption
  cases hLs with
  | ge V =>
    cases hHs with
    | ge W =>
      have : c = .single (.rng (geR V)) := by
        simp [VRange.interFinish, geR, optVerEq] at hf; exact hf.symm
      subst this
      rcases hL with e | e
      · exact Or.inr (Or.inr (Or.inl (by rw [e])))
      · exact Or.inr (Or.inr (Or.inr (Or.inl (by rw [e]))))
    | lt W =>
      by_cases he : Version.eqv V W = true
      · simp [VRange.interFinish, geR, ltR, optVerEq, he] at hf
      · have he' : Version.eqv V W = false := by simpa using he
        have : c = .single (.rng ⟨some V, some W, true, false⟩) := by
          simp [VRange.interFinish, geR, ltR, optVerEq, he'] at hf; exact hf.symm
        exact Or.inr (Or.inr (Or.inr (Or.inr ⟨V, W, hL.imp Eq.symm Eq.symm, hH.imp Eq.symm Eq.symm, he', this⟩)))
  | lt V =>
    cases hHs with
    | ge W =>
      have : c = .single (.rng VRange.any) := by
        simp [VRange.interFinish, geR, ltR, optVerEq] at hf; exact hf.symm
      exact Or.inr (Or.inl this)
    | lt W =>
      have : c = .single (.rng (ltR W)) := by
        simp [VRange.interFinish, ltR, optVerEq] at hf; exact hf.symm
      subst this
      rcases hH with e | e
      · exact Or.inr (Or.inr (Or.inl (by rw [e])))
      · exact Or.inr (Or.inr (Or.inr (Or.inl (by rw [e]))))


theorem ltR_allowedMax {W : Version} (hW : PyBound W = true) : (ltR W).allowedMax = some W.firstDevrelease := by
  simp [VRange.allowedMax, ltR, pyBound_unstable hW, optVerEq]

theorem sl_ge_left (V : Version) (s : VRange) : (geR V).isStrictlyLower s = false := by
  simp [VRange.isStrictlyLower, VRange.allowedMax, geR]

theorem sl_lt_right (s : VRange) (W : Version) : s.isStrictlyLower (ltR W) = false := by
  simp only [VRange.isStrictlyLower, VRange.allowedMin, ltR]
  cases s.allowedMax <;> rfl

/-- `< W` strictly below `>= V`, the two not equal: `W` is below `V` -/
theorem sl_lt_ge {V W : Version} (hV : PyBound V = true) (hW : PyBound W = true)
    (h : (ltR W).isStrictlyLower (geR V) = true) (hne : Version.eqv V W = false) : vk W < vk V := by
  obtain ⟨A, y, hA, hy, hd⟩ := VRange.strictlyLower_dec h
  rw [ltR_allowedMax hW] at hA
  cases hA
  simp only [geR, Option.some.injEq] at hy
  subst hy
  have hle : vk W.firstDevrelease ≤ vk V := by
    rcases hd with hd | hd
    · exact le_of_lt hd
    · exact le_of_eq hd.1
  have hne' : vk V ≠ vk W := (eqv_false_iff V W).1 hne
  rcases lt_trichotomy (vk W) (vk V) with h1 | h1 | h1
  · exact h1
  · exact absurd h1.symm hne'
  · have := (vk_lt_iff _ _).2 (firstDev_gt_of_lt hV hW ((vk_lt_iff _ _).1 h1))
    exact absurd (lt_of_lt_of_le this hle) (lt_irrefl _)

theorem unionOfFlat_lt_ge {V W : Version} (hV : PyBound V = true) (hW : PyBound W = true)
    (h : (ltR W).isStrictlyLower (geR V) = true) (hlt : vk W < vk V) :
    unionOfFlat [.rng (ltR W), .rng (geR V)] = .ok (.union [.rng (ltR W), .rng (geR V)]) ∧
    unionOfFlat [.rng (geR V), .rng (ltR W)] = .ok (.union [.rng (ltR W), .rng (geR V)]) := by
  have he : Version.eqv W V = false := (eqv_false_iff W V).2 (ne_of_lt hlt)
  have hany : RC.allowsAny (.rng (ltR W)) (.rng (geR V)) = .ok false := by
    simp [RC.allowsAny, VRange.isStrictlyHigher, h, sl_ge_left]
  have hadj : (RC.rng (ltR W)).view.isAdjacentTo (RC.rng (geR V)).view = false := by
    simp [VRange.isAdjacentTo, RC.view, RC.min, RC.max, RC.imin, RC.imax, ltR, geR, optVerEq, he]
  have hl1 : RC.lt (.rng (geR V)) (.rng (ltR W)) = false := by
    simp [RC.lt, VRange.cmp, RC.view, RC.min, RC.max, RC.imin, RC.imax, ltR, geR]
  have hl2 : RC.lt (.rng (ltR W)) (.rng (geR V)) = true := by
    simp [RC.lt, VRange.cmp, RC.view, RC.min, RC.max, RC.imin, RC.imax, ltR, geR]
  have hx : (RC.rng (ltR W)).isAny = false := by simp [RC.isAny, VRange.isAny, ltR]
  have hy : (RC.rng (geR V)).isAny = false := by simp [RC.isAny, VRange.isAny, geR]
  refine ⟨unionOfFlat_pair_sep _ _ hl1 hany hadj hx hy, ?_⟩
  have hs : sortRCs [RC.rng (geR V), RC.rng (ltR W)] = [RC.rng (ltR W), RC.rng (geR V)] := by
    simp [sortRCs, insertSorted, hl2]
  have hadj' : (ltR W).isAdjacentTo (geR V) = false := hadj
  simp [unionOfFlat, hx, hy, hs, mergeLoop, hany, hadj, hadj', bind, Except.bind, pure, Except.pure]

/-- **`union` of two one-sided ranges over Python bounds**, by shape -/
theorem union_shape {a b : VRange} (ha : OneSided a) (hb : OneSided b)
    (hpa : ∀ e ∈ a.bounds, PyBound e = true) (hpb : ∀ e ∈ b.bounds, PyBound e = true) {c : VC}
    (h : RC.union (.rng a) (.rng b) = .ok c) :
    c = .single (.rng VRange.any) ∨ c = .single (.rng a) ∨ c = .single (.rng b) ∨
      ∃ V W, (a = geR V ∨ b = geR V) ∧ (a = ltR W ∨ b = ltR W) ∧ vk W < vk V ∧
        c = .union [.rng (ltR W), .rng (geR V)] := by
  by_cases cond : (!a.edgesTouch b && (b.isStrictlyLower a || a.isStrictlyLower b)) = true
  · rw [RC.union, VRange.rcUnionSingle_rng_none a b cond] at h
    simp only [bind, Except.bind] at h
    cases ha with
    | ge V =>
      cases hb with
      | ge W => simp [sl_ge_left] at cond
      | lt W =>
        have hV : PyBound V = true := hpa V (by simp [VRange.bounds, geR])
        have hW : PyBound W = true := hpb W (by simp [VRange.bounds, ltR])
        simp only [sl_ge_left, Bool.or_false, Bool.and_eq_true, Bool.not_eq_true'] at cond
        have hne : Version.eqv V W = false := by
          have := cond.1
          simpa [VRange.edgesTouch, geR, ltR, optVerEq] using this
        have hlt := sl_lt_ge hV hW cond.2 hne
        rw [(unionOfFlat_lt_ge hV hW cond.2 hlt).2] at h
        cases h
        exact Or.inr (Or.inr (Or.inr ⟨V, W, Or.inl rfl, Or.inr rfl, hlt, rfl⟩))
    | lt W =>
      cases hb with
      | lt W' => simp [sl_lt_right] at cond
      | ge V =>
        have hV : PyBound V = true := hpb V (by simp [VRange.bounds, geR])
        have hW : PyBound W = true := hpa W (by simp [VRange.bounds, ltR])
        simp only [sl_ge_left, Bool.false_or, Bool.and_eq_true, Bool.not_eq_true'] at cond
        have hne : Version.eqv V W = false := by
          have := cond.1
          have e : Version.eqv W V = false := by simpa [VRange.edgesTouch, geR, ltR, optVerEq] using this
          exact (eqv_false_iff V W).2 (fun hh => (eqv_false_iff W V).1 e hh.symm)
        have hlt := sl_lt_ge hV hW cond.2 hne
        rw [(unionOfFlat_lt_ge hV hW cond.2 hlt).1] at h
        cases h
        exact Or.inr (Or.inr (Or.inr ⟨V, W, Or.inr rfl, Or.inl rfl, hlt, rfl⟩))
  · have cond' : (!a.edgesTouch b && (b.isStrictlyLower a || a.isStrictlyLower b)) = false := by simpa using cond
    rw [RC.union, VRange.rcUnionSingle_rng_some a b cond'] at h
    simp only [bind, Except.bind, pure, Except.pure] at h
    cases h
    cases ha with
    | ge V =>
      cases hb with
      | ge W =>
        cases hl : (geR V).allowsLower (geR W) <;> cases hh : (geR V).allowsHigher (geR W)
        · exact Or.inr (Or.inr (Or.inl (by simp only [VRange.hull, hl, hh]; simp [geR])))
        · exact Or.inr (Or.inr (Or.inl (by simp only [VRange.hull, hl, hh]; simp [geR])))
        · exact Or.inr (Or.inl (by simp only [VRange.hull, hl, hh]; simp [geR]))
        · exact Or.inr (Or.inl (by simp only [VRange.hull, hl, hh]; simp [geR]))
      | lt W =>
        have hW : PyBound W = true := hpb W (by simp [VRange.bounds, ltR])
        refine Or.inl ?_
        have h1 : (geR V).allowsLower (ltR W) = false := by simp [VRange.allowsLower, VRange.allowedMin, geR, ltR]
        have h2 : (geR V).allowsHigher (ltR W) = true := by
          have e1 : (geR V).allowedMax = none := by simp [VRange.allowedMax, geR]
          simp only [VRange.allowsHigher, e1, ltR_allowedMax hW]; rfl
        simp only [VRange.hull, h1, h2]; simp [geR, ltR, VRange.any]
    | lt W =>
      cases hb with
      | lt W' =>
        cases hl : (ltR W).allowsHigher (ltR W') <;> cases hh : (ltR W).allowsLower (ltR W')
        · exact Or.inr (Or.inr (Or.inl (by simp only [VRange.hull, hl, hh]; simp [ltR])))
        · exact Or.inr (Or.inr (Or.inl (by simp only [VRange.hull, hl, hh]; simp [ltR])))
        · exact Or.inr (Or.inl (by simp only [VRange.hull, hl, hh]; simp [ltR]))
        · exact Or.inr (Or.inl (by simp only [VRange.hull, hl, hh]; simp [ltR]))
      | ge V =>
        have hW : PyBound W = true := hpa W (by simp [VRange.bounds, ltR])
        refine Or.inl ?_
        have h1 : (ltR W).allowsLower (geR V) = true := by simp [VRange.allowsLower, VRange.allowedMin, geR, ltR]
        have h2 : (ltR W).allowsHigher (geR V) = false := by
          have e1 : (geR V).allowedMax = none := by simp [VRange.allowedMax, geR]
          simp only [VRange.allowsHigher, e1, ltR_allowedMax hW]
        simp only [VRange.hull, h1, h2]; simp [geR, ltR, VRange.any]

end Poetry.Marker
