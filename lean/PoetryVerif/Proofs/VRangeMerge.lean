/-
`VersionUnion.of`: the merge loop over the sorted members preserves membership on regular probes
(helper lemmas for C05).
-/
import PoetryVerif.Proofs.VRangeUnion

set_option linter.unusedSimpArgs false
set_option linter.unusedVariables false

namespace Poetry
open Version

/-- membership in a list of members: the disjunction of the members' `allows` -/
def anyAllows (l : List RC) (p : Version) : Bool := l.any (fun c => c.allows p)

def boundsOf (l : List RC) : List Version := l.flatMap RC.bounds

/-- the hypotheses on a list of members: every member well-formed and tidy -/
def Good (l : List RC) : Prop := ∀ c ∈ l, c.WF ∧ c.Tidy

theorem Good.mono {l l' : List RC} (h : Good l) (hs : ∀ c ∈ l', c ∈ l) : Good l' :=
  fun c hc => h c (hs c hc)

theorem mem_boundsOf {l : List RC} {c : RC} {e : Version} (hc : c ∈ l) (he : e ∈ c.bounds) : e ∈ boundsOf l :=
  List.mem_flatMap.2 ⟨c, hc, he⟩

/-- **the merge loop preserves membership**: if `VersionUnion.of`'s loop terminates normally, the merged
list consists of well-formed members over the same bounds and admits a regular probe iff some input does -/
theorem mergeLoop_sem : ∀ (l acc : List RC) (res : List RC), mergeLoop l acc = .ok res → Good (l ++ acc) →
    Good res ∧ (∀ e ∈ boundsOf res, e ∈ boundsOf (l ++ acc)) ∧
    ∀ p, p.wf = true → Regular (boundsOf (l ++ acc)) p → anyAllows res p = anyAllows (l ++ acc) p
  | [], acc, res, h, hg => by
    simp only [mergeLoop, Except.ok.injEq] at h
    subst h
    refine ⟨hg.mono (by simp), ?_, ?_⟩
    · intro e he; simp [boundsOf, List.mem_flatMap] at he ⊢; exact he
    · intro p _ _; simp [anyAllows, List.any_reverse]
  | c :: rest, [], res, h, hg => by
    simp only [mergeLoop] at h
    have ih := mergeLoop_sem rest [c] res h (hg.mono (by simp; grind))
    refine ⟨ih.1, ?_, ?_⟩
    · intro e he
      have := ih.2.1 e he
      simp [boundsOf, List.mem_flatMap] at this ⊢
      grind
    · intro p hp hreg
      rw [ih.2.2 p hp (hreg.mono (by intro e he; simp [boundsOf, List.mem_flatMap] at he ⊢; grind))]
      simp [anyAllows, List.any_append, Bool.or_comm]
  | c :: rest, last :: more, res, h, hg => by
    obtain ⟨any, hany⟩ := RC.allowsAny_ok last c
    simp only [mergeLoop, hany, bind, Except.bind] at h
    by_cases hb : (!any && !(last.view.isAdjacentTo c.view)) = true
    · simp only [hb, if_true] at h
      have ih := mergeLoop_sem rest (c :: last :: more) res h (hg.mono (by simp; grind))
      refine ⟨ih.1, ?_, ?_⟩
      · intro e he
        have := ih.2.1 e he
        simp [boundsOf, List.mem_flatMap] at this ⊢
        grind
      · intro p hp hreg
        rw [ih.2.2 p hp (hreg.mono (by intro e he; simp [boundsOf, List.mem_flatMap] at he ⊢; grind))]
        simp only [anyAllows, List.any_append, List.any_cons]
        cases c.allows p <;> cases last.allows p <;> cases (rest.any fun c => c.allows p) <;> simp
    · simp only [hb, Bool.false_eq_true, if_false] at h
      cases hu : rcUnionSingle last c with
      | error e => simp [hu] at h
      | ok o =>
        cases o with
        | none => simp [hu] at h
        | some u =>
          simp only [hu] at h
          have hl : last ∈ (c :: rest) ++ last :: more := by simp
          have hc : c ∈ (c :: rest) ++ last :: more := by simp
          obtain ⟨huwf, hut, hub, hex⟩ := RC.rcUnionSingle_exact last c (hg last hl).1 (hg c hc).1
            (hg last hl).2 (hg c hc).2 u hu
          have hg' : Good (rest ++ u :: more) := by
            intro x hx
            simp only [List.mem_append, List.mem_cons] at hx
            rcases hx with hx | rfl | hx
            · exact hg x (by simp [hx])
            · exact ⟨huwf, hut⟩
            · exact hg x (by simp [hx])
          have ih := mergeLoop_sem rest (u :: more) res h hg'
          have hbsub : ∀ e ∈ boundsOf (rest ++ u :: more), e ∈ boundsOf ((c :: rest) ++ last :: more) := by
            intro e he
            simp only [boundsOf, List.mem_flatMap, List.mem_append, List.mem_cons] at he ⊢
            obtain ⟨x, hx, hex'⟩ := he
            rcases hx with hx | rfl | hx
            · exact ⟨x, Or.inl (Or.inr hx), hex'⟩
            · rcases hub e hex' with h1 | h1
              · exact ⟨last, Or.inr (Or.inl rfl), h1⟩
              · exact ⟨c, Or.inl (Or.inl rfl), h1⟩
            · exact ⟨x, Or.inr (Or.inr hx), hex'⟩
          refine ⟨ih.1, fun e he => hbsub e (ih.2.1 e he), ?_⟩
          intro p hp hreg
          rw [ih.2.2 p hp (hreg.mono hbsub)]
          have hreg2 : Regular (last.bounds ++ c.bounds) p := hreg.mono (by
            intro e he
            simp only [List.mem_append] at he
            rcases he with he | he
            · exact mem_boundsOf hl he
            · exact mem_boundsOf hc he)
          have := hex p hp hreg2
          simp only [anyAllows, List.any_append, List.any_cons, this]
          cases c.allows p <;> cases last.allows p <;> cases (rest.any fun c => c.allows p) <;> simp

/-! ### sorting is a permutation -/

theorem mem_insertSorted (x c : RC) : ∀ l : List RC, c ∈ insertSorted x l ↔ c = x ∨ c ∈ l
  | [] => by simp [insertSorted]
  | y :: ys => by
    simp only [insertSorted]
    split
    · simp
    · simp only [List.mem_cons, mem_insertSorted x c ys]; grind

theorem mem_foldl_insert (c : RC) : ∀ (l acc : List RC),
    c ∈ l.foldl (fun acc x => insertSorted x acc) acc ↔ c ∈ l ∨ c ∈ acc
  | [], acc => by simp
  | x :: xs, acc => by
    simp only [List.foldl_cons, mem_foldl_insert c xs, mem_insertSorted, List.mem_cons]; grind

theorem mem_sortRCs (c : RC) (l : List RC) : c ∈ sortRCs l ↔ c ∈ l := by
  simp [sortRCs, mem_foldl_insert]

theorem anyAllows_eq_of_mem {l l' : List RC} (h : ∀ c, c ∈ l ↔ c ∈ l') (p : Version) :
    anyAllows l p = anyAllows l' p := by
  apply bool_eq_of_iff
  simp only [anyAllows, List.any_eq_true]
  constructor
  · rintro ⟨c, hc, hp⟩; exact ⟨c, (h c).1 hc, hp⟩
  · rintro ⟨c, hc, hp⟩; exact ⟨c, (h c).2 hc, hp⟩

theorem boundsOf_of_mem {l l' : List RC} (h : ∀ c, c ∈ l → c ∈ l') : ∀ e ∈ boundsOf l, e ∈ boundsOf l' := by
  intro e he
  simp only [boundsOf, List.mem_flatMap] at he ⊢
  obtain ⟨c, hc, hce⟩ := he
  exact ⟨c, h c hc, hce⟩

theorem isAny_allows (c : RC) (h : c.isAny = true) (p : Version) : c.allows p = true := by
  cases c with
  | ver x => simp [RC.isAny] at h
  | rng r =>
    simp only [RC.isAny, VRange.isAny, Bool.and_eq_true, Option.isNone_iff_eq_none] at h
    simp [RC.allows, VRange.allows, VRange.allowsLo, VRange.allowsHi, h.1, h.2]

/-- **`VersionUnion.of` preserves membership**: whenever it returns, the result's members are well-formed,
mention only bounds of the inputs, and the result admits a regular probe iff some input does -/
theorem unionOfFlat_sem (l : List RC) (res : VC) (h : unionOfFlat l = .ok res) (hg : Good l) :
    Good res.flatten ∧ (∀ e ∈ res.bounds, e ∈ boundsOf l) ∧
    ∀ p, p.wf = true → Regular (boundsOf l) p → res.allowsPlain p = anyAllows l p := by
  unfold unionOfFlat at h
  by_cases h1 : l.isEmpty = true
  · simp only [h1, if_true, Except.ok.injEq] at h
    subst h
    have : l = [] := List.isEmpty_iff.mp h1
    subst this
    exact ⟨by simp [Good, VC.flatten], by simp [VC.bounds], by simp [VC.allowsPlain, VC.flatten, anyAllows]⟩
  · simp only [h1, Bool.false_eq_true, if_false] at h
    by_cases h2 : l.any RC.isAny = true
    · simp only [h2, if_true, Except.ok.injEq] at h
      subst h
      refine ⟨?_, ?_, ?_⟩
      · intro c hc
        simp only [VC.any, VC.flatten, List.mem_singleton] at hc
        subst hc
        exact ⟨⟨by intro e he; simp [VRange.bounds, VRange.any] at he, by intro m M hm; simp [VRange.any] at hm⟩,
          ⟨fun _ => rfl, fun _ => rfl⟩⟩
      · intro e he; simp [VC.any, VC.bounds, RC.bounds, RC.view, VRange.bounds, VRange.any, RC.min, RC.max] at he
      · intro p _ _
        obtain ⟨c, hc, hany⟩ := List.any_eq_true.1 h2
        have : anyAllows l p = true := List.any_eq_true.2 ⟨c, hc, isAny_allows c hany p⟩
        rw [this]
        simp [VC.allowsPlain, VC.any, VC.flatten, RC.allows, VRange.allows, VRange.allowsLo, VRange.allowsHi, VRange.any]
    · simp only [h2, Bool.false_eq_true, if_false, bind, Except.bind] at h
      cases hm : mergeLoop (sortRCs l) [] with
      | error e => simp [hm] at h
      | ok merged =>
        simp only [hm] at h
        have hflat : res.flatten = merged := by
          cases merged with
          | nil => simp [pure, Except.pure] at h; subst h; rfl
          | cons c cs =>
            cases cs with
            | nil => simp [pure, Except.pure] at h; subst h; rfl
            | cons d ds => simp [pure, Except.pure] at h; subst h; rfl
        have hgs : Good (sortRCs l ++ []) := hg.mono (by intro c hc; simpa [mem_sortRCs] using hc)
        obtain ⟨g1, g2, g3⟩ := mergeLoop_sem (sortRCs l) [] merged hm hgs
        have hsub : ∀ e ∈ boundsOf (sortRCs l ++ []), e ∈ boundsOf l :=
          boundsOf_of_mem (by intro c hc; simpa [mem_sortRCs] using hc)
        have hsub' : ∀ e ∈ boundsOf l, e ∈ boundsOf (sortRCs l ++ []) :=
          boundsOf_of_mem (by intro c hc; simpa [mem_sortRCs] using hc)
        refine ⟨hflat ▸ g1, ?_, ?_⟩
        · intro e he
          rw [VC.bounds_eq_flatMap, hflat] at he
          exact hsub e (g2 e he)
        · intro p hp hreg
          show anyAllows res.flatten p = _
          rw [hflat, g3 p hp (hreg.mono hsub)]
          exact anyAllows_eq_of_mem (by intro c; simp [mem_sortRCs]) p

/-! ### totality of the merge loop -/

/-- no member's lower bound is a local build -/
def NoLocalLower (l : List RC) : Prop := ∀ c ∈ l, ∀ m, c.min = some m → m.isLocal = false

theorem isAdjacentTo_edgesTouch {a b : VRange} (h : a.isAdjacentTo b = true) : VRange.edgesTouch a b = true := by
  unfold VRange.isAdjacentTo at h
  unfold VRange.edgesTouch
  cases he : optVerEq a.max b.min
  · simp [he] at h
  · rw [he] at h
    cases hia : a.imax <;> cases hib : b.imin <;> simp [hia, hib] at h ⊢

/-- whenever the merge loop decides to merge (`allows_any` or adjacent), `a.union(b)` is a single member -/
theorem rcUnionSingle_some (x y : RC) (hx : x.WF) (hy : y.WF)
    (hnl : ∀ m, x.min = some m → m.isLocal = false)
    (any : Bool) (hany : RC.allowsAny x y = .ok any)
    (hm : (!any && !(x.view.isAdjacentTo y.view)) = false) :
    ∃ u, rcUnionSingle x y = .ok (some u) ∧ (u.min = x.min ∨ u.min = y.min) := by
  cases x with
  | ver a =>
    simp only [rcUnionSingle]
    by_cases h1 : y.allows a = true
    · exact ⟨y, by simp [h1], Or.inr rfl⟩
    · simp only [h1, Bool.false_eq_true, if_false]
      -- `a.allows y.min` must hold
      have key : ∃ m, y.min = some m ∧ a.allows m = true := by
        cases hb : any with
        | true =>
          rw [hb] at hany
          cases y with
          | ver b =>
            simp only [RC.allowsAny, RC.intersect, RC.verIntersectVer, bind, Except.bind, pure, Except.pure] at hany
            by_cases h2 : a.allows b = true
            · exact ⟨b, rfl, h2⟩
            · have h3 : b.allows a = false := by simpa [RC.allows] using h1
              simp [h2, h3, VC.isEmpty] at hany
          | rng r =>
            simp only [RC.allowsAny, RC.intersect, RC.rngIntersectVer, bind, Except.bind, pure, Except.pure] at hany
            have h3 : r.allows a = false := by simpa [RC.allows] using h1
            simp only [h3, Bool.false_eq_true, if_false] at hany
            cases hm' : r.min with
            | none => simp [hm', VC.isEmpty] at hany
            | some m =>
              simp only [hm'] at hany
              by_cases h4 : (m.isLocal && a.allows m) = true
              · simp only [Bool.and_eq_true] at h4; exact ⟨m, hm', h4.2⟩
              · simp [h4, VC.isEmpty] at hany
        | false =>
          rw [hb] at hm
          simp only [Bool.not_false, Bool.true_and, Bool.not_eq_false'] at hm
          simp only [VRange.isAdjacentTo, RC.view, RC.max, RC.imax] at hm
          cases hmin : y.min with
          | none => simp [hmin, optVerEq] at hm
          | some m =>
            simp only [hmin, optVerEq] at hm
            by_cases he : Version.eqv a m = true
            · have hmwf : m.wf = true := hy.wfB m (by simp [RC.bounds, RC.view, VRange.bounds, hmin])
              exact ⟨m, rfl, Version.allows_of_vk_eq hx hmwf ((eqv_iff _ _).1 he).symm⟩
            · simp [he] at hm
      obtain ⟨m, hm1, hm2⟩ := key
      cases y with
      | ver b =>
        have : b = m := by simpa [RC.min] using hm1
        subst this
        exact ⟨RC.ver a, by simp [hm2], Or.inl rfl⟩
      | rng r =>
        have hm1' : r.min = some m := hm1
        exact ⟨RC.rng ⟨r.min, r.max, true, r.imax⟩, by simp [RC.min, RC.max, RC.imax, hm1', hm2], Or.inr rfl⟩
  | rng r =>
    cases y with
    | ver v =>
      simp only [rcUnionSingle]
      by_cases h1 : r.allows v = true
      · exact ⟨.rng r, by simp [h1], Or.inl rfl⟩
      · simp only [h1, Bool.false_eq_true, if_false]
        by_cases h2 : optVerEq (some v) r.min = true
        · exact ⟨.rng ⟨r.min, r.max, true, r.imax⟩, by simp [h2], Or.inl rfl⟩
        · simp only [h2, Bool.false_eq_true, if_false]
          have h3 : optVerEq (some v) r.max = true := by
            cases hb : any with
            | true =>
              rw [hb] at hany
              simp only [RC.allowsAny, Except.ok.injEq, Bool.or_eq_true] at hany
              rcases hany with hany | hany
              · exact absurd hany h1
              · cases hm' : r.min with
                | none => simp [hm'] at hany
                | some m =>
                  simp only [hm', Bool.and_eq_true] at hany
                  have := hnl m (by simp [RC.min, hm'])
                  rw [this] at hany; simp at hany
            | false =>
              rw [hb] at hm
              simp only [Bool.not_false, Bool.true_and, Bool.not_eq_false'] at hm
              simp only [VRange.isAdjacentTo, RC.view, RC.min, RC.imin, RC.max, RC.imax] at hm
              cases he : optVerEq r.max (some v)
              · simp [he] at hm
              · rw [VRange.optVerEq_comm]; exact he
          exact ⟨.rng ⟨r.min, r.max, r.imin, true⟩, by simp [h3], Or.inl rfl⟩
    | rng s =>
      have hc : (!(VRange.edgesTouch r s) && (s.isStrictlyLower r || r.isStrictlyLower s)) = false := by
        cases hb : any with
        | true =>
          rw [hb] at hany
          simp only [RC.allowsAny, VRange.isStrictlyHigher, Except.ok.injEq, Bool.not_eq_true'] at hany
          simp [hany]
        | false =>
          rw [hb] at hm
          simp only [Bool.not_false, Bool.true_and, Bool.not_eq_false', RC.view_rng] at hm
          simp [isAdjacentTo_edgesTouch hm]
      refine ⟨_, VRange.rcUnionSingle_rng_some r s hc, ?_⟩
      simp only [RC.min, VRange.hull]
      cases r.allowsLower s <;> simp

theorem mergeLoop_total : ∀ (l acc : List RC), Good (l ++ acc) → NoLocalLower (l ++ acc) →
    ∃ res, mergeLoop l acc = .ok res
  | [], acc, _, _ => ⟨_, rfl⟩
  | c :: rest, [], hg, hn => by
    simp only [mergeLoop]
    exact mergeLoop_total rest [c] (hg.mono (by simp; grind)) (fun x hx => hn x (by simp at hx ⊢; grind))
  | c :: rest, last :: more, hg, hn => by
    obtain ⟨any, hany⟩ := RC.allowsAny_ok last c
    simp only [mergeLoop, hany, bind, Except.bind]
    have hl : last ∈ (c :: rest) ++ last :: more := by simp
    have hc : c ∈ (c :: rest) ++ last :: more := by simp
    by_cases hb : (!any && !(last.view.isAdjacentTo c.view)) = true
    · simp only [hb, if_true]
      exact mergeLoop_total rest (c :: last :: more) (hg.mono (by simp; grind))
        (fun x hx => hn x (by simp at hx ⊢; grind))
    · simp only [hb, Bool.false_eq_true, if_false]
      simp only [Bool.not_eq_true] at hb
      obtain ⟨u, hu, humin⟩ := rcUnionSingle_some last c (hg last hl).1 (hg c hc).1 (hn last hl) any hany hb
      simp only [hu]
      obtain ⟨huwf, hut, hub, hex⟩ := RC.rcUnionSingle_exact last c (hg last hl).1 (hg c hc).1
        (hg last hl).2 (hg c hc).2 u hu
      have hg' : Good (rest ++ u :: more) := by
        intro x hx
        simp only [List.mem_append, List.mem_cons] at hx
        rcases hx with hx | rfl | hx
        · exact hg x (by simp [hx])
        · exact ⟨huwf, hut⟩
        · exact hg x (by simp [hx])
      have hn' : NoLocalLower (rest ++ u :: more) := by
        intro x hx m hm
        simp only [List.mem_append, List.mem_cons] at hx
        rcases hx with hx | rfl | hx
        · exact hn x (by simp [hx]) m hm
        · rcases humin with h | h
          · exact hn last hl m (h ▸ hm)
          · exact hn c hc m (h ▸ hm)
        · exact hn x (by simp [hx]) m hm
      exact mergeLoop_total rest (u :: more) hg' hn'

/-- **`VersionUnion.of` is total and preserves membership** for members none of whose lower bounds is a local
build -/
theorem unionOfFlat_total (l : List RC) (hg : Good l) (hn : NoLocalLower l) :
    ∃ res, unionOfFlat l = .ok res ∧
      ∀ p, p.wf = true → Regular (boundsOf l) p → res.allowsPlain p = anyAllows l p := by
  have hex : ∃ res, unionOfFlat l = .ok res := by
    unfold unionOfFlat
    by_cases h1 : l.isEmpty = true
    · exact ⟨.empty, by simp [h1]⟩
    · by_cases h2 : l.any RC.isAny = true
      · exact ⟨VC.any, by simp [h1, h2]⟩
      · obtain ⟨merged, hm⟩ := mergeLoop_total (sortRCs l) []
          (hg.mono (by intro c hc; simpa [mem_sortRCs] using hc))
          (fun x hx => hn x (by simpa [mem_sortRCs] using hx))
        simp only [h1, h2, Bool.false_eq_true, if_false, hm, bind, Except.bind]
        cases merged with
        | nil => exact ⟨_, rfl⟩
        | cons a as => cases as <;> exact ⟨_, rfl⟩
  obtain ⟨res, hres⟩ := hex
  exact ⟨res, hres, (unionOfFlat_sem l res hres hg).2.2⟩

end Poetry
