/-
Model of `poetry.core.version.requirements.Requirement`: a hand recogniser of
`version/grammars/pep508.lark` (the PEP 508 requirement grammar, whose marker part is the imported
`markers.lark` — recognised by `Model/MarkerSyn.lean`) and the post-processing of
`Requirement.__init__` (name, extras, constraint string and parsed constraint, URL and its validity
check through `urllib.parse`, marker compaction).

Errors as values: lark's `UnexpectedCharacters`/`UnexpectedToken` are re-raised by the code as
`InvalidRequirementError`, a `ValueError`, hence `.value`; so are the URL check and
`ParseConstraintError`.  lark's LALR engine / contextual lexer are trusted; that this recogniser
accepts the same language and produces the same tokens is a correspondence obligation (C10/C19
parse streams).  `urllib.parse.urlsplit/urlunsplit` (CPython 3.12) are modelled for printable-ASCII
URLs without `[`/`]`; everything else is `.unmodelled`.  Core Lean only.
-/
import PoetryVerif.Model.MarkerAlg

namespace Poetry.Req
open Poetry Poetry.Marker

/-! ### tokens of pep508.lark -/

def isAlnum (c : Char) : Bool := isDigit c || isLowerAlpha c || ('A' ≤ c && c ≤ 'Z')

/-- the repeated class of `NAME: /[a-zA-Z0-9][a-zA-Z0-9-_.]*/` -/
def isNameChar (c : Char) : Bool := isAlnum c || c == '-' || c == '_' || c == '.'

def takeWhileC (p : Char → Bool) : List Char → List Char × List Char
  | [] => ([], [])
  | c :: cs => if p c then let (a, r) := takeWhileC p cs; (c :: a, r) else ([], c :: cs)

/-- `NAME` (= `EXTRA`) at the head of the input: (token, rest) -/
def takeName : List Char → Option (List Char × List Char)
  | [] => none
  | c :: cs => if isAlnum c then let (a, r) := takeWhileC isNameChar cs; some (c :: a, r) else none

/-- the operator alternatives of `LEGACY_VERSION_CONSTRAINT` in the order of the regex -/
def takeOp : List Char → Option (List Char × List Char)
  | '~' :: '=' :: r => some (['~', '='], r)
  | '=' :: '=' :: r => some (['=', '='], r)
  | '!' :: '=' :: r => some (['!', '='], r)
  | '<' :: '=' :: r => some (['<', '='], r)
  | '>' :: '=' :: r => some (['>', '='], r)
  | '<' :: r => some (['<'], r)
  | '>' :: r => some (['>'], r)
  | _ => none

/-- `[^,;\s)]` -/
def isSpecChar (c : Char) : Bool := !(c == ',' || c == ';' || c == ')' || isSpace c)

/-- `LEGACY_VERSION_CONSTRAINT: /(~=|==|!=|<=|>=|<|>)\s*[^,;\s)]*/` : the token text keeps the inner
white space -/
def takeSpec (s : List Char) : Option (List Char × List Char) :=
  match takeOp s with
  | none => none
  | some (op, r) =>
    let (ws, r1) := takeWhileC isSpace r
    let (v, r2) := takeWhileC isSpecChar r1
    some (op ++ ws ++ v, r2)

/-- `_version_many: _single_version (_COMMA _single_version)*` (fuel = input length) -/
def takeSpecs : Nat → List Char → Option (List (List Char) × List Char)
  | 0, _ => none
  | fuel + 1, s =>
    match takeSpec (skipWs s) with
    | none => none
    | some (t, r) =>
      match skipWs r with
      | ',' :: r' =>
        match takeSpecs fuel r' with
        | some (ts, r'') => some (t :: ts, r'')
        | none => none
      | r' => some ([t], r')

/-- `_extra: EXTRA (_COMMA EXTRA)*` -/
def takeExtras : Nat → List Char → Option (List (List Char) × List Char)
  | 0, _ => none
  | fuel + 1, s =>
    match takeName (skipWs s) with
    | none => none
    | some (t, r) =>
      match skipWs r with
      | ',' :: r' =>
        match takeExtras fuel r' with
        | some (ts, r'') => some (t :: ts, r'')
        | none => none
      | r' => some ([t], r')

/-- `_extras: _L_BRACKET _extra? _R_BRACKET` after the `[` -/
def takeBracket (s : List Char) : Option (List (List Char) × List Char) :=
  match skipWs s with
  | ']' :: r => some ([], r)
  | s' =>
    match takeExtras (s'.length + 1) s' with
    | some (es, r) =>
      match skipWs r with
      | ']' :: r' => some (es, r')
      | _ => none
    | none => none

/-- `URI: /[^ ]+/` (a tab in front of it is white space: lark orders the terminals of one lexer state by
priority, maximal width, then pattern length, which puts `WS_INLINE` before `URI`; tabs *inside* belong to the URI) -/
def takeUri (s : List Char) : Option (List Char × List Char) :=
  match takeWhileC (fun c => c != ' ') s with
  | ([], _) => none
  | (u, r) => some (u, r)

/-- what the lark tree of a requirement contains -/
structure Raw where
  name : String
  extras : List String
  /-- children of `version_specification` (`none`: no such node) -/
  specs : Option (List String)
  url : Option String
  /-- text after `;` (`marker_spec`), recognised by `Marker.parseText` -/
  marker : Option Syn

/-- `(_MARKER_SEPARATOR marker_spec)?` then end of input -/
def takeTail (s : List Char) : Option (Option Syn) :=
  match skipWs s with
  | [] => some none
  | ';' :: r =>
    -- the marker recogniser skips leading white space itself; it is dropped here so that the fuel of
    -- `parseText` is the one `parse_marker` uses on the marker's own text
    match parseText (String.ofList (skipWs r)) with
    | .ok syn => some (some syn)
    | .error _ => none
  | _ => none

/-- the tree content from its tokens -/
def mkRaw (name : List Char) (es : List (List Char)) (specs : Option (List (List Char))) (url : Option (List Char))
    (m : Option Syn) : Raw :=
  { name := String.ofList name, extras := es.map String.ofList,
    specs := specs.map (fun l => l.map String.ofList), url := url.map String.ofList, marker := m }

/-- `(version_specification | _url)? (_MARKER_SEPARATOR marker_spec)?` after name and extras; the input has no
leading white space -/
def parseRest (name : List Char) (es : List (List Char)) (r : List Char) : Option Raw :=
  match r with
  | '(' :: r =>
    match takeSpecs (r.length + 1) r with
    | some (ts, r3) =>
      match skipWs r3 with
      | ')' :: r4 => (takeTail r4).map (mkRaw name es (some ts) none)
      | _ => none
    | none => none
  | '@' :: r =>
    match takeUri (skipWs r) with
    | some (u, r3) => (takeTail r3).map (mkRaw name es none (some u))
    | none => none
  | r3 =>
    match takeOp r3 with
    | some _ =>
      match takeSpecs (r3.length + 1) r3 with
      | some (ts, r4) => (takeTail r4).map (mkRaw name es (some ts) none)
      | none => none
    | none => (takeTail r3).map (mkRaw name es none none)

/-- `_extras?` in front of the (white-space-free) input -/
def parseExtras (r1 : List Char) : Option (List (List Char) × List Char) :=
  match r1 with
  | '[' :: r => takeBracket r
  | _ => some ([], r1)

/-- `_parser.parse(text)`; `none` = lark raises `UnexpectedCharacters` / `UnexpectedToken` -/
def parseRaw (cs : List Char) : Option Raw :=
  match takeName (skipWs cs) with
  | none => none
  | some (name, r0) =>
    match parseExtras (skipWs r0) with
    | none => none
    | some (es, r2) => parseRest name es (skipWs r2)

/-! ### `urllib.parse` (CPython 3.12) on printable ASCII -/

structure SplitUrl where
  scheme : String
  netloc : String
  path : String
  query : String
  fragment : String
deriving Repr, DecidableEq, Inhabited

def isAlphaAscii (c : Char) : Bool := isLowerAlpha c || ('A' ≤ c && c ≤ 'Z')

/-- `scheme_chars` -/
def isSchemeChar (c : Char) : Bool := isAlnum c || c == '+' || c == '-' || c == '.'

/-- the fragment of inputs on which `urlsplit` is modelled -/
def urlModelled (cs : List Char) : Bool :=
  cs.all (fun c => 33 ≤ c.toNat && c.toNat ≤ 126 && c != '[' && c != ']')

/-- split at the first character satisfying `p`: (before, from that character on) -/
def breakAt (p : Char → Bool) (cs : List Char) : List Char × List Char := takeWhileC (fun c => !p c) cs

/-- `url[:i].lower(), url[i+1:]` when the text before the first `:` is a scheme -/
def splitScheme (cs : List Char) : List Char × List Char :=
  match breakAt (· == ':') cs with
  | (c :: s, ':' :: rest) =>
    if isAlphaAscii c && (c :: s).all isSchemeChar then ((c :: s).map lowerChar, rest) else ([], cs)
  | _ => ([], cs)

def urlsplitL (cs : List Char) : SplitUrl :=
  let (scheme, r) := splitScheme cs
  let (netloc, r1) : List Char × List Char :=
    match r with
    | '/' :: '/' :: r' => breakAt (fun c => c == '/' || c == '?' || c == '#') r'
    | _ => ([], r)
  let (r2, frag) : List Char × List Char :=
    match breakAt (· == '#') r1 with
    | (a, '#' :: b) => (a, b)
    | (a, _) => (a, [])
  let (path, query) : List Char × List Char :=
    match breakAt (· == '?') r2 with
    | (a, '?' :: b) => (a, b)
    | (a, _) => (a, [])
  { scheme := String.ofList scheme, netloc := String.ofList netloc, path := String.ofList path,
    query := String.ofList query, fragment := String.ofList frag }

/-- `urlsplit(url)` -/
def urlsplit (url : String) : PyM SplitUrl :=
  if urlModelled url.toList then .ok (urlsplitL url.toList) else .error .unmodelled

/-- `urllib.parse.uses_netloc` / `uses_params` (constants of the trusted runtime) -/
def usesNetloc : List String :=
  ["", "ftp", "http", "gopher", "nntp", "telnet", "imap", "wais", "file", "mms", "https", "shttp", "snews",
   "prospero", "rtsp", "rtsps", "rtspu", "rsync", "svn", "svn+ssh", "sftp", "nfs", "git", "git+ssh", "ws", "wss",
   "itms-services"]

def usesParams : List String :=
  ["", "ftp", "hdl", "prospero", "http", "imap", "https", "shttp", "rtsp", "rtsps", "rtspu", "sip", "sips", "mms",
   "sftp", "tel"]

def startsWithL (p : List Char) (s : List Char) : Bool := (stripPrefix? p s).isSome

/-- `urlunsplit((scheme, netloc, path, query, fragment))` -/
def urlunsplit (u : SplitUrl) : String :=
  let url := u.path
  let url :=
    if u.netloc != "" || (u.scheme != "" && usesNetloc.contains u.scheme && !startsWithL ['/', '/'] url.toList) then
      let url := if url != "" && !startsWithL ['/'] url.toList then "/" ++ url else url
      "//" ++ u.netloc ++ url
    else url
  let url := if u.scheme != "" then u.scheme ++ ":" ++ url else url
  let url := if u.query != "" then url ++ "?" ++ u.query else url
  if u.fragment != "" then url ++ "#" ++ u.fragment else url

/-- the `path` component of `urlparse(url)`: for schemes in `uses_params` the `;params` of the last path
segment are split off (`_splitparams`) -/
def urlparsePath (u : SplitUrl) : String :=
  let p := u.path.toList
  if usesParams.contains u.scheme && p.contains ';' then
    if p.contains '/' then
      -- `url.find(';', url.rfind('/'))`
      let rev := p.reverse
      let (lastSegRev, _) := breakAt (· == '/') rev
      let lastSeg := lastSegRev.reverse
      match breakAt (· == ';') lastSeg with
      | (a, ';' :: _) => String.ofList (p.take (p.length - lastSeg.length) ++ a)
      | _ => u.path
    else String.ofList (breakAt (· == ';') p).1
  else u.path

/-- the URL check of `Requirement.__init__` -/
def checkUrl (url : String) : PyM Unit := do
  let u ← urlsplit url
  if u.scheme == "file" then
    -- 'file' is not in uses_params: urlunparse(urlparse(url)) = urlunsplit(urlsplit(url))
    if urlunsplit u != url then .error .value else pure ()
  else if !(u.scheme != "" && u.netloc != "") && urlparsePath u == "" then .error .value
  else pure ()

/-! ### `Requirement.__init__` -/

structure Requirement where
  name : String
  url : Option String
  extras : List String
  /-- `pretty_constraint` -/
  constraintText : String
  constraint : VC
  marker : Option M
deriving Inhabited

/-- `_compact_markers(marker.children[0].children, tree_prefix="markers__")` (top level: the groups are
combined by `union(…)`) -/
def compactTop (syn : Syn) : PyM M := do
  let subs ← compactSubMarkers syn
  unionF defaultFuel [] subs

/-- `",".join(constraint.children) if constraint else "*"` -/
def constraintTextOf (specs : Option (List String)) : String :=
  match specs with
  | some ts => joinWith "," ts
  | none => "*"

def ofRaw (raw : Raw) : PyM Requirement := do
  match raw.url with
  | some u => checkUrl u
  | none => pure ()
  let ctext := constraintTextOf raw.specs
  let c ← (match VParser.parseConstraint ctext with
    | .ok c => .ok c
    | .error e => .error e)      -- ParseConstraintError → InvalidRequirementError: both ValueError
  let m ← (match raw.marker with
    | some syn => (compactTop syn).map some
    | none => pure none)
  pure { name := raw.name, url := raw.url, extras := raw.extras, constraintText := ctext, constraint := c, marker := m }

/-- `Requirement(requirement_string)` -/
def parseL (cs : List Char) : PyM Requirement :=
  match parseRaw cs with
  | none => .error .value          -- InvalidRequirementError("… Unexpected character at column …")
  | some raw => ofRaw raw

def parse (text : String) : PyM Requirement := parseL text.toList

/-! ### the public constructor since repo fix 9ad3a46

`Requirement.__init__` runs its whole body under `try: … except RecursionError: raise InvalidRequirementError`
(deeply nested input, and the `RecursionError` that `detect_recursion` raises inside the marker simplifier).  The
un-guarded `ofRaw` / `parseL` / `parse` above are kept as they are (the proofs unfold them); only the error class differs
(`parseTop_ok_iff`). -/

/-- `except RecursionError: raise <the documented ValueError subclass>` -/
def guardRecursion {α : Type} (r : PyM α) : PyM α :=
  match r with
  | .error .recursion => .error .value
  | r => r

theorem guardRecursion_ok_iff {α : Type} (r : PyM α) (a : α) : guardRecursion r = .ok a ↔ r = .ok a := by
  unfold guardRecursion
  cases r with
  | ok x => simp
  | error e => cases e <;> simp

theorem guardRecursion_err {α : Type} (r : PyM α) (e : PyErr) (h : guardRecursion r = .error e) :
    (r = .error e ∧ e ≠ .recursion) ∨ (r = .error .recursion ∧ e = .value) := by
  unfold guardRecursion at h
  cases r with
  | ok x => simp at h
  | error e' => cases e' <;> simp at h <;> subst h <;> simp

def ofRawTop (raw : Raw) : PyM Requirement := guardRecursion (ofRaw raw)

def parseLTop (cs : List Char) : PyM Requirement := guardRecursion (parseL cs)

/-- `Requirement(requirement_string)` (public behaviour) -/
def parseTop (text : String) : PyM Requirement := parseLTop text.toList

theorem parseTop_ok_iff (text : String) (r : Requirement) : parseTop text = .ok r ↔ parse text = .ok r :=
  guardRecursion_ok_iff _ r

/-! ### structural dump for the line protocol -/

def optStr : Option String → String
  | none => "-"
  | some s => "=" ++ s

def Raw.dump (r : Raw) : String :=
  "name=" ++ r.name ++ "|extras=" ++ joinWith "," r.extras ++ "|specs=" ++
    (match r.specs with | none => "-" | some ts => "=" ++ joinWith "," ts) ++ "|url=" ++ optStr r.url ++
    "|marker=" ++ (match r.marker with | none => "-" | some m => "=" ++ m.dump)

end Poetry.Req
