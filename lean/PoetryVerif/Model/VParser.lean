/-
Model of poetry.core.constraints.version.parser / patterns: a tokenising recogniser equivalent
to the regex cascade (equivalence is a correspondence obligation: Python `re` is trusted).
-/
import PoetryVerif.Model.VRange

namespace Poetry
namespace VParser

/-! ### `re.split(r"\s*\|\|?\s*", s.strip())` -/

def dropWhileSpace : List Char → List Char := dropSpaces

def rstripSpaces (s : List Char) : List Char := (dropSpaces s.reverse).reverse

def strip (s : List Char) : List Char := rstripSpaces (dropSpaces s)

/-- try to match `\s*\|\|?\s*` at the head; returns the rest after the separator -/
def orSep? (s : List Char) : Option (List Char) :=
  match dropSpaces s with
  | '|' :: '|' :: r => some (dropSpaces r)
  | '|' :: r => some (dropSpaces r)
  | _ => none

def splitOrAux (fuel : Nat) (s : List Char) (cur : List Char) : List (List Char) :=
  match fuel with
  | 0 => [cur.reverse]
  | fuel + 1 =>
    match s with
    | [] => [cur.reverse]
    | c :: cs =>
      match orSep? (c :: cs) with
      | some r => cur.reverse :: splitOrAux fuel r []
      | none => splitOrAux fuel cs (c :: cur)

def splitOr (s : List Char) : List (List Char) := splitOrAux (s.length + 1) s []

/-! ### the and-separator `(?<!^)(?<![\^~=>< ,]) *(?<!-)[, ](?!-) *(?!,|$)` -/

def badPrev (c : Char) : Bool :=
  c == '^' || c == '~' || c == '=' || c == '>' || c == '<' || c == ' ' || c == ','

def countSpaces : List Char → Nat
  | ' ' :: cs => countSpaces cs + 1
  | _ => 0

/-- second half: after the `[, ]` char: `(?!-) *(?!,|$)`, greedy with backtracking on ` *` -/
def andSepTail (s : List Char) : Option (List Char) :=
  match s with
  | '-' :: _ => none
  | _ =>
    let m := countSpaces s
    -- try m' = m, m-1, …, 0
    let rec go (k : Nat) (fuel : Nat) : Option (List Char) :=
      match fuel with
      | 0 => none
      | fuel + 1 =>
        match s.drop k with
        | [] => if k == 0 then none else go (k - 1) fuel
        | ['\n'] => if k == 0 then none else go (k - 1) fuel
        | ',' :: _ => if k == 0 then none else go (k - 1) fuel
        | r => some r
    go m (m + 1)

/-- match the and-separator at the head of `s`, given the previous character -/
def andSep? (prev : Option Char) (s : List Char) : Option (List Char) :=
  match prev with
  | none => none
  | some p =>
    if badPrev p then none
    else
      let k := countSpaces s
      -- j spaces consumed by the first ` *`, j = k, k-1, …, 0
      let rec go (j : Nat) (fuel : Nat) : Option (List Char) :=
        match fuel with
        | 0 => none
        | fuel + 1 =>
          let before : Char := if j > 0 then ' ' else p
          let attempt : Option (List Char) :=
            if before == '-' then none
            else match s.drop j with
              | ',' :: r => andSepTail r
              | ' ' :: r => andSepTail r
              | _ => none
          match attempt with
          | some r => some r
          | none => if j == 0 then none else go (j - 1) fuel
      go k (k + 1)

def splitAndAux (fuel : Nat) (prev : Option Char) (s : List Char) (cur : List Char) : List (List Char) :=
  match fuel with
  | 0 => [cur.reverse]
  | fuel + 1 =>
    match s with
    | [] => [cur.reverse]
    | c :: cs =>
      match andSep? prev (c :: cs) with
      | some r =>
        -- the previous char for the next position is the last char of the separator
        let consumed := (c :: cs).take ((c :: cs).length - r.length)
        cur.reverse :: splitAndAux fuel consumed.getLast? r []
      | none => splitAndAux fuel (some c) cs (c :: cur)

def splitAnd (s : List Char) : List (List Char) := splitAndAux (s.length + 1) none s []

def rstripCommas (s : List Char) : List Char :=
  (s.reverse.dropWhile (· == ',')).reverse

/-! ### single constraints -/

/-- `$` in Python: end of string or before a final newline -/
def atEnd (s : List Char) : Bool := s.isEmpty || s == ['\n']

/-- `(?P<version>VERSION_PATTERN)$` (IGNORECASE): the text of the version if the whole remainder
is a version.  Returns the matched text (without a trailing newline). -/
def versionToEnd? (s : List Char) : Option String :=
  let text := if s.getLast? == some '\n' then s.dropLast else s
  match Version.parseBody "" (s.map lowerChar) with
  | some (_, rest) => if atEnd rest then some (String.ofList text) else none
  | none => none

def parseVersionText (t : String) : PyM Version := Version.parse t

/-- `(?i)^v?[xX*](\.[xX*])*$` -/
def isAnyPattern (s : List Char) : Bool :=
  let s := match s with
    | 'v' :: r => r
    | 'V' :: r => r
    | _ => s
  let isX (c : Char) : Bool := c == 'x' || c == 'X' || c == '*'
  let rec go (fuel : Nat) (s : List Char) : Bool :=
    match fuel with
    | 0 => false
    | fuel + 1 =>
      match s with
      | '.' :: c :: r => if isX c then go fuel r else false
      | r => atEnd r
  match s with
  | c :: r => isX c && go (r.length + 1) r
  | [] => false

/-- `_make_x_constraint_range` (is_marker_constraint selects the dev-release adjustment) -/
def makeXConstraintRange (v : Version) (invert : Bool) (isMarker : Bool) : PyM VC :=
  let next :=
    if v.isDevrelease then v.nextDevrelease
    else if v.isPostrelease then v.nextPostrelease
    else if v.isStable then v.nextStable
    else v.nextPrerelease   -- not dev, not post, not stable: a pre-release (the code's `else: raise RuntimeError` is unreachable)
  let mn := if isMarker then v else v.firstDevrelease
  let mx := if isMarker then next else (if !next.isDevrelease then next.firstDevrelease else next)
  let result : VRange := ⟨some mn, some mx, true, false⟩
  if invert then VC.difference VC.any (.single (.rng result))
  else .ok (.single (.rng result))

/-- X_CONSTRAINT: `^(?P<op>!=|==)?\s*v?(?P<version>(\d+)(?:\.(\d+))?(?:\.(\d+))?)(?:\.\*)+$`
returns (op is "!=", version text) -/
def xConstraint? (s : List Char) : Option (Bool × String) :=
  let (invert, s) :=
    match s with
    | '!' :: '=' :: r => (true, r)
    | '=' :: '=' :: r => (false, r)
    | _ => (false, s)
  let s := dropSpaces s
  let s := match s with | 'v' :: r => r | _ => s
  let (d1, r1) := takeDigits s
  if d1.isEmpty then none else
  -- optional second and third components (only when followed by digits)
  let more (r : List Char) : List Char × List Char :=
    match r with
    | '.' :: cs => let (d, r') := takeDigits cs; if d.isEmpty then ([], r) else ('.' :: d, r')
    | _ => ([], r)
  let (d2, r2) := more r1
  let (d3, r3) := if d2.isEmpty then ([], r2) else more r2
  let rec stars (fuel : Nat) (s : List Char) (n : Nat) : Option Nat :=
    match fuel with
    | 0 => none
    | fuel + 1 =>
      match s with
      | '.' :: '*' :: r => stars fuel r (n + 1)
      | r => if atEnd r && n > 0 then some n else none
  -- backtracking: the optional components may have to be given back — they cannot, because a
  -- component is followed by `.*` or another component; try longest first, then shorter
  let tryWith (ver : List Char) (rest : List Char) : Option (Bool × String) :=
    match stars (rest.length + 1) rest 0 with
    | some _ => some (invert, String.ofList ver)
    | none => none
  match tryWith (d1 ++ d2 ++ d3) r3 with
  | some x => some x
  | none =>
    match tryWith (d1 ++ d2) r2 with
    | some x => some x
    | none => tryWith d1 r1

inductive BasicOp where
  | none | ltgt | ne | gt | ge | lt | le | eq
deriving DecidableEq, Repr

/-- op alternatives in regex order: `<>|!=|>=?|<=?|==?` followed by `\s*` -/
def basicOp (s : List Char) : BasicOp × List Char :=
  match s with
  | '<' :: '>' :: r => (.ltgt, r)
  | '!' :: '=' :: r => (.ne, r)
  | '>' :: '=' :: r => (.ge, r)
  | '>' :: r => (.gt, r)
  | '<' :: '=' :: r => (.le, r)
  | '<' :: r => (.lt, r)
  | '=' :: '=' :: r => (.eq, r)
  | '=' :: r => (.eq, r)
  | r => (.none, r)

/-- BASIC_CONSTRAINT body after the operator: `(?P<version>VERSION|dev)(?P<wildcard>\.\*)?$`;
returns (version text, wildcard present) -/
def basicVersion? (s : List Char) : Option (String × Bool) :=
  let finish (verLen : Nat) (rest : List Char) : Option (String × Bool) :=
    match rest with
    | '.' :: '*' :: r => if atEnd r then some (String.ofList (s.take verLen), true) else none
    | r => if atEnd r then some (String.ofList (s.take verLen), false) else none
  let viaVersion : Option (String × Bool) :=
    match Version.parseBody "" (s.map lowerChar) with
    | some (_, rest) =>
      let n := s.length - rest.length
      match finish n rest with
      | some x => some x
      | none =>
        -- regex backtracking: a phase word with an implicit number has swallowed the `.` of `.*`
        if n > 0 && (s.take n).getLast? == some '.' then finish (n - 1) ('.' :: rest) else none
    | none => none
  match viaVersion with
  | some x => some x
  | none =>
    match s.map lowerChar with
    | 'd' :: 'e' :: 'v' :: _ => finish 3 (s.drop 3)
    | _ => none

/-- `parse_single_constraint(constraint, is_marker_constraint=…)` (pep440=True) -/
def parseSingle (cs : List Char) (isMarker : Bool) : PyM VC :=
  if isAnyPattern cs then .ok VC.any
  else
    -- TILDE_CONSTRAINT `^~(?!=)\s*VERSION$`
    let tilde : Option String :=
      match cs with
      | '~' :: '=' :: _ => none
      | '~' :: r => versionToEnd? (dropSpaces r)
      | _ => none
    match tilde with
    | some t => do
      let v ← parseVersionText t
      let high := if v.precision == 1 then v.stable.nextMajor else v.stable.nextMinor
      pure (.single (.rng ⟨some v, some high, true, false⟩))
    | none =>
    let tilde440 : Option String :=
      match cs with
      | '~' :: '=' :: r => versionToEnd? (dropSpaces r)
      | _ => none
    match tilde440 with
    | some t => do
      let v ← parseVersionText t
      -- precision 2: next major; ≤ 3: next minor; else bump the second to last release segment
      let high :=
        if v.precision == 2 then v.stable.nextMajor
        else if v.precision ≤ 3 then v.stable.nextMinor
        else Version.mk' v.epoch (Version.bumpSecondToLast v.release) none none none none
      pure (.single (.rng ⟨some v, some high, true, false⟩))
    | none =>
    let caret : Option String :=
      match cs with
      | '^' :: r => versionToEnd? (dropSpaces r)
      | _ => none
    match caret with
    | some t => do
      let v ← parseVersionText t
      pure (.single (.rng ⟨some v, some v.nextBreaking, true, false⟩))
    | none =>
    match xConstraint? cs with
    | some (invert, t) => do
      let v ← parseVersionText t
      makeXConstraintRange v invert isMarker
    | none =>
    let (op, r) := basicOp cs
    match basicVersion? (dropSpaces r) with
    | some (t, wildcard) => do
      let t := if t == "dev" then "0.0-dev" else t
      let v ← parseVersionText t
      match op with
      | .lt => pure (.single (.rng ⟨none, some v, false, false⟩))
      | .le => pure (.single (.rng ⟨none, some v, false, true⟩))
      | .gt => pure (.single (.rng ⟨some v, none, false, false⟩))
      | .ge => pure (.single (.rng ⟨some v, none, true, false⟩))
      | _ =>
        if wildcard then makeXConstraintRange v (op == .ne) isMarker
        else if op == .ne then
          pure (.union [.rng ⟨none, some v, false, false⟩, .rng ⟨some v, none, false, false⟩])
        else pure (.single (.ver v))
    | none => .error .value

/-- one `||` group -/
def parseGroup (g : List Char) (isMarker : Bool) : PyM VC := do
  let g := rstripSpaces (rstripCommas g)
  let parts := splitAnd g
  let objs ← parts.mapM (fun p => parseSingle p isMarker)
  match objs with
  | [] => .error .index
  | c :: rest => rest.foldlM (fun acc n => VC.intersect acc n) c

/-- `_parse_constraint(constraints, is_marker_constraint=…)` (pep440=True) -/
def parseConstraintAux (s : String) (isMarker : Bool) : PyM VC :=
  if s == "*" then .ok VC.any
  else do
    let groups ← (splitOr (strip s.toList)).mapM (fun g => parseGroup g isMarker)
    match groups with
    | [g] => pure g
    | gs => VC.unionOf gs

/-- `parse_constraint` -/
def parseConstraint (s : String) : PyM VC := parseConstraintAux s false

/-- `parse_marker_version_constraint(…, pep440=True)` -/
def parseMarkerVersionConstraint (s : String) : PyM VC := parseConstraintAux s true

end VParser
end Poetry
