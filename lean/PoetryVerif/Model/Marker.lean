/-
Model of the marker objects of poetry.core.version.markers: `SingleMarker`, `AtomicMultiMarker`,
`AtomicMarkerUnion`, `MultiMarker`, `MarkerUnion`, `AnyMarker`, `EmptyMarker`; leaf construction
(`SingleMarker.__init__` incl. construction from a constraint object), `_flatten_markers`,
`_compact_markers` without the final simplification (`top_level=False`), `validate`, `__str__`,
`__eq__`.  The simplifier (`intersection`/`union`/`cnf`/`dnf`/`of`/merging) is in MarkerAlg.lean.
Core Lean only.
-/
import PoetryVerif.Model.MarkerLeaf
import PoetryVerif.Model.VParser
import PoetryVerif.Model.VPrint
import PoetryVerif.Model.Generic

namespace Poetry.Marker
open Poetry.Generic (GC GS)

/-- the constraint object a single-marker-like holds -/
inductive LeafC where
  | ver (c : VC)
  | gen (c : GC)
deriving Repr, Inhabited, DecidableEq

/-- `SingleMarker` -/
structure Single where
  name : String
  op : String
  value : String
  swapped : Bool
  c : LeafC
deriving Repr, Inhabited, DecidableEq

inductive Leaf where
  | single (s : Single)
  /-- `AtomicMultiMarker(name, MultiConstraint)` -/
  | amulti (name : String) (c : GC)
  /-- `AtomicMarkerUnion(name, UnionConstraint)` -/
  | aunion (name : String) (c : GC)
deriving Repr, Inhabited, DecidableEq

inductive M where
  | any
  | empty
  | leaf (l : Leaf)
  | multi (ms : List M)
  | union (ms : List M)
deriving Repr, Inhabited

/-! ### parsers selected by variable kind -/

/-- `parse_marker_version_constraint(s, pep440=…)`.  With `pep440 = false` the code also accepts
`BASIC_RELEASE_CONSTRAINT` (OS release strings such as `5.10.0-generic`), which is outside the
model: a parse failure is then reported as `unmodelled`, never as a rejection. -/
def parseVersionKind (pep440 : Bool) (s : String) : PyM VC :=
  match VParser.parseMarkerVersionConstraint s with
  | .error .value => if pep440 then .error .value else .error .unmodelled
  | r => r

def parseByKind (k : LeafKind) (s : String) : PyM LeafC :=
  match k with
  | .version p => (parseVersionKind p s).map LeafC.ver
  | .extra => (Generic.parseExtraConstraint s).map LeafC.gen
  | .generic => (Generic.parseConstraint s).map LeafC.gen

/-- `SingleMarker(name, constraint_string, swapped_name_value)`; every parser error becomes
`InvalidMarkerError` (a ValueError) -/
def mkSingle (name : String) (cstr : String) (swapped : Bool) : PyM Single := do
  let p ← leafPrepare name cstr swapped
  let c ← parseByKind p.kind p.cstr
  pure { name := p.name, op := p.op, value := p.value, swapped := p.swapped, c }

def LeafC.toStr : LeafC → PyM String
  | .ver c => c.toStr
  | .gen c => .ok c.toStr

/-- `SingleMarker(name, constraint_object)` : goes through `str(constraint)` -/
def mkSingleOfC (name : String) (c : LeafC) : PyM Single := do
  let s ← c.toStr
  -- `str()` of a generic `Constraint` omits "==": the constructor puts it back, otherwise a value
  -- such as "inotify" would be split into operator `in` and value `otify` (repo fix)
  let s := match c with
    | .gen (.s (.atom a)) => if a.op == .eq then "==" ++ s else s
    | _ => s
  mkSingle name s false

/-- the parser `SingleMarkerLike.__init__` stores for `validate` -/
def leafParserKind (name : String) (c : LeafC) : LeafKind :=
  match c with
  | .ver _ => .version (name != "platform_release")
  | .gen _ => if name == "extra" then .extra else .generic

def Leaf.name : Leaf → String
  | .single s => s.name
  | .amulti n _ => n
  | .aunion n _ => n

def Leaf.c : Leaf → LeafC
  | .single s => s.c
  | .amulti _ c => .gen c
  | .aunion _ c => .gen c

/-! ### `__eq__` -/

def Leaf.beq : Leaf → Leaf → Bool
  | .single a, .single b => a.name == b.name && a.op == b.op && a.value == b.value && a.swapped == b.swapped
  | .amulti n c, .amulti n' c' => n == n' && c == c'
  | .aunion n c, .aunion n' c' => n == n' && c == c'
  | .amulti n c, .aunion n' c' => n == n' && c == c'
  | .aunion n c, .amulti n' c' => n == n' && c == c'
  | _, _ => false

mutual
def M.beq : M → M → Bool
  | .any, .any => true
  | .empty, .empty => true
  | .leaf a, .leaf b => a.beq b
  | .multi as, .multi bs => M.beqList as bs
  | .union as, .union bs => M.beqList as bs
  | _, _ => false
def M.beqList : List M → List M → Bool
  | [], [] => true
  | a :: as, b :: bs => M.beq a b && M.beqList as bs
  | _, _ => false
end

def M.mem (m : M) (l : List M) : Bool := l.any (fun x => M.beq m x)

def M.isAny : M → Bool
  | .any => true
  | _ => false
def M.isEmpty : M → Bool
  | .empty => true
  | _ => false

/-! ### `_flatten_markers` and the constructors -/

def appendNew (acc : List M) (ms : List M) : List M :=
  ms.foldl (fun a m => if M.mem m a then a else a ++ [m]) acc

mutual
/-- `_flatten_markers(markers, MultiMarker)` (isMulti) / `(…, MarkerUnion)` -/
def flattenAux (isMulti : Bool) : List M → List M → List M
  | [], acc => acc
  | m :: rest, acc =>
    match m, isMulti with
    | .multi inner, true => flattenAux isMulti rest (appendNew acc (flattenAux isMulti inner []))
    | .union inner, false => flattenAux isMulti rest (appendNew acc (flattenAux isMulti inner []))
    | m, _ => flattenAux isMulti rest (if M.mem m acc then acc else acc ++ [m])
end

def flattenMarkers (isMulti : Bool) (ms : List M) : List M := flattenAux isMulti ms []

/-- `MultiMarker(*ms)` -/
def mkMulti (ms : List M) : M := .multi (flattenMarkers true ms)
/-- `MarkerUnion(*ms)` -/
def mkUnion (ms : List M) : M := .union (flattenMarkers false ms)

/-! ### `_compact_markers` -/

/-- `group[0] if len(group) == 1 else MultiMarker(*group)` -/
def groupMarker (ms : List M) : M :=
  match ms with
  | [m] => m
  | _ => mkMulti ms

mutual
/-- `_compact_markers(children, top_level=False)` for one atom: an item becomes a `SingleMarker`,
a parenthesised marker the un-simplified `MarkerUnion` of its groups -/
def compactAtom : Atom → PyM M
  | .item n op v sw => do
    let s ← mkSingle n (itemConstraintString op v sw) sw
    pure (.leaf (.single s))
  | .paren m => do
    let gs ← compactGroups m
    pure (mkUnion (gs.map groupMarker))

/-- the groups (a disjunction of conjunctions) of one `marker` node, atoms converted left to right -/
def compactGroups : Syn → PyM (List (List M))
  | .one a => do
    let x ← compactAtom a
    pure [[x]]
  | .more a isOr rest => do
    let x ← compactAtom a
    let gs ← compactGroups rest
    if isOr then pure ([x] :: gs)
    else match gs with
      | g :: gs' => pure ((x :: g) :: gs')
      | [] => pure [[x]]
end

/-- the `sub_markers` list at the top level (what `union(*sub_markers)` receives) -/
def compactSubMarkers (m : Syn) : PyM (List M) := do
  let gs ← compactGroups m
  pure (gs.map groupMarker)

/-- `_compact_markers(children, top_level=False)`: no simplification, only flattening -/
def compactRaw (m : Syn) : PyM M := do
  let subs ← compactSubMarkers m
  pure (mkUnion subs)

/-! ### `validate` -/

/-- `SingleMarkerLike.validate` for the non-`extra` case: a version constraint parses the
environment value with the stored parser, a string constraint wraps it in `Constraint(value)`;
then `constraint.allows(…)` -/
def validateValue (name : String) (c : LeafC) (ev : String) : PyM Bool :=
  match c with
  | .ver vc =>
    match parseVersionKind (name != "platform_release") ev with
    | .ok (.single (.ver v)) => vc.allows v
    | .ok _ => .error .unmodelled
    | .error e => .error e
  | .gen gc =>
    -- `Constraint(environment[name])`: the value is a plain string (repo fix 9ca8a26)
    gc.allows (GC.atom ⟨ev, .eq, false⟩)

/-- `SingleMarkerLike.validate` (also what `AtomicMultiMarker`/`AtomicMarkerUnion` inherit for
non-`extra` names) -/
def validateLike (name : String) (c : LeafC) (E : Env) : PyM Bool :=
  if name == "extra" then
    match E.extras with
    | none => .ok true
    | some ex =>
      let extras := ex.map canonName
      match c with
      | .gen (.s (.atom a)) =>
        let nv := canonName a.value
        if a.op == .eq then .ok (extras.contains nv)
        else if a.op == .ne then .ok (!extras.contains nv)
        else .error .assertion
      | _ => .error .assertion
  else
    match E.get? name with
    | none => .ok true
    | some ev => validateValue name c ev

/-- `all(f(x) for x in xs)` / `any(…)` with Python's short-circuit (later errors are not reached) -/
def allPy {α : Type} (f : α → PyM Bool) : List α → PyM Bool
  | [] => .ok true
  | x :: xs => match f x with
    | .ok true => allPy f xs
    | r => r

def anyPy {α : Type} (f : α → PyM Bool) : List α → PyM Bool
  | [] => .ok false
  | x :: xs => match f x with
    | .ok false => anyPy f xs
    | r => r

/-- members of a `MultiConstraint` / `UnionConstraint` as constraint objects -/
def gcMembers : GC → List GC
  | .s (.multi _ cs) => cs.map (fun a => GC.s (.atom a))
  | .union ms => ms.map GC.s
  | c => [c]

/-- `AtomicMultiMarker.expand()` / `AtomicMarkerUnion.expand()` members -/
def expandLeaves (name : String) (c : GC) : PyM (List Single) :=
  (gcMembers c).mapM (fun m => mkSingleOfC name (.gen m))

def Leaf.validate (l : Leaf) (E : Env) : PyM Bool :=
  match l with
  | .single s => validateLike s.name s.c E
  | .amulti n c =>
    if n == "extra" then do
      let ss ← expandLeaves n c
      -- MultiMarker(*singles).validate: flattening removes duplicates, which does not change `all`
      allPy (fun s => validateLike s.name s.c E) ss
    else validateLike n (.gen c) E
  | .aunion n c =>
    if n == "extra" then do
      let ss ← expandLeaves n c
      anyPy (fun s => validateLike s.name s.c E) ss
    else validateLike n (.gen c) E

mutual
def M.validate (E : Env) : M → PyM Bool
  | .any => .ok true
  | .empty => .ok false
  | .leaf l => l.validate E
  | .multi ms => M.validateAll E ms
  | .union ms => M.validateAny E ms
def M.validateAll (E : Env) : List M → PyM Bool
  | [] => .ok true
  | m :: ms => match M.validate E m with
    | .ok true => M.validateAll E ms
    | r => r
def M.validateAny (E : Env) : List M → PyM Bool
  | [] => .ok false
  | m :: ms => match M.validate E m with
    | .ok false => M.validateAny E ms
    | r => r
end

/-! ### `__str__` -/

def atomClause (name : String) (a : Generic.Atom) : String :=
  name ++ " " ++ a.op.str ++ " " ++ quoteOf a.value ++ a.value ++ quoteOf a.value

def Leaf.toStr : Leaf → PyM String
  | .single s => .ok (leafText s.name s.op s.value s.swapped)
  | .amulti n c =>
    match c with
    | .s (.multi _ cs) => .ok (joinWith " and " (cs.map (atomClause n)))
    | _ => .error .attribute
  | .aunion n c =>
    match c with
    | .union ms =>
      match ms.mapM (fun m => match m with | GS.atom a => some a | _ => none) with
      | some as => .ok (joinWith " or " (as.map (atomClause n)))
      | none => .error .attribute
    | _ => .error .attribute

mutual
def M.toStr : M → PyM String
  | .any => .ok ""
  | .empty => .ok "<empty>"
  | .leaf l => l.toStr
  | .multi ms => do
    let parts ← M.toStrMultiParts ms
    pure (joinWith " and " parts)
  | .union ms => do
    let parts ← M.toStrList ms
    pure (joinWith " or " parts)
/-- elements of a MultiMarker: SingleMarker, MultiMarker, AtomicMultiMarker plain, others in parentheses -/
def M.toStrMultiParts : List M → PyM (List String)
  | [] => .ok []
  | m :: ms => do
    let s ← M.toStr m
    let s := match m with
      | .leaf (.single _) => s
      | .leaf (.amulti _ _) => s
      | .multi _ => s
      | _ => "(" ++ s ++ ")"
    let rest ← M.toStrMultiParts ms
    pure (s :: rest)
def M.toStrList : List M → PyM (List String)
  | [] => .ok []
  | m :: ms => do
    let s ← M.toStr m
    let rest ← M.toStrList ms
    pure (s :: rest)
end

/-! ### structural dump (line protocol) -/

def LeafC.dump : LeafC → String
  | .ver c => "v:" ++ c.dump
  | .gen c => "g:" ++ c.toStr

def Leaf.dump : Leaf → String
  | .single s => "S(" ++ s.name ++ "|" ++ s.op ++ "|" ++ s.value ++ "|" ++ boolStr s.swapped ++ "|" ++ s.c.dump ++ ")"
  | .amulti n c => "AM(" ++ n ++ "|" ++ c.toStr ++ ")"
  | .aunion n c => "AU(" ++ n ++ "|" ++ c.toStr ++ ")"

mutual
def M.dump : M → String
  | .any => "ANY"
  | .empty => "EMPTY"
  | .leaf l => l.dump
  | .multi ms => "AND[" ++ joinWith ";" (M.dumpList ms) ++ "]"
  | .union ms => "OR[" ++ joinWith ";" (M.dumpList ms) ++ "]"
def M.dumpList : List M → List String
  | [] => []
  | m :: ms => M.dump m :: M.dumpList ms
end

/-- `complexity` -/
def Leaf.complexity : Leaf → Nat × Nat
  | .single _ => (1, 1)
  | .amulti _ c => ((gcMembers c).length, 1)
  | .aunion _ c => ((gcMembers c).length, 1)

mutual
def M.complexity : M → Nat × Nat
  | .any => (1, 1)
  | .empty => (1, 1)
  | .leaf l => l.complexity
  | .multi ms => M.complexitySum ms
  | .union ms => M.complexitySum ms
def M.complexitySum : List M → Nat × Nat
  | [] => (0, 0)
  | m :: ms =>
    let a := M.complexity m
    let b := M.complexitySum ms
    (a.1 + b.1, a.2 + b.2)
end

end Poetry.Marker
