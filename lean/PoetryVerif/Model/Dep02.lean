/-
Model of the path from a `[tool.poetry.dependencies]` table entry to the core-metadata headers (property C02):
`Factory.create_dependency` for the legacy table form (version, python, platform, markers, extras, optional),
the `[tool.poetry.extras]` wiring of `Factory.configure_package` (`dep._in_extras`, `package.extras`),
`Metadata.from_package` (selection of Requires-Dist lines, Requires-Python, Provides-Extra) and
`version/helpers.py:format_python_constraint`.  The dependency objects, the `marker` setter and `to_pep_508` are
those of Model/Dep.lean; `create_nested_marker` for version constraints is `Marker.createNestedMarker`, for generic
constraints `Dep.nestedGC`.  git/url/path/file table forms are not modelled here (`.unmodelled`).  Core Lean only.
-/
import PoetryVerif.Model.Dep

namespace Poetry.Dep02
open Poetry Poetry.Marker Poetry.Dep

/-- one entry of `[tool.poetry.dependencies]` in table form, plus the project extras that list it -/
structure Decl where
  name : String
  /-- `constraint.get("version", "*")` -/
  version : String := "*"
  python : Option String := none
  platform : Option String := none
  markers : Option String := none
  extras : List String := []
  optional : Bool := false
  /-- the keys of `[tool.poetry.extras]` (as written) whose lists name this dependency, in table order -/
  inExtras : List String := []
deriving Repr, Inhabited

/-! ### `Factory.create_dependency` (mapping form without git/file/path/url) -/

/-- `marker = parse_marker(markers) if markers else AnyMarker()` -/
def stepMarkers (markers : Option String) : PyM M :=
  if truthy markers then parseMarker (markers.getD "") else pure .any

/-- `if python_versions: marker = marker.intersect(parse_marker(create_nested_marker("python_version", parse(python))))` -/
def stepPython (m : M) (python : Option String) : PyM M :=
  if truthy python then do
    let c ← VParser.parseConstraint (python.getD "")
    let txt ← createNestedMarker "python_version" c
    let pm ← parseMarker txt
    m.intersectWith pm
  else pure m

/-- `if platform: marker = marker.intersect(parse_marker(create_nested_marker("sys_platform", parse_generic(platform))))` -/
def stepPlatform (m : M) (platform : Option String) : PyM M :=
  if truthy platform then do
    let gc ← Generic.parseConstraint (platform.getD "")
    let txt ← (if gc.isAny then pure "" else nestedGC "sys_platform" gc)
    let pm ← parseMarker txt
    m.intersectWith pm
  else pure m

/-- the marker `create_dependency` computes from `markers`, `python`, `platform` -/
def declMarker (D : Decl) : PyM M := do
  let m0 ← stepMarkers D.markers
  let m1 ← stepPython m0 D.python
  stepPlatform m1 D.platform

/-- `Dependency(name, version, optional=optional, extras=extras)` -/
def baseDependency (D : Decl) : PyM Dep := do
  let spec ← Spec.make D.name none none none none none D.extras
  let d ← mkDepStr spec D.version .registry
  pure { d with optional := D.optional, activated := !D.optional }

/-- `Factory.create_dependency(name, {version, python, platform, markers, extras, optional})` -/
def createDependency (D : Decl) : PyM Dep := do
  let d ← baseDependency D
  let m ← declMarker D
  if !m.isAny then d.setMarker m else pure d

/-- `[tool.poetry.extras]`: `dep._in_extras = [*dep._in_extras, canonicalize_name(extra_name)]` per listing extra -/
def wireExtras (d : Dep) (inExtras : List String) : Dep :=
  { d with inExtras := d.inExtras ++ inExtras.map canonName }

/-- the dependency object `package.requires` holds for the declaration -/
def packageDependency (D : Decl) : PyM Dep := do
  let d ← createDependency D
  pure (wireExtras d D.inExtras)

/-! ### `Metadata.from_package` -/

/-- `(not d.is_optional() or d.in_extras) and not d.marker.is_empty()` -/
def selected (d : Dep) : Bool := (!d.optional || !d.inExtras.isEmpty) && !d.marker.isEmpty

/-- the Requires-Dist line of one declaration (`none`: no line) -/
def requiresDistLine (D : Decl) : PyM (Option String) := do
  let d ← packageDependency D
  if selected d then do pure (some (← d.toPep508)) else pure none

/-- `meta.requires_dist` -/
def requiresDist (ds : List Decl) : PyM (List String) := do
  let lines ← ds.mapM requiresDistLine
  pure (lines.filterMap id)

def dedupKeep (l : List String) : List String := l.foldl (fun acc x => if acc.contains x then acc else acc ++ [x]) []

/-- `meta.provides_extra = list(package.extras)`: the keys of `[tool.poetry.extras]`, canonicalised, in table
order (a dict: a later key with the same canonical form does not add an entry) -/
def providesExtra (extraKeys : List String) : List String := dedupKeep (extraKeys.map canonName)

/-! ### `format_python_constraint` -/

/-- first two components of a `PYTHON_VERSION` entry: `".".join(low.split(".")[:2])` -/
def firstTwo (s : String) : String :=
  String.ofList (joinChars "." ((splitDots s.toList).take 2)).toList

/-- the `VersionUnion` branch: one pass over `PYTHON_VERSION` -/
def formatUnion (c : VC) : List String → PyM (List String × List String)
  | [] => pure ([], [])
  | v :: rest => do
    let vc ← VParser.parseConstraint v
    let hit ← c.allowsAny vc
    let (formatted, accepted) ← formatUnion c rest
    if hit then pure (formatted, v :: accepted) else pure (("!=" ++ v) :: formatted, accepted)

def formatPythonConstraint (c : VC) : PyM String := do
  let c ← (match c with
    | .single (.ver v) =>
      if v.precision ≥ 3 then pure c
      else if v.precision == 2 then
        VParser.parseConstraint ("~" ++ toString (v.release.getD 0 0) ++ "." ++ toString (v.release.getD 1 0))
      else VParser.parseConstraint ("^" ++ toString (v.release.getD 0 0) ++ ".0")
    | _ => pure c)
  match c with
  | .single (.ver v) => pure ("==" ++ v.text)     -- only reached with precision ≥ 3
  | .union _ => do
    let (formatted, accepted) ← formatUnion c Gen.pythonVersionList
    match accepted with
    | [] => .error .index                        -- `accepted[0]`
    | low :: _ => pure (joinWith ", " ((">=" ++ firstTwo low) :: formatted))
  | _ => c.toStr

/-- `meta.requires_python` for a legacy project (`[project].requires-python` absent): `none` = header not written -/
def requiresPython (pythonVersions : String) : PyM (Option String) :=
  if pythonVersions == "*" then pure none
  else do
    let c ← VParser.parseConstraint pythonVersions
    if c.isEmpty then .error .value        -- `Package.python_versions` setter: "… is empty"
    else do pure (some (← formatPythonConstraint c))

end Poetry.Dep02
