/-
Common definitions of the executable model: Python error classes as values and a few
character/string helpers.  Core Lean only (no Mathlib) so that the driver links.
-/
namespace Poetry

/-- Python exception classes the modelled code can raise, as values.
`value` stands for `ValueError` and its subclasses (`InvalidVersionError`,
`ParseConstraintError`, `InvalidMarkerError`, …), i.e. the *documented* parser error. -/
inductive PyErr where
  | value | assertion | index | key | recursion | notImplemented | type | attribute | runtime
  | fuel
  /-- the grammar's syntax error (lark `UnexpectedInput`), the documented error of the marker/requirement grammars -/
  | syntax
  /-- the input leaves the fragment this model covers (never compared; counted by the harness) -/
  | unmodelled
deriving DecidableEq, Repr, Inhabited

def PyErr.name : PyErr → String
  | .value => "value" | .assertion => "assertion" | .index => "index" | .key => "key"
  | .recursion => "recursion" | .notImplemented => "notimplemented" | .type => "type"
  | .attribute => "attribute" | .runtime => "runtime" | .fuel => "fuel"
  | .syntax => "syntax" | .unmodelled => "unmodelled"

abbrev PyM := Except PyErr

def isDigit (c : Char) : Bool := '0' ≤ c && c ≤ '9'

def isLowerAlpha (c : Char) : Bool := 'a' ≤ c && c ≤ 'z'

/-- ASCII lower-casing (the models are stated for ASCII input; see DESIGN §3). -/
def lowerChar (c : Char) : Char :=
  if 'A' ≤ c && c ≤ 'Z' then Char.ofNat (c.toNat + 32) else c

/-- Python's `str.isspace` / regex `\s` on `str` patterns. -/
def isSpace (c : Char) : Bool :=
  let n := c.toNat
  n == 32 || (9 ≤ n && n ≤ 13) || (28 ≤ n && n ≤ 31) || n == 0x85 || n == 0xa0 ||
  n == 0x1680 || (0x2000 ≤ n && n ≤ 0x200a) || n == 0x2028 || n == 0x2029 ||
  n == 0x202f || n == 0x205f || n == 0x3000

def digitVal (c : Char) : Nat := c.toNat - '0'.toNat

/-- value of a list of ASCII digits -/
def digitsToNat (cs : List Char) : Nat := cs.foldl (fun acc c => acc * 10 + digitVal c) 0

def takeDigits : List Char → List Char × List Char
  | [] => ([], [])
  | c :: cs => if isDigit c then let (d, r) := takeDigits cs; (c :: d, r) else ([], c :: cs)

def dropSpaces : List Char → List Char
  | [] => []
  | c :: cs => if isSpace c then dropSpaces cs else c :: cs

def stripPrefix? : List Char → List Char → Option (List Char)
  | [], s => some s
  | _ :: _, [] => none
  | p :: ps, c :: cs => if p == c then stripPrefix? ps cs else none

def natToString (n : Nat) : String := toString n

def joinWith (sep : String) : List String → String
  | [] => ""
  | [x] => x
  | x :: xs => x ++ sep ++ joinWith sep xs

def boolStr (b : Bool) : String := if b then "1" else "0"

end Poetry
