/-
Taint-tracking semantics of the marker simplifier, used by C20 to say WHEN the result of `cnf` / `dnf` / `intersection` /
`union` does not depend on the `detect_recursion` stack the calling thread already has.

The block below is the mutual block of Model/MarkerAlg.lean, function by function, with the stack split in two:
`stk` = the frames pushed by THIS top-level call (own frames, treated exactly as in the model) and `frn` = the frames
that were already on the thread's list when the call started (foreign frames).  The only change: a `detect_recursion`
membership test that is answered by a FOREIGN frame (and by no own frame) aborts the whole run with `.error .unmodelled`
— an error no handler of the block catches — instead of raising the `RecursionError` that the enclosing
`except RecursionError` fall-backs would turn into a different normal result.  So a run is *taint-free*
(`≠ .error .unmodelled`) iff the detector was never tripped by a frame of the caller's history.
Proofs/ConcTaint.lean: a taint-free run returns what the model returns with ANY stack between `stk` and `stk ++ frn`.
(`.unmodelled` doubles as the taint mark: inputs on which the model itself is `.unmodelled` are outside every theorem.)

GENERATED from Model/MarkerAlg.lean by the recipe in this comment (rename `f` → `fT`, thread `frn` through, add the two
`else if frn.has … then .error .unmodelled` lines); if that block changes, regenerate — Proofs/ConcTaint.lean re-checks
the correspondence between the two blocks.  Core Lean only.
-/
import PoetryVerif.Model.MarkerAlg

namespace Poetry.Marker

mutual
/-- `a.intersect(b)` (method dispatch) -/
def mIntersectT (fuel : Nat) (stk frn : Stack) (a b : M) : PyM M :=
  match fuel with
  | 0 => .error .fuel
  | fuel + 1 =>
    match a with
    | .any => .ok b
    | .empty => .ok .empty
    | .leaf la =>
      match b with
      | .leaf lb => do
        match ← mergeLeaves la lb true with
        | some r => pure r
        | none => pure (mkMulti [a, b])
      | _ => mIntersectT fuel stk frn b a
    | .multi _ => intersectionFT fuel stk frn [a, b]
    | .union _ => intersectionFT fuel stk frn [a, b]

/-- `a.union(b)` (method dispatch) -/
def mUnionT (fuel : Nat) (stk frn : Stack) (a b : M) : PyM M :=
  match fuel with
  | 0 => .error .fuel
  | fuel + 1 =>
    match a with
    | .any => .ok .any
    | .empty => .ok b
    | .leaf la =>
      match b with
      | .leaf lb => do
        match ← mergeLeaves la lb false with
        | some r => pure r
        | none => pure (mkUnion [a, b])
      | _ => mUnionT fuel stk frn b a
    | .multi _ => unionFT fuel stk frn [a, b]
    | .union _ => unionFT fuel stk frn [a, b]

/-- `intersection(*markers)` with its `detect_recursion` wrapper -/
def intersectionFT (fuel : Nat) (stk frn : Stack) (ms : List M) : PyM M :=
  match fuel with
  | 0 => .error .fuel
  | fuel + 1 =>
    if stk.has false ms then .error .recursion
    else if frn.has false ms then .error .unmodelled
    else
      let stk' : Stack := (false, ms) :: stk
      let unnormalized := unwrapSingleton (ms.length + 2) (mkMulti (ms.filter (fun m => !m.isAny)))
      match dnfT fuel stk' frn unnormalized with
      | .error e => .error e
      | .ok disjunction =>
        match disjunction with
        | .union _ =>
          match cnfT fuel stk' frn disjunction with
          | .error .recursion =>
            (match minByComplexity [disjunction, unnormalized] with
             | some r => .ok r | none => .error .runtime)
          | .error e => .error e
          | .ok conjunction =>
            match conjunction with
            | .multi _ =>
              (match minByComplexity [disjunction, conjunction, unnormalized] with
               | some r => .ok r | none => .error .runtime)
            | c => .ok c
        | d => .ok d

/-- `union(*markers)` with its `detect_recursion` wrapper -/
def unionFT (fuel : Nat) (stk frn : Stack) (ms : List M) : PyM M :=
  match fuel with
  | 0 => .error .fuel
  | fuel + 1 =>
    if stk.has true ms then .error .recursion
    else if frn.has true ms then .error .unmodelled
    else
      let stk' : Stack := (true, ms) :: stk
      let unnormalized := unwrapSingleton (ms.length + 2) (mkUnion (ms.filter (fun m => !m.isEmpty)))
      match cnfT fuel stk' frn unnormalized with
      | .error e => .error e
      | .ok conjunction =>
        match conjunction with
        | .multi _ =>
          match dnfT fuel stk' frn conjunction with
          | .error .recursion =>
            (match minByComplexity [conjunction, unnormalized] with
             | some r => .ok r | none => .error .runtime)
          | .error e => .error e
          | .ok disjunction =>
            match disjunction with
            | .union _ =>
              (match minByComplexity [disjunction, conjunction, unnormalized] with
               | some r => .ok r | none => .error .runtime)
            | d => .ok d
        | c => .ok c

def cnfT (fuel : Nat) (stk frn : Stack) (m : M) : PyM M :=
  match fuel with
  | 0 => .error .fuel
  | fuel + 1 =>
    match m with
    | .union ms => do
      let cs ← mapCnfT fuel stk frn ms
      let lists := cs.map membersIfMulti
      let unions ← mapUnionOfT fuel stk frn (product lists)
      multiOfT fuel stk frn unions
    | .multi ms => do
      let cs ← mapCnfT fuel stk frn ms
      multiOfT fuel stk frn cs
    | m => .ok m

def dnfT (fuel : Nat) (stk frn : Stack) (m : M) : PyM M :=
  match fuel with
  | 0 => .error .fuel
  | fuel + 1 =>
    match m with
    | .multi ms => do
      let ds ← mapDnfT fuel stk frn ms
      let lists := ds.map membersIfUnion
      let multis ← mapMultiOfT fuel stk frn (product lists)
      unionOfT fuel stk frn multis
    | .union ms => do
      let ds ← mapDnfT fuel stk frn ms
      unionOfT fuel stk frn ds
    | m => .ok m

def mapCnfT (fuel : Nat) (stk frn : Stack) : List M → PyM (List M)
  | [] => .ok []
  | m :: ms => do
    let x ← cnfT fuel stk frn m
    let xs ← mapCnfT fuel stk frn ms
    pure (x :: xs)

def mapDnfT (fuel : Nat) (stk frn : Stack) : List M → PyM (List M)
  | [] => .ok []
  | m :: ms => do
    let x ← dnfT fuel stk frn m
    let xs ← mapDnfT fuel stk frn ms
    pure (x :: xs)

def mapUnionOfT (fuel : Nat) (stk frn : Stack) : List (List M) → PyM (List M)
  | [] => .ok []
  | c :: cs => do
    let x ← unionOfT fuel stk frn c
    let xs ← mapUnionOfT fuel stk frn cs
    pure (x :: xs)

def mapMultiOfT (fuel : Nat) (stk frn : Stack) : List (List M) → PyM (List M)
  | [] => .ok []
  | c :: cs => do
    let x ← multiOfT fuel stk frn c
    let xs ← mapMultiOfT fuel stk frn cs
    pure (x :: xs)

/-- `MultiMarker.of(*markers)` -/
def multiOfT (fuel : Nat) (stk frn : Stack) (ms : List M) : PyM M :=
  match fuel with
  | 0 => .error .fuel
  | fuel + 1 => multiOfLoopT fuel stk frn [] (flattenMarkers true ms)

/-- the `while old_markers != new_markers` loop; one iteration = `multiPassT` -/
def multiOfLoopT (fuel : Nat) (stk frn : Stack) (old new : List M) : PyM M :=
  match fuel with
  | 0 => .error .fuel
  | fuel + 1 =>
    if M.beqList old new then
      if new.any M.isEmpty then .ok .empty
      else match new with
        | [] => .ok .any
        | [x] => .ok x
        | _ => .ok (mkMulti new)
    else do
      match ← multiPassT fuel stk frn new [] with
      | none => pure .empty                       -- `return EmptyMarker()` from inside the loop
      | some new' => multiOfLoopT fuel stk frn new new'

/-- `for marker in old_markers:` — `none` = the early `return EmptyMarker()` -/
def multiPassT (fuel : Nat) (stk frn : Stack) (todo : List M) (new : List M) : PyM (Option (List M)) :=
  match fuel with
  | 0 => .error .fuel
  | fuel + 1 =>
    match todo with
    | [] => .ok (some new)
    | marker :: rest =>
      if M.mem marker new then multiPassT fuel stk frn rest new
      else if marker.isAny then multiPassT fuel stk frn rest new
      else do
        match ← multiTryT fuel stk frn marker new 0 new with
        | .inl () => pure none
        | .inr (some new') => multiPassT fuel stk frn rest (flattenMarkers true new')
        | .inr none => multiPassT fuel stk frn rest (new ++ [marker])

/-- `for i, mark in enumerate(new_markers):` — `.inl ()` = return EmptyMarker, `.inr (some l)` =
intersected (the updated list), `.inr none` = not intersected -/
def multiTryT (fuel : Nat) (stk frn : Stack) (marker : M) (all : List M) (i : Nat) (remaining : List M) :
    PyM (Unit ⊕ Option (List M)) :=
  match fuel with
  | 0 => .error .fuel
  | fuel + 1 =>
    match remaining with
    | [] => .ok (.inr none)
    | mark :: more => do
      let (isOneUnion, simp) ←
        match mark, marker with
        | .union us, _ => do let r ← intersectSimplifyT fuel stk frn us marker; pure (true, r)
        | _, .union us => do let r ← intersectSimplifyT fuel stk frn us mark; pure (true, r)
        | _, _ => pure (false, none)
      match simp with
      | some x => pure (.inr (some (setAt all i x)))
      | none =>
        match isOneUnion, mark with
        | false, .leaf _ => do
          let nm ← mIntersectT fuel stk frn mark marker
          if nm.isEmpty then pure (.inl ())
          else match nm with
            | .leaf _ => pure (.inr (some (setAt all i nm)))
            | _ => multiTryT fuel stk frn marker all (i + 1) more
        | _, _ => multiTryT fuel stk frn marker all (i + 1) more

/-- `MarkerUnion.of(*markers)` -/
def unionOfT (fuel : Nat) (stk frn : Stack) (ms : List M) : PyM M :=
  match fuel with
  | 0 => .error .fuel
  | fuel + 1 => unionOfLoopT fuel stk frn [] (flattenMarkers false ms)

def unionOfLoopT (fuel : Nat) (stk frn : Stack) (old new : List M) : PyM M :=
  match fuel with
  | 0 => .error .fuel
  | fuel + 1 =>
    if M.beqList old new then
      if new.any M.isAny then .ok .any
      else match new with
        | [] => .ok .empty
        | [x] => .ok x
        | _ => .ok (mkUnion new)
    else do
      match ← unionPassT fuel stk frn new [] with
      | none => pure .any
      | some new' => unionOfLoopT fuel stk frn new new'

def unionPassT (fuel : Nat) (stk frn : Stack) (todo : List M) (new : List M) : PyM (Option (List M)) :=
  match fuel with
  | 0 => .error .fuel
  | fuel + 1 =>
    match todo with
    | [] => .ok (some new)
    | marker :: rest =>
      if M.mem marker new then unionPassT fuel stk frn rest new
      else if marker.isEmpty then unionPassT fuel stk frn rest new
      else do
        match ← unionTryT fuel stk frn marker new 0 new with
        | .inl () => pure none
        | .inr (some new') => unionPassT fuel stk frn rest (flattenMarkers false new')
        | .inr none => unionPassT fuel stk frn rest (new ++ [marker])

def unionTryT (fuel : Nat) (stk frn : Stack) (marker : M) (all : List M) (i : Nat) (remaining : List M) :
    PyM (Unit ⊕ Option (List M)) :=
  match fuel with
  | 0 => .error .fuel
  | fuel + 1 =>
    match remaining with
    | [] => .ok (.inr none)
    | mark :: more => do
      let (isOneMulti, simp) ←
        match mark, marker with
        | .multi us, _ => do let r ← unionSimplifyT fuel stk frn us marker; pure (true, r)
        | _, .multi us => do let r ← unionSimplifyT fuel stk frn us mark; pure (true, r)
        | _, _ => pure (false, none)
      match simp with
      | some x => pure (.inr (some (setAt all i x)))
      | none =>
        match isOneMulti, mark with
        | false, .leaf _ => do
          let nm ← mUnionT fuel stk frn mark marker
          if nm.isAny then pure (.inl ())
          else match nm with
            | .leaf _ => pure (.inr (some (setAt all i nm)))
            | _ => unionTryT fuel stk frn marker all (i + 1) more
        | _, _ => unionTryT fuel stk frn marker all (i + 1) more

/-- `MarkerUnion(*self_markers).intersect_simplify(other)` -/
def intersectSimplifyT (fuel : Nat) (stk frn : Stack) (ours : List M) (other : M) : PyM (Option M) :=
  match fuel with
  | 0 => .error .fuel
  | fuel + 1 =>
    if M.mem other ours then .ok (some other)
    else
      match other with
      | .union theirs =>
        if isSubset ours theirs then .ok (some (.union ours))
        else if isSubset theirs ours then .ok (some other)
        else if !(ours.any (fun m => M.mem m theirs)) then .ok none
        else do
          let unique := ours.filter (fun m => !M.mem m theirs)
          let otherUnique := theirs.filter (fun m => !M.mem m ours)
          let ui ← mIntersectT fuel stk frn (mkUnion unique) (mkUnion otherUnique)
          let common := ours.filter (fun m => M.mem m theirs)
          match ui with
          | .leaf _ => do let r ← mUnionT fuel stk frn ui (mkUnion common); pure (some r)
          | .empty => do let r ← mUnionT fuel stk frn ui (mkUnion common); pure (some r)
          | _ => pure none
      | _ => .ok none

/-- `MultiMarker(*self_markers).union_simplify(other)` -/
def unionSimplifyT (fuel : Nat) (stk frn : Stack) (ours : List M) (other : M) : PyM (Option M) :=
  match fuel with
  | 0 => .error .fuel
  | fuel + 1 =>
    if M.mem other ours then .ok (some other)
    else
      match other with
      | .multi theirs =>
        if isSubset ours theirs then .ok (some (.multi ours))
        else if isSubset theirs ours then .ok (some other)
        else if !(ours.any (fun m => M.mem m theirs)) then .ok none
        else do
          let unique := ours.filter (fun m => !M.mem m theirs)
          let otherUnique := theirs.filter (fun m => !M.mem m ours)
          let uu ← mUnionT fuel stk frn (mkMulti unique) (mkMulti otherUnique)
          let common := ours.filter (fun m => M.mem m theirs)
          match uu with
          | .leaf _ => do let r ← mIntersectT fuel stk frn uu (mkMulti common); pure (some r)
          | .any => do let r ← mIntersectT fuel stk frn uu (mkMulti common); pure (some r)
          | _ => pure none
      | _ => .ok none
end

/-! ### `parse_marker` called while the thread already has frames on its `detect_recursion` lists
(it is called from inside `_merge_single_markers` / `SingleMarker.invert`, i.e. possibly under `intersection`/`union`) -/

/-- `parse_marker(text)` body with the caller's frames `stk`: the top-level `union(*sub_markers)` sees them -/
def parseMarkerStk (stk : Stack) (text : String) : PyM M :=
  if text == "<empty>" then .ok .empty
  else if text.isEmpty || text == "*" then .ok .any
  else do
    let syn ← parseText text
    let subs ← compactSubMarkers syn
    unionF defaultFuel stk subs

/-- with the `except RecursionError: raise InvalidMarkerError` guard of the public function -/
def parseMarkerTopStk (stk : Stack) (text : String) : PyM M :=
  match parseMarkerStk stk text with
  | .error .recursion => .error .value
  | r => r

/-- taint-tracking run: the caller's frames are foreign -/
def parseMarkerT (frn : Stack) (text : String) : PyM M :=
  if text == "<empty>" then .ok .empty
  else if text.isEmpty || text == "*" then .ok .any
  else do
    let syn ← parseText text
    let subs ← compactSubMarkers syn
    unionFT defaultFuel [] frn subs

theorem parseMarkerStk_nil (text : String) : parseMarkerStk [] text = parseMarker text := rfl
theorem parseMarkerTopStk_nil (text : String) : parseMarkerTopStk [] text = parseMarkerTop text := rfl

end Poetry.Marker
