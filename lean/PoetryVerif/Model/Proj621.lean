/-
Model of the PEP 621 half of `Factory._configure_package_dependencies` (factory.py) followed by
`Metadata.from_package` (masonry/metadata.py): every string of `[project] dependencies` and of
`[project.optional-dependencies].<extra>` becomes one dependency object through `Dependency.create_from_pep_508`
(`_optional = True`, `_in_extras = [canonicalize_name(extra)]` for the latter), `DependencyGroup.add_dependency` APPENDS it
(whatever is already in the group), and `from_package` prints the selected ones in that order.  Core Lean only.
-/
import PoetryVerif.Model.Dep02

namespace Poetry.Proj621
open Poetry Poetry.Marker Poetry.Dep

/-- one string of `[project] dependencies` (`extra = none`) or of `[project.optional-dependencies].<extra>` -/
structure Entry where
  text : String
  extra : Option String
deriving Repr

/-- the table in the order the factory walks it: `dependencies`, then each extra's list in table order -/
def entries (deps : List String) (opt : List (String × List String)) : List Entry :=
  deps.map (fun t => ⟨t, none⟩) ++ opt.flatMap (fun p => p.2.map (fun t => ⟨t, some p.1⟩))

/-- the object `package.requires` holds for the entry -/
def entryDependency (e : Entry) : PyM Dep := do
  let d ← createFromPep508Top e.text
  match e.extra with
  | none => pure d
  | some x => pure { d with optional := true, inExtras := [canonName x] }

/-- the Requires-Dist line of one entry (`none`: no line — only an entry whose marker is empty) -/
def entryLine (e : Entry) : PyM (Option String) := do
  let d ← entryDependency e
  if Dep02.selected d then do pure (some (← d.toPep508)) else pure none

/-- `meta.requires_dist` of a `[project]` table -/
def requiresDist (es : List Entry) : PyM (List String) := do
  let lines ← es.mapM entryLine
  pure (lines.filterMap id)

end Poetry.Proj621
