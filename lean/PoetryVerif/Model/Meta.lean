/-
Model of the core-metadata pipeline (C14), white box:

* `masonry/builders/builder.py : Builder.get_metadata_content`         → `Meta.render`
* `masonry/metadata.py : Metadata.from_package`                        → `Pkg.toMeta`
* `packages/package.py : all_classifiers, urls, _get_author/_get_maintainer`,
  `packages/project_package.py : all_classifiers, urls`, `spdx/license.py : classifier(_name)`
* `factory.py : _configure_package_metadata` (both table styles)        → `configure`
* `utils/helpers.py : readme_content_type`, `utils/patterns.py : AUTHOR_REGEX` (hand recogniser)

Trusted/not modelled (DESIGN §3): tomli, fastjsonschema, the SPDX table (`license_by_id` is a parameter),
`unicodedata.normalize` (inputs are NFC), `format_python_constraint` (PyConv layer; a parameter),
`Dependency.to_pep_508` (Requires-Dist strings are inputs).

Core Lean only.  Text is `List Char` inside; `String` at the record level.
-/
import PoetryVerif.Model.Basic
import PoetryVerif.Model.Generated
import PoetryVerif.Model.Version
import PoetryVerif.Model.VParser
import PoetryVerif.Spec.Rfc822

namespace Poetry.Meta
open Poetry Poetry.Spec

/-! ## Python string primitives used by the rendering code -/

/-- line boundaries of `str.splitlines` other than the `\r\n` pair -/
def isPyLineBreak (c : Char) : Bool :=
  let n := c.toNat
  n = 0x0a || n = 0x0d || n = 0x0b || n = 0x0c || n = 0x1c || n = 0x1d || n = 0x1e || n = 0x85 ||
  n = 0x2028 || n = 0x2029

/-- `text.splitlines(True)` -/
def pySplitLinesKeep (s : List Char) : List (List Char) := Rfc822.linesBy isPyLineBreak s

/-- `textwrap.indent(text, prefix, lambda line: True)` -/
def indentAll (pre : List Char) (s : List Char) : List Char :=
  ((pySplitLinesKeep s).map (pre ++ ·)).flatten

/-- `str.strip()` -/
def pyStrip (s : List Char) : List Char := ((s.dropWhile isSpace).reverse.dropWhile isSpace).reverse

/-- `" " * len(license_field)` -/
def licensePrefix : List Char :=
  (List.replicate Gen.licenseFieldLiteral.length Gen.licenseIndentUnit.toList).flatten

/-- `textwrap.indent(license, " " * len("License: "), lambda line: True).strip()` -/
def licenseValue (l : List Char) : List Char := pyStrip (indentAll licensePrefix l)

/-- `METADATA_BASE.format(name=…, version=…, summary=…)` for templates made of literal text and plain
`{field}` replacement fields (no escapes, no format specs); `none` = template shape not modelled. -/
def fmtAux (env : List Char → Option (List Char)) : List Char → Option (List Char) → Option (List Char)
  | [], none => some []
  | [], some _ => none
  | c :: cs, none =>
    if c = '{' then fmtAux env cs (some [])
    else if c = '}' then none
    else (fmtAux env cs none).map (c :: ·)
  | c :: cs, some acc =>
    if c = '}' then
      match env acc.reverse, fmtAux env cs none with
      | some v, some r => some (v ++ r)
      | _, _ => none
    else if c = '{' then none
    else fmtAux env cs (some (c :: acc))

/-! ## The `Metadata` record and `get_metadata_content` -/

structure Meta where
  name : String
  version : String
  summary : String
  license : Option String
  keywords : String
  author : Option String
  authorEmail : Option String
  maintainer : Option String
  maintainerEmail : Option String
  requiresPython : Option String
  classifiers : List String
  providesExtra : List String
  requiresDist : List String
  projectUrls : List String
  descriptionContentType : Option String
  description : Option String
deriving Repr, DecidableEq, Inhabited

/-- one written header: name and the text put after `": "` -/
abbrev Entry := List Char × List Char

def entryText (e : Entry) : List Char := e.1 ++ [':', ' '] ++ e.2 ++ ['\n']

def formatBase (name version summary : List Char) : Option (List Char) :=
  fmtAux (fun k =>
    if k = "name".toList then some name
    else if k = "version".toList then some version
    else if k = "summary".toList then some summary
    else none) Gen.metadataBase.toList none

/-- lexicographic `≤` by code point: Python's `str` ordering -/
def leChars : List Char → List Char → Bool
  | [], _ => true
  | _ :: _, [] => false
  | a :: as, b :: bs => if a.toNat < b.toNat then true else if b.toNat < a.toNat then false else leChars as bs

def leStr (a b : String) : Bool := leChars a.toList b.toList

/-- `sorted(xs)` for strings -/
def sortStrs (xs : List String) : List String := xs.mergeSort leStr

/-- `sorted(urls, key=lambda u: u[0])`: stable, by the first character only -/
def sortByFirstChar (xs : List String) : List String :=
  xs.mergeSort (fun a b => (a.toList.head?.map Char.toNat).getD 0 ≤ (b.toList.head?.map Char.toNat).getD 0)

/-- `if value:` for `str | None` -/
def truthy : Option String → Option String
  | some s => if s = "" then none else some s
  | none => none

def optEntry (h : String) (v : Option String) : List Entry :=
  match truthy v with
  | some s => [(h.toList, s.toList)]
  | none => []

/-- the statements of `get_metadata_content` after the base block, keyed by the header they write
(the order comes from `Gen.metadataHeaderOrder`, regenerated from source) -/
def fieldEntries (m : Meta) (h : String) : List Entry :=
  if h = "License" then
    match truthy m.license with
    | some l => [(h.toList, licenseValue l.toList)]
    | none => []
  else if h = "Keywords" then optEntry h (some m.keywords)
  else if h = "Author" then optEntry h m.author
  else if h = "Author-email" then optEntry h m.authorEmail
  else if h = "Maintainer" then optEntry h m.maintainer
  else if h = "Maintainer-email" then optEntry h m.maintainerEmail
  else if h = "Requires-Python" then optEntry h m.requiresPython
  else if h = "Classifier" then m.classifiers.map fun c => (h.toList, c.toList)
  else if h = "Provides-Extra" then (sortStrs m.providesExtra).map fun c => (h.toList, c.toList)
  else if h = "Requires-Dist" then (sortStrs m.requiresDist).map fun c => (h.toList, c.toList)
  else if h = "Project-URL" then (sortByFirstChar m.projectUrls).map fun c => (h.toList, c.toList)
  else if h = "Description-Content-Type" then optEntry h m.descriptionContentType
  else [(h.toList, "<header not modelled>".toList)]

def optionalEntries (m : Meta) : List Entry := Gen.metadataHeaderOrder.flatMap (fieldEntries m)

/-- `if self._meta.description is not None: content += f"\n{description}\n"` -/
def descriptionTail (d : Option String) : List Char :=
  match d with
  | some d => '\n' :: d.toList ++ ['\n']
  | none => []

def renderChars (m : Meta) : List Char :=
  (match formatBase m.name.toList m.version.toList m.summary.toList with
   | some b => b
   | none => "<METADATA_BASE template not modelled>\n".toList) ++
  ((optionalEntries m).map entryText).flatten ++ descriptionTail m.description

/-- `Builder.get_metadata_content()` -/
def render (m : Meta) : String := String.ofList (renderChars m)

/-! ## Licence classifier (`spdx/license.py`) -/

structure License where
  id : String
  name : String
  isOsiApproved : Bool
  isDeprecated : Bool
deriving Repr, DecidableEq, Inhabited

def License.classifierName (l : License) : Option String :=
  if ¬ Gen.licenseClassifierSupported.contains l.id then
    if l.isOsiApproved then none else some (Gen.licenseClassifierParts.getD 3 "")
  else match Gen.licenseClassifierNames.lookup l.id with
    | some n => some n
    | none => some l.name

def License.classifier (l : License) : String :=
  let parts := [Gen.licenseClassifierParts.getD 0 ""] ++
    (if l.isOsiApproved then [Gen.licenseClassifierParts.getD 1 ""] else []) ++
    (match l.classifierName with | some n => [n] | none => [])
  joinWith (Gen.licenseClassifierParts.getD 2 "") parts

/-! ## `Package.all_classifiers` -/

/-- `tuple(map(int, x.split(".")))` for the entries of AVAILABLE_PYTHONS -/
def pyVersionKey (s : String) : List Nat := (s.splitOn ".").map fun p => digitsToNat p.toList

def leNatList : List Nat → List Nat → Bool
  | [], _ => true
  | _ :: _, [] => false
  | a :: as, b :: bs => if a < b then true else if b < a then false else leNatList as bs

/-- `sorted(self.AVAILABLE_PYTHONS, key=…)` -/
def availablePythonsSorted : List String :=
  Gen.availablePythons.mergeSort (fun a b => leNatList (pyVersionKey a) (pyVersionKey b))

/-- the constraint each available Python stands for: `parse_constraint(v + ".*")` when `len(v) == 1`,
else `Version.parse(v)` -/
def pythonTarget (v : String) : PyM VC :=
  if v.length = 1 then VParser.parseConstraint (v ++ ".*")
  else (Version.parse v).map VC.ofVersion

def pythonClassifierOf (v : String) : String := Gen.pythonClassifierPrefix ++ " :: " ++ v

/-- the `for version in sorted(AVAILABLE_PYTHONS …)` loop -/
def pythonClassifiersLoop (pc : VC) : List String → List String → PyM (List String)
  | [], acc => .ok acc
  | v :: vs, acc => do
    let t ← pythonTarget v
    let any ← pc.allowsAny t
    if any then
      let c := pythonClassifierOf v
      if acc.contains c then pythonClassifiersLoop pc vs acc else pythonClassifiersLoop pc vs (acc ++ [c])
    else pythonClassifiersLoop pc vs acc

def pythonClassifiers (pc : VC) : PyM (List String) := pythonClassifiersLoop pc availablePythonsSorted []

/-- `set(classifiers) - set(python_classifiers)`, as a duplicate-free list -/
def setMinus (xs ys : List String) : List String := (xs.filter (fun x => !ys.contains x)).eraseDups

/-- the insertion loop over `sorted(set(classifiers) - set(python_classifiers))` -/
def insertPython (py : List String) : List String → Bool → List String
  | [], inserted => if inserted then [] else py
  | c :: cs, inserted =>
    if !inserted && !leStr c Gen.pythonClassifierPrefix then py ++ c :: insertPython py cs true
    else c :: insertPython py cs inserted

/-- `Package.all_classifiers` given the declared classifiers, the python classifiers and the licence -/
def allClassifiersFrom (declared : List String) (py : List String) (lic : Option License) : List String :=
  let classifiers := declared ++ (match lic with | some l => [l.classifier] | none => [])
  insertPython py (sortStrs (setMinus classifiers py)) false

/-! ## Authors (`AUTHOR_REGEX`, `_get_author`) -/

/-- the recogniser below was written for exactly this pattern; if the source changes, this fails to build -/
theorem authorRegex_is_the_modelled_one :
    Gen.authorRegexPattern = "(?u)^(?P<name>[^<>]+)(?: <(?P<email>.+?)>)?$" := by decide

def notAngle (c : Char) : Bool := c ≠ '<' && c ≠ '>'

/-- `AUTHOR_REGEX.match(s)` → `(name, email)`; `none` = no match.
`[^<>]+` is greedy and may contain line breaks; the e-mail group needs `" <"` right after the name, a
non-empty e-mail without `\n`, and `>` at the end of the string or before a final `\n` (`$`). -/
def authorMatch (s : List Char) : Option (List Char × Option (List Char)) :=
  let p := s.takeWhile notAngle
  let r := s.dropWhile notAngle
  if p.isEmpty then none
  else match r with
    | [] => some (s, none)
    | '<' :: rest =>
      if p.length ≥ 2 && p.getLast? = some ' ' then
        let name := p.dropLast
        let e? : Option (List Char) :=
          match rest.reverse with
          | '>' :: e => some e.reverse
          | '\n' :: '>' :: e => some e.reverse
          | _ => none
        match e? with
        | some e => if e.isEmpty || e.contains '\n' then none else some (name, some e)
        | none => none
      else none
    | _ => none

/-- `_get_author()` / `_get_maintainer()`: first entry only -/
def firstPerson (xs : List String) : PyM (Option String × Option String) :=
  match xs with
  | [] => .ok (none, none)
  | x :: _ =>
    match authorMatch x.toList with
    | none => .error .value
    | some (n, e) => .ok (some (String.ofList n), e.map String.ofList)

/-! ## `readme_content_type` -/

/-- `Path(path).suffix` (3.12) for a `/`-separated path -/
def pathSuffix (p : String) : String :=
  let name := ((p.splitOn "/").filter (· ≠ "")).getLast?.getD ""
  let cs := name.toList
  let afterLastDot := (cs.reverse.takeWhile (· ≠ '.')).reverse
  if cs.contains '.' then
    let i := cs.length - afterLastDot.length - 1   -- index of the last dot
    if 0 < i && i < cs.length - 1 then String.ofList ('.' :: afterLastDot) else ""
  else ""

def contentTypeOfPath (p : String) : String :=
  match Gen.readmeContentTypes.lookup (pathSuffix p) with
  | some t => t
  | none => Gen.readmeContentTypeDefault

/-! ## The package as configured by `Factory._configure_package_metadata` -/

/-- the fields of `ProjectPackage` that metadata depends on -/
structure Pkg where
  prettyName : String
  version : String                -- as declared
  authors : List String
  maintainers : List String
  description : String
  license : Option License
  requiresPython : String         -- "*" when absent
  pythonVersions : String         -- "*" when absent
  keywords : List String
  classifiers : List String
  dynamicClassifiers : Bool
  homepage : Option String
  repositoryUrl : Option String
  documentationUrl : Option String
  customUrls : List (String × String)
  readmeContent : Option String
  readmeContentType : Option String
  readmes : List String           -- paths
  extras : List String            -- canonical names, insertion order
  requiresDist : List String      -- `to_pep_508()` of the kept main dependencies
deriving Repr, DecidableEq, Inhabited

/-- `dict` insertion/update on an association list -/
def dictSet (d : List (String × String)) (k v : String) : List (String × String) :=
  if d.any (·.1 = k) then d.map (fun kv => if kv.1 = k then (k, v) else kv) else d ++ [(k, v)]

def optTruthy (o : Option String) : Bool := (truthy o).isSome

/-- `ProjectPackage.urls` -/
def Pkg.urls (p : Pkg) : List (String × String) :=
  let base : List (String × String) :=
    (match truthy p.homepage with | some u => [(Gen.urlLabels.getD 0 "", u)] | none => []) ++
    (match truthy p.repositoryUrl with | some u => [(Gen.urlLabels.getD 1 "", u)] | none => []) ++
    (match truthy p.documentationUrl with | some u => [(Gen.urlLabels.getD 2 "", u)] | none => [])
  p.customUrls.foldl (fun d kv => dictSet d kv.1 kv.2) base

/-- the python constraint `all_classifiers` uses -/
def Pkg.classifierPython (p : Pkg) : PyM VC :=
  if p.pythonVersions = "*" then VParser.parseConstraint Gen.classifierDefaultPython
  else VParser.parseConstraint p.pythonVersions

/-- `ProjectPackage.all_classifiers` -/
def Pkg.allClassifiers (p : Pkg) : PyM (List String) :=
  if p.dynamicClassifiers then do
    let pc ← p.classifierPython
    let py ← pythonClassifiers pc
    pure (allClassifiersFrom p.classifiers py p.license)
  else .ok p.classifiers

/-- `Metadata.from_package`.  `readmeTexts` = contents of `package.readmes` (read by the harness);
`formatPython` = `format_python_constraint(package.python_constraint)` (PyConv layer). -/
def Pkg.toMeta (p : Pkg) (readmeTexts : List String) (formatPython : String) : PyM Meta := do
  let v ← Version.parse p.version
  let description : Option String :=
    match truthy p.readmeContent with
    | some c => some c
    | none => if p.readmes.isEmpty then none else some (joinWith "\n" readmeTexts)
  let (an, ae) ← firstPerson p.authors
  let classifiers ← p.allClassifiers
  let (mn, me) ← firstPerson p.maintainers
  let requiresPython : Option String :=
    if p.requiresPython ≠ "*" then some p.requiresPython
    else if p.pythonVersions ≠ "*" then some formatPython
    else none
  let ctype : Option String :=
    match truthy p.readmeContentType with
    | some t => some t
    | none => match p.readmes with
      | r :: _ => some (contentTypeOfPath r)
      | [] => none
  pure {
    name := p.prettyName, version := v.toString, summary := p.description,
    description := description, keywords := joinWith "," p.keywords,
    author := an, authorEmail := ae,
    license := p.license.map (·.id), classifiers := classifiers,
    maintainer := mn, maintainerEmail := me,
    requiresPython := requiresPython, requiresDist := p.requiresDist,
    descriptionContentType := ctype, providesExtra := p.extras,
    projectUrls := p.urls.map fun kv => kv.1 ++ ", " ++ kv.2 }

/-! ## Both table styles (`Factory._configure_package_metadata`) -/

structure Person where
  name : Option String
  email : Option String
deriving Repr, DecidableEq, Inhabited

inductive ProjLicense where
  | str (s : String)
  | table (text : Option String) (fileContent : Option String)
deriving Repr, DecidableEq, Inhabited

inductive ProjReadme where
  | path (p : String)
  | file (p : String) (ctype : String)
  | text (t : String) (ctype : String)
deriving Repr, DecidableEq, Inhabited

/-- one dependency specification table of `[tool.poetry.dependencies]`, as far as validation looks at it:
its string-valued items and its `extras` list -/
structure DepSpec where
  kvs : List (String × String) := []
  extras : List String := []
deriving Repr, DecidableEq, Inhabited

/-- `[project]` (every key optional here; `name`/`version` requirements are validation's) -/
structure ProjectT where
  name : Option String := none
  version : Option String := none
  description : Option String := none
  authors : List Person := []
  maintainers : List Person := []
  license : Option ProjLicense := none
  requiresPython : Option String := none
  keywords : List String := []
  classifiers : List String := []
  urls : List (String × String) := []
  readme : Option ProjReadme := none
  /-- keys of `[project.optional-dependencies]` as written (validation only; the canonical names are an input of `configure`) -/
  optionalDependencyNames : List String := []
deriving Repr, DecidableEq, Inhabited

/-- `[tool.poetry]` metadata keys -/
structure ToolT where
  name : Option String := none
  version : Option String := none
  description : Option String := none
  authors : List String := []
  maintainers : List String := []
  license : Option String := none
  python : Option String := none        -- dependencies.python (a string constraint)
  keywords : List String := []
  classifiers : List String := []
  homepage : Option String := none
  repository : Option String := none
  documentation : Option String := none
  urls : Option (List (String × String)) := none
  readmes : List String := []           -- `readme` as a string or list
  /-- keys of `[tool.poetry.extras]` as written (validation only) -/
  extraNames : List String := []
  /-- `[tool.poetry.dependencies]`: name ↦ its specification tables (validation only; a plain string constraint is an empty spec) -/
  dependencies : List (String × List DepSpec) := []
deriving Repr, DecidableEq, Inhabited

/-- `f"{name} <{email}>"` / name / email of a `[project]` author entry -/
def Person.text (p : Person) : String :=
  match truthy p.name, truthy p.email with
  | some n, some e => n ++ " <" ++ e ++ ">"
  | some n, none => n
  | none, _ => p.email.getD ""

def lowerAscii (s : String) : String := String.ofList (s.toList.map lowerChar)

structure UrlAcc where
  homepage : Option String := none
  repository : Option String := none
  documentation : Option String := none
  custom : List (String × String) := []

/-- `[project].readme.text` is stored verbatim (`package.readme_content = readme["text"]`).
`readmeTextAsStored` (what the real `package.readme_content` holds) is kept in the signature for the driver
protocol but no longer used: before the fix the text was joined to the project root as a path. -/
def configure (proj : ProjectT) (tool : ToolT) (spdx : String → Option License)
    (_readmeTextAsStored : Option String) (extras requiresDist : List String) : Pkg :=
  let authors := if proj.authors.isEmpty then tool.authors else proj.authors.map Person.text
  let maintainers := if proj.maintainers.isEmpty then tool.maintainers else proj.maintainers.map Person.text
  let description := match truthy proj.description with | some d => d | none => tool.description.getD ""
  let projLicTruthy : Option ProjLicense :=
    match proj.license with
    | some (.str s) => if s = "" then none else some (.str s)
    | some (.table none none) => none          -- `{}` is falsy (the schema does not allow it anyway)
    | other => other
  let rawLicense : String :=
    match projLicTruthy with
    | some (.str s) => s
    | some (.table t f) => (match truthy t with | some x => x | none => (f.getD ""))
    | none => tool.license.getD ""
  let license := if rawLicense = "" then none else spdx rawLicense
  let requiresPython := proj.requiresPython.getD "*"
  let keywords := if proj.keywords.isEmpty then tool.keywords else proj.keywords
  let classifiers := if proj.classifiers.isEmpty then tool.classifiers else proj.classifiers
  let urlAcc : UrlAcc :=
    if proj.urls.isEmpty then
      { homepage := tool.homepage, repository := tool.repository, documentation := tool.documentation,
        custom := tool.urls.getD [] }
    else
      proj.urls.foldl (fun (a : UrlAcc) kv =>
        let l := lowerAscii kv.1
        if l = "homepage" then { a with homepage := some kv.2 }
        else if l = "repository" then { a with repository := some kv.2 }
        else if l = "documentation" then { a with documentation := some kv.2 }
        else { a with custom := dictSet a.custom kv.1 kv.2 }) {}
  let (readmes, rct, rcontent) : List String × Option String × Option String :=
    match proj.readme with
    | some (.path p) => if p = "" then (tool.readmes.filter (· ≠ ""), none, none) else ([p], none, none)
    | some (.file p ct) => ([p], some ct, none)
    | some (.text t ct) => ([], some ct, some t)
    | none => (tool.readmes.filter (· ≠ ""), none, none)
  -- `_configure_package_dependencies`: tool.poetry.dependencies.python sets python_versions (after
  -- requires_python, whose setter also sets python_versions)
  let pythonVersions := match tool.python with | some p => p | none => requiresPython
  { prettyName := (match truthy proj.name with | some n => n | none => tool.name.getD "non-package-mode"),
    version := (match truthy proj.version with | some v => v | none => tool.version.getD "0"),
    authors := authors, maintainers := maintainers, description := description, license := license,
    requiresPython := requiresPython, pythonVersions := pythonVersions, keywords := keywords,
    classifiers := classifiers, dynamicClassifiers := proj.classifiers.isEmpty,
    homepage := urlAcc.homepage, repositoryUrl := urlAcc.repository, documentationUrl := urlAcc.documentation,
    customUrls := urlAcc.custom, readmeContent := rcontent, readmeContentType := rct, readmes := readmes,
    extras := extras, requiresDist := requiresDist }

/-! ## the schema format `uri` ([tool.poetry] homepage / repository / documentation) -/

/-- the recogniser below was written for exactly this pattern of the vendored fastjsonschema, and the schema puts the
format on exactly these [tool.poetry] keys; if either changes, this fails to build -/
theorem uriFormat_is_the_modelled_one :
    Gen.uriFormatRegex = "^\\w+:(\\/?\\/?)[^\\s]+\\Z" ∧ Gen.toolUriKeys = ["documentation", "homepage", "repository"] := by decide

/-- `\w` on ASCII (the scheme part; non-ASCII word characters are outside the model) -/
def isWordAscii (c : Char) : Bool := isDigit c || isLowerAlpha c || ('A' ≤ c && c ≤ 'Z') || c = '_'

/-- `re.search(r"^\w+:(\/?\/?)[^\s]+\Z", s)`: a non-empty run of word characters, a colon (it ends the run: `:` is not
a word character), then at least one character, none of them white space (the optional slashes are not white space,
so the group does not matter) -/
def uriFormatMatch (s : List Char) : Bool :=
  !(s.takeWhile isWordAscii).isEmpty &&
  (match s.dropWhile isWordAscii with
   | ':' :: rest => !rest.isEmpty && rest.all (fun c => !isSpace c)
   | _ => false)

/-! ## `packaging.utils.canonicalize_name` (names of extras, PEP 685) -/

def isNameSep (c : Char) : Bool := c = '-' || c = '_' || c = '.'

/-- `re.sub(r"[-_.]+", "-", name)`: every run of separators becomes one `-` (`prev` = the previous character was a separator) -/
def collapseSeps : Bool → List Char → List Char
  | _, [] => []
  | prev, c :: cs =>
    if isNameSep c then (if prev then collapseSeps true cs else '-' :: collapseSeps true cs)
    else c :: collapseSeps false cs

/-- `canonicalize_name(name)` = `re.sub(r"[-_.]+", "-", name).lower()` (ASCII lower-casing, as everywhere in the models) -/
def canonicalizeName (s : String) : String := String.ofList ((collapseSeps false s.toList).map lowerChar)

/-! ## `Factory._validate_single_line_fields` (the validation that keeps single-line headers on one line) -/

/-- `"\n" in value or "\r" in value` (characters from source) -/
def hasLineBreak (s : String) : Bool := s.toList.any fun c => Gen.singleLineBreakChars.contains c

/-- an element of a list-valued key: a string, or a table whose items are (sub-key, value) -/
inductive VItem where
  | str (s : String)
  | dict (kvs : List (String × String))
deriving Repr, DecidableEq, Inhabited

/-- `table.get(key)` for the scalar keys the validator may ask for; outer `none` = key not modelled -/
def ProjectT.scalar (p : ProjectT) (k : String) : Option (Option String) :=
  if k = "name" then some p.name else if k = "description" then some p.description
  else if k = "version" then some p.version else if k = "requires-python" then some p.requiresPython else none

def ToolT.scalar (t : ToolT) (k : String) : Option (Option String) :=
  if k = "name" then some t.name else if k = "description" then some t.description
  else if k = "version" then some t.version else if k = "license" then some t.license
  else if k = "homepage" then some t.homepage else if k = "repository" then some t.repository
  else if k = "documentation" then some t.documentation
  else if k = "requires-python" then some none      -- not a key of [tool.poetry]: `table.get` gives None
  else none

def Person.items (p : Person) : VItem :=
  .dict ((match p.name with | some n => [("name", n)] | none => []) ++ (match p.email with | some e => [("email", e)] | none => []))

def ProjectT.listItems (p : ProjectT) (k : String) : Option (List VItem) :=
  if k = "keywords" then some (p.keywords.map .str) else if k = "classifiers" then some (p.classifiers.map .str)
  else if k = "authors" then some (p.authors.map Person.items) else if k = "maintainers" then some (p.maintainers.map Person.items)
  else none

def ToolT.listItems (t : ToolT) (k : String) : Option (List VItem) :=
  if k = "keywords" then some (t.keywords.map .str) else if k = "classifiers" then some (t.classifiers.map .str)
  else if k = "authors" then some (t.authors.map .str) else if k = "maintainers" then some (t.maintainers.map .str)
  else none

/-- the `fields` list built by the validator: (field path, value) -/
def itemFields (k : String) : Nat → List VItem → List (String × String)
  | _, [] => []
  | i, .str s :: rest => (k ++ "[" ++ toString i ++ "]", s) :: itemFields k (i + 1) rest
  | i, .dict kvs :: rest =>
    kvs.map (fun kv => (k ++ "[" ++ toString i ++ "]." ++ kv.1, kv.2)) ++ itemFields k (i + 1) rest

def urlFields (urls : List (String × String)) : List (String × String) :=
  urls.flatMap fun kv => [("urls", kv.1), ("urls." ++ kv.1, kv.2)]

def validatorFields (scalar : String → Option (Option String)) (items : String → Option (List VItem))
    (urls : List (String × String)) (readmeCt : Option String) : List (String × String) :=
  (Gen.singleLineScalarKeys.flatMap fun k =>
    match scalar k with
    | some (some v) => [(k, v)]
    | some none => []
    | none => [(k, "<key not modelled>\n")]) ++
  (Gen.singleLineListKeys.flatMap fun k =>
    match items k with
    | some xs => itemFields k 0 xs
    | none => [(k, "<key not modelled>\n")]) ++
  urlFields urls ++
  (match readmeCt with | some ct => [("readme.content-type", ct)] | none => [])

def ProjectT.validatorFields (p : ProjectT) : List (String × String) :=
  Meta.validatorFields p.scalar p.listItems p.urls
    (match p.readme with | some (.file _ ct) => some ct | some (.text _ ct) => some ct | _ => none)

def ToolT.validatorFields (t : ToolT) : List (String × String) :=
  Meta.validatorFields t.scalar t.listItems (t.urls.getD []) none

/-- `Factory._validate_single_line_fields(location, table)` -/
def singleLineErrors (location : String) (fields : List (String × String)) : List String :=
  (fields.filter fun fv => hasLineBreak fv.2).map fun fv => location ++ "." ++ fv.1 ++ Gen.singleLineMessage

/-- the errors for the metadata keys proper (name … readme content-type) -/
def validateSingleLineCore (proj : ProjectT) (tool : ToolT) : List String :=
  Gen.singleLineLocations.flatMap fun loc =>
    if loc = "project" then singleLineErrors loc proj.validatorFields
    else if loc = "tool.poetry" then singleLineErrors loc tool.validatorFields
    else [loc ++ ": <location not modelled>"]

/-- the names of extras: `for key in (…): fields += [(key, name) for name in table[key]]` (absent in sources where
`Gen.singleLineNameKeys` is empty) -/
def nameFields (names : String → List String) : List (String × String) :=
  Gen.singleLineNameKeys.flatMap fun k => (names k).map fun n => (k, n)

/-- `[tool.poetry.dependencies]`: the name and, per specification table, the listed string keys and the extras
(absent in sources where `Gen.singleLineDependencyKeys` is empty) -/
def dependencyFields (deps : List (String × List DepSpec)) : List (String × String) :=
  if Gen.singleLineDependencyKeys.isEmpty then []
  else deps.flatMap fun d =>
    ("dependencies", d.1) :: d.2.flatMap fun spec =>
      (Gen.singleLineDependencyKeys.filterMap fun k => (spec.kvs.lookup k).map fun v => ("dependencies." ++ d.1 ++ "." ++ k, v)) ++
      spec.extras.map fun e => ("dependencies." ++ d.1 ++ ".extras", e)

def ProjectT.validatorFieldsAll (p : ProjectT) : List (String × String) :=
  p.validatorFields ++ nameFields (fun k => if k = "optional-dependencies" then p.optionalDependencyNames else [])

def ToolT.validatorFieldsAll (t : ToolT) : List (String × String) :=
  t.validatorFields ++ nameFields (fun k => if k = "extras" then t.extraNames else []) ++ dependencyFields t.dependencies

/-- the errors `Factory.validate` adds for both tables (`_validate_single_line_fields`) -/
def validateSingleLine (proj : ProjectT) (tool : ToolT) : List String :=
  Gen.singleLineLocations.flatMap fun loc =>
    if loc = "project" then singleLineErrors loc proj.validatorFieldsAll
    else if loc = "tool.poetry" then singleLineErrors loc tool.validatorFieldsAll
    else [loc ++ ": <location not modelled>"]

end Poetry.Meta
