/-
`git ls-files --others -i --exclude-standard` over a file tree with per-directory `.gitignore` files — the reference the
VCS-ignored list of `Git.get_ignored_files` is compared with (C09 stream `ignored-model`).  gitignore(5) for the pattern
forms projects use: blank lines and `#` comments, `!` negation, a trailing `/` (directories only), a leading or inner
`/` (anchored at the directory of the `.gitignore`), otherwise the pattern is matched against the last component at
any depth; `*`, `?`, `[...]` inside one component (fnmatch) and `**` as a whole component; the last matching line of the
deepest `.gitignore` decides; below an excluded directory everything is ignored (git does not descend, so nothing can
be re-included there).  Not modelled: backslash escapes, trailing-space rules, `.git/info/exclude`, global excludes
(the harness runs git with empty global/system configuration), tracked files (the generator tracks only files that are
not ignored).  Core Lean only.
-/
import PoetryVerif.Model.Select

namespace Poetry.GitIgnore
open Poetry Poetry.Select

structure Line where
  negated : Bool
  dirOnly : Bool
  anchored : Bool
  segs : List String
deriving Repr, DecidableEq, Inhabited

def dropTrailingSpaces (cs : List Char) : List Char := (cs.reverse.dropWhile (· == ' ')).reverse

/-- one line of a `.gitignore`; `none` for blank lines and comments -/
def parseLine (s : String) : Option Line :=
  let cs := dropTrailingSpaces (s.toList.filter (· != '\r'))
  match cs with
  | [] => none
  | '#' :: _ => none
  | _ =>
    let (neg, cs) := match cs with | '!' :: r => (true, r) | r => (false, r)
    let (dirOnly, cs) := match cs.reverse with | '/' :: r => (true, r.reverse) | _ => (false, cs)
    let (lead, cs) := match cs with | '/' :: r => (true, r) | r => (false, r)
    if cs.isEmpty then none
    else
      let segs := (splitChars '/' cs).map String.ofList
      some { negated := neg, dirOnly := dirOnly, anchored := lead || segs.length > 1, segs := segs }

def parseFile (text : String) : List Line :=
  ((splitChars '\n' text.toList).map String.ofList).filterMap parseLine

/-- anchored patterns: component by component, `**` = any number of components -/
def segsMatch : List String → Path → Bool
  | [], rel => rel.isEmpty
  | p :: rest, rel =>
    if p == "**" then anySuffix (segsMatch rest) rel
    else match rel with
      | [] => false
      | c :: cs => fnmatch p c && segsMatch rest cs

/-- does the line match the path `rel` (relative to the directory of its `.gitignore`) of kind `isDir`? -/
def Line.hits (l : Line) (rel : Path) (isDir : Bool) : Bool :=
  (!l.dirOnly || isDir) &&
  (if l.anchored then segsMatch l.segs rel
   else match l.segs, rel.getLast? with
     | [p], some c => fnmatch p c
     | _, _ => false)

/-- a `.gitignore`: the directory it lies in (relative to the work tree) and its lines -/
structure IgnFile where
  dir : Path
  lines : List Line
deriving Repr, Inhabited

/-- the verdict of one file on `q`: that of its last matching line -/
def IgnFile.verdict (f : IgnFile) (q : Path) (isDir : Bool) : Option Bool :=
  match stripBase f.dir q with
  | some rel =>
    if rel.isEmpty then none
    else (f.lines.reverse.find? fun l => l.hits rel isDir).map fun l => !l.negated
  | none => none

/-- is `q` excluded?  The `.gitignore` files are consulted from the deepest directory upwards; the first one with a
matching line decides. -/
def excluded (files : List IgnFile) (q : Path) (isDir : Bool) : Bool :=
  let ordered := isort (fun a b : IgnFile => a.dir.length ≥ b.dir.length) files
  match ordered.findSome? fun f => f.verdict q isDir with
  | some v => v
  | none => false

/-- a file is ignored when it, or one of the directories above it, is excluded -/
def ignoredFile (files : List IgnFile) (p : Path) : Bool :=
  (List.range p.length).any fun k => excluded files (p.take (k + 1)) (decide (k + 1 < p.length))

/-- the listing `git ls-files --others -i --exclude-standard` prints for an untracked tree -/
def ignoredListing (files : List IgnFile) (T : Tree) : List Path :=
  (T.filter fun e => !e.isDir && e.path.head? != some ".git" && ignoredFile files e.path).map (·.path)

end Poetry.GitIgnore
