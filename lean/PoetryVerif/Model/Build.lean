/-
Model of the build back end (masonry/builders/{wheel,sdist,builder}.py, masonry/utils/helpers.py):

(a) the wheel record state machine      `_add_file`, `_write_to_zip`, `_write_record`
(b) names                               `canonicalize_name`, `distribution_name`, `dist_info`, `wheel_data_folder`,
                                        `wheel_filename`, `tag`, sdist file / directory name
(c) timestamps and tar metadata         `_zipfile_date_time`, `_archive_mtime`, `clean_tarinfo`
(d) ordering and the build plan         `_build`/`_copy_module`/`_add_pth`/`_copy_file_scripts`/`_copy_dist_info`/`_write_record`,
                                        `SdistBuilder.build`

Core Lean only.  sha256 is uninterpreted: every content is represented by the pair (digest, size) the environment
supplies; the byte encoders (zip/deflate, tar/PAX, gzip), `time.gmtime`, `int()` on non-ASCII input, `pathlib.glob`
and the file system are trusted/modelled runtime (see Props/C01, Props/C08 headers).
-/
import PoetryVerif.Model.Basic
import PoetryVerif.Model.Generated
import PoetryVerif.Model.Select

namespace Poetry.Build

/-! ## (a) wheel record state machine -/

/-- one archive member as `zipfile` is asked to write it -/
structure Member where
  path : String
  /-- `ZipInfo.external_attr` -/
  extAttr : Nat
  /-- urlsafe-b64 sha256 of the bytes written (uninterpreted) -/
  digest : String
  size : Nat
deriving DecidableEq, Repr, Inhabited

/-- an element of `WheelBuilder._records` -/
abbrev Rec := String × String × Nat

def Member.row (m : Member) : Rec := (m.path, m.digest, m.size)

/-- Unix permission part of the member (what `external_attr >> 16` gives back) -/
def Member.mode (m : Member) : Nat := m.extAttr >>> 16

structure St where
  members : List Member := []
  records : List Rec := []
deriving Repr, Inhabited

inductive Op where
  /-- `_add_file(wheel, full_path, rel_path)`: `path = rel_path.as_posix()`, `stMode = full_path.stat().st_mode`,
  `(digest, size)` = the file's bytes -/
  | addFile (path : String) (stMode : Nat) (digest : String) (size : Nat)
  /-- `with _write_to_zip(wheel, rel_path) as f: f.write(text)`: `(digest, size)` = `text.encode("utf-8")` -/
  | writeToZip (path : String) (digest : String) (size : Nat)
deriving DecidableEq, Repr, Inhabited

def Op.target : Op → String
  | .addFile p _ _ _ => p
  | .writeToZip p _ _ => p

/-- `stat.S_ISDIR` -/
def sIsDir (m : Nat) : Bool := (m &&& 0o170000) == 0o040000

/-- `zinfo.external_attr` as `_add_file` sets it -/
def addFileAttr (stMode : Nat) : Nat :=
  let a := ((Gen.normalizeFilePermissions stMode) &&& Gen.wheelAttrMask) <<< Gen.wheelAttrShift
  if sIsDir stMode then a ||| Gen.wheelDirFlag else a

/-- `zi.external_attr` as `_write_to_zip` sets it -/
def writeAttr : Nat := (Gen.wheelWriteMode &&& Gen.wheelWriteMask) <<< Gen.wheelWriteShift

def step (s : St) : Op → St
  | .addFile p m d n =>
    { members := s.members ++ [⟨p, addFileAttr m, d, n⟩], records := s.records ++ [(p, d, n)] }
  | .writeToZip p d n =>
    { members := s.members ++ [⟨p, writeAttr, d, n⟩], records := s.records ++ [(p, d, n)] }

def run (s : St) (ops : List Op) : St := ops.foldl step s

/-! `step` / `run` above are the *bookkeeping* of the two writers.  Since repo fix a8f41e9 both writers first call
`_check_not_written(wheel, rel_path)`: a name already in `wheel.NameToInfo` raises RuntimeError.  The writers as they
are: -/

/-- `_add_file` / `_write_to_zip` with their guard -/
def stepC (s : St) (o : Op) : PyM St :=
  if (s.members.map (·.path)).contains o.target then .error .runtime else .ok (step s o)

/-- a sequence of writer calls; stops at the first refused name -/
def runC : St → List Op → PyM St
  | s, [] => .ok s
  | s, o :: os =>
    match stepC s o with
    | .ok s' => runC s' os
    | .error e => .error e

/-! ### RECORD text: `csv.writer(delimiter=",", quotechar='"', lineterminator="\n")`, QUOTE_MINIMAL -/

def csvSpecial (c : Char) : Bool := c == ',' || c == '"' || c == '\n'

def csvEscape : List Char → List Char
  | [] => []
  | c :: cs => if c == '"' then '"' :: '"' :: csvEscape cs else c :: csvEscape cs

def csvField (s : String) : String :=
  let cs := s.toList
  if cs.any csvSpecial then String.ofList ('"' :: csvEscape cs ++ ['"']) else s

def csvLine (fields : List String) : String := joinWith "," (fields.map csvField) ++ "\n"

/-! #### reading RECORD back: `csv.reader` (excel dialect, non-strict) as a state machine over the text -/

/-- reader states of a `csv.reader` (excel dialect, non-strict) -/
inductive CsvSt where
  | start | unq | quo | qq
deriving DecidableEq, Repr

/-- `csv.reader` over the whole text: `cur` = field so far (reversed), `row` = fields so far (reversed),
`acc` = rows so far (reversed) -/
def csvGo : CsvSt → List Char → List (List Char) → List (List (List Char)) → List Char → List (List (List Char))
  | st, cur, row, acc, [] =>
    if st == .start && row.isEmpty && cur.isEmpty then acc.reverse else ((cur.reverse :: row).reverse :: acc).reverse
  | .start, cur, row, acc, c :: cs =>
    if c == '"' then csvGo .quo cur row acc cs
    else if c == ',' then csvGo .start [] (cur.reverse :: row) acc cs
    else if c == '\n' then csvGo .start [] [] ((cur.reverse :: row).reverse :: acc) cs
    else csvGo .unq (c :: cur) row acc cs
  | .unq, cur, row, acc, c :: cs =>
    if c == ',' then csvGo .start [] (cur.reverse :: row) acc cs
    else if c == '\n' then csvGo .start [] [] ((cur.reverse :: row).reverse :: acc) cs
    else csvGo .unq (c :: cur) row acc cs
  | .quo, cur, row, acc, c :: cs =>
    if c == '"' then csvGo .qq cur row acc cs else csvGo .quo (c :: cur) row acc cs
  | .qq, cur, row, acc, c :: cs =>
    if c == '"' then csvGo .quo ('"' :: cur) row acc cs
    else if c == ',' then csvGo .start [] (cur.reverse :: row) acc cs
    else if c == '\n' then csvGo .start [] [] ((cur.reverse :: row).reverse :: acc) cs
    else csvGo .unq (c :: cur) row acc cs

def csvParse (text : List Char) : List (List (List Char)) := csvGo .start [] [] [] text

/-- renderer on character lists (same as `csvField`/`csvLine`) -/
def csvFieldC (cs : List Char) : List Char :=
  if cs.any csvSpecial then '"' :: csvEscape cs ++ ['"'] else cs

def csvRowC : List (List Char) → List Char
  | [] => ['\n']
  | [f] => csvFieldC f ++ ['\n']
  | f :: fs => csvFieldC f ++ (',' :: csvRowC fs)

def csvTextC (rows : List (List (List Char))) : List Char := (rows.map csvRowC).flatten

/-- `(path, f"sha256={hash}", size)` -/
def recordRow (r : Rec) : List String := [r.1, Gen.recordHashPrefix ++ r.2.1, toString r.2.2]

def recordPath (distInfo : String) : String := distInfo ++ Gen.recordSuffix

/-- the rows `_write_record` hands to the csv writer -/
def recordRows (distInfo : String) (records : List Rec) : List (List String) :=
  records.map recordRow ++ [[recordPath distInfo, "", ""]]

def recordText (distInfo : String) (records : List Rec) : String :=
  String.join ((recordRows distInfo records).map csvLine)

/-- `_write_record`: RECORD is written through `_write_to_zip`, so it is itself appended to members and to
`_records`. `H` is the (uninterpreted) digest of a text. -/
def writeRecord (H : String → String) (distInfo : String) (s : St) : St :=
  let text := recordText distInfo s.records
  step s (.writeToZip (recordPath distInfo) (H text) text.utf8ByteSize)

/-- `_write_record` as it is: RECORD goes through the guarded `_write_to_zip` -/
def writeRecordC (H : String → String) (distInfo : String) (s : St) : PyM St :=
  let text := recordText distInfo s.records
  stepC s (.writeToZip (recordPath distInfo) (H text) text.utf8ByteSize)

/-- the decidable guard of `record_each_once`: no two operations target the same archive path and none
targets RECORD -/
def DistinctTargets (distInfo : String) (ops : List Op) : Prop :=
  (ops.map Op.target).Nodup ∧ recordPath distInfo ∉ ops.map Op.target

instance (d : String) (ops : List Op) : Decidable (DistinctTargets d ops) := by
  unfold DistinctTargets; exact inferInstance

/-! ## (b) names -/

def isNameSep (c : Char) : Bool := c == '-' || c == '_' || c == '.'

/-- `re.sub(r"[-_.]+", "-", name).lower()` (packaging.utils.canonicalize_name), ASCII -/
def canonAux : Bool → List Char → List Char
  | _, [] => []
  | prevSep, c :: cs =>
    if isNameSep c then (if prevSep then canonAux true cs else '-' :: canonAux true cs)
    else lowerChar c :: canonAux false cs

def canonicalizeChars (cs : List Char) : List Char := canonAux false cs

/-- `distribution_name`: `name.replace("-", "_")` -/
def distNameChars (cs : List Char) : List Char := cs.map fun c => if c == '-' then '_' else c

/-- `"-".join(tag)` in the branch without a build script -/
def tagChars (supportsPy2 : Bool) : List Char :=
  (if supportsPy2 then Gen.tagPy2.toList else Gen.tagPy3.toList) ++ Gen.tagAbiPlatform.toList

def wheelFilenameChars (dn ver tag : List Char) : List Char := dn ++ ('-' :: (ver ++ ('-' :: (tag ++ Gen.wheelFileSuffix.toList))))
def distInfoChars (dn ver : List Char) : List Char := dn ++ ('-' :: (ver ++ Gen.distInfoSuffix.toList))
def dataFolderChars (dn ver : List Char) : List Char := dn ++ ('-' :: (ver ++ Gen.dataFolderSuffix.toList))
def sdistDirChars (dn ver : List Char) : List Char := dn ++ ('-' :: ver)
def sdistFileChars (dn ver : List Char) : List Char := dn ++ ('-' :: (ver ++ ".tar.gz".toList))

/-- split on one character (`str.split(c)`) -/
def splitOnChar (c : Char) : List Char → List (List Char)
  | [] => [[]]
  | x :: xs =>
    if x == c then [] :: splitOnChar c xs
    else match splitOnChar c xs with
      | [] => [[x]]
      | h :: t => (x :: h) :: t

def canonicalizeName (s : String) : String := String.ofList (canonicalizeChars s.toList)
/-- `distribution_name(package.name)` for a raw project name -/
def distributionName (rawName : String) : String := String.ofList (distNameChars (canonicalizeChars rawName.toList))
def tag (supportsPy2 : Bool) : String := String.ofList (tagChars supportsPy2)
def wheelFilename (rawName ver : String) (py2 : Bool) : String :=
  String.ofList (wheelFilenameChars (distNameChars (canonicalizeChars rawName.toList)) ver.toList (tagChars py2))
def distInfo (rawName ver : String) : String :=
  String.ofList (distInfoChars (distNameChars (canonicalizeChars rawName.toList)) ver.toList)
def dataFolder (rawName ver : String) : String :=
  String.ofList (dataFolderChars (distNameChars (canonicalizeChars rawName.toList)) ver.toList)
def sdistDir (rawName ver : String) : String :=
  String.ofList (sdistDirChars (distNameChars (canonicalizeChars rawName.toList)) ver.toList)
def sdistFile (rawName ver : String) : String :=
  String.ofList (sdistFileChars (distNameChars (canonicalizeChars rawName.toList)) ver.toList)

/-! ### relative POSIX paths: `PurePosixPath.as_posix()` of a relative path = components joined by "/" -/

def joinSlash : List (List Char) → List Char
  | [] => []
  | [c] => c
  | c :: cs => c ++ ('/' :: joinSlash cs)

/-- a path component as `relative_to()` of resolved paths produces it -/
def ValidComp (c : List Char) : Prop := c ≠ [] ∧ c ≠ ['.', '.'] ∧ '/' ∉ c ∧ '\\' ∉ c

/-! ## (c) timestamps -/

structure DateTime where
  year : Int
  month : Int
  day : Int
  hour : Int
  minute : Int
  second : Int
deriving DecidableEq, Repr, Inhabited

def DateTime.text (d : DateTime) : String :=
  joinWith "," [toString d.year, toString d.month, toString d.day, toString d.hour, toString d.minute, toString d.second]

def dtOfList : List Nat → DateTime
  | [y, mo, d, h, mi, s] => ⟨y, mo, d, h, mi, s⟩
  | _ => ⟨0, 0, 0, 0, 0, 0⟩

/-- the `default` tuple of `_zipfile_date_time` (regenerated from source) -/
def wheelDefault : DateTime := dtOfList Gen.wheelDefaultDateTime

/-- `int(s)` for ASCII input: optional surrounding white space, optional sign, decimal digits with single
underscores between digits; more than 4300 digits is a ValueError (`sys.int_info.default_max_str_digits`). -/
def scanDigits : Bool → List Char → List Char → Option (List Char)
  | need, [], acc => if need then none else some acc.reverse
  | need, c :: cs, acc =>
    if isDigit c then scanDigits false cs (c :: acc)
    else if c == '_' && !need then scanDigits true cs acc
    else none

def intMaxStrDigits : Nat := 4300

def stripSpaces (cs : List Char) : List Char := (dropSpaces (dropSpaces cs).reverse).reverse

def pyInt (s : String) : Option Int :=
  let cs := stripSpaces s.toList
  let (neg, body) := match cs with
    | '-' :: r => (true, r)
    | '+' :: r => (false, r)
    | r => (false, r)
  match scanDigits true body [] with
  | none => none
  | some ds =>
    if ds.length > intMaxStrDigits then none
    else
      let n : Int := (digitsToNat ds : Nat)
      some (if neg then -n else n)

/-- days since 1970-01-01 → proleptic Gregorian (year, month, day) -/
def civilFromDays (z0 : Int) : Int × Int × Int :=
  let z := z0 + 719468
  let era := z / 146097
  let doe := z % 146097
  let yoe := (doe - doe / 1460 + doe / 36524 - doe / 146096) / 365
  let y := yoe + era * 400
  let doy := doe - (365 * yoe + yoe / 4 - yoe / 100)
  let mp := (5 * doy + 2) / 153
  let d := doy - (153 * mp + 2) / 5 + 1
  let m := if mp < 10 then mp + 3 else mp - 9
  (if m ≤ 2 then y + 1 else y, m, d)

def gmtimeMin : Int := -67768040609740800
def gmtimeMax : Int := 67768036191676799

/-- `time.gmtime(t)[:6]`; outside glibc's `int` year range CPython raises OSError/OverflowError -/
def gmtime (t : Int) : PyM DateTime :=
  if t < gmtimeMin || t > gmtimeMax then .error .runtime
  else
    let days := t / 86400
    let rem := t % 86400
    let (y, m, d) := civilFromDays days
    .ok ⟨y, m, d, rem / 3600, (rem % 3600) / 60, rem % 60⟩

/-- `WheelBuilder._zipfile_date_time`; the argument is `os.environ.get("SOURCE_DATE_EPOCH")` -/
def zipfileDateTime (sde : Option String) : PyM DateTime :=
  match sde with
  | none => .ok wheelDefault                         -- KeyError branch
  | some s =>
    match pyInt s with
    | none => .ok wheelDefault                       -- ValueError branch
    | some t =>
      match gmtime t with
      | .error e => .error e
      | .ok dt => if dt.year < (Gen.wheelMinYear : Int) then .ok wheelDefault else .ok dt

/-- `SdistBuilder._archive_mtime` -/
def archiveMtime (sde : Option String) : Int :=
  match sde with
  | none => (Gen.sdistDefaultMtime : Int)
  | some s =>
    if s.isEmpty then (Gen.sdistDefaultMtime : Int)           -- walrus on a falsy value
    else match pyInt s with
      | some t => t
      | none => 0

/-- the `TarInfo` fields that reach the archive header -/
structure TarMeta where
  name : String
  mode : Nat
  uid : Nat
  gid : Nat
  uname : String
  gname : String
  mtime : Int
  size : Nat
  digest : String
deriving DecidableEq, Repr, Inhabited

/-- `SdistBuilder.clean_tarinfo` -/
def cleanTarinfo (mtime : Int) (ti : TarMeta) : TarMeta :=
  { ti with uid := 0, gid := 0, uname := "", gname := "", mtime := mtime,
            mode := Gen.normalizeFilePermissions ti.mode }

/-! ## (d) ordering and build plans -/

/-- `PurePath.__lt__` compares `_parts_normcase`, a list of strings: lexicographic on components, each compared
as Python compares `str` (code points). -/
abbrev PathKey := List String

def pathLe (a b : PathKey) : Bool := (compare a b).isLE

/-- a file selected for the wheel (`BuildIncludeFile`): where it is, where it goes, what `stat` and `read` give -/
structure SelFile where
  /-- `file.path` relative to the project root (all selected files live under the root) -/
  src : PathKey
  /-- `relative_to_target_root().as_posix()` -/
  target : String
  stMode : Nat
  digest : String
  size : Nat
deriving DecidableEq, Repr, Inhabited

def SelFile.le (a b : SelFile) : Bool := pathLe a.src b.src

/-- `sorted(xs, key=…)` -/
def sortBy {α : Type} (key : α → PathKey) (xs : List α) : List α :=
  xs.mergeSort (fun a b => pathLe (key a) (key b))

/-- `_copy_module`: `for file in sorted(to_add, key=lambda x: x.path): _add_file(file.path, file.relative_to_target_root())`.
`root` is the absolute project root every `file.path` starts with. -/
def copyModuleOps (root : PathKey) (toAdd : List SelFile) : List Op :=
  (if Gen.wheelModuleFilesSorted then sortBy (fun f => root ++ f.src) toAdd else toAdd).map fun f => .addFile f.target f.stMode f.digest f.size

/-- a file script (`convert_script_files`, config order): base name + stat + bytes -/
structure Script where
  baseName : String
  stMode : Nat
  digest : String
  size : Nat
deriving DecidableEq, Repr, Inhabited

/-- `_copy_file_scripts` -/
def copyFileScriptsOps (dataFolder : String) (scripts : List Script) : List Op :=
  scripts.map fun s => .addFile (dataFolder ++ "/scripts/" ++ s.baseName) s.stMode s.digest s.size

/-- a regular file found under the prepared dist-info directory -/
structure DiFile where
  rel : PathKey
  stMode : Nat
  digest : String
  size : Nat
deriving DecidableEq, Repr, Inhabited

def posix (p : PathKey) : String := joinWith "/" p

/-- `_copy_dist_info`: `for file in sorted(source.glob("**/*"))`, files only, target `dist_info / rel` -/
def copyDistInfoOps (source : PathKey) (distInfo : String) (files : List DiFile) : List Op :=
  (if Gen.wheelDistInfoSorted then sortBy (fun f => source ++ f.rel) files else files).map fun f =>
    .addFile (distInfo ++ "/" ++ posix f.rel) f.stMode f.digest f.size

/-- everything `WheelBuilder.build` consumes, with every unordered collection given in *arbitrary* order -/
structure WheelPlan where
  editable : Bool
  root : PathKey
  /-- `find_files_to_add()` (a set) in iteration order -/
  toAdd : List SelFile
  /-- `Module.name` and the bytes of the `.pth` file (editable only) -/
  moduleName : String
  pthDigest : String
  pthSize : Nat
  scripts : List Script
  diSource : PathKey
  /-- `source.glob("**/*")`, regular files, in listing order -/
  diFiles : List DiFile
  distInfo : String
  dataFolder : String
deriving Repr, Inhabited

/-- the operation sequence of `WheelBuilder.build` for a project without build script:
editable: `_build` (nothing), `_add_pth`; otherwise `_build` (nothing), `_copy_module`;
then `_copy_file_scripts`, `_copy_dist_info`; `_write_record` follows. -/
def wheelOps (p : WheelPlan) : List Op :=
  (if p.editable then [Op.writeToZip (p.moduleName ++ ".pth") p.pthDigest p.pthSize]
   else copyModuleOps p.root p.toAdd)
  ++ copyFileScriptsOps p.dataFolder p.scripts
  ++ copyDistInfoOps p.diSource p.distInfo p.diFiles

/-! ### when are the builder's own targets pairwise distinct? (decidable condition on the configuration) -/

/-- archive path `t` lies below the archive directory `d` -/
def under (d t : String) : Bool := (d.toList ++ ['/']).isPrefixOf t.toList

/-- what `build` writes before file scripts and dist-info: the `.pth` (editable) or the selected files' targets -/
def bodyTargets (p : WheelPlan) : List String :=
  if p.editable then [p.moduleName ++ ".pth"] else p.toAdd.map (·.target)

/-- no two sources map to one archive name: distinct targets of the selected files, none of them inside the `.data` /
`.dist-info` directories, distinct script base names, distinct dist-info files none of which is RECORD, and the two
directory names not nested -/
def ConfigDistinct (p : WheelPlan) : Prop :=
  (bodyTargets p).Nodup ∧
  (∀ t ∈ bodyTargets p, under p.dataFolder t = false ∧ under p.distInfo t = false) ∧
  (p.scripts.map (·.baseName)).Nodup ∧
  (p.diFiles.map (fun f => posix f.rel)).Nodup ∧
  "RECORD" ∉ p.diFiles.map (fun f => posix f.rel) ∧
  under p.distInfo (p.dataFolder ++ "/") = false ∧ under p.dataFolder (p.distInfo ++ "/") = false

instance (p : WheelPlan) : Decidable (ConfigDistinct p) := by unfold ConfigDistinct; exact inferInstance

def scriptTargets (p : WheelPlan) : List String := p.scripts.map (fun s => p.dataFolder ++ "/scripts/" ++ s.baseName)
def diTargets (p : WheelPlan) : List String := p.diFiles.map (fun f => p.distInfo ++ "/" ++ posix f.rel)

def buildWheel (H : String → String) (p : WheelPlan) : St :=
  writeRecord H p.distInfo (run {} (wheelOps p))

/-- `WheelBuilder.build` as it is: the guarded writers; a refused name aborts the build (RuntimeError) -/
def buildWheelC (H : String → String) (p : WheelPlan) : PyM St :=
  match runC {} (wheelOps p) with
  | .ok s => writeRecordC H p.distInfo s
  | .error e => .error e

/-- what the archive says about one member, besides its bytes -/
structure ZipEntry where
  member : Member
  dateTime : DateTime
deriving DecidableEq, Repr, Inhabited

/-- description of the wheel: every member carries the one `_zipfile_date_time` -/
def describeWheel (H : String → String) (sde : Option String) (p : WheelPlan) : PyM (List ZipEntry) :=
  match zipfileDateTime sde with
  | .error e => .error e
  | .ok dt => .ok ((buildWheel H p).members.map fun m => ⟨m, dt⟩)

/-- description of the wheel `build` really leaves behind: none when a writer refuses a name -/
def describeWheelC (H : String → String) (sde : Option String) (p : WheelPlan) : PyM (List ZipEntry) :=
  match zipfileDateTime sde with
  | .error e => .error e
  | .ok dt =>
    match buildWheelC H p with
    | .error e => .error e
    | .ok s => .ok (s.members.map fun m => ⟨m, dt⟩)

/-! ### sdist -/

/-- a file selected for the sdist, as `tar.gettarinfo` sees it -/
structure SdistFile where
  /-- `relative_to_source_root()` (source root = project root for sdists) -/
  rel : PathKey
  /-- `stat.S_IMODE(st_mode)` -/
  mode : Nat
  uid : Nat
  gid : Nat
  uname : String
  gname : String
  mtime : Int
  size : Nat
  digest : String
deriving DecidableEq, Repr, Inhabited

structure SdistPlan where
  tarDir : String
  /-- `find_files_to_add(exclude_build=False)` in set-iteration order -/
  files : List SdistFile
  pkgInfoDigest : String
  pkgInfoSize : Nat
  /-- the generated `setup.py` (`build_should_generate_setup()`): digest and size of `build_setup()`, else none -/
  setupPy : Option (String × Nat) := none
deriving Repr, Inhabited

/-- `tarfile.TarInfo(name)` defaults as used by `add_file_to_tar` -/
def freshTarInfo (name : String) (size : Nat) (digest : String) : TarMeta :=
  { name, mode := 0o644, uid := 0, gid := 0, uname := "", gname := "", mtime := 0, size, digest }

/-- `SdistBuilder.build`: selected files sorted by relative path, then the generated setup.py if asked for, then PKG-INFO -/
def sdistEntries (sde : Option String) (p : SdistPlan) : List TarMeta :=
  let mt := archiveMtime sde
  (if Gen.sdistFilesSorted then sortBy (fun f => f.rel) p.files else p.files).map (fun f =>
      cleanTarinfo mt { name := p.tarDir ++ "/" ++ posix f.rel, mode := f.mode, uid := f.uid, gid := f.gid,
                        uname := f.uname, gname := f.gname, mtime := f.mtime, size := f.size, digest := f.digest })
  ++ (match p.setupPy with
      | some (d, n) => [cleanTarinfo mt (freshTarInfo (p.tarDir ++ "/setup.py") n d)]
      | none => [])
  ++ [cleanTarinfo mt (freshTarInfo (p.tarDir ++ "/PKG-INFO") p.pkgInfoSize p.pkgInfoDigest)]

/-- description of the sdist: gzip header mtime + cleaned tar headers in order -/
structure SdistDesc where
  gzipMtime : Int
  entries : List TarMeta
deriving DecidableEq, Repr, Inhabited

def describeSdist (sde : Option String) (p : SdistPlan) : SdistDesc :=
  { gzipMtime := archiveMtime sde, entries := sdistEntries sde p }

/-! ### the file tree and the selection (glob matching is an abstract relation, see C09) -/

/-- one regular file as a directory walk reports it; a tree is a list of these in *listing order* -/
structure FileEntry where
  rel : PathKey
  stMode : Nat
  uid : Nat
  gid : Nat
  uname : String
  gname : String
  mtime : Int
  digest : String
  size : Nat
deriving DecidableEq, Repr, Inhabited

/-- an entry of `Module.includes` (packages first, then explicit includes, in configuration order) after glob
expansion and exclusion: which project-relative paths it contributes and where they go in the wheel -/
structure IncludeRule where
  sel : PathKey → Bool
  target : PathKey → String

/-- `find_files_to_add()` for the wheel: `to_add` is a set keyed by `path`, so the first include (in configuration
order) that reaches a file decides its `source_root`/`target_dir` -/
def selectWheel (rules : List IncludeRule) (tree : List FileEntry) : List SelFile :=
  tree.filterMap fun f =>
    (rules.find? fun r => r.sel f.rel).map fun r => ⟨f.rel, r.target f.rel, f.stMode, f.digest, f.size⟩

/-- `stat.S_IMODE` (what `tarfile.gettarinfo` stores) -/
def sIMode (m : Nat) : Nat := m &&& 0o7777

/-- `find_files_to_add(exclude_build=False)` for the sdist (+ pyproject, readmes, licences, scripts: all part of `sel`) -/
def selectSdist (sel : PathKey → Bool) (tree : List FileEntry) : List SdistFile :=
  (tree.filter fun f => sel f.rel).map fun f =>
    ⟨f.rel, sIMode f.stMode, f.uid, f.gid, f.uname, f.gname, f.mtime, f.size, f.digest⟩

/-! ### `SdistBuilder.find_packages`: the `packages` / `package_data` lists of the generated setup.py -/

/-- a non-directory entry of a walked directory -/
structure WalkFile where
  name : String
  /-- `name.endswith(".py")` -/
  isPy : Bool
  /-- `is_excluded(path relative to the project)` -/
  excluded : Bool
deriving DecidableEq, Repr, Inhabited

/-- one directory below the package, as `os.walk(base, topdown=True)` yields it (`__pycache__` and "." skipped):
`rel` = parts of `os.path.relpath(path, base)`; `files` in listing order -/
structure WalkDir where
  rel : PathKey
  files : List WalkFile
deriving DecidableEq, Repr, Inhabited

def strLe (a b : String) : Bool := (compare a b).isLE

/-- `sorted(list of str)` -/
def sortStr (xs : List String) : List String := xs.mergeSort strLe

/-- `is_subpkg`: some `.py` file, and not all `.py` files excluded -/
def WalkDir.isSubpkg (d : WalkDir) : Bool :=
  d.files.any (·.isPy) && !((d.files.filter (·.isPy)).all (·.excluded))

/-- `find_nearest_pkg`: the deepest proper ancestor that is a sub-package.  `subs` = sub-package directories; the code
consults the ones *seen so far*, and a top-down walk has seen every ancestor of the current directory. -/
def nearestPkg (pkgName : String) (subs : List PathKey) (rel : PathKey) : String × String :=
  match ((List.range' 1 (rel.length - 1)).reverse).find? (fun i => subs.contains (rel.take i)) with
  | some i => (joinWith "." (pkgName :: rel.take i), joinWith "/" (rel.drop i))
  | none => (pkgName, joinWith "/" rel)

/-- what one walked directory adds to `pkg_data` (list of (package, pattern)), in the order the code appends -/
def dirEntries (pkgName : String) (subs : List PathKey) (d : WalkDir) : List (String × String) :=
  if d.isSubpkg then []
  else
    let pn := nearestPkg pkgName subs d.rel
    let data := d.files.filter (fun f => !f.excluded)
    if data.isEmpty then []
    else if data.length == d.files.length then [(pn.1, pn.2 ++ "/" ++ "*")]
    else data.flatMap fun _ => data.map fun x => (pn.1, pn.2 ++ "/" ++ x.name)   -- the whole list once per file (as coded)

def subPkgs (walk : List WalkDir) : List PathKey := (walk.filter (·.isSubpkg)).map (·.rel)

/-- all `pkg_data[k].append(v)` in order; `pkg_data[""]` starts as `["*"]` -/
def pkgDataPairs (pkgName : String) (walk : List WalkDir) : List (String × String) :=
  ("", "*") :: walk.flatMap (dirEntries pkgName (subPkgs walk))

/-- `sorted(packages)` -/
def setupPackages (pkgName : String) (walk : List WalkDir) : List String :=
  let ps := pkgName :: (subPkgs walk).map fun r => joinWith "." (pkgName :: r)
  if Gen.sdistPackagesSorted then sortStr ps else ps

/-- `{k: sorted(v) for k, v in pkg_data.items() if v}`, keys in sorted order (pprint sorts dict keys) -/
def setupPackageData (pkgName : String) (walk : List WalkDir) : List (String × List String) :=
  let pairs := pkgDataPairs pkgName walk
  (sortStr (pairs.map (·.1))).eraseDups.map fun k =>
    let vs := (pairs.filter (fun kv => kv.1 == k)).map (·.2)
    (k, if Gen.sdistPackageDataSorted then sortStr vs else vs)

/-! ### include rules given by glob patterns: which left-overs of an earlier build can be selected -/

/-- a `packages` / `include` entry (or a fixed pattern of `_get_legal_files`) as a glob rule: `base` = project root
or the `from` directory, `pat` = the parsed glob (`Select.parsePattern`), `isPackage` = PackageInclude -/
structure GlobSpec where
  base : PathKey
  pat : Select.Pattern
  isPackage : Bool
  target : PathKey → String

/-- the files a rule contributes (`find_files_to_add`, per include): an element that is a file and matches, or any
file below an element that is a directory; nothing with a `__pycache__` component; bytecode (`.pyc`) only as a
directly matching element of an explicit include (`is_excluded` is not consulted for those). -/
def GlobSpec.sel (g : GlobSpec) (p : PathKey) : Bool :=
  !p.contains Gen.pycacheDirName &&
  match Select.stripBase g.base p with
  | none => false
  | some rel =>
    (Select.globMatch g.pat rel false && !(g.isPackage && Select.isBytecode p)) ||
    (!Select.isBytecode p && (List.range rel.length).any fun k => Select.globMatch g.pat (rel.take k) true)

def globRule (g : GlobSpec) : IncludeRule := { sel := g.sel, target := g.target }

/-- can the pattern enter a directory called `D` directly below its base? -/
def patternReaches (pat : Select.Pattern) (D : String) : Bool :=
  match pat.segs with
  | [] => true                          -- `./`: the base itself is the element, everything below it is taken
  | .dstar :: _ => true
  | .wild w :: _ => Select.fnmatch w D

/-- decidable condition on one rule: it cannot select anything below the top-level directory `D` -/
def GlobSpec.avoids (g : GlobSpec) (D : String) : Bool :=
  match g.base with
  | [] => !patternReaches g.pat D
  | b :: _ => b != D

/-- a left-over of an earlier build: bytecode cache, or something below one of the given top-level names
(`dist`, `build`, `<name>.egg-info`) -/
def isLeftover (tops : List String) (p : PathKey) : Bool :=
  p.contains Gen.pycacheDirName || match p with | D :: _ :: _ => tops.contains D | _ => false

end Poetry.Build
