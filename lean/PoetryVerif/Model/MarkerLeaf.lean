/-
Model of the string-level part of `SingleMarker.__init__` (version/markers.py): the two regexes
that split the constraint string into operator and value, and the operator/value rewriting per
variable kind that produces the string handed to the constraint parser.
Core Lean only.  Python `re` is trusted; the hand matchers mirror its backtracking order.
-/
import PoetryVerif.Model.MarkerSyn

namespace Poetry.Marker

/-- which constraint parser `SingleMarker.__init__` selects -/
inductive LeafKind where
  /-- `parse_marker_version_constraint(…, pep440 = name != "platform_release")` -/
  | version (pep440 : Bool)
  /-- `parse_extra_constraint` -/
  | extra
  /-- generic `parse_constraint` -/
  | generic
deriving DecidableEq, Repr, Inhabited

/-- `ALIASES.get(name, name)` -/
def aliasName (n : String) : String :=
  match Gen.markerAliases.find? (fun p => p.1 == n) with
  | some (_, v) => v
  | none => n

def lowerStr (cs : List Char) : List Char := cs.map lowerChar

/-- case-insensitive (ASCII) prefix strip, returning the *original* text of the prefix -/
def stripPrefixCI? (p : List Char) (s : List Char) : Option (List Char × List Char) :=
  if p.length ≤ s.length && lowerStr (s.take p.length) == lowerStr p then some (s.take p.length, s.drop p.length)
  else none

/-- `.+$` : a non-empty run without newline, up to the end or up to one final newline -/
def dotPlusToEnd? (s : List Char) : Option (List Char) :=
  let body := s.takeWhile (· != '\n')
  let rest := s.dropWhile (· != '\n')
  if body.isEmpty then none
  else if rest.isEmpty || rest == ['\n'] then some body
  else none

def countLeading (p : Char → Bool) : List Char → Nat
  | [] => 0
  | c :: cs => if p c then countLeading p cs + 1 else 0

/-- `\s*(?P<value>.+)$` with the backtracking of the greedy `\s*` -/
def spacesThenValue? (s : List Char) : Option (List Char) :=
  let k := countLeading isSpace s
  let rec go (j : Nat) (fuel : Nat) : Option (List Char) :=
    match fuel with
    | 0 => none
    | fuel + 1 =>
      match dotPlusToEnd? (s.drop j) with
      | some v => some v
      | none => if j == 0 then none else go (j - 1) fuel
  go k (k + 1)

/-- the operator alternatives of `_CONSTRAINT_RE_PATTERN_1` in the order the regex engine tries
them (`>=?` tries `>=` then `>`; `==?=?` tries `===`, `==`, `=`), then the empty operator -/
def pattern1Ops : List String := ["~=", "!=", ">=", ">", "<=", "<", "===", "==", "=", "not in", "in"]

/-- `_CONSTRAINT_RE_PATTERN_1.match(s)` → (op group or none, value group) -/
def matchPattern1 (s : List Char) : Option (Option String × String) :=
  let rec tryOps (ops : List String) : Option (Option String × String) :=
    match ops with
    | [] =>
      match spacesThenValue? s with
      | some v => some (none, String.ofList v)
      | none => none
    | o :: rest =>
      match stripPrefixCI? o.toList s with
      | some (orig, r) =>
        match spacesThenValue? r with
        | some v => some (some (String.ofList orig), String.ofList v)
        | none => tryOps rest
      | none => tryOps rest
  tryOps pattern1Ops

/-- `\s*(?P<op>(not\sin|in))$` (IGNORECASE); returns the op text -/
def strCmpTail? (s : List Char) : Option String :=
  let r := dropSpaces s
  let endOk (t : List Char) : Bool := t.isEmpty || t == ['\n']
  -- alternatives in order: `not\sin`, then `in`
  let notIn : Option String :=
    match stripPrefixCI? "not".toList r with
    | some (o1, c :: r2) =>
      if isSpace c then
        match stripPrefixCI? "in".toList r2 with
        | some (o2, r3) => if endOk r3 then some (String.ofList (o1 ++ [c] ++ o2)) else none
        | none => none
      else none
    | _ => none
  match notIn with
  | some o => some o
  | none =>
    match stripPrefixCI? "in".toList r with
    | some (o, r2) => if endOk r2 then some (String.ofList o) else none
    | none => none

/-- `STR_CMP_CONSTRAINT.match(s)` → (value group, op group): lazy `.+?` between the quotes -/
def matchStrCmp (s : List Char) : Option (String × String) :=
  match s with
  | q :: body =>
    if q != '"' && q != '\'' then none
    else
      -- value = first j ≥ 1 characters of body (no newline), then the same quote, then the tail
      let rec go (j : Nat) (fuel : Nat) : Option (String × String) :=
        match fuel with
        | 0 => none
        | fuel + 1 =>
          if j > body.length then none
          else if (body.take j).contains '\n' then none
          else
            match body.drop j with
            | c :: r =>
              if c == q then
                match strCmpTail? r with
                | some op => some (String.ofList (body.take j), op)
                | none => go (j + 1) fuel
              else go (j + 1) fuel
            | [] => none
      go 1 (body.length + 1)
  | [] => none

/-- `re.split("[ ,|]+", s)`: `sep` = the previous character was a separator (a run of separators
splits once) -/
def splitListValueAux (isSepPrev : Bool) (cur : List Char) : List Char → List (List Char)
  | [] => [cur.reverse]
  | c :: r =>
    if c == ' ' || c == ',' || c == '|' then
      (if isSepPrev then splitListValueAux true cur r else cur.reverse :: splitListValueAux true [] r)
    else splitListValueAux false (c :: cur) r

def splitListValue (s : List Char) : List (List Char) := splitListValueAux false [] s

/-- `str.split(".")` -/
def splitDots (s : List Char) : List (List Char) :=
  let rec go (cs : List Char) (cur : List Char) : List (List Char) :=
    match cs with
    | [] => [cur.reverse]
    | c :: r => if c == '.' then cur.reverse :: go r [] else go r (c :: cur)
  go s []

def joinChars (sep : String) (parts : List (List Char)) : String :=
  joinWith sep (parts.map String.ofList)

/-- the rewriting of `in` / `not in` lists on version-like variables, one entry per listed version:
`3.8` ↦ `3.8.*` / `!=3.8.*`, `3.8.1` ↦ `==3.8.1` / `!=3.8.1` -/
def versionListItems (isIn : Bool) (value : String) : List String :=
  let one (v : List Char) : String :=
    let split := splitDots v
    if split.length == 1 || split.length == 2 then
      (if isIn then "" else "!=") ++ joinChars "." (split ++ [['*']])
    else (if isIn then "==" else "!=") ++ joinChars "." split
  (splitListValue value.toList).map one

/-- … glued by ` || ` (in) / `, ` (not in) -/
def versionListConstraint (isIn : Bool) (value : String) : String :=
  joinWith (if isIn then " || " else ", ") (versionListItems isIn value)

/-- `str.isdecimal()` on ASCII input (non-ASCII decimal digits are outside the model) -/
def isDecimalAscii (cs : List Char) : Bool := !cs.isEmpty && cs.all isDigit

structure LeafPrep where
  name : String          -- aliased
  op : String
  value : String
  swapped : Bool
  cstr : String          -- the string given to the constraint parser
  kind : LeafKind
deriving Repr, Inhabited, DecidableEq

def countChar (c : Char) (s : String) : Nat := (s.toList.filter (· == c)).length

/-- `SingleMarker.__init__(name, constraint_string, swapped_name_value)` up to the parser call -/
def leafPrepare (name : String) (cstr : String) (swapped : Bool) : PyM LeafPrep :=
  let m : Option (Option String × String) :=
    if swapped then (matchStrCmp cstr.toList).map (fun (v, o) => (some o, v))
    else matchPattern1 cstr.toList
  match m with
  | none => .error .value
  | some (opG, value) =>
    let op := opG.getD "=="
    let baseKind : LeafKind := if name == "extra" then .extra else .generic
    let isIn := op == "in"
    let isList := op == "in" || op == "not in"
    if swapped && !Gen.pythonVersionMarkers.contains name then
      .ok { name := aliasName name, op, value, swapped, cstr, kind := baseKind }
    else if Gen.versionLikeMarkerNames.contains name then
      let kind := LeafKind.version (name != "platform_release")
      if isList then
        .ok { name := aliasName name, op, value, swapped, cstr := versionListConstraint isIn value, kind }
      else if name == "python_full_version" && !swapped then
        let precision := countChar '.' value + 1
        if precision < 3 && isDecimalAscii (value.toList.filter (· != '.')) then
          let suffix := String.join (List.replicate (3 - precision) ".0")
          .ok { name := aliasName name, op, value := value ++ suffix, swapped, cstr := cstr ++ suffix, kind }
        else .ok { name := aliasName name, op, value, swapped, cstr, kind }
      else .ok { name := aliasName name, op, value, swapped, cstr, kind }
    else
      if isList then
        let parts := (splitListValue value.toList).map fun v =>
          (if isIn then "== " else "!= ") ++ String.ofList v
        .ok { name := aliasName name, op, value, swapped,
              cstr := joinWith (if isIn then " || " else ", ") parts, kind := baseKind }
      else .ok { name := aliasName name, op, value, swapped, cstr, kind := baseKind }

/-- the constraint string `_compact_markers` builds for an `item` -/
def itemConstraintString (op value : String) (swapped : Bool) : String :=
  if swapped then "\"" ++ value ++ "\" " ++ op else op ++ value

/-- `_quoted(value)` (repo fixes 3046ca3, 7b51c5a): the value is written between the quotes it can stand between
unchanged — single quotes when it holds a double quote or a backslash and no single quote, double quotes otherwise -/
def quoteOf (value : String) : String :=
  if !value.toList.contains '\'' && (value.toList.contains '"' || value.toList.contains '\\') then "'" else "\""

theorem quoteOf_dq {v : String} (h : ∀ c ∈ v.toList, c ≠ '"' ∧ c ≠ '\\') : quoteOf v = "\"" := by
  unfold quoteOf
  have h1 : v.toList.contains '"' = false := by
    cases hc : v.toList.contains '"' with
    | false => rfl
    | true => exact absurd rfl (h _ (List.contains_iff_mem.mp hc)).1
  have h2 : v.toList.contains '\\' = false := by
    cases hc : v.toList.contains '\\' with
    | false => rfl
    | true => exact absurd rfl (h _ (List.contains_iff_mem.mp hc)).2
  rw [h1, h2]
  simp

/-- either quote character is a one-character string that is neither a dot nor a letter -/
theorem quoteOf_cases (v : String) : quoteOf v = "\"" ∨ quoteOf v = "'" := by
  unfold quoteOf; split <;> simp

/-- `SingleMarker.__str__` -/
def leafText (name op value : String) (swapped : Bool) : String :=
  if swapped then quoteOf value ++ value ++ quoteOf value ++ " " ++ op ++ " " ++ name
  else name ++ " " ++ op ++ " " ++ quoteOf value ++ value ++ quoteOf value

end Poetry.Marker
