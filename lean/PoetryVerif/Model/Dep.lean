/-
Model of the dependency classes of poetry.core.packages:
`specification.py` (`PackageSpecification`: normalised name/features, `is_same_source_as`, `__eq__`, `__hash__`),
`dependency.py` (`Dependency.__init__`, `marker` / `python_versions` setters, `base_pep_508_name`, `to_pep_508`,
`create_from_pep_508` with its dispatch on registry / URL / VCS requirements, `__eq__`), `url_dependency.py`,
`vcs_dependency.py`, the parts of `utils/link.py` and `utils/utils.py` this dispatch uses (scheme, file name,
wheel file-name regex, `url_without_fragment`, `subdirectory_fragment`, `is_archive_file`), and `vcs/git.py`
(`ParsedUrl.parse`, `ParsedUrl.url`) over an explicit RESTRICTED git-URL grammar (`parseGitUrl` below); every text
outside that grammar is `.unmodelled`, never guessed.  File / directory / path dependencies need the file system
(`Path.exists`, `is_dir`, `cwd`): `.unmodelled`.  Core Lean only.
-/
import PoetryVerif.Model.Requirement
import PoetryVerif.Model.MarkerOps

namespace Poetry.Dep
open Poetry Poetry.Marker Poetry.Req
open Poetry.Generic (GC GS)

/-! ### small string helpers (structural, so the kernel can evaluate them) -/

/-- Python truthiness of an optional `str` -/
def truthy : Option String → Bool
  | some s => s != ""
  | none => false

/-- `a or b` on optional strings -/
def pyOr (a b : Option String) : Option String := if truthy a then a else b

def startsWithS (p s : String) : Bool := startsWithL p.toList s.toList

/-- `s.split(sep, 1)`: (head, rest after the first `sep`) -/
def splitOnceL (sep : List Char) : List Char → List Char × Option (List Char)
  | [] => ([], none)
  | c :: cs =>
    match stripPrefix? sep (c :: cs) with
    | some r => ([], some r)
    | none => let (h, t) := splitOnceL sep cs; (c :: h, t)

/-- `s.split(sep)` for a non-empty `sep` -/
def splitOnL (sep : List Char) (s : List Char) : List (List Char) :=
  let rec go (fuel : Nat) (s : List Char) : List (List Char) :=
    match fuel with
    | 0 => [s]
    | fuel + 1 =>
      match splitOnceL sep s with
      | (h, some r) => h :: go fuel r
      | (h, none) => [h]
  go s.length s

/-- `str.strip()` -/
def stripL (l : List Char) : List Char := (dropSpaces (dropSpaces l).reverse).reverse

def charsLt : List Char → List Char → Bool
  | [], [] => false
  | [], _ :: _ => true
  | _ :: _, [] => false
  | a :: as, b :: bs => if a.toNat < b.toNat then true else if b.toNat < a.toNat then false else charsLt as bs

def strLt (a b : String) : Bool := charsLt a.toList b.toList

/-- insertion into a sorted duplicate-free list -/
def insertUniq (x : String) : List String → List String
  | [] => [x]
  | y :: ys => if x == y then y :: ys else if strLt x y then x :: y :: ys else y :: insertUniq x ys

/-- `sorted(frozenset(canonicalize_name(f) for f in features))` -/
def normFeatures (fs : List String) : List String := fs.foldl (fun acc f => insertUniq (canonName f) acc) []

/-! ### `vcs/git.py` over a restricted grammar

```
giturl  := ["git+"] scheme "://" [user "@"] [host] [":" port] path [suffix]
         | [user "@"] host ":" seg ("/" seg)+ ["/"] [suffix]                  (scp-like; first seg not all digits)
scheme  := "git" | "ssh" | "rsync" | "file" | "http" | "https"
user, host := uchar+        uchar := [A-Za-z0-9._-]        port := [0-9]+
path    := ("/" | ":") [ seg ("/" seg)* ["/"] ]           seg := [A-Za-z0-9._~-]+
suffix  := "@" rev ["#subdirectory=" subdir] | "#subdirectory=" subdir
rev     := [-A-Za-z0-9._/]+                                 subdir := [-A-Za-z0-9_/.]+ (SUBDIR of git.py; `.` only when the source's class has it: Gen.gitSubdirAllowsDot)
```
On these texts the first two regular expressions of `PATTERNS` (URL form) resp. the fourth (scp-like form) match
and bind the groups as computed below; this is a correspondence obligation of the check (stream `giturl`). -/

/-- `ParsedUrl` (without `name`, which no modelled function reads) -/
structure GitUrl where
  protocol : Option String
  resource : Option String
  pathname : Option String
  user : Option String
  port : Option String
  rev : Option String
  subdirectory : Option String
deriving Repr, DecidableEq, Inhabited

def isUChar (c : Char) : Bool := isAlnum c || c == '.' || c == '_' || c == '-'
def isSegChar (c : Char) : Bool := isUChar c || c == '~'
def isRevChar (c : Char) : Bool := isUChar c || c == '/'
def isSubdirChar (c : Char) : Bool :=
  isAlnum c || c == '_' || c == '-' || c == '/' || (Gen.gitSubdirAllowsDot && c == '.')

def gitSchemes : List String := ["git", "ssh", "rsync", "file", "http", "https"]

def subdirKey : List Char := "#subdirectory=".toList

/-- `suffix`: (rev, subdirectory); `none` = outside the grammar -/
def parseSuffix (s : List Char) : Option (Option String × Option String) :=
  let sub (s : List Char) : Option (Option String) :=
    match s with
    | [] => some none
    | _ =>
      match stripPrefix? subdirKey s with
      | some d => if !d.isEmpty && d.all isSubdirChar then some (some (String.ofList d)) else none
      | none => none
  match s with
  | [] => some (none, none)
  | '@' :: r =>
    let (rev, r') := takeWhileC isRevChar r
    if rev.isEmpty then none
    else (sub r').map (fun d => (some (String.ofList rev), d))
  | _ => (match sub s with
    | some (some d) => some (none, some d)
    | _ => none)

/-- `seg ("/" seg)* ["/"]` or nothing, up to the suffix: (path text, rest) -/
def takeSegs : Nat → List Char → Option (List Char × List Char)
  | 0, _ => none
  | fuel + 1, s =>
    let (seg, r) := takeWhileC isSegChar s
    if seg.isEmpty then none
    else match r with
      | '/' :: r' =>
        (match r' with
         | [] => some (seg ++ ['/'], [])
         | c :: _ =>
           if c == '@' || c == '#' then some (seg ++ ['/'], r')
           else (takeSegs fuel r').map (fun (p, r'') => (seg ++ '/' :: p, r'')))
      | _ => some (seg, r)

/-- `(:(?P<port>\d+))?` is kept only when the pathname can start right after it -/
def takePort (r : List Char) : Option String × List Char :=
  match r with
  | ':' :: r' =>
    let (d, r'') := takeWhileC isDigit r'
    (match d, r'' with
     | _ :: _, '/' :: _ => (some (String.ofList d), r'')
     | _ :: _, ':' :: _ => (some (String.ofList d), r'')
     | _, _ => (none, r))
  | _ => (none, r)

/-- the path after its first separator, up to the suffix -/
def takePath (r2 : List Char) : Option (List Char × List Char) :=
  match r2 with
  | [] => some ([], [])
  | c :: _ => if c == '@' || c == '#' then some ([], r2) else takeSegs (r2.length + 1) r2

/-- `[:port] path [suffix]` after user and host -/
def authStep (proto : String) (user : Option String) (host : List Char) (r : List Char) : PyM GitUrl :=
  let (port, r1) := takePort r
  match r1 with
  | sep :: r2 =>
    if sep == '/' || sep == ':' then
      match takePath r2 with
      | none => .error .unmodelled
      | some (p, r3) =>
        match parseSuffix r3 with
        | none => .error .unmodelled
        | some (rev, sub) =>
          .ok { protocol := some proto, resource := if host.isEmpty then none else some (String.ofList host),
                pathname := some (String.ofList (sep :: p)), user := user, port := port, rev := rev,
                subdirectory := sub }
    else .error .unmodelled
  | [] => .error .unmodelled

/-- the part after `scheme://` -/
def parseAuthorityPath (proto : String) (s : List Char) : PyM GitUrl :=
  let (u1, r) := takeWhileC isUChar s
  match r with
  | '@' :: r' =>
    if u1.isEmpty then .error .unmodelled
    else
      let (h, r'') := takeWhileC isUChar r'
      if h.isEmpty then .error .unmodelled else authStep proto (some (String.ofList u1)) h r''
  | _ => authStep proto none u1 r

/-- scp-like form `[user@]host:seg/seg…` (fourth pattern; no `protocol` group, hence the default `"ssh"`) -/
def parseScp (s : List Char) : PyM GitUrl :=
  let (u1, r) := takeWhileC isUChar s
  let step (user : Option String) (host : List Char) (r : List Char) : PyM GitUrl :=
    match r with
    | ':' :: r1 =>
      let (seg1, _) := takeWhileC isSegChar r1
      if seg1.isEmpty || seg1.all isDigit then .error .unmodelled
      else
        match takeSegs (r1.length + 1) r1 with
        | none => .error .unmodelled
        | some (p, r2) =>
          -- `([:/]PATH/)(NAME)`: at least two segments
          if !(p.contains '/') || (p.filter (· == '/')).length == 1 && p.getLast? == some '/' then .error .unmodelled
          else
            match parseSuffix r2 with
            | none => .error .unmodelled
            | some (rev, sub) =>
              .ok { protocol := some "ssh", resource := some (String.ofList host),
                    pathname := some (String.ofList (':' :: p)), user := user, port := none, rev := rev,
                    subdirectory := sub }
    | _ => .error .unmodelled
  if u1.isEmpty then .error .unmodelled
  else
    match r with
    | '@' :: r' =>
      let (h, r'') := takeWhileC isUChar r'
      if h.isEmpty then .error .unmodelled else step (some (String.ofList u1)) h r''
    | _ => step none u1 r

/-- `ParsedUrl.parse(url)` on the restricted grammar -/
def parseGitUrlL (s : List Char) : PyM GitUrl :=
  let s' := match stripPrefix? "git+".toList s with
    | some r => r
    | none => s
  let (sch, r) := takeWhileC isLowerAlpha s'
  match stripPrefix? "://".toList r with
  | some rest =>
    if gitSchemes.contains (String.ofList sch) then parseAuthorityPath (String.ofList sch) rest
    else .error .unmodelled
  | none => parseScp s

def parseGitUrl (s : String) : PyM GitUrl := parseGitUrlL s.toList

/-- `pathname.lstrip(":/")` -/
def lstripColonSlash : List Char → List Char
  | c :: cs => if c == ':' || c == '/' then lstripColonSlash cs else c :: cs
  | [] => []

/-- `ParsedUrl.url` (`{self.resource or ''}`: an absent host, as in `file:///path`, prints as nothing) -/
def GitUrl.url (u : GitUrl) : String :=
  let protocol := if truthy u.protocol then u.protocol.getD "" ++ "://" else ""
  let user := if truthy u.user then u.user.getD "" ++ "@" else ""
  let port := if truthy u.port then ":" ++ u.port.getD "" else ""
  let path := "/" ++ String.ofList (lstripColonSlash ((u.pathname.getD "").toList))
  protocol ++ user ++ (if truthy u.resource then u.resource.getD "" else "") ++ port ++ path

/-! ### `specification.py` -/

/-- `PackageSpecification` -/
structure Spec where
  prettyName : String
  name : String
  sourceType : Option String
  sourceUrl : Option String
  sourceReference : Option String
  sourceResolvedReference : Option String
  sourceSubdirectory : Option String
  /-- `_features`, a frozenset of canonical names: kept sorted and duplicate-free -/
  features : List String
deriving Repr, DecidableEq, Inhabited

/-- `_normalize_source_url(source_type, source_url)` -/
def normalizeSourceUrl (sourceType sourceUrl : Option String) : PyM (Option String) :=
  if truthy sourceType && truthy sourceUrl && sourceType == some "git" then do
    let u ← parseGitUrl (sourceUrl.getD "")
    pure (some u.url)
  else pure sourceUrl

/-- `PackageSpecification.__init__` -/
def Spec.make (name : String) (sourceType sourceUrl sourceReference sourceResolvedReference
    sourceSubdirectory : Option String) (features : List String) : PyM Spec := do
  let url ← normalizeSourceUrl sourceType sourceUrl
  pure { prettyName := name, name := canonName name, sourceType, sourceUrl := url, sourceReference,
         sourceResolvedReference, sourceSubdirectory, features := normFeatures features }

def featureSuffix (fs : List String) : String := if fs.isEmpty then "" else "[" ++ joinWith "," fs ++ "]"

def Spec.completeName (s : Spec) : String := s.name ++ featureSuffix s.features
def Spec.completePrettyName (s : Spec) : String := s.prettyName ++ featureSuffix s.features

def Spec.isDirectOrigin (s : Spec) : Bool :=
  match s.sourceType with
  | some t => Gen.directOriginTypes.contains t
  | none => false

/-- `is_same_source_as` -/
def Spec.isSameSourceAs (a b : Spec) : Bool :=
  if a.sourceType != b.sourceType then false
  else if !truthy a.sourceType then true
  else if (truthy a.sourceUrl || truthy b.sourceUrl) && a.sourceUrl != b.sourceUrl then false
  else if (truthy a.sourceSubdirectory || truthy b.sourceSubdirectory) && a.sourceSubdirectory != b.sourceSubdirectory then false
  else if truthy a.sourceResolvedReference && truthy b.sourceResolvedReference &&
      a.sourceResolvedReference == b.sourceResolvedReference then true
  else if truthy a.sourceReference || truthy b.sourceReference then
    if !(truthy a.sourceReference && truthy b.sourceReference) then false
    else
      let ra := a.sourceReference.getD ""
      let rb := b.sourceReference.getD ""
      if !(ra == rb || startsWithS rb ra || startsWithS ra rb) then false
      else if truthy a.sourceResolvedReference && truthy b.sourceResolvedReference &&
          a.sourceResolvedReference != b.sourceResolvedReference then false
      else true
  else true

def Spec.isSamePackageAs (a b : Spec) : Bool :=
  if b.completeName != a.completeName then false else a.isSameSourceAs b

/-- `PackageSpecification.__eq__` -/
def Spec.beq (a b : Spec) : Bool := a.isSamePackageAs b

/-- what `__hash__` feeds to `hash` (xor of the hashes of these values) -/
def Spec.hashKey (s : Spec) : String × Option (String × Option String × Option String) :=
  (s.completeName,
   if truthy s.sourceType then
     some (s.sourceType.getD "", (if truthy s.sourceUrl then s.sourceUrl else none),
           (if truthy s.sourceSubdirectory then s.sourceSubdirectory else none))   -- `hash(x or None)`
   else none)

/-! ### dependency objects -/

inductive Kind where
  /-- plain `Dependency` -/
  | registry
  /-- `URLDependency(name, url, directory=…)` -/
  | url (url : String) (directory : Option String)
  /-- `VCSDependency(name, vcs, source, branch, tag, rev, directory=…)`; `source` is `_source` (normalised) -/
  | vcs (vcs : String) (source : String) (branch tag rev : Option String) (directory : Option String)
  /-- `FileDependency` / `DirectoryDependency`: never built by the model -/
  | file
  | directory
deriving Repr, DecidableEq, Inhabited

def Kind.tag : Kind → String
  | .registry => "registry" | .url .. => "url" | .vcs .. => "vcs" | .file => "file" | .directory => "directory"

structure Dep where
  spec : Spec
  constraint : VC
  prettyConstraint : String
  marker : M
  /-- `_python_versions`, `_python_constraint` -/
  pythonVersions : String
  pythonConstraint : VC
  inExtras : List String
  optional : Bool
  activated : Bool
  kind : Kind
deriving Inhabited

def Dep.name (d : Dep) : String := d.spec.name
def Dep.extras (d : Dep) : List String := d.spec.features

/-- `Dependency.__init__` with a constraint *object* (`_pretty_constraint = str(constraint)`) -/
def mkDep (spec : Spec) (c : VC) (kind : Kind) : PyM Dep := do
  let pretty ← c.toStr
  pure { spec, constraint := c, prettyConstraint := pretty, marker := .any, pythonVersions := "*",
         pythonConstraint := VC.any, inExtras := [], optional := false, activated := true, kind }

/-- `Dependency.__init__` with a constraint *string* (`_pretty_constraint` is that string) -/
def mkDepStr (spec : Spec) (c : String) (kind : Kind) : PyM Dep := do
  let vc ← VParser.parseConstraint c
  pure { spec, constraint := vc, prettyConstraint := c, marker := .any, pythonVersions := "*",
         pythonConstraint := VC.any, inExtras := [], optional := false, activated := true, kind }

/-- `Dependency(name, constraint_object, extras=…)` -/
def mkRegistry (name : String) (c : VC) (extras : List String) : PyM Dep := do
  let spec ← Spec.make name none none none none none extras
  mkDep spec c .registry

/-- `Dependency(name, "constraint text", extras=…)` -/
def mkRegistryStr (name : String) (c : String) (extras : List String) : PyM Dep := do
  let spec ← Spec.make name none none none none none extras
  mkDepStr spec c .registry

/-- `URLDependency(name, url, directory=…, extras=…)`: `ValueError` without scheme or netloc -/
def mkUrlDep (name url : String) (directory : Option String) (extras : List String) : PyM Dep := do
  let u ← urlsplit url
  if u.scheme == "" || u.netloc == "" then .error .value
  else do
    let spec ← Spec.make name (some "url") (some url) none none directory extras
    mkDepStr spec "*" (.url url directory)

def lowerS (s : String) : String := String.ofList (s.toList.map lowerChar)

/-- `VCSDependency(name, vcs, source, branch, tag, rev, directory=…, extras=…)` -/
def mkVcsDep (name vcs source : String) (branch tag rev directory : Option String) (extras : List String) : PyM Dep := do
  let ref := pyOr (pyOr (pyOr branch tag) rev) (some "HEAD")
  let spec ← Spec.make name (some (lowerS vcs)) (some source) ref none directory extras
  let src := (pyOr spec.sourceUrl (some source)).getD source
  mkDepStr spec "*" (.vcs vcs src branch tag rev directory)

/-! ### the `marker` and `python_versions` setters -/

/-- the names collected into `_in_extras` from `convert_markers(marker)["extra"]` -/
def inExtrasOf (groups : List (List (String × String))) : List String :=
  groups.flatMap fun g => g.flatMap fun (op, extra) =>
    if op == "==" then [canonName extra]
    else if op == "" && (Generic.strIn "||" extra || Generic.strIn "," extra) then
      let sep := if Generic.strIn "||" extra then "||" else ","
      let vals := (splitOnL sep.toList extra.toList).map stripL
      (vals.filter (fun e => !startsWithL ['!', '='] e)).map (fun e => canonName (String.ofList e))
    else []

/-- `dep.marker = marker` (a marker object) -/
def Dep.setMarker (d : Dep) (m : M) : PyM Dep := do
  let ex ← convertMarkersFor "extra" m
  let d1 : Dep := match ex with
    | some groups =>
      -- `if new_in_extras: self.deactivate()` (poetry-core ad4e259: a marker that only EXCLUDES extras leaves the
      -- dependency mandatory); `_in_extras = [*_in_extras, *new_in_extras]`
      if (inExtrasOf groups).isEmpty then { d with marker := m, inExtras := d.inExtras ++ inExtrasOf groups }
      else { d with marker := m, optional := true, activated := false, inExtras := d.inExtras ++ inExtrasOf groups }
    | none => { d with marker := m }
  let py ← convertMarkersFor "python_version" m
  let pv ← (match py with
    | none => pure "*"
    | some groups => if groups.contains [] then pure "*" else normalizePyMarkers groups)
  let pc ← VParser.parseConstraint pv
  pure { d1 with pythonVersions := pv, pythonConstraint := pc }

/-- `dep.python_versions = value` -/
def Dep.setPythonVersions (d : Dep) (value : String) : PyM Dep := do
  let pc ← VParser.parseConstraint value
  if pc.isAny then pure { d with pythonVersions := value, pythonConstraint := pc }
  else do
    let txt ← createNestedMarker "python_version" pc
    let pm ← parseMarker txt
    let m ← d.marker.intersectWith pm
    pure { d with pythonVersions := value, pythonConstraint := pc, marker := m }

/-! ### `base_pep_508_name` / `to_pep_508` -/

def removeSpaces (s : String) : String := String.ofList (s.toList.filter (· != ' '))

/-- the ` (constraint)` part of `Dependency.base_pep_508_name` -/
def constraintSuffix (c : VC) (pretty : String) : PyM String :=
  match c with
  | .union rs => do
    let single ← VC.excludedSingleVersion rs
    if single.isSome || (VC.excludedWildcard rs).isSome then do
      pure (" (" ++ (← c.toStr) ++ ")")
    else do
      let parts ← (splitOnL [','] pretty.toList).mapM fun p => do
        let pc ← VParser.parseConstraint (String.ofList p)
        pc.toStr
      pure (" (" ++ joinWith "," parts ++ ")")
  | .single (.ver v) => pure (" (==" ++ v.text ++ ")")
  | _ => if c.isAny then pure "" else do pure (" (" ++ removeSpaces (← c.toStr) ++ ")")

/-- `VCSDependency.reference` -/
def vcsReference (branch tag rev : Option String) : String := (pyOr (pyOr (pyOr branch tag) rev) (some "")).getD ""

def Dep.basePep508Name (d : Dep) : PyM String :=
  match d.kind with
  | .registry => do pure (d.spec.completePrettyName ++ (← constraintSuffix d.constraint d.prettyConstraint))
  | .url url directory =>
    pure (d.spec.completePrettyName ++ " @ " ++ url ++
      (if truthy directory then "#subdirectory=" ++ directory.getD "" else ""))
  | .vcs vcs source branch tag rev directory => do
    let parsed ← parseGitUrl source
    let head := if parsed.protocol.isSome then " @ " ++ vcs ++ "+" ++ source
      else " @ " ++ vcs ++ "+ssh://" ++ parsed.url
    let ref := vcsReference branch tag rev
    pure (d.spec.completePrettyName ++ head ++ (if ref != "" then "@" ++ ref else "") ++
      (if truthy directory then "#subdirectory=" ++ directory.getD "" else ""))
  | _ => .error .unmodelled

/-- `create_nested_marker(name, generic constraint)` -/
def nestedAtom (name : String) (a : Generic.Atom) : String := name ++ " " ++ a.op.str ++ " \"" ++ a.value ++ "\""

def nestedGS (name : String) : GS → PyM String
  | .any => .ok ""
  | .empty => .error .assertion
  | .atom a => .ok (nestedAtom name a)
  | .multi _ cs => .ok (joinWith " and " (cs.map (nestedAtom name)))

def nestedGC (name : String) : GC → PyM String
  | .s c => nestedGS name c
  | .union ms => do
    let parts ← ms.mapM fun m => do
      let t ← nestedGS name m
      pure (match m with | .multi .. => "(" ++ t ++ ")" | _ => t)
    pure (joinWith " or " parts)

/-- `to_pep_508(with_extras)` -/
def Dep.toPep508 (d : Dep) (withExtras : Bool := true) : PyM String := do
  let requirement ← d.basePep508Name
  let (markers, hasExtras) ← (if !d.marker.isAny then do
      let m ← (if withExtras then pure d.marker else d.marker.withoutExtras)
      let texts ← (if m.isEmpty || m.isAny then pure [] else do pure [← m.toStr])
      let ex ← convertMarkersFor "extra" m
      pure (texts, ex.isSome)
    else if d.pythonVersions != "*" then do
      pure ([← createNestedMarker "python_version" d.pythonConstraint], false)
    else pure (([] : List String), false))
  let inExtras := joinWith " || " d.inExtras
  let markers ← (if inExtras != "" && withExtras && !hasExtras then do
      let gc ← Generic.parseConstraint inExtras
      pure (markers ++ [← nestedGC "extra" gc])
    else pure markers)
  match markers with
  | [] => pure requirement
  | [m] => pure (requirement ++ " ; " ++ m)
  | ms => pure (requirement ++ " ; " ++ joinWith " and " (ms.map (fun m => "(" ++ m ++ ")")))

/-! ### `Link` and the wheel file-name regex -/

/-- `afterDash t` : the text after the first `-` of `t` -/
def afterDash : List Char → Option (List Char)
  | [] => none
  | c :: cs => if c == '-' then some cs else afterDash cs

/-- can `t` be written `x₁-x₂-…-xₙ` with every `xᵢ` non-empty (the `xᵢ` may contain `-`) -/
def canSplit : Nat → List Char → Bool
  | 0, _ => false
  | 1, t => !t.isEmpty
  | _ + 2, [] => false
  | n + 2, _ :: rest =>
    match afterDash rest with
    | some r => canSplit (n + 1) r
    | none => false

/-- `-pyver-abi-plat` (with optional `-ver`, `-build` in front, which the same test subsumes) -/
def tagsTail (s : List Char) : Bool :=
  match s with
  | '-' :: t => canSplit 3 t
  | _ => false

/-- shortest `\d.+?` such that the rest still is a tags tail -/
def findVer (acc : List Char) : List Char → Option (List Char)
  | [] => none
  | c :: t => if tagsTail t then some (acc ++ [c]) else findVer (acc ++ [c]) t

/-- `wheel_file_re.match(filename)` for a file name ending in `.whl`: groups `name`, `ver` -/
def wheelNameVer (filename : List Char) : Option (List Char × Option (List Char)) :=
  match stripPrefix? ".whl".toList.reverse filename.reverse with
  | none => none
  | some bodyRev =>
    match bodyRev.reverse with
    | [] => none
    | c :: rest =>
      let (n, r) := breakAt (· == '-') rest
      if tagsTail r then
        match r with
        | '-' :: d :: t => if isDigit d then some (c :: n, findVer [d] t) else some (c :: n, none)
        | _ => some (c :: n, none)
      else none

/-- `pathlib.PurePath(name).suffix` for a plain file name -/
def suffixOf (name : List Char) : List Char :=
  let (extRev, restRev) := breakAt (· == '.') name.reverse
  match restRev with
  | '.' :: stemRev => if stemRev.isEmpty || extRev.isEmpty then [] else '.' :: extRev.reverse
  | _ => []

/-- `utils.splitext(name)[1]` -/
def extOf (name : List Char) : List Char :=
  let ext := suffixOf name
  let base := name.take (name.length - ext.length)
  let baseLow := base.map lowerChar
  if startsWithL ".tar".toList.reverse baseLow.reverse then base.drop (base.length - 4) ++ ext else ext

/-- `is_archive_file(name)` -/
def isArchiveName (name : List Char) : Bool := Gen.archiveExtensions.contains (String.ofList ((extOf name).map lowerChar))

/-- `posixpath.basename(path.rstrip("/"))` -/
def basenameOf (path : List Char) : List Char :=
  let p := (path.reverse.dropWhile (· == '/')).reverse
  (breakAt (· == '/') p.reverse).1.reverse

/-- first match of `[#&]subdirectory=([^&]*)` -/
def subdirFragment : List Char → Option String
  | [] => none
  | c :: cs =>
    if c == '#' || c == '&' then
      match stripPrefix? "subdirectory=".toList cs with
      | some r => some (String.ofList (takeWhileC (· != '&') r).1)
      | none => subdirFragment cs
    else subdirFragment cs

/-- `is_url(name)` -/
def isUrlName (name : String) : Bool :=
  if !name.toList.contains ':' then false
  else Gen.isUrlSchemes.contains (String.ofList ((breakAt (· == ':') name.toList).1.map lowerChar))

/-! ### `Dependency.create_from_pep_508` -/

/-- the comment stripping at the top of `create_from_pep_508` -/
def stripComment (text : List Char) : List Char :=
  match splitOnceL [' ', '#'] text with
  | (h, none) => stripL h
  | (h, some rest) =>
    let name := stripL h
    match splitOnceL [' ', ';'] rest with
    | (_, some m) => name ++ [' ', ';'] ++ m
    | (_, none) => name

def withVersion (d : Dep) (version : Option (List Char)) : PyM Dep :=
  match version with
  | some v => do
    let c ← VParser.parseConstraint (String.ofList v)
    pure { d with constraint := c }
  | none => pure d

/-- `create_from_pep_508` after `parse_requirement` -/
def fromReq (req : Requirement) : PyM Dep := do
  let name := req.name
  if isUrlName name then .error .unmodelled      -- unreachable: a NAME token has no ':'
  else
  let dep ← (match req.url with
    | some url => do
      if startsWithL ['\\', '\\'] url.toList then .error .unmodelled
      else
      let u ← urlsplit url
      if u.scheme == "file" then .error .unmodelled        -- file / directory dependency: file-system probes
      else if u.path.toList.contains '%' then .error .unmodelled   -- `unquote`
      else
      let base := basenameOf u.path.toList
      let isWheel := extOf base == ".whl".toList
      let (name, version) ← (if isWheel then
          let filename := if base.isEmpty then u.netloc.toList else base
          match wheelNameVer filename with
          | some (n, v) => pure (String.ofList n, v)
          | none => .error .value                            -- "Invalid wheel name"
        else pure (name, none))
      if startsWithS "git+" u.scheme then do
        let g ← parseGitUrl url
        let d ← mkVcsDep name "git" g.url none none g.rev g.subdirectory req.extras
        withVersion d version
      else if u.scheme == "git" then do
        let d ← mkVcsDep name "git" (urlunsplit { u with fragment := "" }) none none none none req.extras
        withVersion d version
      else if u.scheme == "http" || u.scheme == "https" then do
        let d ← mkUrlDep name (urlunsplit { u with fragment := "" }) (subdirFragment url.toList) req.extras
        withVersion d version
      else .error .unmodelled                                 -- local path not using the file scheme
    | none =>
      -- `cached_is_dir(p) and (os.path.sep in name or name.startswith("."))` is false for a NAME token
      -- `is_archive_file(p) and p.is_file()`: in the model's world no file of that name exists in the working
      -- directory (a file-system probe; such a file would make it a FileDependency, outside the model)
      mkRegistry name req.constraint req.extras)
  match req.marker with
  | some m => dep.setMarker m
  | none => pure dep

def createFromPep508L (text : List Char) : PyM Dep := do
  let req ← Req.parseL (stripComment text)
  fromReq req

def createFromPep508 (text : String) : PyM Dep := createFromPep508L text.toList

/-- `Dependency.create_from_pep_508(text)` with the public `parse_requirement` (which converts `RecursionError` into
`InvalidRequirementError` since repo fix 9ad3a46, see `Req.parseLTop`); the part after it (`fromReq`: the `marker`
setter calls `convert_markers` → `dnf`) is not guarded in the code either.  Returned values are those of
`createFromPep508` (`createFromPep508Top_ok_iff`). -/
def createFromPep508LTop (text : List Char) : PyM Dep := do
  let req ← Req.parseLTop (stripComment text)
  fromReq req

def createFromPep508Top (text : String) : PyM Dep := createFromPep508LTop text.toList

theorem createFromPep508Top_ok_iff (text : String) (d : Dep) :
    createFromPep508Top text = .ok d ↔ createFromPep508 text = .ok d := by
  unfold createFromPep508Top createFromPep508LTop createFromPep508 createFromPep508L Req.parseLTop
  cases h : Req.parseL (stripComment text.toList) with
  | ok r => simp [Req.guardRecursion, bind, Except.bind]
  | error e => cases e <;> simp [Req.guardRecursion, bind, Except.bind]

/-! ### `Dependency.__eq__` / `__hash__` -/

def rcListEqv : List RC → List RC → Bool
  | [], [] => true
  | a :: as, b :: bs => a.eqv b && rcListEqv as bs
  | _, _ => false

/-- `constraint == other.constraint` -/
def vcEq : VC → VC → Bool
  | .empty, .empty => true
  | .single a, .single b => a.eqv b
  | .union as, .union bs => rcListEqv as bs
  | _, _ => false

def Dep.beq (a b : Dep) : Bool := a.spec.beq b.spec && (vcEq a.constraint b.constraint || a.spec.isDirectOrigin)

def Dep.hashKey (d : Dep) := d.spec.hashKey

/-! ### dumps for the line protocol -/

def optDump : Option String → String
  | none => "-"
  | some s => "=" ++ s

def Kind.dump : Kind → String
  | .registry => "registry"
  | .url u d => "url(" ++ u ++ "|" ++ optDump d ++ ")"
  | .vcs v s b t r d => "vcs(" ++ v ++ "|" ++ s ++ "|" ++ optDump b ++ "|" ++ optDump t ++ "|" ++ optDump r ++ "|" ++ optDump d ++ ")"
  | .file => "file"
  | .directory => "directory"

def Spec.dump (s : Spec) : String :=
  s.prettyName ++ "|" ++ s.name ++ "|" ++ joinWith "," s.features ++ "|" ++ optDump s.sourceType ++ "|" ++
    optDump s.sourceUrl ++ "|" ++ optDump s.sourceReference ++ "|" ++ optDump s.sourceSubdirectory

def GitUrl.dump (u : GitUrl) : String :=
  optDump u.protocol ++ "|" ++ optDump u.resource ++ "|" ++ optDump u.pathname ++ "|" ++ optDump u.user ++ "|" ++
    optDump u.port ++ "|" ++ optDump u.rev ++ "|" ++ optDump u.subdirectory

end Poetry.Dep
