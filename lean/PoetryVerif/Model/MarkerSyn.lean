/-
Hand recogniser of `version/grammars/markers.lark` (PEP 508 environment markers) producing the
raw syntax tree that `_compact_markers` walks.  The vocabularies (MARKER_NAME, MARKER_OP,
BOOL_OP) come from the grammar file itself (Generated.lean, regenerated on every run; the
extractor fails if the grammar's *rules* change shape).  lark's LALR engine and contextual
lexer are trusted; that this recogniser accepts the same language is a correspondence
obligation (C06/C19 parse streams).  Core Lean only.
-/
import PoetryVerif.Model.Basic
import PoetryVerif.Model.Generated

namespace Poetry.Marker

mutual
/-- `_atom`: an `item` or a parenthesised `marker` -/
inductive Atom where
  /-- `name op "value"` (swapped = false) or `"value" op name` (swapped = true); `value` is the
  string token without its quotes, escapes unprocessed (`value[1:-1]`) -/
  | item (name op value : String) (swapped : Bool)
  | paren (m : Syn)
/-- `marker: _atom (BOOL_OP _atom)*`; `isOr` is the BOOL_OP between `a` and the rest -/
inductive Syn where
  | one (a : Atom)
  | more (a : Atom) (isOr : Bool) (rest : Syn)
end

/-- a target environment: values of the string/version variables, and the set of active extras
(`none`: the key `extra` is absent from the environment) -/
structure Env where
  vars : List (String × String)
  extras : Option (List String)
deriving Repr, Inhabited

def Env.get? (E : Env) (k : String) : Option String := (E.vars.find? (fun p => p.1 == k)).map (·.2)

/-- PEP 503 name normalisation (`packaging.utils.canonicalize_name`): lower-case, runs of `-`, `_`,
`.` become one `-` -/
def canonName (s : String) : String :=
  let rec go (cs : List Char) (inRun : Bool) : List Char :=
    match cs with
    | [] => []
    | c :: r =>
      if c == '-' || c == '_' || c == '.' then (if inRun then go r true else '-' :: go r true)
      else lowerChar c :: go r false
  String.ofList (go s.toList false)

/-- `%ignore WS_INLINE` : `(" "|/\t/)+` -/
def skipWs : List Char → List Char
  | ' ' :: cs => skipWs cs
  | '\t' :: cs => skipWs cs
  | cs => cs

/-- stable insertion by descending length: lark orders the literals of one terminal by width -/
def insertByLen (w : String) : List String → List String
  | [] => [w]
  | x :: xs => if x.length < w.length then w :: x :: xs else x :: insertByLen w xs

def byLenDesc (ws : List String) : List String := ws.foldl (fun acc w => insertByLen w acc) []

/-- first word (in the given order) that is a prefix of the input -/
def matchWord (ws : List String) (s : List Char) : Option (String × List Char) :=
  match ws with
  | [] => none
  | w :: rest =>
    match stripPrefix? w.toList s with
    | some r => some (w, r)
    | none => matchWord rest s

def names : List String := byLenDesc Gen.larkMarkerNames
def ops : List String := byLenDesc Gen.larkMarkerOps
def boolOps : List String := byLenDesc Gen.larkBoolOps

/-- SINGLE_QUOTED_STRING `/'([^'])*'/` after the opening quote: (content, rest) -/
def singleQuoted : List Char → Option (List Char × List Char)
  | [] => none
  | '\'' :: r => some ([], r)
  | c :: cs => match singleQuoted cs with
    | some (v, r) => some (c :: v, r)
    | none => none

/-- ESCAPED_STRING `"` `.*?(?<!\\)(\\\\)*?` `"` after the opening quote: the first `"` preceded by
an even number of backslashes closes; `.` does not match a newline. `bs` = parity of the run of
backslashes just read. -/
def escapedQuoted (oddBs : Bool) : List Char → Option (List Char × List Char)
  | [] => none
  | '\n' :: _ => none
  | '"' :: r =>
    if oddBs then (match escapedQuoted false r with
      | some (v, r') => some ('"' :: v, r')
      | none => none)
    else some ([], r)
  | '\\' :: cs => (match escapedQuoted (!oddBs) cs with
      | some (v, r) => some ('\\' :: v, r)
      | none => none)
  | c :: cs => (match escapedQuoted false cs with
      | some (v, r) => some (c :: v, r)
      | none => none)

/-- `_marker_value` -/
def markerValue (s : List Char) : Option (String × List Char) :=
  match s with
  | '\'' :: r => (singleQuoted r).map fun (v, r') => (String.ofList v, r')
  | '"' :: r => (escapedQuoted false r).map fun (v, r') => (String.ofList v, r')
  | _ => none

/-- `item` -/
def parseItem (s : List Char) : Option (Atom × List Char) :=
  match markerValue s with
  | some (v, r) =>
    match matchWord ops (skipWs r) with
    | some (op, r2) =>
      match matchWord names (skipWs r2) with
      | some (n, r3) => some (.item n op v true, r3)
      | none => none
    | none => none
  | none =>
    match matchWord names s with
    | some (n, r) =>
      match matchWord ops (skipWs r) with
      | some (op, r2) =>
        match markerValue (skipWs r2) with
        | some (v, r3) => some (.item n op v false, r3)
        | none => none
      | none => none
    | none => none

mutual
def parseAtom (fuel : Nat) (s : List Char) : Option (Atom × List Char) :=
  match fuel with
  | 0 => none
  | fuel + 1 =>
    match skipWs s with
    | '(' :: r =>
      match parseSyn fuel r with
      | some (m, r2) =>
        match skipWs r2 with
        | ')' :: r3 => some (.paren m, r3)
        | _ => none
      | none => none
    | s' => parseItem s'

def parseSyn (fuel : Nat) (s : List Char) : Option (Syn × List Char) :=
  match fuel with
  | 0 => none
  | fuel + 1 =>
    match parseAtom fuel s with
    | none => none
    | some (a, r) =>
      match matchWord boolOps (skipWs r) with
      | some (bop, r2) =>
        match parseSyn fuel r2 with
        | some (rest, r3) => some (.more a (bop == "or") rest, r3)
        | none => none
      | none => some (.one a, r)
end

/-- `_parser.parse(text)`: the whole input must be one `marker` (only WS_INLINE may follow). -/
def parseText (text : String) : PyM Syn :=
  let cs := text.toList
  match parseSyn (2 * cs.length + 2) cs with
  | some (m, r) => if (skipWs r).isEmpty then .ok m else .error .syntax
  | none => .error .syntax

/-! ### printing the raw tree (used by the protocol and by the parse/print theorems) -/

mutual
def Atom.dump : Atom → String
  | .item n op v sw => "I(" ++ n ++ "|" ++ op ++ "|" ++ v ++ "|" ++ boolStr sw ++ ")"
  | .paren m => "P(" ++ m.dump ++ ")"
def Syn.dump : Syn → String
  | .one a => a.dump
  | .more a isOr rest => a.dump ++ (if isOr then " or " else " and ") ++ rest.dump
end

mutual
def Atom.leaves : Atom → Nat
  | .item .. => 1
  | .paren m => m.leaves
def Syn.leaves : Syn → Nat
  | .one a => a.leaves
  | .more a _ rest => a.leaves + rest.leaves
end

end Poetry.Marker
