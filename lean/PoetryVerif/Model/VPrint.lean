/-
Model of `__str__` for version constraints: version_constraint.py (`_is_wildcard_candidate`,
`_single_wildcard_range_string`), VersionRange.__str__, VersionUnion.__str__.
-/
import PoetryVerif.Model.VRange

namespace Poetry

/-- `ReleaseTag == ReleaseTag | None` -/
def optTagEq : Option Tag → Option Tag → Bool
  | none, none => true
  | some a, some b => a.phase == b.phase && a.num == b.num
  | _, _ => false

/-- `_is_wildcard_candidate(min_, max_, inverted=…)` (with the D8 guard) -/
def isWildcardCandidate (mn mx : Version) (inverted : Bool) : Bool :=
  if mn.epoch != mx.epoch || mn.isLocal || mx.isLocal || mn.isPrerelease || mx.isPrerelease
      || (mn.isPostrelease != mx.isPostrelease)
      || !(Version.eqv mn.firstDevrelease mn)
      || (mx.isDevrelease && !(Version.eqv mx.firstDevrelease mx)) then false
  else
    let first := if inverted then mx else mn
    let second := if inverted then mn else mx
    let partsSecond := Version.stripZeros second.release
    if partsSecond.isEmpty then false
    else
      let partsFirst := first.release ++ Version.zeros (partsSecond.length - first.release.length)
      let exceeding := partsFirst.drop partsSecond.length
      if !(exceeding.all (· == 0)) then false
      else
        let pf := partsFirst.take partsSecond.length
        if first.isPostrelease then
          pf == partsSecond && optTagEq (first.post.map Tag.next) second.post
        else
          pf.dropLast == partsSecond.dropLast &&
            (match pf.getLast?, partsSecond.getLast? with
             | some a, some b => a + 1 == b
             | _, _ => false)

/-- `_single_wildcard_range_string(first, second)`; `IndexError` if nothing is left -/
def singleWildcardRangeString (first second : Version) : PyM String :=
  if first.isPostrelease then .ok (first.withoutDevrelease.text ++ ".*")
  else
    let parts := Version.stripZeros second.release
    match parts.getLast? with
    | none => .error .index
    | some l =>
      if l == 0 then .error .value  -- unreachable: stripZeros leaves no trailing zero
      else
        let base := joinWith "." ((parts.dropLast ++ [l - 1]).map natToString)
        let base := if second.epoch != 0 then natToString second.epoch ++ "!" ++ base else base
        .ok (base ++ ".*")

namespace VRange

/-- `is_single_wildcard_range` -/
def isSingleWildcardRange (r : VRange) : Bool :=
  match r.min, r.max with
  | some mn, some mx => if !r.imin || r.imax then false else isWildcardCandidate mn mx false
  | _, _ => false

/-- `VersionRange.__str__` -/
def toStr (r : VRange) : PyM String :=
  match r.min, r.max with
  | some mn, some mx =>
    if r.isSingleWildcardRange then do
      pure ("==" ++ (← singleWildcardRangeString mn mx))
    else
      .ok ((if r.imin then ">=" else ">") ++ mn.text ++ "," ++ (if r.imax then "<=" else "<") ++ mx.text)
  | some mn, none => .ok ((if r.imin then ">=" else ">") ++ mn.text)
  | none, some mx => .ok ((if r.imax then "<=" else "<") ++ mx.text)
  | none, none => .ok "*"

end VRange

def RC.toStr : RC → PyM String
  | .ver v => .ok v.text
  | .rng r => r.toStr

namespace VC

/-- `excludes_single_wildcard_range` and the two ranges in `idx_order` -/
def excludedWildcard (rs : List RC) : Option (Version × Version) :=
  match rs with
  | [r0, r1] =>
    let (one, two) := if r0.max.isSome then (r0, r1) else (r1, r0)
    match one.max, two.min with
    | some omax, some tmin =>
      if one.imax || one.min.isSome || !two.imin || two.max.isSome then none
      else if isWildcardCandidate tmin omax true then some (omax, tmin) else none
    | _, _ => none
  | _ => none

/-- `str(constraint)` -/
def toStr : VC → PyM String
  | empty => .ok "<empty>"
  | single c => c.toStr
  | union rs => do
    match ← excludedSingleVersion rs with
    | some v => pure ("!=" ++ v.text)
    | none =>
      match excludedWildcard rs with
      | some (omax, tmin) => pure ("!=" ++ (← singleWildcardRangeString omax tmin))
      | none => do
        let parts ← rs.mapM RC.toStr
        pure (joinWith " || " parts)

end VC

/-! ### structural dumps for the line protocol -/

def optVerText : Option Version → String
  | none => "-"
  | some v => v.text

def RC.dump : RC → String
  | .ver v => "V(" ++ v.text ++ ")"
  | .rng r => "R(" ++ optVerText r.min ++ "," ++ optVerText r.max ++ "," ++ boolStr r.imin ++ "," ++ boolStr r.imax ++ ")"

def VC.dump : VC → String
  | .empty => "E"
  | .single c => c.dump
  | .union rs => "U[" ++ joinWith ";" (rs.map RC.dump) ++ "]"

end Poetry
