/-
Conc — the three pieces of process-wide bookkeeping of poetry-core that are shared between
threads, as small-step state machines over ARBITRARY interleavings (C20).

  (a) `Memo`  : `functools.cache` in front of a function (markers.py `parse_marker`, `cnf`, `dnf`,
                `_merge_single_markers`; constraints/version/parser.py `parse_constraint`;
                constraints/generic/parser.py `parse_constraint`, `parse_extra_constraint`;
                version/pep440/parser.py `PEP440Parser.parse`; version/requirements.py `parse_requirement`).
                Unbounded dict, looked up by hash + `==`; a miss computes WITHOUT holding anything and
                then stores (`dict[key] = result`: an equal key already present keeps the OLD key object
                and gets the NEW value); exceptions are not stored.  Two threads may both miss, both
                compute and both store.
  (b) `Guard` : markers.py `detect_recursion`: `func.call_args = defaultdict(list)` keyed by
                `threading.get_ident()`; `decorated(*markers)`: fetch (and thereby create) this thread's
                list, `if markers in call_args: raise RecursionError`, `append`, call, `finally: pop()`.
  (c) `Lazy`  : version/parser.py `Parser.parse`: `if self._lark is None: self._lark = Lark.open(…)`;
                `return self._lark.parse(text)` (the slot is read a second time for the call).

A schedule is a list of (thread id, action) choices; an action that is not enabled for the thread's
current program counter leaves the state unchanged, so *every* list is a schedule and the workload of
each thread is whatever the schedule makes it do (any number of threads, any workloads).
An execution is the left fold of `step` over the schedule.  Core Lean only.
-/
import PoetryVerif.Model.Basic

namespace Poetry.Conc

/-- `threading.get_ident()` -/
abbrev Tid := Nat

/-! ### dict keyed by thread id -/

/-- association list in insertion order, as a `dict` keyed by thread id -/
abbrev TMap (α : Type) := List (Tid × α)

namespace TMap
variable {α : Type}

/-- `d.get(t, dflt)` -/
def get : TMap α → Tid → α → α
  | [], _, d => d
  | (t', x) :: m, t, d => if t' = t then x else get m t d

/-- `d[t] = v` (an existing key keeps its position) -/
def set : TMap α → Tid → α → TMap α
  | [], t, v => [(t, v)]
  | (t', x) :: m, t, v => if t' = t then (t', v) :: m else (t', x) :: set m t v

end TMap

/-! ### (a) memo cache: `functools.cache(f)` -/

/-- what `functools.cache` sees of the wrapped function and of its key type -/
structure MemoSpec (K V : Type) where
  /-- the wrapped function; a Python exception is a value -/
  f : K → PyM V
  /-- `hash(key)` -/
  hash : K → Nat
  /-- `stored == probe` as the dict lookup evaluates it (identity is subsumed by reflexivity) -/
  eq : K → K → Bool

namespace MemoSpec
variable {K V : Type}

/-- dict slot match: equal hash and `==` -/
def hit (s : MemoSpec K V) (stored probe : K) : Bool :=
  s.hash stored == s.hash probe && s.eq stored probe

/-- `cache.get(key)`: first slot whose key matches -/
def lookup (s : MemoSpec K V) : List (K × V) → K → Option V
  | [], _ => none
  | (k', v) :: c, k => if s.hit k' k then some v else lookup s c k

/-- `cache[key] = v`: a matching slot keeps its key object and takes the new value, otherwise a new
slot is appended -/
def store (s : MemoSpec K V) : List (K × V) → K → V → List (K × V)
  | [], k, v => [(k, v)]
  | (k', v') :: c, k, v => if s.hit k' k then (k', v) :: c else (k', v') :: store s c k v

end MemoSpec

/-- where a thread is inside `cache_wrapper(key)` -/
inductive MPc (K V : Type) where
  | idle
  /-- looked up, not found; about to call the wrapped function -/
  | missed (k : K)
  /-- the wrapped function returned `v`; about to store -/
  | computed (k : K) (v : V)

/-- atomic steps of a memoised call -/
inductive MAct (K : Type) where
  /-- enter the wrapper with key `k` and look it up (one dict read) -/
  | call (k : K)
  /-- run the wrapped function (no shared state touched) -/
  | compute
  /-- `cache[key] = result` and return -/
  | store

structure MState (K V : Type) where
  cache : List (K × V)
  pc : TMap (MPc K V)
  /-- every completed call `(thread, key, what it returned / raised)`, newest first -/
  log : List (Tid × K × PyM V)

namespace MState
variable {K V : Type}

def init : MState K V := ⟨[], [], []⟩

def step (s : MemoSpec K V) (st : MState K V) (c : Tid × MAct K) : MState K V :=
  let t := c.1
  match st.pc.get t .idle, c.2 with
  | .idle, .call k =>
    match s.lookup st.cache k with
    | some v => { st with log := (t, k, .ok v) :: st.log }
    | none => { st with pc := st.pc.set t (.missed k) }
  | .missed k, .compute =>
    match s.f k with
    | .ok v => { st with pc := st.pc.set t (.computed k v) }
    | .error e => { st with pc := st.pc.set t .idle, log := (t, k, .error e) :: st.log }
  | .computed k v, .store =>
    { cache := s.store st.cache k v, pc := st.pc.set t .idle, log := (t, k, .ok v) :: st.log }
  | _, _ => st

def run (s : MemoSpec K V) (st : MState K V) (sched : List (Tid × MAct K)) : MState K V :=
  sched.foldl (step s) st

/-- one complete call by thread `t` with nothing else running in between -/
def soloCall (t : Tid) (k : K) : List (Tid × MAct K) := [(t, .call k), (t, .compute), (t, .store)]

end MState

/-- The wrapped function as the code has it: it may read a context `C` (the calling thread's
`detect_recursion` stack, the process history) that is different at every step. -/
def stepCtx {C K V : Type} (g : C → K → PyM V) (hash : K → Nat) (eq : K → K → Bool)
    (st : MState K V) (c : C × Tid × MAct K) : MState K V :=
  MState.step ⟨g c.1, hash, eq⟩ st c.2

def runCtx {C K V : Type} (g : C → K → PyM V) (hash : K → Nat) (eq : K → K → Bool)
    (st : MState K V) (sched : List (C × Tid × MAct K)) : MState K V :=
  sched.foldl (stepCtx g hash eq) st

/-- (H1) for a context-reading function -/
def StackPure {C K V : Type} (g : C → K → PyM V) (c0 : C) : Prop := ∀ c, g c = g c0

/-! ### (b) `detect_recursion` -/

/-- `decorated`'s two touches of `func.call_args[thread_id]` -/
inductive GAct (A : Type) where
  /-- entry: membership test, then `append` or `raise RecursionError` -/
  | enter (a : A)
  /-- `finally: call_args.pop()` -/
  | exit

/-- what the touch did -/
inductive GOut where
  | pushed | raised | popped
  /-- `pop()` on an empty list would be an `IndexError`; never happens for the code's event streams -/
  | popEmpty
deriving DecidableEq, Repr

/-- `markers in call_args`: `any(item == markers for item in call_args)` -/
def gmem {A : Type} (aeq : A → A → Bool) (stk : List A) (a : A) : Bool := stk.any (fun x => aeq x a)

/-- one touch of ONE thread's list; the list grows at the end as a Python list does -/
def stepT {A : Type} (aeq : A → A → Bool) (stk : List A) : GAct A → List A × GOut
  | .enter a => if gmem aeq stk a then (stk, .raised) else (stk ++ [a], .pushed)
  | .exit => match stk with
    | [] => ([], .popEmpty)
    | _ :: _ => (stk.dropLast, .popped)

structure GState (A : Type) where
  /-- `func.call_args`: thread id ↦ list; `defaultdict(list)`: reading a missing key creates it -/
  stacks : TMap (List A)
  /-- `(thread, what happened)`, newest first -/
  outs : List (Tid × GOut)

namespace GState
variable {A : Type}

def init : GState A := ⟨[], []⟩

def step (aeq : A → A → Bool) (st : GState A) (c : Tid × GAct A) : GState A :=
  let r := stepT aeq (st.stacks.get c.1 []) c.2
  { stacks := st.stacks.set c.1 r.1, outs := (c.1, r.2) :: st.outs }

def run (aeq : A → A → Bool) (st : GState A) (sched : List (Tid × GAct A)) : GState A :=
  sched.foldl (step aeq) st

end GState

/-- The seeded class "ONE recursion stack for all threads" (a closure-level list, a class-level attribute of a
`threading.local` subclass, a thread id read once at import): every thread touches the list stored under the same key.
Outcomes are still attributed to the acting thread. -/
def GState.stepShared {A : Type} (aeq : A → A → Bool) (st : GState A) (c : Tid × GAct A) : GState A :=
  let r := stepT aeq (st.stacks.get 0 []) c.2
  { stacks := st.stacks.set 0 r.1, outs := (c.1, r.2) :: st.outs }

def GState.runShared {A : Type} (aeq : A → A → Bool) (st : GState A) (sched : List (Tid × GAct A)) : GState A :=
  sched.foldl (GState.stepShared aeq) st

/-- solo run of one thread's touches from a given list: final list and outcomes (oldest first) -/
def runT {A : Type} (aeq : A → A → Bool) : List A → List (GAct A) → List A × List GOut
  | stk, [] => (stk, [])
  | stk, e :: es =>
    let r := stepT aeq stk e
    let r' := runT aeq r.1 es
    (r'.1, r.2 :: r'.2)

/-- the part of a schedule that thread `t` executes -/
def proj {β : Type} (t : Tid) (sched : List (Tid × β)) : List β :=
  (sched.filter (fun c => c.1 == t)).map (·.2)

/-- Control structure of code that goes through `decorated` (Python frames with `try/finally`):
`done`; `call a body next` = a guarded call with arguments `a` whose wrapped function performs `body`,
after which the caller continues with `next`; `try_ body next` = `try: body except RecursionError: pass`
then `next` (the two `try` blocks in `intersection`/`union`). -/
inductive Code (A : Type) where
  | done
  | call (a : A) (body next : Code A)
  | try_ (body next : Code A)

/-- The touches a thread makes when it executes `c` starting with list `stk`, and whether a
`RecursionError` escapes.  A raising guard skips its body; an escaping error skips `next` but each
open frame still pops (`finally`). -/
def emit {A : Type} (aeq : A → A → Bool) : List A → Code A → List (GAct A) × Bool
  | _, .done => ([], false)
  | stk, .call a body next =>
    if gmem aeq stk a then ([.enter a], true)
    else
      let b := emit aeq (stk ++ [a]) body
      if b.2 then (.enter a :: b.1 ++ [.exit], true)
      else
        let n := emit aeq stk next
        (.enter a :: b.1 ++ [.exit] ++ n.1, n.2)
  | stk, .try_ body next =>
    let b := emit aeq stk body
    let n := emit aeq stk next
    (b.1 ++ n.1, n.2)

/-! ### (c) lazily built parser: `Parser.parse` -/

structure LazySpec (G P T R : Type) where
  /-- `self._grammar` (fixed at construction) -/
  grammar : G
  /-- `Lark.open(grammar_filename=…, parser="lalr")` -/
  build : G → P
  /-- `lark.parse(text)` -/
  parseWith : P → T → PyM R

inductive LPc (P T : Type) where
  | idle
  /-- saw `self._lark is None` -/
  | sawNone (x : T)
  /-- `Lark.open` returned `p`, not yet assigned -/
  | built (x : T) (p : P)
  /-- past the `if`; about to evaluate `self._lark.parse(text)` -/
  | ready (x : T)

inductive LAct (T : Type) where
  /-- enter `parse(text)` and evaluate `self._lark is None` -/
  | test (x : T)
  | build
  /-- `self._lark = <built>` -/
  | assign
  /-- read `self._lark` again and parse with it -/
  | use

structure LState (P T R : Type) where
  slot : Option P
  pc : TMap (LPc P T)
  log : List (Tid × T × PyM R)

namespace LState
variable {G P T R : Type}

def init : LState P T R := ⟨none, [], []⟩

def step (s : LazySpec G P T R) (st : LState P T R) (c : Tid × LAct T) : LState P T R :=
  let t := c.1
  match st.pc.get t .idle, c.2 with
  | .idle, .test x =>
    match st.slot with
    | none => { st with pc := st.pc.set t (.sawNone x) }
    | some _ => { st with pc := st.pc.set t (.ready x) }
  | .sawNone x, .build => { st with pc := st.pc.set t (.built x (s.build s.grammar)) }
  | .built x p, .assign => { st with slot := some p, pc := st.pc.set t (.ready x) }
  | .ready x, .use =>
    match st.slot with
    | some p => { st with pc := st.pc.set t .idle, log := (t, x, s.parseWith p x) :: st.log }
    | none => { st with pc := st.pc.set t .idle, log := (t, x, .error .attribute) :: st.log }
  | _, _ => st

def run (s : LazySpec G P T R) (st : LState P T R) (sched : List (Tid × LAct T)) : LState P T R :=
  sched.foldl (step s) st

def soloParse (t : Tid) (x : T) : List (Tid × LAct T) := [(t, .test x), (t, .build), (t, .assign), (t, .use)]

end LState

end Poetry.Conc
