/-
Model of poetry.core.constraints.version: version_range_constraint.py, version_range.py,
version_union.py, empty_constraint.py and the constraint side of version.py.
White box: every branch of the Python is mirrored, including asserts (as `.error .assertion`).
Core Lean only.
-/
import PoetryVerif.Model.Version

namespace Poetry

/-- `VersionRange(min, max, include_min, include_max)` -/
structure VRange where
  min : Option Version
  max : Option Version
  imin : Bool
  imax : Bool
deriving Repr, Inhabited, DecidableEq

/-- `VersionRangeConstraint`: a single `Version` or a `VersionRange` -/
inductive RC where
  | ver (v : Version)
  | rng (r : VRange)
deriving Repr, Inhabited, DecidableEq

/-- `VersionConstraint` -/
inductive VC where
  | empty
  | single (c : RC)
  | union (rs : List RC)
deriving Repr, Inhabited, DecidableEq

namespace RC

def min : RC → Option Version
  | ver v => some v
  | rng r => r.min
def max : RC → Option Version
  | ver v => some v
  | rng r => r.max
def imin : RC → Bool
  | ver _ => true
  | rng r => r.imin
def imax : RC → Bool
  | ver _ => true
  | rng r => r.imax

/-- the (min, max, include_min, include_max) view every VersionRangeConstraint offers -/
def view (c : RC) : VRange := ⟨c.min, c.max, c.imin, c.imax⟩

end RC

/-- Python `a == b` for `Version | None` operands -/
def optVerEq : Option Version → Option Version → Bool
  | none, none => true
  | some a, some b => Version.eqv a b
  | _, _ => false

namespace VRange

def any : VRange := ⟨none, none, false, false⟩

/-- `VersionRangeConstraint.allowed_max` -/
def allowedMax (r : VRange) : Option Version :=
  match r.max with
  | none => none
  | some M =>
    if r.imax || M.isUnstable then some M
    else if optVerEq r.min (some M) && (r.imin || r.imax) then some M
    else some M.firstDevrelease

/-- `allowed_min` is `min` -/
def allowedMin (r : VRange) : Option Version := r.min

/-- `allows_lower` -/
def allowsLower (a b : VRange) : Bool :=
  match a.allowedMin, b.allowedMin with
  | none, o => o.isSome
  | some _, none => false
  | some x, some y =>
    if Version.lt x y then true
    else if Version.gt x y then false
    else a.imin && !b.imin

/-- `allows_higher` -/
def allowsHigher (a b : VRange) : Bool :=
  match a.allowedMax, b.allowedMax with
  | none, o => o.isSome
  | some _, none => false
  | some x, some y =>
    if Version.lt x y then false
    else if Version.gt x y then true
    else a.imax && !b.imax

/-- `is_strictly_lower` -/
def isStrictlyLower (a b : VRange) : Bool :=
  match a.allowedMax, b.allowedMin with
  | some x, some y =>
    if Version.lt x y then true
    else if Version.gt x y then false
    else !(a.imax && b.imin)
  | _, _ => false

def isStrictlyHigher (a b : VRange) : Bool := isStrictlyLower b a

/-- `is_adjacent_to` -/
def isAdjacentTo (a b : VRange) : Bool :=
  if !(optVerEq a.max b.min) then false
  else (a.imax && !b.imin) || (!a.imax && b.imin)

/-- lower-bound half of `VersionRange.allows` -/
def allowsLo (r : VRange) (other : Version) : Bool :=
  match r.min with
  | none => true
  | some m =>
    let o1 := if !r.imin && !m.isPostrelease && other.isPostrelease then other.withoutPostrelease else other
    let o2 := if !m.isLocal && o1.isLocal then o1.withoutLocal else o1
    if Version.lt o2 m then false
    else if !r.imin && Version.eqv o2 m then false
    else true

/-- upper-bound half of `VersionRange.allows` -/
def allowsHi (r : VRange) (other : Version) : Bool :=
  match r.max, r.allowedMax with
  | some M, some M' =>
    let o := if !M'.isLocal && other.isLocal then other.withoutLocal else other
    if Version.gt o M' then false
    else if !r.imax && (Version.eqv o M || Version.eqv o M') then false
    else true
  | _, _ => true

/-- `VersionRange.allows` -/
def allows (r : VRange) (other : Version) : Bool := r.allowsLo other && r.allowsHi other

def isAny (r : VRange) : Bool := r.min.isNone && r.max.isNone
def isSimple (r : VRange) : Bool := r.min.isNone || r.max.isNone

/-- `VersionRange.__eq__` against another range constraint's view -/
def eqv (a b : VRange) : Bool :=
  optVerEq a.min b.min && optVerEq a.max b.max && a.imin == b.imin && a.imax == b.imax

/-- `_compare_max` -/
def compareMax (a b : VRange) : Int :=
  match a.max, b.max with
  | none, none => 0
  | none, some _ => 1
  | some _, none => -1
  | some x, some y =>
    if Version.gt x y then 1
    else if Version.lt x y then -1
    else if a.imax != b.imax then (if a.imax then 1 else -1)
    else 0

/-- `_cmp` -/
def cmp (a b : VRange) : Int :=
  match a.min, b.min with
  | none, none => compareMax a b
  | none, some _ => -1
  | some _, none => 1
  | some x, some y =>
    if Version.gt x y then 1
    else if Version.lt x y then -1
    else if a.imin != b.imin then (if a.imin then -1 else 1)
    else compareMax a b

end VRange

namespace Version

/-- `Version.allows` -/
def allows (self other : Version) : Bool :=
  let o := if !self.isLocal && other.isLocal then other.withoutLocal else other
  Version.eqv self o

end Version

namespace RC

def allows : RC → Version → Bool
  | ver v, o => v.allows o
  | rng r, o => r.allows o

def isAny : RC → Bool
  | ver _ => false
  | rng r => r.isAny

def isSimple : RC → Bool
  | ver _ => true
  | rng r => r.isSimple

/-- `==` between two range constraints (Version.__eq__ / VersionRange.__eq__) -/
def eqv : RC → RC → Bool
  | ver a, ver b => Version.eqv a b
  | ver a, rng r => Version.eqv a (r.min.getD a) && r.min.isSome && Version.eqv a (r.max.getD a) && r.max.isSome
      && (r.imin || r.imax)
  | rng r, c => VRange.eqv r c.view

/-- Python `<` as `list.sort` sees it -/
def lt : RC → RC → Bool
  | ver a, ver b => Version.lt a b
  | rng r, c => VRange.cmp r c.view < 0
  | ver a, rng r => VRange.cmp r (RC.ver a).view > 0

end RC

namespace VC

def any : VC := .single (.rng VRange.any)
def ofRange (r : VRange) : VC := .single (.rng r)
def ofVersion (v : Version) : VC := .single (.ver v)

def isEmpty : VC → Bool
  | empty => true
  | _ => false

def isAny : VC → Bool
  | single c => c.isAny
  | _ => false

def flatten : VC → List RC
  | empty => []
  | single c => [c]
  | union rs => rs

end VC

/-! ### range × range operations -/

namespace RC

/-- `Version.intersect(Version)` -/
def verIntersectVer (a b : Version) : VC :=
  if a.allows b then .single (.ver b)
  else if b.allows a then .single (.ver a)
  else .empty

/-- `VersionRange.intersect(Version)` -/
def rngIntersectVer (r : VRange) (v : Version) : VC :=
  if r.allows v then .single (.ver v)
  else match r.min with
    | some m =>
      if m.isLocal && v.allows m then
        .single (.rng ⟨some m, some v.stable.nextPatch, r.imin, false⟩)
      else .empty
    | none => .empty

/-- `VersionRange.intersect(VersionRange)`; the two `assert`s are kept -/
def rngIntersectRng (a b : VRange) : PyM VC :=
  let lo : Option (Option Version × Bool) :=
    if a.allowsLower b then
      (if a.isStrictlyLower b then none else some (b.min, b.imin))
    else
      (if b.isStrictlyLower a then none else some (a.min, a.imin))
  match lo with
  | none => .ok .empty
  | some (imn, iimn) =>
    let (imx, iimx) := if a.allowsHigher b then (b.max, b.imax) else (a.max, a.imax)
    if imn.isNone && imx.isNone then .ok (.single (.rng VRange.any))
    else if optVerEq imn imx then
      if iimn && iimx then
        match imn with
        | some v => .ok (.single (.ver v))
        | none => .error .assertion
      else .error .assertion
    else .ok (.single (.rng ⟨imn, imx, iimn, iimx⟩))

/-- `a.intersect(b)` for range constraints (Version.intersect delegates to the other side) -/
def intersect : RC → RC → PyM VC
  | ver a, ver b => .ok (verIntersectVer a b)
  | ver a, rng r => .ok (rngIntersectVer r a)
  | rng r, ver b => .ok (rngIntersectVer r b)
  | rng a, rng b => rngIntersectRng a b

/-- `allows_any` between range constraints -/
def allowsAny : RC → RC → PyM Bool
  | ver a, c => do let i ← intersect (ver a) c; pure (!i.isEmpty)
  | rng r, ver v =>
    .ok (r.allows v || (match r.min with | some m => m.isLocal && v.allows m | none => false))
  | rng a, rng b => .ok (!(b.isStrictlyLower a || b.isStrictlyHigher a))

/-- `allows_all` between range constraints -/
def allowsAll : RC → RC → Bool
  | ver a, ver b => a.allows b
  | ver a, rng r => RC.eqv (rng r) (ver a)
  | rng r, ver v => r.allows v
  | rng a, rng b => !(b.allowsLower a) && !(b.allowsHigher a)

end RC

/-! ### VersionUnion.of -/

/-- stable insertion: place `x` after every element that is not greater than it -/
def insertSorted (x : RC) : List RC → List RC
  | [] => [x]
  | y :: ys => if RC.lt x y then x :: y :: ys else y :: insertSorted x ys

/-- `list.sort()` (stable) -/
def sortRCs (l : List RC) : List RC := l.foldl (fun acc x => insertSorted x acc) []

/-- the part of `a.union(b)` that `VersionUnion.of` relies on: the result must be a single range
constraint.  `none` = the Python would have to call `VersionUnion.of` again. -/
def rcUnionSingle : RC → RC → PyM (Option RC)
  | .ver a, c =>
    if c.allows a then .ok (some c)
    -- weak equality: `1.0` admits `1.0+local` (repo fix: union of a version with a local build of it)
    else if (match c with | .ver b => a.allows b | _ => false) then .ok (some (.ver a))
    else if (match c.min with | some m => a.allows m | none => false) then
      .ok (some (.rng ⟨c.min, c.max, true, c.imax⟩))
    else if (match c.max with | some m => a.allows m | none => false) then
      .ok (some (.rng ⟨c.min, c.max, c.imin, true⟩))
    else .ok none
  | .rng r, .ver v =>
    if r.allows v then .ok (some (.rng r))
    else if optVerEq (some v) r.min then .ok (some (.rng ⟨r.min, r.max, true, r.imax⟩))
    else if optVerEq (some v) r.max then .ok (some (.rng ⟨r.min, r.max, r.imin, true⟩))
    else .ok none
  | .rng a, .rng b => do
    let edgesTouch :=
      (optVerEq a.max b.min && (a.imax || b.imin)) || (optVerEq a.min b.max && (a.imin || b.imax))
    let any ← RC.allowsAny (.rng a) (.rng b)
    if !edgesTouch && !any then pure none
    else
      let (umin, uimin) := if a.allowsLower b then (a.min, a.imin) else (b.min, b.imin)
      let (umax, uimax) := if a.allowsHigher b then (a.max, a.imax) else (b.max, b.imax)
      pure (some (.rng ⟨umin, umax, uimin, uimax⟩))

/-- the merge loop of `VersionUnion.of` over the sorted list; `merged` is kept reversed -/
def mergeLoop : List RC → List RC → PyM (List RC)
  | [], mergedRev => .ok mergedRev.reverse
  | c :: rest, [] => mergeLoop rest [c]
  | c :: rest, last :: more => do
    let any ← RC.allowsAny last c
    if !any && !(last.view.isAdjacentTo c.view) then mergeLoop rest (c :: last :: more)
    else
      match ← rcUnionSingle last c with
      | some u => mergeLoop rest (u :: more)
      | none => .error .recursion

/-- `VersionUnion.of(*ranges)` applied to already flattened non-empty operands -/
def unionOfFlat (flattened : List RC) : PyM VC :=
  if flattened.isEmpty then .ok .empty
  else if flattened.any RC.isAny then .ok VC.any
  else do
    let merged ← mergeLoop (sortRCs flattened) []
    match merged with
    | [c] => pure (.single c)
    | _ => pure (.union merged)

/-- `VersionUnion.of(*constraints)` -/
def VC.unionOf (cs : List VC) : PyM VC :=
  unionOfFlat (cs.flatMap VC.flatten)

/-! ### union / difference on range constraints -/

namespace RC

/-- `a.union(b)` for range constraints -/
def union (a b : RC) : PyM VC := do
  match ← rcUnionSingle a b with
  | some u => pure (.single u)
  | none => unionOfFlat [a, b]

/-- `Version.difference(other)` needs `other.allows(self)`; for RC operands -/
def verDifference (a : Version) (c : RC) : VC :=
  if c.allows a then .empty else .single (.ver a)

/-- `VersionRange.difference(Version)` -/
def rngDifferenceVer (r : VRange) (v : Version) : PyM VC :=
  if !r.allows v then .ok (.single (.rng r))
  else if optVerEq (some v) r.min then
    (if !r.imin then .ok (.single (.rng r)) else .ok (.single (.rng ⟨r.min, r.max, false, r.imax⟩)))
  else if optVerEq (some v) r.max then
    (if !r.imax then .ok (.single (.rng r)) else .ok (.single (.rng ⟨r.min, r.max, r.imin, false⟩)))
  else
    unionOfFlat [.rng ⟨r.min, some v, r.imin, false⟩, .rng ⟨some v, r.max, false, r.imax⟩]

/-- `VersionRange.difference(VersionRange)`.  `before`/`after` may be a bare `min`/`max` version,
which can be `None` in Python when both bounds are `None` (then `VersionUnion.of` would fail on
`None.is_empty()` → AttributeError). -/
def rngDifferenceRng (a b : VRange) : PyM VC := do
  let any ← RC.allowsAny (.rng a) (.rng b)
  if !any then pure (.single (.rng a))
  else
    let before : PyM (Option RC) :=
      if !a.allowsLower b then .ok none
      else if optVerEq a.min b.min then
        (match a.min with | some m => .ok (some (.ver m)) | none => .error .attribute)
      else .ok (some (.rng ⟨a.min, b.min, a.imin, !b.imin⟩))
    let after : PyM (Option RC) :=
      if !a.allowsHigher b then .ok none
      else if optVerEq a.max b.max then
        (match a.max with | some m => .ok (some (.ver m)) | none => .error .attribute)
      else .ok (some (.rng ⟨b.max, a.max, !b.imax, a.imax⟩))
    match ← before, ← after with
    | none, none => pure .empty
    | none, some x => pure (.single x)
    | some x, none => pure (.single x)
    | some x, some y => unionOfFlat [x, y]

/-- `a.difference(b)` for range constraints -/
def difference : RC → RC → PyM VC
  | ver a, c => .ok (verDifference a c)
  | rng r, ver v => rngDifferenceVer r v
  | rng a, rng b => rngDifferenceRng a b

end RC

/-! ### operations involving unions -/

namespace VC

/-- `VersionRange.difference(VersionUnion)`: the `for range in other.ranges` loop (with the D3 fix:
when the remainder becomes empty the pieces split off so far are returned). -/
def rngDiffFinish (current : RC) (ranges : List RC) : PyM VC :=
  if ranges.isEmpty then .ok (.single current) else unionOfFlat (ranges ++ [current])

def rngDiffUnionLoop : List RC → RC → List RC → PyM VC
  | [], current, ranges => rngDiffFinish current ranges
  | r :: rest, current, ranges =>
    if r.view.isStrictlyLower current.view then rngDiffUnionLoop rest current ranges
    else if r.view.isStrictlyHigher current.view then rngDiffFinish current ranges
    else do
      match ← RC.difference current r with
      | .empty => unionOfFlat ranges
      | .union ds =>
        match ds.head?, ds.getLast? with
        | some d0, some dl => rngDiffUnionLoop rest dl (ranges ++ [d0])
        | _, _ => .error .index
      | .single d => rngDiffUnionLoop rest d ranges

/-- `VersionUnion._inverted` = `VersionRange().difference(self)` -/
def inverted (rs : List RC) : PyM VC := rngDiffUnionLoop rs (.rng VRange.any) []

/-- `excludes_single_version` / `_excluded_single_version` -/
def excludedSingleVersion (rs : List RC) : PyM (Option Version) := do
  match ← inverted rs with
  | .single (.ver v) => pure (some v)
  | _ => pure none

/-- `c.allows(v)` -/
def allows : VC → Version → PyM Bool
  | empty, _ => .ok false
  | single c, v => .ok (c.allows v)
  | union rs, v => do
    match ← excludedSingleVersion rs with
    | some ex =>
      if ex.isLocal then pure (!(Version.eqv ex v))
      else pure (rs.any (fun c => c.allows v))
    | none => pure (rs.any (fun c => c.allows v))

def isSimple : VC → PyM Bool
  | empty => .ok true
  | single c => .ok c.isSimple
  | union rs => do pure (← excludedSingleVersion rs).isSome

/-- `VersionUnion.allows_all` merge walk -/
def unionAllowsAllLoop (fuel : Nat) (ours theirs : List RC) : PyM Bool :=
  match fuel with
  | 0 => .error .fuel
  | fuel + 1 =>
    match ours, theirs with
    | _, [] => .ok true
    | [], _ :: _ => .ok false
    | o :: os, t :: ts =>
      if RC.allowsAll o t then unionAllowsAllLoop fuel (o :: os) ts
      else unionAllowsAllLoop fuel os (t :: ts)

/-- `VersionUnion.allows_any` merge walk -/
def unionAllowsAnyLoop (fuel : Nat) (ours theirs : List RC) : PyM Bool :=
  match fuel with
  | 0 => .error .fuel
  | fuel + 1 =>
    match ours, theirs with
    | o :: os, t :: ts => do
      if ← RC.allowsAny o t then pure true
      else if t.view.allowsHigher o.view then unionAllowsAnyLoop fuel os (t :: ts)
      else unionAllowsAnyLoop fuel (o :: os) ts
    | _, _ => .ok false

/-- `VersionUnion.intersect` merge walk -/
def unionIntersectLoop (fuel : Nat) (ours theirs : List RC) (acc : List VC) : PyM (List VC) :=
  match fuel with
  | 0 => .error .fuel
  | fuel + 1 =>
    match ours, theirs with
    | o :: os, t :: ts => do
      let i ← RC.intersect o t
      let acc := if i.isEmpty then acc else acc ++ [i]
      if t.view.allowsHigher o.view then unionIntersectLoop fuel os (t :: ts) acc
      else unionIntersectLoop fuel (o :: os) ts acc
    | _, _ => .ok acc

/-- `VersionUnion.difference` — the closure over `state` as a loop on
(current, remaining ours, their current, remaining theirs, new_ranges). -/
def unionDiffLoop (fuel : Nat) (cur : RC) (ours : List RC) (their : RC) (theirs : List RC)
    (acc : List VC) : PyM (List VC) :=
  match fuel with
  | 0 => .error .fuel
  | fuel + 1 =>
    let theirNext (cur : RC) (acc : List VC) : PyM (List VC) :=
      match theirs with
      | t :: ts => unionDiffLoop fuel cur ours t ts acc
      | [] => .ok (acc ++ [.single cur] ++ ours.map VC.single)
    let ourNext (incl : Bool) (cur : RC) (acc : List VC) : PyM (List VC) :=
      let acc := if incl then acc ++ [.single cur] else acc
      match ours with
      | o :: os => unionDiffLoop fuel o os their theirs acc
      | [] => .ok acc
    if their.view.isStrictlyLower cur.view then theirNext cur acc
    else if their.view.isStrictlyHigher cur.view then ourNext true cur acc
    else do
      match ← RC.difference cur their with
      | .union ds =>
        if ds.length != 2 then .error .assertion
        else match ds with
          | [d0, d1] => theirNext d1 (acc ++ [.single d0])
          | _ => .error .assertion
      | .empty => ourNext false cur acc
      | .single d =>
        if d.view.allowsHigher their.view then theirNext d acc
        else ourNext true d acc

/-- `a.allows_all(b)` -/
def allowsAll : VC → VC → PyM Bool
  | empty, b => .ok b.isEmpty
  | single (.ver v), b =>
    match b with
    | empty => .ok true
    | single c => .ok (RC.allowsAll (.ver v) c)
    | union _ => .ok false
  | single (.rng r), b =>
    match b with
    | empty => .ok true
    | single c => .ok (RC.allowsAll (.rng r) c)
    | union rs => .ok (rs.all (fun c => RC.allowsAll (.rng r) c))
  | union rs, b => unionAllowsAllLoop (rs.length + b.flatten.length + 1) rs b.flatten

/-- `a.intersect(b)` -/
def intersect : VC → VC → PyM VC
  | empty, _ => .ok .empty
  | single _, empty => .ok .empty
  | single a, single b => RC.intersect a b
  | single a, union rs => do
    -- other.intersect(self) with other the union
    let parts ← unionIntersectLoop (rs.length + 2) rs [a] []
    VC.unionOf parts
  | union rs, b => do
    let parts ← unionIntersectLoop (rs.length + b.flatten.length + 1) rs b.flatten []
    VC.unionOf parts

/-- `a.allows_any(b)` -/
def allowsAny : VC → VC → PyM Bool
  | empty, _ => .ok false
  | single (.ver v), b => do let i ← intersect (single (.ver v)) b; pure (!i.isEmpty)
  | single (.rng _), empty => .ok false
  | single (.rng r), single c => RC.allowsAny (.rng r) c
  | single (.rng r), union rs =>
    rs.foldlM (fun acc c => if acc then pure true else RC.allowsAny (.rng r) c) false
  | union rs, b => unionAllowsAnyLoop (rs.length + b.flatten.length + 1) rs b.flatten

/-- `a.union(b)` -/
def unionWith : VC → VC → PyM VC
  | empty, b => .ok b
  | single (.ver v), b => do
    -- Version.union
    if ← b.allows v then pure b
    else match b with
      | single c => RC.union (.ver v) c
      | _ => VC.unionOf [single (.ver v), b]
  | single (.rng r), b =>
    match b with
    | single c => RC.union (.rng r) c
    | _ => VC.unionOf [single (.rng r), b]
  | union rs, b => VC.unionOf [union rs, b]

/-- `a.difference(b)` -/
def difference : VC → VC → PyM VC
  | empty, _ => .ok .empty
  | single (.ver v), b => do
    if ← b.allows v then pure .empty else pure (single (.ver v))
  | single (.rng r), b =>
    match b with
    | empty => .ok (single (.rng r))
    | single c => RC.difference (.rng r) c
    | union rs => rngDiffUnionLoop rs (.rng r) []
  | union rs, b =>
    if b.isEmpty then .ok (union rs)
    else match rs, b.flatten with
      | cur :: ours, their :: theirs => do
        let parts ← unionDiffLoop (ours.length + theirs.length + 2) cur ours their theirs []
        match parts with
        | [] => pure .empty
        | [p] => pure p
        | _ => VC.unionOf parts
      | [], _ => .error .assertion
      | _, [] => .ok .empty

def hasUpperBound : VC → Bool
  | empty => true
  | single c => c.max.isSome
  | union rs => rs.all (fun c => c.max.isSome)

end VC

end Poetry
