/-
Model of the marker simplifier of poetry.core.version.markers and of the python-version
conversions of poetry.core.packages.utils.utils it calls:

  `_merge_single_markers`, `_merge_python_version_single_markers`, `SingleMarkerLike.intersect/union`,
  `MultiMarker.of`, `MarkerUnion.of`, `union_simplify`, `intersect_simplify`, `cnf`, `dnf`,
  `intersection`, `union` with `detect_recursion`, `invert`, `only`, `exclude`, `without_extras`,
  `reduce_by_python_constraint`, `convert_markers`, `normalize_python_version_markers`,
  `get_python_constraint_from_marker`, `create_nested_marker`, top-level `parse_marker`.

White box, branch by branch.  The mutual recursion takes a fuel argument (`.error .fuel` when
exhausted; theorems are stated for every fuel).  `detect_recursion`'s per-thread argument stacks
are an explicit parameter `stk` (the frames of the enclosing `intersection`/`union` calls; push on
entry, the callee sees the longer stack, the caller's stack is unchanged on return, exactly the
bracketed discipline of `try/finally: pop`).  `functools.cache` is not modelled (C20's subject).
Core Lean only.
-/
import PoetryVerif.Model.Marker

namespace Poetry.Marker
open Poetry.Generic (GC GS)

/-! ### constraint equality as `_merge_single_markers` uses it -/

/-- `==` between version constraints -/
def VC.eqv : VC → VC → Bool
  | .empty, c => c.isEmpty
  | c, .empty => c.isEmpty
  | .single a, .single b => RC.eqv a b
  | .union as, .union bs => as.length == bs.length && (as.zip bs).all (fun p => RC.eqv p.1 p.2)
  | _, _ => false

def LeafC.eqv : LeafC → LeafC → Bool
  | .ver a, .ver b => VC.eqv a b
  | .gen a, .gen b => a == b
  | _, _ => false

def LeafC.isEmpty : LeafC → Bool
  | .ver c => c.isEmpty
  | .gen c => c.isEmpty
def LeafC.isAny : LeafC → Bool
  | .ver c => c.isAny
  | .gen c => c.isAny

def LeafC.intersect : LeafC → LeafC → PyM LeafC
  | .ver a, .ver b => (a.intersect b).map .ver
  | .gen a, .gen b => (a.intersect b).map .gen
  | _, _ => .error .attribute
def LeafC.union : LeafC → LeafC → PyM LeafC
  | .ver a, .ver b => (a.unionWith b).map .ver
  | .gen a, .gen b => (a.unionWith b).map .gen
  | _, _ => .error .attribute

/-! ### python-version conversions used by the merge (packages/utils/utils.py) -/

/-- one `(op, version)` pair of `normalize_python_version_markers` that is not an `in`/`not in` list -/
def normalizePyPair (op version : String) : PyM String :=
  let hasStar := version.toList.contains '*'
  let dots := countChar '.' version
  if op == "==" && !hasStar && dots < 2 then .ok ("~" ++ version)
  else if op == "!=" && !hasStar && dots < 2 then .ok (op ++ version ++ ".*")
  else if op == "<=" || op == ">" then
    match Version.parse version with
    | .error e => .error e
    | .ok pv =>
      let op' := if pv.precision < 3 then (if op == "<=" then "<" else ">=") else op
      let v' := if pv.precision == 2 then pv.nextMinor.text else version
      .ok (op' ++ v')
  else .ok (op ++ version)

/-- one conjunction: `in` with several versions is a disjunction inside the conjunction, so the
conjunction is expanded into one alternative per version (repo fix bb3e413); `versions` is never
empty (re.split never returns an empty list) -/
def normalizePyConj : List (String × String) → List (List String) → PyM (List (List String))
  | [], alts => .ok alts
  | (op, version) :: rest, alts =>
    if op == "in" then
      let vs := versionListItems true version
      normalizePyConj rest (alts.flatMap (fun ands => vs.map (fun v => ands ++ [v])))
    else if op == "not in" then
      let item := joinWith ", " (versionListItems false version)
      normalizePyConj rest (alts.map (fun ands => ands ++ [item]))
    else
      match normalizePyPair op version with
      | .error e => .error e
      | .ok item => normalizePyConj rest (alts.map (fun ands => ands ++ [item]))

/-- `normalize_python_version_markers(disjunction)` -/
def normalizePyMarkers (disj : List (List (String × String))) : PyM String := do
  let ors ← disj.mapM fun conj => do
    let alts ← normalizePyConj conj [[]]
    pure (alts.map (joinWith " "))
  pure (joinWith " || " ors.flatten)

def isPyName (n : String) : Bool := Gen.pythonVersionMarkers.contains n

/-- `get_python_constraint_from_marker(m)` for a single-marker-like `m` -/
def gpcLeaf (l : Leaf) : PyM VC :=
  if !isPyName l.name then .ok VC.any          -- `marker.only(...)` is AnyMarker
  else
    match l with
    | .single s => do
      let txt ← normalizePyMarkers [[(s.op, s.value)]]
      VParser.parseMarkerVersionConstraint txt
    | .amulti _ c => do
      let txt ← normalizePyMarkers [[("", c.toStr)]]
      VParser.parseMarkerVersionConstraint txt
    | .aunion _ c => do
      let txt ← normalizePyMarkers [[("", c.toStr)]]
      VParser.parseMarkerVersionConstraint txt

/-- `parse_marker(text)` for a text that is one `item` (what the merge functions construct) -/
def parseItemMarker (text : String) : PyM M :=
  match parseText text with
  | .error e => .error e
  | .ok (.one (.item n op v sw)) => do
    let s ← mkSingle n (itemConstraintString op v sw) sw
    pure (.leaf (.single s))
  | .ok _ => .error .unmodelled

def atomOpsWithin (ops : List Generic.Op) : GS → Bool
  | .atom a => ops.contains a.op
  | _ => false

/-- `str.replace(pat, rep)` for a non-empty `pat` (the only use: the literal "python_full_version"):
all non-overlapping occurrences, left to right.  Structural on the character list (fuel = length + 1),
so that it can be reasoned about; an empty `pat` (never passed) leaves the string unchanged. -/
def replaceAux (pat rep : List Char) : Nat → List Char → List Char
  | 0, s => s
  | _ + 1, [] => []
  | fuel + 1, c :: cs =>
    if pat.isEmpty then c :: cs
    else match stripPrefix? pat (c :: cs) with
      | some rest => rep ++ replaceAux pat rep fuel rest
      | none => c :: replaceAux pat rep fuel cs

def strReplace (s pat rep : String) : String :=
  String.ofList (replaceAux pat.toList rep.toList (s.length + 1) s.toList)

def dropRight (s : String) (n : Nat) : String := String.ofList (s.toList.take (s.length - n))

mutual
/-- `_merge_single_markers(marker1, marker2, merge_class)`; `isMulti` = merge_class is MultiMarker.
`depth` bounds the one nested call made by the python_version/python_full_version case. -/
def mergeSingle (depth : Nat) (m1 m2 : Leaf) (isMulti : Bool) : PyM (Option M) :=
  let pyPair := (m1.name == "python_version" && m2.name == "python_full_version") ||
                (m1.name == "python_full_version" && m2.name == "python_version")
  if pyPair then
    match depth with
    | 0 => .error .fuel
    | depth + 1 =>
      match m1, m2 with
      | .single s1, .single s2 => mergePythonVersion depth s1 s2 isMulti
      | _, _ => .error .assertion
  else if m1.name != m2.name then .ok none
  else
    match m1.c, m2.c with
    | .ver _, .gen _ => .ok none
    | .gen _, .ver _ => .ok none
    | c1, c2 => do
      let rc ← if isMulti then c1.intersect c2 else c1.union c2
      if rc.isEmpty then pure (some .empty)
      else if rc.isAny then pure (some .any)
      else if rc.eqv c1 then pure (some (.leaf m1))
      else if rc.eqv c2 then pure (some (.leaf m2))
      else
        let simple : PyM Bool := match rc with
          | .gen (.s (.atom _)) => .ok true
          | .gen _ => .ok false
          | .ver vc => vc.isSimple
        if ← simple then do
          let s ← mkSingleOfC m1.name rc
          pure (some (.leaf (.single s)))
        else
          let isExtra := m1.name == "extra"
          match rc with
          | .gen (.union ms) =>
            if ms.all (atomOpsWithin (if isExtra then [.eq, .ne] else [.eq])) then
              pure (some (.leaf (.aunion m1.name (.union ms))))
            else pure none
          | .gen (.s (.multi x cs)) =>
            if cs.all (fun a => (if isExtra then [Generic.Op.eq, .ne] else [.ne]).contains a.op) then
              pure (some (.leaf (.amulti m1.name (.s (.multi x cs)))))
            else pure none
          | .gen _ => pure none
          | .ver vc =>
            if m1.name != "python_version" then pure none
            else
              match vc, isMulti with
              | .single (.rng r), true => do
                let cand : Option M ←
                  match r.min with
                  | some mn =>
                    if mn.precision ≥ 2 then do
                      let candidate ← parseItemMarker ("python_version == \"" ++ mn.text ++ "\"")
                      match candidate with
                      | .leaf l => do
                        let g ← gpcLeaf l
                        pure (if VC.eqv g vc then some candidate else none)
                      | _ => pure none
                    else pure none
                  | none => pure none
                match cand with
                | some c => pure (some c)
                | none => do
                  let g1 ← gpcLeaf m1
                  let g2 ← gpcLeaf m2
                  let i ← g1.intersect g2
                  pure (if i.isEmpty then some .empty else none)
              | .union _, false => do
                let g1 ← gpcLeaf m1
                let g2 ← gpcLeaf m2
                let u ← g1.unionWith g2
                if u.isAny then pure (some .any)
                else if ← u.isSimple then do
                  let s ← mkSingleOfC m1.name (.ver u)
                  pure (some (.leaf (.single s)))
                else pure none
              | _, _ => pure none

/-- `_merge_python_version_single_markers` -/
def mergePythonVersion (depth : Nat) (s1 s2 : Single) (isMulti : Bool) : PyM (Option M) := do
  let (vm, fm) := if s1.name == "python_version" then (s1, s2) else (s2, s1)
  let nc ← gpcLeaf (.single vm)
  let nm ← mkSingleOfC "python_full_version" (.ver nc)
  let merged ← mergeSingle depth (.single nm) (.single fm) isMulti
  match merged with
  | none => pure none
  | some mm =>
    if M.beq mm (.leaf (.single nm)) then pure (some (.leaf (.single vm)))
    else
      match mm with
      | .leaf (.single ms) =>
        -- repo fix: a list value keeps its precision (`not in "3.8"` excludes 3.8.*, `not in "3.8.0"` only 3.8.0)
        if ms.op == "in" || ms.op == "not in" then pure (some mm) else do
        let str := leafText ms.name ms.op ms.value ms.swapped
        let precision := countChar '.' str + 1
        let lt_ge := ms.op == "<" || ms.op == ">="
        let str' :=
          if precision < 3 then
            let target := if lt_ge then 2 else 3
            let s1 := if lt_ge then strReplace str "python_full_version" "python_version" else str
            dropRight s1 1 ++ String.join (List.replicate (target - precision) ".0") ++ "\""
          else if precision == 3 && lt_ge && (dropRight str 1).endsWith ".0" then
            let s1 := strReplace str "python_full_version" "python_version"
            dropRight s1 3 ++ "\""
          else str
        let r ← parseItemMarker str'
        pure (some r)
      | other => pure (some other)
end

/-- the merge as the simplifier calls it -/
def mergeLeaves (m1 m2 : Leaf) (isMulti : Bool) : PyM (Option M) := mergeSingle 2 m1 m2 isMulti

/-! ### the simplifier -/

/-- a frame of `detect_recursion`: which function (`true` = `union`) and its argument tuple -/
abbrev Frame := Bool × List M
abbrev Stack := List Frame

def Stack.has (stk : Stack) (isUnion : Bool) (args : List M) : Bool :=
  stk.any (fun f => f.1 == isUnion && M.beqList f.2 args)

/-- `itertools.product(*lists)` -/
def product : List (List M) → List (List M)
  | [] => [[]]
  | l :: ls => l.flatMap (fun x => (product ls).map (fun rest => x :: rest))

def membersIfMulti : M → List M
  | .multi ms => ms
  | m => [m]
def membersIfUnion : M → List M
  | .union ms => ms
  | m => [m]

/-- strip `MultiMarker`/`MarkerUnion` wrappers around a single member -/
def unwrapSingleton (fuel : Nat) (m : M) : M :=
  match fuel with
  | 0 => m
  | fuel + 1 =>
    match m with
    | .multi [x] => unwrapSingleton fuel x
    | .union [x] => unwrapSingleton fuel x
    | m => m

def cmpComplexity (a b : Nat × Nat) : Bool := a.1 < b.1 || (a.1 == b.1 && a.2 < b.2)

/-- `min(*candidates, key=complexity)`: the first minimal one -/
def minByComplexity : List M → Option M
  | [] => none
  | c :: cs => some (cs.foldl (fun best x => if cmpComplexity x.complexity best.complexity then x else best) c)

def isSubset (a b : List M) : Bool := a.all (fun x => M.mem x b)

def setAt (l : List M) (i : Nat) (x : M) : List M := l.set i x

mutual
/-- `a.intersect(b)` (method dispatch) -/
def mIntersect (fuel : Nat) (stk : Stack) (a b : M) : PyM M :=
  match fuel with
  | 0 => .error .fuel
  | fuel + 1 =>
    match a with
    | .any => .ok b
    | .empty => .ok .empty
    | .leaf la =>
      match b with
      | .leaf lb => do
        match ← mergeLeaves la lb true with
        | some r => pure r
        | none => pure (mkMulti [a, b])
      | _ => mIntersect fuel stk b a
    | .multi _ => intersectionF fuel stk [a, b]
    | .union _ => intersectionF fuel stk [a, b]

/-- `a.union(b)` (method dispatch) -/
def mUnion (fuel : Nat) (stk : Stack) (a b : M) : PyM M :=
  match fuel with
  | 0 => .error .fuel
  | fuel + 1 =>
    match a with
    | .any => .ok .any
    | .empty => .ok b
    | .leaf la =>
      match b with
      | .leaf lb => do
        match ← mergeLeaves la lb false with
        | some r => pure r
        | none => pure (mkUnion [a, b])
      | _ => mUnion fuel stk b a
    | .multi _ => unionF fuel stk [a, b]
    | .union _ => unionF fuel stk [a, b]

/-- `intersection(*markers)` with its `detect_recursion` wrapper -/
def intersectionF (fuel : Nat) (stk : Stack) (ms : List M) : PyM M :=
  match fuel with
  | 0 => .error .fuel
  | fuel + 1 =>
    if stk.has false ms then .error .recursion
    else
      let stk' : Stack := (false, ms) :: stk
      let unnormalized := unwrapSingleton (ms.length + 2) (mkMulti (ms.filter (fun m => !m.isAny)))
      match dnf fuel stk' unnormalized with
      | .error e => .error e
      | .ok disjunction =>
        match disjunction with
        | .union _ =>
          match cnf fuel stk' disjunction with
          | .error .recursion =>
            (match minByComplexity [disjunction, unnormalized] with
             | some r => .ok r | none => .error .runtime)
          | .error e => .error e
          | .ok conjunction =>
            match conjunction with
            | .multi _ =>
              (match minByComplexity [disjunction, conjunction, unnormalized] with
               | some r => .ok r | none => .error .runtime)
            | c => .ok c
        | d => .ok d

/-- `union(*markers)` with its `detect_recursion` wrapper -/
def unionF (fuel : Nat) (stk : Stack) (ms : List M) : PyM M :=
  match fuel with
  | 0 => .error .fuel
  | fuel + 1 =>
    if stk.has true ms then .error .recursion
    else
      let stk' : Stack := (true, ms) :: stk
      let unnormalized := unwrapSingleton (ms.length + 2) (mkUnion (ms.filter (fun m => !m.isEmpty)))
      match cnf fuel stk' unnormalized with
      | .error e => .error e
      | .ok conjunction =>
        match conjunction with
        | .multi _ =>
          match dnf fuel stk' conjunction with
          | .error .recursion =>
            (match minByComplexity [conjunction, unnormalized] with
             | some r => .ok r | none => .error .runtime)
          | .error e => .error e
          | .ok disjunction =>
            match disjunction with
            | .union _ =>
              (match minByComplexity [disjunction, conjunction, unnormalized] with
               | some r => .ok r | none => .error .runtime)
            | d => .ok d
        | c => .ok c

def cnf (fuel : Nat) (stk : Stack) (m : M) : PyM M :=
  match fuel with
  | 0 => .error .fuel
  | fuel + 1 =>
    match m with
    | .union ms => do
      let cs ← mapCnf fuel stk ms
      let lists := cs.map membersIfMulti
      let unions ← mapUnionOf fuel stk (product lists)
      multiOf fuel stk unions
    | .multi ms => do
      let cs ← mapCnf fuel stk ms
      multiOf fuel stk cs
    | m => .ok m

def dnf (fuel : Nat) (stk : Stack) (m : M) : PyM M :=
  match fuel with
  | 0 => .error .fuel
  | fuel + 1 =>
    match m with
    | .multi ms => do
      let ds ← mapDnf fuel stk ms
      let lists := ds.map membersIfUnion
      let multis ← mapMultiOf fuel stk (product lists)
      unionOf fuel stk multis
    | .union ms => do
      let ds ← mapDnf fuel stk ms
      unionOf fuel stk ds
    | m => .ok m

def mapCnf (fuel : Nat) (stk : Stack) : List M → PyM (List M)
  | [] => .ok []
  | m :: ms => do
    let x ← cnf fuel stk m
    let xs ← mapCnf fuel stk ms
    pure (x :: xs)

def mapDnf (fuel : Nat) (stk : Stack) : List M → PyM (List M)
  | [] => .ok []
  | m :: ms => do
    let x ← dnf fuel stk m
    let xs ← mapDnf fuel stk ms
    pure (x :: xs)

def mapUnionOf (fuel : Nat) (stk : Stack) : List (List M) → PyM (List M)
  | [] => .ok []
  | c :: cs => do
    let x ← unionOf fuel stk c
    let xs ← mapUnionOf fuel stk cs
    pure (x :: xs)

def mapMultiOf (fuel : Nat) (stk : Stack) : List (List M) → PyM (List M)
  | [] => .ok []
  | c :: cs => do
    let x ← multiOf fuel stk c
    let xs ← mapMultiOf fuel stk cs
    pure (x :: xs)

/-- `MultiMarker.of(*markers)` -/
def multiOf (fuel : Nat) (stk : Stack) (ms : List M) : PyM M :=
  match fuel with
  | 0 => .error .fuel
  | fuel + 1 => multiOfLoop fuel stk [] (flattenMarkers true ms)

/-- the `while old_markers != new_markers` loop; one iteration = `multiPass` -/
def multiOfLoop (fuel : Nat) (stk : Stack) (old new : List M) : PyM M :=
  match fuel with
  | 0 => .error .fuel
  | fuel + 1 =>
    if M.beqList old new then
      if new.any M.isEmpty then .ok .empty
      else match new with
        | [] => .ok .any
        | [x] => .ok x
        | _ => .ok (mkMulti new)
    else do
      match ← multiPass fuel stk new [] with
      | none => pure .empty                       -- `return EmptyMarker()` from inside the loop
      | some new' => multiOfLoop fuel stk new new'

/-- `for marker in old_markers:` — `none` = the early `return EmptyMarker()` -/
def multiPass (fuel : Nat) (stk : Stack) (todo : List M) (new : List M) : PyM (Option (List M)) :=
  match fuel with
  | 0 => .error .fuel
  | fuel + 1 =>
    match todo with
    | [] => .ok (some new)
    | marker :: rest =>
      if M.mem marker new then multiPass fuel stk rest new
      else if marker.isAny then multiPass fuel stk rest new
      else do
        match ← multiTry fuel stk marker new 0 new with
        | .inl () => pure none
        | .inr (some new') => multiPass fuel stk rest (flattenMarkers true new')
        | .inr none => multiPass fuel stk rest (new ++ [marker])

/-- `for i, mark in enumerate(new_markers):` — `.inl ()` = return EmptyMarker, `.inr (some l)` =
intersected (the updated list), `.inr none` = not intersected -/
def multiTry (fuel : Nat) (stk : Stack) (marker : M) (all : List M) (i : Nat) (remaining : List M) :
    PyM (Unit ⊕ Option (List M)) :=
  match fuel with
  | 0 => .error .fuel
  | fuel + 1 =>
    match remaining with
    | [] => .ok (.inr none)
    | mark :: more => do
      let (isOneUnion, simp) ←
        match mark, marker with
        | .union us, _ => do let r ← intersectSimplify fuel stk us marker; pure (true, r)
        | _, .union us => do let r ← intersectSimplify fuel stk us mark; pure (true, r)
        | _, _ => pure (false, none)
      match simp with
      | some x => pure (.inr (some (setAt all i x)))
      | none =>
        match isOneUnion, mark with
        | false, .leaf _ => do
          let nm ← mIntersect fuel stk mark marker
          if nm.isEmpty then pure (.inl ())
          else match nm with
            | .leaf _ => pure (.inr (some (setAt all i nm)))
            | _ => multiTry fuel stk marker all (i + 1) more
        | _, _ => multiTry fuel stk marker all (i + 1) more

/-- `MarkerUnion.of(*markers)` -/
def unionOf (fuel : Nat) (stk : Stack) (ms : List M) : PyM M :=
  match fuel with
  | 0 => .error .fuel
  | fuel + 1 => unionOfLoop fuel stk [] (flattenMarkers false ms)

def unionOfLoop (fuel : Nat) (stk : Stack) (old new : List M) : PyM M :=
  match fuel with
  | 0 => .error .fuel
  | fuel + 1 =>
    if M.beqList old new then
      if new.any M.isAny then .ok .any
      else match new with
        | [] => .ok .empty
        | [x] => .ok x
        | _ => .ok (mkUnion new)
    else do
      match ← unionPass fuel stk new [] with
      | none => pure .any
      | some new' => unionOfLoop fuel stk new new'

def unionPass (fuel : Nat) (stk : Stack) (todo : List M) (new : List M) : PyM (Option (List M)) :=
  match fuel with
  | 0 => .error .fuel
  | fuel + 1 =>
    match todo with
    | [] => .ok (some new)
    | marker :: rest =>
      if M.mem marker new then unionPass fuel stk rest new
      else if marker.isEmpty then unionPass fuel stk rest new
      else do
        match ← unionTry fuel stk marker new 0 new with
        | .inl () => pure none
        | .inr (some new') => unionPass fuel stk rest (flattenMarkers false new')
        | .inr none => unionPass fuel stk rest (new ++ [marker])

def unionTry (fuel : Nat) (stk : Stack) (marker : M) (all : List M) (i : Nat) (remaining : List M) :
    PyM (Unit ⊕ Option (List M)) :=
  match fuel with
  | 0 => .error .fuel
  | fuel + 1 =>
    match remaining with
    | [] => .ok (.inr none)
    | mark :: more => do
      let (isOneMulti, simp) ←
        match mark, marker with
        | .multi us, _ => do let r ← unionSimplify fuel stk us marker; pure (true, r)
        | _, .multi us => do let r ← unionSimplify fuel stk us mark; pure (true, r)
        | _, _ => pure (false, none)
      match simp with
      | some x => pure (.inr (some (setAt all i x)))
      | none =>
        match isOneMulti, mark with
        | false, .leaf _ => do
          let nm ← mUnion fuel stk mark marker
          if nm.isAny then pure (.inl ())
          else match nm with
            | .leaf _ => pure (.inr (some (setAt all i nm)))
            | _ => unionTry fuel stk marker all (i + 1) more
        | _, _ => unionTry fuel stk marker all (i + 1) more

/-- `MarkerUnion(*self_markers).intersect_simplify(other)` -/
def intersectSimplify (fuel : Nat) (stk : Stack) (ours : List M) (other : M) : PyM (Option M) :=
  match fuel with
  | 0 => .error .fuel
  | fuel + 1 =>
    if M.mem other ours then .ok (some other)
    else
      match other with
      | .union theirs =>
        if isSubset ours theirs then .ok (some (.union ours))
        else if isSubset theirs ours then .ok (some other)
        else if !(ours.any (fun m => M.mem m theirs)) then .ok none
        else do
          let unique := ours.filter (fun m => !M.mem m theirs)
          let otherUnique := theirs.filter (fun m => !M.mem m ours)
          let ui ← mIntersect fuel stk (mkUnion unique) (mkUnion otherUnique)
          let common := ours.filter (fun m => M.mem m theirs)
          match ui with
          | .leaf _ => do let r ← mUnion fuel stk ui (mkUnion common); pure (some r)
          | .empty => do let r ← mUnion fuel stk ui (mkUnion common); pure (some r)
          | _ => pure none
      | _ => .ok none

/-- `MultiMarker(*self_markers).union_simplify(other)` -/
def unionSimplify (fuel : Nat) (stk : Stack) (ours : List M) (other : M) : PyM (Option M) :=
  match fuel with
  | 0 => .error .fuel
  | fuel + 1 =>
    if M.mem other ours then .ok (some other)
    else
      match other with
      | .multi theirs =>
        if isSubset ours theirs then .ok (some (.multi ours))
        else if isSubset theirs ours then .ok (some other)
        else if !(ours.any (fun m => M.mem m theirs)) then .ok none
        else do
          let unique := ours.filter (fun m => !M.mem m theirs)
          let otherUnique := theirs.filter (fun m => !M.mem m ours)
          let uu ← mUnion fuel stk (mkMulti unique) (mkMulti otherUnique)
          let common := ours.filter (fun m => M.mem m theirs)
          match uu with
          | .leaf _ => do let r ← mIntersect fuel stk uu (mkMulti common); pure (some r)
          | .any => do let r ← mIntersect fuel stk uu (mkMulti common); pure (some r)
          | _ => pure none
      | _ => .ok none
end

/-- fuel for the top-level entry points (the driver reports exhaustion as its own outcome) -/
def defaultFuel : Nat := 6000

/-- `a.intersect(b)` / `a.union(b)` from a quiescent state (empty recursion stacks) -/
def M.intersectWith (a b : M) : PyM M := mIntersect defaultFuel [] a b
def M.unionWith (a b : M) : PyM M := mUnion defaultFuel [] a b

/-- `parse_marker(text)` without the `RecursionError` guard: grammar, `_compact_markers`, top-level `union(…)` -/
def parseMarker (text : String) : PyM M :=
  if text == "<empty>" then .ok .empty
  else if text.isEmpty || text == "*" then .ok .any
  else do
    let syn ← parseText text
    let subs ← compactSubMarkers syn
    unionF defaultFuel [] subs

/-- `parse_marker(text)` as the public function behaves since repo fix 9ad3a46:
`try: _compact_markers(...) except RecursionError: raise InvalidMarkerError`.  Only the error class differs
from `parseMarker` (`parseMarkerTop_ok_iff`), so every statement about returned markers transfers. -/
def parseMarkerTop (text : String) : PyM M :=
  match parseMarker text with
  | .error .recursion => .error .value
  | r => r

theorem parseMarkerTop_ok_iff (text : String) (m : M) :
    parseMarkerTop text = .ok m ↔ parseMarker text = .ok m := by
  unfold parseMarkerTop
  cases h : parseMarker text with
  | ok r => simp
  | error e => cases e <;> simp

end Poetry.Marker
