/-
File selection of the sdist and wheel builders over an abstract file tree (C09).

Mirrors, branch by branch:
  masonry/builders/builder.py   Builder._module (format filter), find_excluded_files, is_excluded,
                                find_files_to_add, _get_legal_files, BuildIncludeFile (set by source path)
  masonry/builders/sdist.py     SdistBuilder.find_files_to_add (legal files, scripts, pyproject.toml, readmes),
                                member order and names of SdistBuilder.build
  masonry/builders/wheel.py     _copy_module (order, target names), _copy_file_scripts, prepare_metadata/_copy_dist_info
                                (names only), RECORD
  masonry/utils/module.py       default package detection, package/include objects
  masonry/utils/include.py, package_include.py   Include / PackageInclude.check_elements
  pathlib.Path.glob (CPython 3.12) + fnmatch.translate as the executable, path-local matcher `globMatch`

The file tree is a list of entries (relative path as component list, file/dir kind, content); the project root
is the entry with path `[]`.  The VCS-ignored list is an input (strings exactly as `git ls-files` printed them).
Core Lean only.
-/
import PoetryVerif.Model.Basic
import PoetryVerif.Model.Generated

namespace Poetry.Select
open Poetry

abbrev Path := List String

instance {ε α : Type} [DecidableEq ε] [DecidableEq α] : DecidableEq (Except ε α)
  | .ok a, .ok b => if h : a = b then isTrue (by rw [h]) else isFalse (by intro e; cases e; exact h rfl)
  | .error a, .error b => if h : a = b then isTrue (by rw [h]) else isFalse (by intro e; cases e; exact h rfl)
  | .ok _, .error _ => isFalse (by intro e; cases e)
  | .error _, .ok _ => isFalse (by intro e; cases e)

structure Entry where
  path : Path
  isDir : Bool
  content : String := ""
deriving Repr, DecidableEq, Inhabited

abbrev Tree := List Entry

/-- `PurePath.as_posix()` of a relative path (`.` for the empty path). -/
def posix (p : Path) : String := if p.isEmpty then "." else "/".intercalate p

/-! ## fnmatch.translate for one path component -/

inductive Item where
  | star
  | any
  | lit (c : Char)
  | cls (neg : Bool) (lits : List Char) (ranges : List (Char × Char))
  | never
deriving Repr, DecidableEq, Inhabited

/-- first index `≥ off` holding `-` -/
def findDash : Nat → Nat → List Char → Option Nat
  | _, _, [] => none
  | idx, off, c :: cs => if idx ≥ off && c == '-' then some idx else findDash (idx + 1) off cs

/-- the `chunks` loop of fnmatch.translate: split the bracket body at range hyphens -/
def chunksAux : Nat → Nat → List Char → List (List Char)
  | 0, _, cs => [cs]
  | fuel + 1, off, cs =>
    match findDash 0 off cs with
    | none => [cs]
    | some k => cs.take k :: chunksAux fuel 2 (cs.drop (k + 1))

/-- "chunk = pat[i:j]; if chunk: append else: chunks[-1] += '-'" -/
def fixLastChunk : List (List Char) → List (List Char)
  | [] => []
  | [c] => [c]
  | [c, []] => [c ++ ['-']]
  | c :: rest => c :: fixLastChunk rest

/-- "Remove empty ranges": processed from the right, merging `chunks[k-1][:-1] + chunks[k][1:]`. -/
def dropEmptyRanges : List (List Char) → List (List Char)
  | [] => []
  | [c] => [c]
  | c :: rest =>
    match dropEmptyRanges rest with
    | [] => [c]
    | d :: ds =>
      match c.getLast?, d.head? with
      | some a, some b => if a > b then (c.dropLast ++ d.tail) :: ds else c :: d :: ds
      | _, _ => c :: d :: ds

def chunkRanges : List (List Char) → List (Char × Char)
  | [] => []
  | [_] => []
  | c :: d :: rest =>
    match c.getLast?, d.head? with
    | some a, some b => (a, b) :: chunkRanges (d :: rest)
    | _, _ => chunkRanges (d :: rest)

/-- Build the class item from the bracket body `stuff = pat[i:j]` (leading `!` still present). -/
def classItem (stuff : List Char) : Item :=
  if !stuff.contains '-' then
    match stuff with
    | '!' :: rest => .cls true rest []
    | _ => .cls false stuff []
  else
    let negated := stuff.head? == some '!'
    let chunks := dropEmptyRanges (fixLastChunk (chunksAux stuff.length (if negated then 2 else 1) stuff))
    let all := chunks.foldr (· ++ ·) []
    let ranges := chunkRanges chunks
    if all.isEmpty then .never
    else if all == ['!'] then .any
    else match chunks with
      | ('!' :: c0) :: rest => .cls true ((c0 :: rest).foldr (· ++ ·) []) ranges
      | _ => .cls false all ranges

/-- position of the closing `]` per translate: skip a leading `!`, then a leading `]`, then search. -/
def findClose (cs : List Char) : Option Nat :=
  let j0 := if cs.head? == some '!' then 1 else 0
  let j1 := if (cs.drop j0).head? == some ']' then j0 + 1 else j0
  match (cs.drop j1).findIdx? (· == ']') with
  | some k => some (j1 + k)
  | none => none

def translateAux : Nat → List Char → List Item
  | 0, _ => []
  | _, [] => []
  | fuel + 1, c :: cs =>
    if c == '*' then .star :: translateAux fuel cs
    else if c == '?' then .any :: translateAux fuel cs
    else if c == '[' then
      match findClose cs with
      | none => .lit '[' :: translateAux fuel cs
      | some j => classItem (cs.take j) :: translateAux fuel (cs.drop (j + 1))
    else .lit c :: translateAux fuel cs

def translate (pat : String) : List Item := translateAux pat.length pat.toList

def itemMatches (it : Item) (c : Char) : Bool :=
  match it with
  | .star => true
  | .any => true
  | .lit d => c == d
  | .never => false
  | .cls neg lits ranges =>
    let inSet := lits.contains c || ranges.any (fun r => r.1 ≤ c && c ≤ r.2)
    if neg then !inSet else inSet

def anySuffix {α : Type} (f : List α → Bool) : List α → Bool
  | [] => f []
  | c :: cs => f (c :: cs) || anySuffix f cs

/-- whole-string match of the translated pattern (re.DOTALL, anchored both ends) -/
def itemsMatch : List Item → List Char → Bool
  | [], cs => cs.isEmpty
  | .star :: rest, cs => anySuffix (itemsMatch rest) cs
  | it :: rest, cs =>
    match cs with
    | [] => false
    | c :: cs' => itemMatches it c && itemsMatch rest cs'

def fnmatch (pat : String) (name : String) : Bool := itemsMatch (translate pat) name.toList

/-! ## pathlib.Path.glob (3.12) as a path-local predicate -/

inductive Seg where
  | dstar                     -- `**`
  | wild (pat : String)       -- any other component (compiled with fnmatch.translate)
deriving Repr, DecidableEq, Inhabited

structure Pattern where
  segs : List Seg
  dirOnly : Bool              -- pattern text ended with `/`
deriving Repr, DecidableEq, Inhabited

/-- split at every occurrence of `sep` (structural, so that concrete instances evaluate in the kernel) -/
def splitChars (sep : Char) : List Char → List (List Char)
  | [] => [[]]
  | c :: cs =>
    if c == sep then [] :: splitChars sep cs
    else match splitChars sep cs with
      | [] => [[c]]
      | h :: t => (c :: h) :: t

def splitSlash (s : String) : List String := (splitChars '/' s.toList).map String.ofList

def hasDoubleStar : List Char → Bool
  | '*' :: '*' :: _ => true
  | _ :: cs => hasDoubleStar cs
  | [] => false

/-- insertion sort (stable), standing for Python's `sorted` -/
def insertBy {α : Type} (le : α → α → Bool) (x : α) : List α → List α
  | [] => [x]
  | y :: ys => if le x y then x :: y :: ys else y :: insertBy le x ys

def isort {α : Type} (le : α → α → Bool) : List α → List α
  | [] => []
  | x :: xs => insertBy le x (isort le xs)

/-- `Path.glob(pattern)` front end: `_parse_path` (drop empty and `.` components), the errors of `glob`
and `_make_selector`.  `..` components are outside the model (`notImplemented`). -/
def parsePattern (s : String) : PyM Pattern :=
  if s.isEmpty then .error .value                                  -- "Unacceptable pattern"
  else if s.startsWith "/" then .error .notImplemented             -- "Non-relative patterns are unsupported"
  else
    let comps := (splitSlash s).filter (fun c => c != "" && c != ".")
    let dirOnly := s.endsWith "/"
    if comps.isEmpty && !dirOnly then .error .index                -- pattern_parts[0] on an empty tuple
    else if comps.contains ".." then .error .notImplemented        -- _ParentSelector: not modelled
    else if comps.any (fun c => c != "**" && hasDoubleStar c.toList) then .error .value
    else .ok ⟨comps.map (fun c => if c == "**" then .dstar else .wild c), dirOnly⟩

/-- Does the relative path `rel` (of kind `isDir`) belong to `base.glob(pattern)`?  Intermediate components
are directories because they have children; the final one must be a directory when it is reached as a
`**` starting point, through the terminating selector of a trailing `/`, or as the base itself. -/
def matchSegs (dirOnly isDir : Bool) : List Seg → List String → Bool
  | [], rel => rel.isEmpty && isDir
  | .wild p :: rest, rel =>
    match rel with
    | [] => false
    | c :: cs =>
      fnmatch p c &&
        (if rest.isEmpty && cs.isEmpty then isDir || !dirOnly else matchSegs dirOnly isDir rest cs)
  | .dstar :: rest, rel => anySuffix (matchSegs dirOnly isDir rest) rel

def globMatch (pat : Pattern) (rel : Path) (isDir : Bool) : Bool :=
  matchSegs pat.dirOnly isDir pat.segs rel

/-- the matcher of the property statement: does a *file* at `rel` match? -/
def pathMatches (pat : Pattern) (rel : Path) : Bool := globMatch pat rel false

def stripBase : Path → Path → Option Path
  | [], p => some p
  | _ :: _, [] => none
  | b :: bs, c :: cs => if b == c then stripBase bs cs else none

def isDirIn (T : Tree) (p : Path) : Bool := T.any (fun e => e.path == p && e.isDir)
def isFileIn (T : Tree) (p : Path) : Bool := T.any (fun e => e.path == p && !e.isDir)
def existsIn (T : Tree) (p : Path) : Bool := T.any (fun e => e.path == p)

/-- component-wise order of `pathlib` paths (Python `str` comparison = code-point order) -/
def pathLe : Path → Path → Bool
  | [], _ => true
  | _ :: _, [] => false
  | a :: as, b :: bs => if a < b then true else if b < a then false else pathLe as bs

def sortEntries (es : List Entry) : List Entry := isort (fun a b => pathLe a.path b.path) es

/-- `sorted(base.glob(pattern))`; empty when `base` is not an existing directory -/
def globFrom (T : Tree) (base : Path) (pat : Pattern) : List Entry :=
  if !isDirIn T base then []
  else sortEntries (T.filter fun e =>
    match stripBase base e.path with
    | some rel => globMatch pat rel e.isDir
    | none => false)

/-- `d.glob("**/*")`: every proper descendant -/
def descendants (T : Tree) (d : Path) : List Entry :=
  T.filter fun e => match stripBase d e.path with
    | some rel => !rel.isEmpty
    | none => false

/-! ## Path helpers -/

/-- `PurePath.suffix` of a final component (3.12: `0 < rfind('.') < len-1`) -/
def pySuffix (name : String) : String :=
  let cs := name.toList
  let after := (cs.reverse.takeWhile (· != '.')).length
  if after == cs.length then ""
  else
    let i := cs.length - after - 1
    if 0 < i && i < cs.length - 1 then String.ofList (cs.drop i) else ""

def pathSuffix (p : Path) : String := match p.getLast? with | some n => pySuffix n | none => ""
def pathName (p : Path) : String := p.getLast?.getD ""

/-- relative path text → components (`Path(text)` normalisation: empty and `.` components dropped) -/
def parseRel (s : String) : Path := (splitSlash s).filter (fun c => c != "" && c != ".")

/-! ## Configuration (after factory._prepare_formats) -/

structure PkgSpec where
  incl : String
  source : Option String        -- `from`
  target : Option String        -- `to`
  formats : List String
deriving Repr, DecidableEq, Inhabited

structure IncSpec where
  path : String
  formats : List String
deriving Repr, DecidableEq, Inhabited

structure Cfg where
  moduleName : String           -- module_name(project name)
  rootName : String             -- name of the project directory (used by PackageInclude for glob packages at top level)
  distName : String             -- distribution_name(name)
  version : String
  packages : List PkgSpec
  includes : List IncSpec
  excludes : List String
  readmes : List String
  scripts : List String         -- `reference` of every `type = "file"` script, in table order
  hasEntryPoints : Bool
deriving Repr, Inhabited

inductive Fmt where | sdist | wheel
deriving Repr, DecidableEq, Inhabited

def Fmt.name : Fmt → String
  | .sdist => "sdist" | .wheel => "wheel"

/-- an `Include` / `PackageInclude` object after construction -/
structure IncObj where
  isPackage : Bool              -- isinstance(include, PackageInclude)
  base : Path
  pattern : Pattern
  source : Option Path          -- PackageInclude.source (None when `from` absent)
  target : Option Path
  formats : List String
  elements : List Entry
deriving Repr, Inhabited

/-- `Path(text)` truthiness as used by `include.source` / `include.target`: `None` or `""` are falsy -/
def truthy (o : Option String) : Option String := match o with | some "" => none | x => x

/-- `is_stub_only() or has_modules()` for package name `pkg` -/
def stubOrModules (pkg : String) (els : List Entry) : Bool :=
  (pkg.endsWith "-stubs" && (els.filter (!·.isDir)).all
      (fun e => pathSuffix e.path == ".pyi" || pathName e.path == "py.typed"))
    || els.any (fun e => pathSuffix e.path == ".py")

/-- PackageInclude.check_elements on the sorted glob result `els` -/
def checkElements (T : Tree) (rootName : String) (els : List Entry) : PyM (List Entry) :=
  match els with
  | [] => .error .value                                   -- "does not contain any element"
  | root :: more =>
    if !more.isEmpty then
      -- probably glob: package name = root.parent.name
      let parent := root.path.dropLast
      let pkg := if root.path.isEmpty then "" else if parent.isEmpty then rootName else pathName parent
      if stubOrModules pkg els then .ok els else .error .value
    else if root.isDir then
      let pkg := if root.path.isEmpty then rootName else pathName root.path
      let els' := sortEntries (descendants T root.path)
      if stubOrModules pkg els' then .ok els' else .error .value
    else .ok els

/-- PackageInclude.__init__ + check_elements -/
def mkPackage (T : Tree) (rootName : String) (spec : PkgSpec) : PyM IncObj := do
  let base : Path := match spec.source with | some s => parseRel s | none => []
  let pat ← parsePattern spec.incl
  let els ← checkElements T rootName (globFrom T base pat)
  .ok { isPackage := true, base := base, pattern := pat, source := spec.source.map parseRel,
        target := spec.target.map parseRel, formats := spec.formats, elements := els }

def mkInclude (T : Tree) (spec : IncSpec) : PyM IncObj := do
  let pat ← parsePattern spec.path
  .ok { isPackage := false, base := [], pattern := pat, source := none, target := none,
        formats := spec.formats, elements := globFrom T [] pat }

/-- Module.__init__: default package when the (format-filtered) package list is empty -/
def defaultPackage (T : Tree) (name : String) : PyM PkgSpec :=
  let mk (inc : String) (src : Option String) : PkgSpec :=
    { incl := inc, source := src, target := none, formats := Gen.defaultPackageFormats }
  if isDirIn T [name] && isFileIn T [name ++ ".py"] then .error .value
  else if isDirIn T [name] then .ok (mk name none)
  else if isFileIn T [name ++ ".py"] then .ok (mk (name ++ ".py") none)
  else
    let src := Gen.moduleSrcDir
    if isDirIn T [src, name] && isFileIn T [src, name ++ ".py"] then .error .value
    else if isDirIn T [src, name] then .ok (mk name (some src))
    else if isFileIn T [src, name ++ ".py"] then .ok (mk (name ++ ".py") (some src))
    else .error .value                                    -- ModuleOrPackageNotFoundError (a ValueError)

/-- Builder._module: the package list filtered by format; Module.__init__ falls back to the default package
when that list is empty -/
def modulePackages (fmt : Fmt) (T : Tree) (cfg : Cfg) : PyM (List PkgSpec) :=
  let pkgs := cfg.packages.filter (fun p => p.formats.contains fmt.name)
  if pkgs.isEmpty then
    match defaultPackage T cfg.moduleName with
    | .ok d => .ok [d]
    | .error e => .error e
  else .ok pkgs

/-- Builder._module: filter by format, then Module(...) -/
def mkModule (fmt : Fmt) (T : Tree) (cfg : Cfg) : PyM (List IncObj × List IncObj) := do
  let pkgs ← modulePackages fmt T cfg
  let pobjs ← pkgs.mapM (mkPackage T cfg.rootName)
  let iobjs ← (cfg.includes.filter (fun i => i.formats.contains fmt.name)).mapM (mkInclude T)
  pure (pobjs, iobjs)

/-! ## Exclusion -/

/-- `for excluded_glob in exclude: for excluded in path.glob(excluded_glob)` → posix strings -/
def explicitExcluded (T : Tree) : List String → PyM (List String)
  | [] => .ok []
  | g :: gs => do
    let pat ← parsePattern g
    let rest ← explicitExcluded T gs
    .ok ((globFrom T [] pat).map (fun e => posix e.path) ++ rest)

def explicitIncluded (fmt : Fmt) (incs : List IncObj) : List String :=
  (incs.filter (fun i => i.formats.contains fmt.name)).flatMap (fun i => i.elements.map (fun e => posix e.path))

/-- `find_excluded_files`: (vcs ∪ explicitly excluded) − explicitly included -/
def excludedSet (fmt : Fmt) (T : Tree) (cfg : Cfg) (ignored : List String) (incs : List IncObj) :
    PyM (List String) := do
  let ee ← explicitExcluded T cfg.excludes
  let ei := explicitIncluded fmt incs
  .ok ((ignored ++ ee).filter (fun s => !ei.contains s))

def isBytecode (p : Path) : Bool :=
  p.contains Gen.pycacheDirName || pathSuffix p == Gen.bytecodeSuffix

/-- the `while True` loop of is_excluded: the path and every non-empty proper prefix -/
def prefixHit (excl : List String) : Nat → Path → Bool
  | 0, _ => false
  | fuel + 1, p =>
    if excl.contains (posix p) then true
    else if p.length > 1 then prefixHit excl fuel p.dropLast else false

def isExcluded (excl : List String) (p : Path) : Bool :=
  isBytecode p || prefixHit excl (p.length + 1) p

/-! ## find_files_to_add -/

/-- a `BuildIncludeFile`: identity is the source path -/
structure Sel where
  src : Path                    -- relative_to_project_root()
  arc : Path                    -- relative_to_target_root()
  isDir : Bool
deriving Repr, DecidableEq, Inhabited

/-- `set.add`: an element equal to one already present is not replaced -/
def addSel (acc : List Sel) (s : Sel) : List Sel :=
  if acc.any (fun t => t.src == s.src) then acc else acc ++ [s]

def mkSel (fmt : Fmt) (inc : IncObj) (e : Entry) : Sel :=
  let sourceRoot : Path :=
    match inc.isPackage, inc.source, fmt with
    | true, some _, .wheel => inc.base
    | _, _, _ => []
  let rel := (stripBase sourceRoot e.path).getD e.path
  let arc := match inc.isPackage, inc.target, fmt with
    | true, some t, .wheel => t ++ rel
    | _, _, _ => rel
  { src := e.path, arc := arc, isDir := e.isDir }

/-- body of `for file in include.elements` -/
def processElement (fmt : Fmt) (T : Tree) (excl : List String) (inc : IncObj) (el : Entry) : List Sel :=
  if el.path.contains Gen.pycacheDirName then []
  else if el.isDir then
    if inc.formats.contains fmt.name then
      (descendants T el.path).filterMap fun c =>
        if c.isDir || isExcluded excl c.path then none else some (mkSel fmt inc c)
    else []
  else if isExcluded excl el.path && inc.isPackage then []
  else [mkSel fmt inc el]

def processInclude (fmt : Fmt) (T : Tree) (excl : List String) (inc : IncObj) : List Sel :=
  inc.elements.flatMap (processElement fmt T excl inc)

/-- Builder.find_files_to_add (no build script) -/
def findFilesToAdd (fmt : Fmt) (T : Tree) (cfg : Cfg) (ignored : List String) : PyM (List Sel) := do
  let (pobjs, iobjs) ← mkModule fmt T cfg
  let excl ← excludedSet fmt T cfg ignored iobjs
  .ok (((pobjs ++ iobjs).flatMap (processInclude fmt T excl)).foldl addSel [])

/-! ## sdist additions, archive member lists -/

def globOrEmpty (T : Tree) (base : Path) (s : String) : List Entry :=
  match parsePattern s with
  | .ok p => globFrom T base p
  | .error _ => []

/-- Builder._get_legal_files -/
def legalFiles (T : Tree) : List Entry :=
  Gen.legalRootPatterns.flatMap (globOrEmpty T []) ++ globOrEmpty T [Gen.legalDir] Gen.legalDirPattern

/-- convert_script_files: every referenced script must be an existing file -/
def scriptFiles (T : Tree) (cfg : Cfg) : PyM (List Path) :=
  cfg.scripts.mapM fun s =>
    if s.startsWith "/" then .error .runtime
    else
      let p := parseRel s
      if isFileIn T p then .ok p else .error .runtime

/-- the `additional_files` of SdistBuilder.find_files_to_add, kept when they exist -/
def sdistAdditional (T : Tree) (cfg : Cfg) : PyM (List Sel) := do
  let scripts ← scriptFiles T cfg
  let paths : List Path :=
    (legalFiles T).map (·.path) ++ scripts ++ [[Gen.sdistProjectFile]] ++ cfg.readmes.map parseRel
  .ok (paths.filterMap fun p =>
    match T.find? (fun e => e.path == p) with
    | some e => some { src := p, arc := p, isDir := e.isDir }
    | none => none)

/-- the files a builder of format `fmt` puts into its archive from the tree, as (source ↦ archive path) -/
def select (fmt : Fmt) (T : Tree) (cfg : Cfg) (ignored : List String) : PyM (List Sel) := do
  let base ← findFilesToAdd fmt T cfg ignored
  match fmt with
  | .wheel => .ok base
  | .sdist => do
    let add ← sdistAdditional T cfg
    .ok (add.foldl addSel base)

def sortSels (key : Sel → Path) (ss : List Sel) : List Sel := isort (fun a b => pathLe (key a) (key b)) ss

def sdistRoot (cfg : Cfg) : String := cfg.distName ++ "-" ++ cfg.version

/-- member names of the sdist, in archive order -/
def sdistMembers (T : Tree) (cfg : Cfg) (ignored : List String) : PyM (List Path) := do
  let ss ← select .sdist T cfg ignored
  .ok ((sortSels (·.arc) ss).map (fun s => sdistRoot cfg :: s.arc) ++ [[sdistRoot cfg, Gen.sdistPkgInfoName]])

def distInfoDir (cfg : Cfg) : String := cfg.distName ++ "-" ++ cfg.version ++ ".dist-info"
def dataDir (cfg : Cfg) : String := cfg.distName ++ "-" ++ cfg.version ++ ".data"

/-- member names of the wheel, in archive order: module files, file scripts, dist-info (sorted), RECORD -/
def wheelMembers (T : Tree) (cfg : Cfg) (ignored : List String) : PyM (List Path) := do
  let ss ← select .wheel T cfg ignored
  let scripts ← scriptFiles T cfg
  let legal := ((legalFiles T).filter (!·.isDir)).map (·.path)
  let info : List Path :=
    (if cfg.hasEntryPoints then [["entry_points.txt"]] else []) ++ [["WHEEL"], ["METADATA"]] ++ legal
  let info := (isort pathLe info).eraseDups
  .ok ((sortSels (·.src) ss).map (·.arc)
        ++ scripts.map (fun p => [dataDir cfg, "scripts", pathName p])
        ++ info.map (fun p => distInfoDir cfg :: p)
        ++ [[distInfoDir cfg, "RECORD"]])

/-! ## one metadata renderer for both formats -/

/-- `SdistBuilder.build_pkg_info` = `get_metadata_content().encode()`;
`WheelBuilder._write_metadata_file` = `fp.write(get_metadata_content())`. -/
def pkgInfo {M : Type} (getMetadataContent : M → String) (m : M) : String := getMetadataContent m
def wheelMetadata {M : Type} (getMetadataContent : M → String) (m : M) : String := getMetadataContent m

/-! ## unpacking an sdist -/

/-- The tree obtained by unpacking the sdist built from `T` with selection `S` (archive path = source path for
the sdist): the selected entries, their ancestor directories, and the generated PKG-INFO. -/
def unpack (T : Tree) (S : List Sel) (pkgInfoText : String) : Tree :=
  T.filter (fun e => S.any (fun s => (stripBase e.path s.arc).isSome && (e.isDir || e.path == s.arc)))
    ++ [{ path := [Gen.sdistPkgInfoName], isDir := false, content := pkgInfoText }]

/-! ## decidable boundary of `wheel built from the unpacked sdist = wheel built from the tree` (C09) -/

/-- decidable on the package list: no package is relocated (`from` / `to`) -/
def plainPkgs (pkgs : List PkgSpec) : Bool := pkgs.all fun s => s.source.isNone && s.target.isNone

/-- decidable: the wheel is fed by one package rule only (no second package, no wheel-format include) -/
def singleRule (pkgs : List PkgSpec) (cfg : Cfg) : Bool :=
  pkgs.length ≤ 1 && (cfg.includes.filter fun i => i.formats.contains Fmt.wheel.name).isEmpty

/-- decidable: archive names cannot be ambiguous -/
def arcSafe (pkgs : List PkgSpec) (cfg : Cfg) : Bool := plainPkgs pkgs || singleRule pkgs cfg

/-- decidable on one glob rule: it can neither match a root-level file called PKG-INFO nor take the whole base -/
def avoidsPkgInfo (base : Path) (pat : Pattern) : Bool :=
  (match stripBase base [Gen.sdistPkgInfoName] with
   | some rel => !globMatch pat rel false
   | none => true) &&
  !(base.isEmpty && globMatch pat [] true)

def specAvoidsPkgInfo (base : Path) (text : String) : Bool :=
  match parsePattern text with
  | .ok pat => avoidsPkgInfo base pat
  | .error _ => true

/-- decidable on the configuration: no wheel rule reaches the generated PKG-INFO -/
def pkgInfoUnreached (pkgs : List PkgSpec) (cfg : Cfg) : Bool :=
  (pkgs.all fun s => specAvoidsPkgInfo (match s.source with | some x => parseRel x | none => []) s.incl) &&
  ((cfg.includes.filter fun i => i.formats.contains Fmt.wheel.name).all fun i => specAvoidsPkgInfo [] i.path)

end Poetry.Select
