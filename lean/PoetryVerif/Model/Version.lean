/-
Model of poetry.core.version.pep440 (segments.py, version.py, parser.py) and of the
`Version` side of poetry.core.constraints.version.version.  Core Lean only.

White box: the comparison key mirrors `PEP440Version._make_compare_key` field by field,
including the phase *strings* (taken from Generated.lean, i.e. from the source) whose
lexicographic order the Python code relies on, and the two sentinel tags.
-/
import PoetryVerif.Model.Basic
import PoetryVerif.Model.Generated

namespace Poetry

inductive Phase where
  | a | b | rc | post | dev
deriving DecidableEq, Repr, Inhabited

/-- the phase id string used by the implementation (RELEASE_PHASE_ID_*) -/
def Phase.str : Phase → String
  | .a => Gen.phaseIdAlpha
  | .b => Gen.phaseIdBeta
  | .rc => Gen.phaseIdRc
  | .post => Gen.phaseIdPost
  | .dev => Gen.phaseIdDev

def Phase.ofId (s : String) : Option Phase :=
  if s == Gen.phaseIdAlpha then some .a
  else if s == Gen.phaseIdBeta then some .b
  else if s == Gen.phaseIdRc then some .rc
  else if s == Gen.phaseIdPost then some .post
  else if s == Gen.phaseIdDev then some .dev
  else none

/-- `ReleaseTag.__post_init__`: lower-case (D17 fix), then RELEASE_PHASE_NORMALIZATIONS lookup. -/
def Phase.ofSpelling (s : String) : Option Phase :=
  let s' := if Gen.phaseLookupLowercases then String.ofList (s.toList.map lowerChar) else s
  match Gen.phaseSpellings.find? (fun p => p.1 == s') with
  | some (_, id) => Phase.ofId id
  | none => Phase.ofId s'

structure Tag where
  phase : Phase
  num : Nat
deriving DecidableEq, Repr, Inhabited

def Tag.toString (t : Tag) : String := t.phase.str ++ natToString t.num

/-- `ReleaseTag.next` -/
def Tag.next (t : Tag) : Tag := { t with num := t.num + 1 }

/-- `ReleaseTag.next_phase` -/
def Tag.nextPhase (t : Tag) : Option Tag :=
  match t.phase with
  | .a => some ⟨.b, 0⟩
  | .b => some ⟨.rc, 0⟩
  | _ => none

/-- A PEP 440 version as poetry-core stores it.  `release` is the list of release numbers as
written (its length is `Release.precision`; never empty).  `loc` holds the local label
segments (already lower-cased strings).  `text` is what `str()` returns. -/
structure Version where
  epoch : Nat
  release : List Nat
  pre : Option Tag
  post : Option Tag
  dev : Option Tag
  loc : Option (List String)
  text : String
deriving DecidableEq, Repr, Inhabited

namespace Version

/-! ### Release -/

/-- `Release._compare_key`: release numbers with trailing zeros removed -/
def stripZeros : List Nat → List Nat
  | [] => []
  | x :: xs =>
    let r := stripZeros xs
    if x == 0 && r.isEmpty then [] else x :: r

def zeros (n : Nat) : List Nat := List.replicate n 0

def relMajor (r : List Nat) : Nat := r.headD 0
/-- `Release.minor` (None when the precision is 1) -/
def relMinor (r : List Nat) : Option Nat := r[1]?
def relPatch (r : List Nat) : Option Nat := r[2]?

/-- `Release.next_major` -/
def relNextMajor (r : List Nat) : List Nat := (relMajor r + 1) :: zeros (r.length - 1)

/-- `Release.next_minor` -/
def relNextMinor (r : List Nat) : List Nat :=
  match r with
  | [] => [0, 1]
  | [m] => [m, 1]
  | m :: n :: rest => m :: (n + 1) :: zeros rest.length

/-- `Release.next_patch` -/
def relNextPatch (r : List Nat) : List Nat :=
  match r with
  | [] => [0, 0, 1]
  | [m] => [m, 0, 1]
  | [m, n] => [m, n, 1]
  | m :: n :: p :: rest => m :: n :: (p + 1) :: zeros rest.length

def incrLast : List Nat → List Nat
  | [] => []
  | [x] => [x + 1]
  | x :: xs => x :: incrLast xs

/-- `Release.next` -/
def relNext (r : List Nat) : List Nat :=
  match r.length with
  | 0 => relNextMajor r
  | 1 => relNextMajor r
  | 2 => relNextMinor r
  | 3 => relNextPatch r
  | _ => incrLast r

/-- `parts[-2] += 1; parts[-1] = 0` (the `~=` upper bound for more than three release segments) -/
def bumpSecondToLast : List Nat → List Nat
  | [] => []
  | [x] => [x]
  | [x, _] => [x + 1, 0]
  | x :: xs => x :: bumpSecondToLast xs

def relText (r : List Nat) : String := joinWith "." (r.map natToString)

/-! ### comparison key -/

/-- numbers in tags: `NegativeInfinity()` ↦ (0,0), `n` ↦ (1,n), `Infinity()` ↦ (2,0);
compared lexicographically this is NegInf < every int < Inf, and (after the D12 fix) the
sentinels are equal only to themselves. -/
abbrev NumK := Nat × Nat
def NumK.negInf : NumK := (0, 0)
def NumK.fin (n : Nat) : NumK := (1, n)
def NumK.inf : NumK := (2, 0)

/-- a `ReleaseTag` as it takes part in tuple comparison: (phase string, number) -/
abbrev TagK := String × NumK

def tagK (t : Tag) : TagK := (t.phase.str, NumK.fin t.num)
def infTagK : TagK := (Gen.infTagPhase, NumK.inf)
def negInfTagK : TagK := (Gen.negInfTagPhase, NumK.negInf)

/-- `str(i).isnumeric()` for an ASCII token -/
def isNumericStr (s : String) : Bool := !s.isEmpty && s.toList.all isDigit

abbrev LocK := List (NumK × String)

def locSegK (s : String) : NumK × String :=
  if isNumericStr s then (NumK.fin (digitsToNat s.toList), "") else (NumK.negInf, s)

def locK : Option (List String) → LocK
  | none => [(NumK.negInf, "")]
  | some parts => parts.map locSegK

abbrev Key := Nat × (List Nat × (TagK × (TagK × (TagK × LocK))))

/-- the `_pre` entry of the key -/
def preK (v : Version) : TagK :=
  if v.pre.isNone && v.post.isNone && v.dev.isSome then negInfTagK
  else match v.pre with
    | none => infTagK
    | some t => tagK t

def postK (v : Version) : TagK := match v.post with | none => negInfTagK | some t => tagK t

def devK (v : Version) : TagK := match v.dev with | none => infTagK | some t => tagK t

/-- `PEP440Version._make_compare_key` -/
def key (v : Version) : Key :=
  (v.epoch, stripZeros v.release, preK v, postK v, devK v, locK v.loc)

attribute [local instance] lexOrd in
/-- dataclass `order=True`/`eq=True` on `_compare_key` -/
def cmpKey (a b : Key) : Ordering := compare a b

def cmp (a b : Version) : Ordering := cmpKey (key a) (key b)

def lt (a b : Version) : Bool := cmp a b == .lt
def le (a b : Version) : Bool := cmp a b != .gt
def gt (a b : Version) : Bool := cmp a b == .gt
/-- `==` between two versions (`_compare_key` equality) -/
def eqv (a b : Version) : Bool := cmp a b == .eq

/-! ### printing -/

/-- `PEP440Version.to_string` -/
def toStr (epoch : Nat) (release : List Nat) (pre post dev : Option Tag)
    (loc : Option (List String)) : String :=
  let s := relText release
  let s := if epoch != 0 then natToString epoch ++ "!" ++ s else s
  let s := match pre with | some t => s ++ t.toString | none => s
  let s := match post with | some t => s ++ "." ++ t.toString | none => s
  let s := match dev with | some t => s ++ "." ++ t.toString | none => s
  let s := match loc with
    | some (p :: ps) => s ++ "+" ++ joinWith "." (p :: ps)
    | _ => s
  String.ofList (s.toList.map lowerChar)

/-- constructor with `text` defaulted to `to_string()` (what `Version(...)` without text does) -/
def mk' (epoch : Nat) (release : List Nat) (pre post dev : Option Tag)
    (loc : Option (List String)) : Version :=
  { epoch, release, pre, post, dev, loc, text := toStr epoch release pre post dev loc }

def toString (v : Version) : String := toStr v.epoch v.release v.pre v.post v.dev v.loc

/-! ### predicates -/

def isPrerelease (v : Version) : Bool := v.pre.isSome
def isPostrelease (v : Version) : Bool := v.post.isSome
def isDevrelease (v : Version) : Bool := v.dev.isSome
def isLocal (v : Version) : Bool := v.loc.isSome
def isUnstable (v : Version) : Bool := v.isPrerelease || v.isDevrelease
def isStable (v : Version) : Bool := !v.isUnstable
def precision (v : Version) : Nat := v.release.length

def isIncrementRequired (v : Version) : Bool :=
  v.isStable || (!v.isPrerelease && v.isPostrelease)

/-! ### bumps -/

def relLt (a b : List Nat) : Bool := compare (stripZeros a) (stripZeros b) == .lt

/-- `PEP440Version.next_major` -/
def nextMajor (v : Version) : Version :=
  let r := v.release
  let r := if v.isIncrementRequired || relLt [relMajor r, 0, 0] r then relNextMajor r else r
  mk' v.epoch r none none none none

/-- `PEP440Version.next_minor` -/
def nextMinor (v : Version) : Version :=
  let r := v.release
  let r := if v.isIncrementRequired || relLt [relMajor r, (relMinor r).getD 0, 0] r
    then relNextMinor r else r
  mk' v.epoch r none none none none

/-- `PEP440Version.next_patch` -/
def nextPatch (v : Version) : Version :=
  let r := v.release
  let r := if v.isIncrementRequired ||
      relLt [relMajor r, (relMinor r).getD 0, (relPatch r).getD 0] r
    then relNextPatch r else r
  mk' v.epoch r none none none none

/-- `PEP440Version.next_stable` -/
def nextStable (v : Version) : Version :=
  mk' v.epoch (if v.isStable then relNext v.release else v.release) none none none v.loc

/-- `PEP440Version.next_prerelease()` (next_phase = False) -/
def nextPrerelease (v : Version) : Version :=
  let pre : Tag := match v.pre with
    | some p => if !v.isDevrelease || v.isPostrelease then p.next else p
    | none => ⟨.a, 0⟩
  mk' v.epoch v.release (some pre) none none none

/-- `PEP440Version.next_postrelease` -/
def nextPostrelease (v : Version) : Version :=
  let post : Tag := match v.post with
    | some p => if v.dev.isNone then p.next else p
    | none => ⟨.post, 0⟩
  mk' v.epoch v.release v.pre (some post) none none

/-- `PEP440Version.next_devrelease` -/
def nextDevrelease (v : Version) : Version :=
  let dev : Tag := match v.dev with
    | some d => d.next
    | none => ⟨.dev, 0⟩
  mk' v.epoch v.release v.pre v.post (some dev) none

def firstPrerelease (v : Version) : Version :=
  mk' v.epoch v.release (some ⟨.a, 0⟩) none none none

/-- `PEP440Version.first_devrelease` (drops the local label, keeps pre and post) -/
def firstDevrelease (v : Version) : Version :=
  mk' v.epoch v.release v.pre v.post (some ⟨.dev, 0⟩) none

/-- `replace(local=None)` — note the text is recomputed -/
def withoutLocal (v : Version) : Version :=
  mk' v.epoch v.release v.pre v.post v.dev none

def withoutPostrelease (v : Version) : Version :=
  if v.isPostrelease then mk' v.epoch v.release v.pre none none v.loc else v

def withoutDevrelease (v : Version) : Version :=
  mk' v.epoch v.release v.pre v.post none v.loc

/-- `Version.stable` -/
def stable (v : Version) : Version :=
  if v.isStable then v
  else mk' v.epoch v.release none (if v.pre.isNone then v.post else none) none none

/-- `Version.next_breaking` -/
def nextBreaking (v : Version) : Version :=
  if relMajor v.release > 0 || (relMinor v.release).isNone then v.stable.nextMajor
  else if (relMinor v.release).getD 0 > 0 || (relPatch v.release).isNone then v.stable.nextMinor
  else v.stable.nextPatch

/-! ### well-formedness (what the parser and the bump functions produce) -/

def _root_.Poetry.Tag.isPre (t : Tag) : Bool := t.phase == .a || t.phase == .b || t.phase == .rc

def optAll {α : Type} (p : α → Bool) : Option α → Bool
  | none => true
  | some a => p a

/-- release non-empty; tags carry the phase of their slot; a local label has at least one segment
and no empty segment. -/
def wf (v : Version) : Bool :=
  !v.release.isEmpty &&
  optAll Tag.isPre v.pre &&
  optAll (fun t => t.phase == .post) v.post &&
  optAll (fun t => t.phase == .dev) v.dev &&
  optAll (fun ps => !ps.isEmpty && ps.all (fun s => !s.isEmpty)) v.loc

/-! ### parser: a hand recogniser of `^\s*VERSION_PATTERN\s*$` (re.VERBOSE | re.IGNORECASE) -/

def isSep (c : Char) : Bool := c == '-' || c == '_' || c == '.'

/-- try to strip one of the words (in order) from the lower-cased input -/
def stripWord? (ws : List String) (s : List Char) : Option (String × List Char) :=
  match ws with
  | [] => none
  | w :: rest =>
    match stripPrefix? w.toList s with
    | some r => some (w, r)
    | none => stripWord? rest s

def optSep (s : List Char) : List Char :=
  match s with
  | c :: cs => if isSep c then cs else s
  | [] => s

/-- `[-_.]? WORD [-_.]? [0-9]*`  → (word, number, rest) -/
def labelled? (ws : List String) (s : List Char) : Option (String × Nat × List Char) :=
  match stripWord? ws (optSep s) with
  | none => none
  | some (w, r) =>
    let r1 := optSep r
    let (ds, r2) := takeDigits r1
    some (w, digitsToNat ds, r2)

/-- release segment `[0-9]+(\.[0-9]+)*`, given the first number was already read -/
def moreRelease (fuel : Nat) (s : List Char) : List Nat × List Char :=
  match fuel with
  | 0 => ([], s)
  | fuel + 1 =>
    match s with
    | '.' :: cs =>
      let (ds, r) := takeDigits cs
      if ds.isEmpty then ([], s)
      else
        let (more, r') := moreRelease fuel r
        (digitsToNat ds :: more, r')
    | _ => ([], s)

def isLocalChar (c : Char) : Bool := isLowerAlpha c || isDigit c

def takeLocalSeg : List Char → List Char × List Char
  | [] => ([], [])
  | c :: cs => if isLocalChar c then let (d, r) := takeLocalSeg cs; (c :: d, r) else ([], c :: cs)

/-- `[a-z0-9]+([-_.][a-z0-9]+)*` -/
def localSegs (fuel : Nat) (s : List Char) : Option (List String × List Char) :=
  match fuel with
  | 0 => none
  | fuel + 1 =>
    let (seg, r) := takeLocalSeg s
    if seg.isEmpty then none
    else
      match r with
      | c :: cs =>
        if isSep c then
          match localSegs fuel cs with
          | some (more, r') => some (String.ofList seg :: more, r')
          | none => some ([String.ofList seg], r)
        else some ([String.ofList seg], r)
      | [] => some ([String.ofList seg], r)

/-- `_get_local`: `int(part) if part.isdigit() else part.lower()` — a numeric segment is stored as
an int, i.e. printed without leading zeros (D18 fix). -/
def normLocalSeg (s : String) : String :=
  if isNumericStr s then natToString (digitsToNat s.toList) else s

def preWords : List String := ["alpha", "a", "beta", "b", "preview", "pre", "c", "rc"]
def postWords : List String := ["post", "rev", "r"]
def devWords : List String := ["dev"]

/-- optional labelled group; the tag is kept only if the phase table knows the word -/
def parseLabelled (ws : List String) (s : List Char) : Option Tag × List Char :=
  match labelled? ws s with
  | some (w, n, r) =>
    match Phase.ofSpelling w with
    | some p => (some ⟨p, n⟩, r)
    | none => (none, s)
  | none => (none, s)

def parsePre (s : List Char) : Option Tag × List Char := parseLabelled preWords s

/-- `(?:-(?P<post_n1>[0-9]+))` -/
def parsePostAlt1 (s : List Char) : Option (Nat × List Char) :=
  match s with
  | '-' :: cs =>
    let (ds, r) := takeDigits cs
    if ds.isEmpty then none else some (digitsToNat ds, r)
  | _ => none

/-- `(?:-(?P<post_n1>[0-9]+)) | (?:[-_.]?(post|rev|r)[-_.]?[0-9]*)` -/
def parsePost (s : List Char) : Option Tag × List Char :=
  match parsePostAlt1 s with
  | some (n, r) => (some ⟨.post, n⟩, r)
  | none => parseLabelled postWords s

def parseDev (s : List Char) : Option Tag × List Char := parseLabelled devWords s

def parseLocal (s : List Char) : Option (List String) × List Char :=
  match s with
  | '+' :: cs =>
    match localSegs (cs.length + 1) cs with
    | some (segs, r) => (some (segs.map normLocalSeg), r)
    | none => (none, s)
  | _ => (none, s)

/-- `(?:(?P<epoch>[0-9]+)!)?(?P<release>[0-9]+(?:\.[0-9]+)*)` after the optional `v` -/
def parseEpochRelease (s : List Char) : Option (Nat × List Nat × List Char) :=
  let (d0, r0) := takeDigits s
  if d0.isEmpty then none else
  let (epoch, d1, r1) :=
    match r0 with
    | '!' :: cs =>
      let (d, r) := takeDigits cs
      if d.isEmpty then (0, d0, r0) else (digitsToNat d0, d, r)
    | _ => (0, d0, r0)
  let (more, r2) := moreRelease r1.length r1
  some (epoch, digitsToNat d1 :: more, r2)

/-- `v?` -/
def stripV (s : List Char) : List Char := match s with | 'v' :: cs => cs | _ => s

/-- Parse the body of VERSION_PATTERN from lower-cased characters; returns the version (with the
given text) and the unconsumed rest.  `none` = the pattern does not match at this position. -/
def parseBody (text : String) (s : List Char) : Option (Version × List Char) :=
  match parseEpochRelease (stripV s) with
  | none => none
  | some (epoch, release, r2) =>
    let (pre, r3) := parsePre r2
    let (post, r4) := parsePost r3
    let (dev, r5) := parseDev r4
    let (loc, r6) := parseLocal r5
    some ({ epoch, release, pre, post, dev, loc, text }, r6)

/-- `PEP440Parser.parse` : `^\s*VERSION_PATTERN\s*$`, IGNORECASE; keeps the raw text. -/
def parse (value : String) : PyM Version :=
  let cs := (value.toList.map lowerChar)
  let s := dropSpaces cs
  match parseBody value s with
  | none => .error .value
  | some (v, rest) =>
    if (dropSpaces rest).isEmpty && !value.isEmpty then .ok v else .error .value

/-! ### dumps used by the line protocol -/

def tagDump : Option Tag → String
  | none => "-"
  | some t => t.phase.str ++ ":" ++ natToString t.num

def dump (v : Version) : String :=
  natToString v.epoch ++ "|" ++ relText v.release ++ "|" ++ tagDump v.pre ++ "|" ++ tagDump v.post ++
    "|" ++ tagDump v.dev ++ "|" ++
    (match v.loc with | none => "-" | some ps => joinWith "." ps)

end Version

end Poetry
