/-
Model of the remaining marker operations (version/markers.py) and conversions
(packages/utils/utils.py): `invert`, `only`, `exclude`, `without_extras`,
`reduce_by_python_constraint`, `convert_markers`, `get_python_constraint_from_marker`,
`create_nested_marker`.  Core Lean only.
-/
import PoetryVerif.Model.MarkerAlg

namespace Poetry.Marker
open Poetry.Generic (GC GS)

/-! ### `invert` -/

/-- the `if/elif` operator chain of `SingleMarker.invert` (extracted from the source) -/
def invertOp? (op : String) : Option String :=
  (Gen.markerInvertOps.find? (fun p => p.1 == op)).map (·.2)

def optVerStr : Option Version → String
  | some v => v.text
  | none => "None"

/-- text of the inverted leaf handed to `parse_marker` -/
def invertedLeafText (s : Single) (op : String) : String := leafText s.name op s.value s.swapped

/-- `SingleMarker.invert` for every operator except `~=` -/
def invertSimple (s : Single) : PyM M :=
  match invertOp? s.op with
  | none => .error .runtime
  | some "<special>" => .error .unmodelled
  | some op' => parseItemMarker (invertedLeafText s op')

def Leaf.invert (l : Leaf) : PyM M :=
  match l with
  | .single s =>
    if s.op == "~=" then
      match s.c with
      | .ver (.single rc) => do
        let minOp := if rc.imin then ">=" else ">"
        let maxOp := if rc.imax then "<=" else "<"
        let a ← mkSingle s.name (minOp ++ " " ++ optVerStr rc.min) false
        let b ← mkSingle s.name (maxOp ++ " " ++ optVerStr rc.max) false
        -- MultiMarker(a, b).invert() = MarkerUnion(a.invert(), b.invert())
        let members := flattenMarkers true [.leaf (.single a), .leaf (.single b)]
        let invs ← members.mapM fun m => match m with
          | .leaf (.single x) => invertSimple x
          | _ => .error .runtime
        pure (mkUnion invs)
      | _ => .error .runtime
    else invertSimple s
  | .amulti n c => do
    let inv ← c.invert
    match inv with
    | .union ms =>
      if ms.all (atomOpsWithin (if n == "extra" then [.eq, .ne] else [.eq])) then pure (.leaf (.aunion n inv))
      else .error .assertion
    | _ => .error .attribute
  | .aunion n c => do
    let inv ← c.invert
    match inv with
    | .s (.multi _ cs) =>
      if cs.all (fun a => (if n == "extra" then [Generic.Op.eq, .ne] else [.ne]).contains a.op) then
        pure (.leaf (.amulti n inv))
      else .error .assertion
    | _ => .error .attribute

mutual
def M.invert : M → PyM M
  | .any => .ok .empty
  | .empty => .ok .any
  | .leaf l => l.invert
  | .multi ms => do let is ← M.invertList ms; pure (mkUnion is)
  | .union ms => do let is ← M.invertList ms; pure (mkMulti is)
def M.invertList : List M → PyM (List M)
  | [] => .ok []
  | m :: ms => do
    let x ← M.invert m
    let xs ← M.invertList ms
    pure (x :: xs)
end

/-! ### `only`, `exclude`, `without_extras` -/

mutual
def M.only (names : List String) : M → PyM M
  | .any => .ok .any
  | .empty => .ok .empty
  | .leaf l => .ok (if names.contains l.name then .leaf l else .any)
  | .multi ms => do let xs ← M.onlyList names ms; multiOf defaultFuel [] xs
  | .union ms => do let xs ← M.onlyList names ms; unionOf defaultFuel [] xs
def M.onlyList (names : List String) : List M → PyM (List M)
  | [] => .ok []
  | m :: ms => do
    let x ← M.only names m
    let xs ← M.onlyList names ms
    pure (x :: xs)
end

def isLeafNamed (name : String) : M → Bool
  | .leaf l => l.name == name
  | _ => false

mutual
def M.exclude (name : String) : M → PyM M
  | .any => .ok .any
  | .empty => .ok .empty
  | .leaf l => .ok (if l.name == name then .any else .leaf l)
  | .multi ms => do
    let xs ← M.excludeList name ms
    intersectionF defaultFuel [] (xs.filter (fun m => !m.isEmpty))
  | .union ms => do
    let xs ← M.excludeList name ms
    if xs.isEmpty then pure .any else unionF defaultFuel [] xs
/-- members that are single-marker-likes on `name` are skipped, the others are excluded recursively -/
def M.excludeList (name : String) : List M → PyM (List M)
  | [] => .ok []
  | m :: ms =>
    if isLeafNamed name m then M.excludeList name ms
    else do
      let x ← M.exclude name m
      let xs ← M.excludeList name ms
      pure (x :: xs)
end

def M.withoutExtras (m : M) : PyM M := m.exclude "extra"

/-! ### `convert_markers` / `get_python_constraint_from_marker` -/

/-- the `(operator, value)` pair `convert_markers` records for a single-marker-like -/
def leafPair (l : Leaf) : String × String :=
  match l with
  | .single s => (s.op, s.value)
  | .amulti _ c => ("", c.toStr)
  | .aunion _ c => ("", c.toStr)

def convKey (n : String) : String := if n == "python_full_version" then "python_version" else n

/-- the group of pairs a conjunction contributes for marker `key` (`AssertionError` when a member of
a conjunction is not single-marker-like) -/
def conjPairs (key : String) (conj : M) : PyM (List (String × String)) :=
  match conj with
  | .multi ms =>
    ms.foldlM (fun acc m => match m with
      | .leaf l => .ok (if convKey l.name == key then acc ++ [leafPair l] else acc)
      | _ => .error .assertion) []
  | .leaf l => .ok (if convKey l.name == key then [leafPair l] else [])
  | _ => .ok []

mutual
def M.mentions (key : String) : M → Bool
  | .leaf l => convKey l.name == key
  | .multi ms => M.mentionsAny key ms
  | .union ms => M.mentionsAny key ms
  | _ => false
def M.mentionsAny (key : String) : List M → Bool
  | [] => false
  | m :: ms => M.mentions key m || M.mentionsAny key ms
end

def dedupGroups (gs : List (List (String × String))) : List (List (String × String)) :=
  gs.foldl (fun seen g => if seen.contains g then seen else seen ++ [g]) []

/-- `convert_markers(marker)[key]`: `none` when `key` does not occur in the DNF at all -/
def convertMarkersFor (key : String) (m : M) : PyM (Option (List (List (String × String)))) := do
  let d ← dnf defaultFuel [] m
  let conjs := membersIfUnion d
  -- every conjunction is inspected (the assertion concerns all members, whatever their name)
  let groups ← conjs.mapM (conjPairs key)
  if groups.all List.isEmpty then
    pure none
  else pure (some (dedupGroups groups))

/-- `get_python_constraint_from_marker(marker)` -/
def gpc (m : M) : PyM VC := do
  let pm ← m.only Gen.pythonVersionMarkers.reverse   -- ("python_version", "python_full_version")
  if pm.isAny then pure VC.any
  else if pm.isEmpty then pure .empty
  else if (← dnf defaultFuel [] m).isEmpty then pure .empty   -- repo fix: unsatisfiable only in DNF ≠ "any python"
  else
    match ← convertMarkersFor "python_version" m with
    | none => pure VC.any
    | some groups =>
      if groups.contains [] then pure VC.any
      else do
        let txt ← normalizePyMarkers groups
        VParser.parseMarkerVersionConstraint txt

/-! ### `create_nested_marker` -/

def padZeros (n : Nat) : String := String.join (List.replicate n ".0")

/-- `create_nested_marker(name, range)` for one `VersionRangeConstraint` -/
def nestedRC (name : String) (c : RC) : String :=
  match c with
  | .ver v =>
    let n := if name == "python_version" && v.precision ≥ 3 then "python_full_version" else name
    n ++ " == \"" ++ v.text ++ "\""
  | .rng r =>
    let lo : List String :=
      match r.min with
      | none => []
      | some v =>
        let n := if name == "python_version" && v.precision ≥ 3 then "python_full_version" else name
        if n == "python_version" && !r.imin && v.precision < 3 then
          ["python_full_version > \"" ++ v.text ++ padZeros (3 - v.precision) ++ "\""]
        else [n ++ " " ++ (if r.imin then ">=" else ">") ++ " \"" ++ v.text ++ "\""]
    let hi : List String :=
      match r.max with
      | none => []
      | some v =>
        let n := if name == "python_version" && v.precision ≥ 3 then "python_full_version" else name
        if n == "python_version" && r.imax && v.precision < 3 then
          ["python_full_version <= \"" ++ v.text ++ padZeros (3 - v.precision) ++ "\""]
        else [n ++ " " ++ (if r.imax then "<=" else "<") ++ " \"" ++ v.text ++ "\""]
    joinWith " and " (lo ++ hi)

/-- `create_nested_marker(name, constraint)` for version constraints.
`EmptyConstraint` is neither `Version` nor `VersionRange`: the code's `assert isinstance(…)` fails. -/
def createNestedMarker (name : String) (c : VC) : PyM String :=
  if c.isAny then .ok ""
  else
    match c with
    | .empty => .error .assertion
    | .single rc => .ok (nestedRC name rc)
    | .union rs =>
      .ok (joinWith " or " (rs.map (fun rc => "(" ++ (if rc.isAny then "" else nestedRC name rc) ++ ")")))

/-! ### `reduce_by_python_constraint` -/

def isRangeOrUnion : VC → Bool
  | .single (.rng _) => true
  | .union _ => true
  | _ => false

def Leaf.reduce (l : Leaf) (pc : VC) : PyM M :=
  match l with
  | .single s =>
    if isPyName s.name then do
      let c ← gpcLeaf l
      if ← c.allowsAll pc then pure .any
      else if !(← c.allowsAny pc) then pure .empty
      else do
        let txt ← createNestedMarker "python_version" pc
        let pm ← parseMarker txt
        let i ← mIntersect defaultFuel [] (.leaf l) pm
        match i with
        | .leaf (.single _) => pure i
        | _ => pure (.leaf l)
    else pure (.leaf l)
  | _ => pure (.leaf l)

mutual
def M.reduce (pc : VC) : M → PyM M
  | .any => .ok .any
  | .empty => .ok .empty
  | .leaf l => l.reduce pc
  | .multi ms => do let xs ← M.reduceList pc ms; multiOf defaultFuel [] xs
  | .union ms => do
    let shortcut : PyM Bool :=
      if isRangeOrUnion pc then do
        let pyOnly ← ms.filterM (fun m => do
          let o ← m.only Gen.pythonVersionMarkers.reverse
          pure (M.beq m o))
        let u ← unionOf defaultFuel [] pyOnly
        let g ← gpc u
        g.allowsAll pc
      else pure false
    if ← shortcut then pure .any
    else do
      let xs ← M.reduceList pc ms
      unionOf defaultFuel [] xs
def M.reduceList (pc : VC) : List M → PyM (List M)
  | [] => .ok []
  | m :: ms => do
    let x ← M.reduce pc m
    let xs ← M.reduceList pc ms
    pure (x :: xs)
end

end Poetry.Marker
