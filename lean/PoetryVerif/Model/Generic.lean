/-
White-box executable model of `poetry/core/constraints/generic/*.py`:
`Constraint` / `ExtraConstraint` (atoms), `MultiConstraint` / `ExtraMultiConstraint`, `UnionConstraint`,
`AnyConstraint`, `EmptyConstraint` and `parser.py`.  Core Lean only.

Representation.  `Atom` = a `Constraint` object (`x = true`: it is an `ExtraConstraint`).
`GS` = any constraint object that is not a `UnionConstraint`; `GC` = any constraint object.  A
`UnionConstraint` holds a list of `GS`: the real class accepts arbitrary members, but neither the parser
nor any method ever puts a union inside a union (each member comes out of an atom/multi level
`intersect`/`union`, see the return types below), and a `MultiConstraint` needs `.operator` on every member,
so it holds atoms only.  The structural dump compared by the correspondence would expose a nested union.

Python `==` between constraint objects: `isinstance(other, self.__class__)` together with CPython's
"reflected method of a proper subclass goes first" rule makes `Constraint("a") == ExtraConstraint("a")`
false in both directions (checked on the real code), and `AnyConstraint.__eq__` / `EmptyConstraint.__eq__`
only accept objects answering `is_any()` / `is_empty()`.  On this representation `__eq__` is therefore
structural equality (derived `DecidableEq`); `set(...)`/`frozenset(...)`/`in` are modelled with it.

Exceptions are `PyM` values: `ValueError` → `.value`, `KeyError` → `.key`,
`NotImplementedError` → `.notImplemented`, `AssertionError` → `.assertion`.
-/
import PoetryVerif.Model.Basic
import PoetryVerif.Model.Generated

namespace Poetry.Generic
open Poetry

/-! ## operators -/

/-- the four callables `OP_EQ, OP_NE, OP_IN, OP_NC` -/
inductive Op where
  | eq | ne | in_ | nc
deriving DecidableEq, Repr, Inhabited

/-- `_trans_op_int`: the operator text stored in `_operator` (after `"="` → `"=="`). -/
def Op.str : Op → String
  | .eq => "==" | .ne => "!=" | .in_ => "in" | .nc => "not in"

def Op.ofTag : String → Option Op
  | "eq" => some .eq | "ne" => some .ne | "in" => some .in_ | "nc" => some .nc | _ => none

/-- `Constraint._trans_op_str[operator]` over the table extracted from the source; `KeyError` if absent. -/
def Op.lookup (s : String) : PyM Op :=
  match (Gen.genericOpTable.lookup s).bind Op.ofTag with
  | some o => .ok o
  | none => .error .key

/-- Python `a in b` for two `str` (substring). -/
def isInfixL (p : List Char) : List Char → Bool
  | [] => p.isEmpty
  | c :: cs => p.isPrefixOf (c :: cs) || isInfixL p cs

def strIn (a b : String) : Bool := isInfixL a.toList b.toList

/-- `op(a, b)` for the callable behind `o` (`contains(a, b)` is `b in a`). -/
def Op.apply (o : Op) (a b : String) : Bool :=
  match o with
  | .eq => a == b
  | .ne => a != b
  | .in_ => strIn b a
  | .nc => !strIn b a

/-! ## atoms -/

structure Atom where
  value : String
  op : Op
  /-- `true`: the object is an `ExtraConstraint` -/
  x : Bool
deriving DecidableEq, Repr, Inhabited

/-- `Constraint.__init__` / `ExtraConstraint.__init__` -/
def Atom.mk? (x : Bool) (value : String) (operator : String) : PyM Atom :=
  let operator := if operator == "=" then "==" else operator
  match Op.lookup operator with
  | .error e => .error e
  | .ok o =>
    if x && !(o.str == "==" || o.str == "!=") then .error .value
    else .ok ⟨value, o, x⟩

/-- `self._op(v, self._value)`: does the atom admit the plain value `v`? -/
def Atom.allowsV (self : Atom) (v : String) : Bool := self.op.apply v self.value

/-- `Constraint.allows_all(other)` for an atom `other` -/
def Atom.allowsAllA (self o : Atom) : Bool :=
  if o.op == .eq then self.allowsV o.value
  else if o.op == .in_ && self.op == .in_ then strIn self.value o.value
  else if o.op == .nc && self.op == .nc then strIn o.value self.value
  else if o.op == .nc && self.op == .ne then strIn o.value self.value
  else self == o

/-- `Constraint.allows_any(other)` for an atom `other`, after the `self._operator == "=="` early return -/
def Atom.allowsAnyA (self o : Atom) : Bool :=
  if o.op == .eq then self.allowsV o.value
  else if o.op == .ne && self.op == .eq then self.value != o.value   -- dead in the source as well
  else if o.op == .nc && self.op == .in_ then !strIn o.value self.value
  else if o.op == .in_ && self.op == .nc then !strIn self.value o.value
  else true

/-- `Constraint.invert`: `self.__class__(self._value, self._trans_op_inv[self.operator])` -/
def Atom.invert (a : Atom) : PyM Atom :=
  match Gen.genericOpInv.lookup a.op.str with
  | none => .error .key
  | some s => Atom.mk? a.x a.value s

def Atom.toStr (a : Atom) : String :=
  if a.op == .in_ || a.op == .nc then "'" ++ a.value ++ "' " ++ a.op.str
  else (if a.op == .eq then "" else a.op.str) ++ a.value

/-! ## constraints -/

/-- a constraint object that is not a `UnionConstraint` -/
inductive GS where
  | any
  | empty
  | atom (a : Atom)
  /-- `MultiConstraint(*cs)` (`x = true`: `ExtraMultiConstraint`) -/
  | multi (x : Bool) (cs : List Atom)
deriving DecidableEq, Repr, Inhabited

/-- a constraint object -/
inductive GC where
  | s (c : GS)
  /-- `UnionConstraint(*ms)` -/
  | union (ms : List GS)
deriving DecidableEq, Repr, Inhabited

@[match_pattern] abbrev GC.any : GC := .s .any
@[match_pattern] abbrev GC.empty : GC := .s .empty
@[match_pattern] abbrev GC.atom (a : Atom) : GC := .s (.atom a)
@[match_pattern] abbrev GC.multi (x : Bool) (cs : List Atom) : GC := .s (.multi x cs)

/-- `MultiConstraint.OPERATORS` / `ExtraMultiConstraint.OPERATORS` (extracted) -/
def multiOps (x : Bool) : List String := if x then Gen.extraMultiOperators else Gen.multiOperators

/-- `MultiConstraint.__init__` with its validation -/
def mkMulti (x : Bool) (cs : List Atom) : PyM GS :=
  if cs.any (fun c => !(multiOps x).contains c.op.str) then .error .value
  else .ok (.multi x cs)

def GS.isAny : GS → Bool
  | .any => true
  | _ => false

def GS.isEmpty : GS → Bool
  | .empty => true
  | _ => false

def GC.isAny : GC → Bool
  | .s c => c.isAny
  | .union _ => false

def GC.isEmpty : GC → Bool
  | .s c => c.isEmpty
  | .union _ => false

/-! ### `allows` -/

/-- `c.allows(Constraint(v))` (any `==` atom as argument; see `GC.allows` for the general call) -/
def GS.allowsV : GS → String → Bool
  | .any, _ => true
  | .empty, _ => false
  | .atom a, v => a.allowsV v
  | .multi _ cs, v => cs.all (fun c => c.allowsV v)

def GC.allowsV : GC → String → Bool
  | .s c, v => c.allowsV v
  | .union ms, v => ms.any (fun c => c.allowsV v)

/-- short-circuit `all(f(x) for x in l)` / `any(...)` with exceptions -/
def allM {α : Type} (f : α → PyM Bool) : List α → PyM Bool
  | [] => .ok true
  | a :: as =>
    match f a with
    | .error e => .error e
    | .ok false => .ok false
    | .ok true => allM f as

def anyM {α : Type} (f : α → PyM Bool) : List α → PyM Bool
  | [] => .ok false
  | a :: as =>
    match f a with
    | .error e => .error e
    | .ok true => .ok true
    | .ok false => anyM f as

def mapE {α β : Type} (f : α → PyM β) : List α → PyM (List β)
  | [] => .ok []
  | a :: as =>
    match f a with
    | .error e => .error e
    | .ok b =>
      match mapE f as with
      | .error e => .error e
      | .ok bs => .ok (b :: bs)

/-- `Constraint.allows(other)`: `ValueError` unless `other` is an atom with operator `==`. -/
def Atom.allows (self : Atom) : GC → PyM Bool
  | .s (.atom o) => if o.op == .eq then .ok (self.allowsV o.value) else .error .value
  | _ => .error .value

def GS.allows : GS → GC → PyM Bool
  | .any, _ => .ok true
  | .empty, _ => .ok false
  | .atom a, o => a.allows o
  | .multi _ cs, o => allM (fun c => c.allows o) cs

/-- `self.allows(other)` for arbitrary `other` -/
def GC.allows : GC → GC → PyM Bool
  | .s c, o => c.allows o
  | .union ms, o => anyM (fun c => c.allows o) ms

/-! ### `allows_all` -/

def Atom.allowsAllS (self : Atom) : GS → Bool
  | .atom o => self.allowsAllA o
  | .multi _ cs => cs.any (fun c => self.allowsAllA c)
  | .empty => true      -- `return other.is_empty()`
  | .any => false

def Atom.allowsAll (self : Atom) : GC → Bool
  | .s o => self.allowsAllS o
  | .union ms => ms.all (fun c => self.allowsAllS c)

/-- `self.allows_all(other)`, `other` not a union -/
def GS.allowsAllS : GS → GS → Bool
  | .any, _ => true
  | .empty, o => o.isEmpty
  | .atom a, o => a.allowsAllS o
  | .multi _ cs, .multi _ ds => cs.all (fun c => ds.contains c)
  | .multi _ cs, o => cs.all (fun c => c.allowsAllS o)

def GS.allowsAll : GS → GC → Bool
  | c, .s o => c.allowsAllS o
  | .any, .union _ => true
  | .empty, .union _ => false
  | .atom a, .union ns => a.allowsAll (.union ns)
  | .multi _ cs, .union ns => cs.all (fun c => c.allowsAll (.union ns))

def GC.allowsAll : GC → GC → Bool
  | .s c, o => c.allowsAll o
  | .union ms, .union ns => ns.all (fun c2 => ms.any (fun c1 => c1.allowsAllS c2))
  | .union ms, .s o => ms.any (fun c => c.allowsAllS o)

/-! ### `allows_any` -/

/-- `Constraint.allows_any(other)`, `other` not a union.  The first branch is `other.allows(self)` with
`self` an `==` atom, which never raises (`Proofs.Generic.allows_eqAtom`). -/
def Atom.allowsAnyS (self : Atom) (o : GS) : Bool :=
  if self.op == .eq then o.allowsV self.value
  else
    match o with
    | .atom o => self.allowsAnyA o
    | .multi _ _ => true     -- conservative
    | .any => true       -- `return other.is_any()`
    | .empty => false

def Atom.allowsAny (self : Atom) : GC → Bool
  | .s o => self.allowsAnyS o
  | .union ms =>
    if self.op == .eq then (GC.union ms).allowsV self.value
    else ms.any (fun c => self.allowsAnyS c)

def GS.allowsAnyS : GS → GS → Bool
  | .any, _ => true
  | .empty, _ => false
  | .atom a, o => a.allowsAnyS o
  | .multi x cs, .atom o => if o.op == .eq then (GS.multi x cs).allowsV o.value else true
  | .multi _ _, .multi _ _ => true
  | .multi _ _, o => o.isAny

def GS.allowsAny : GS → GC → Bool
  | c, .s o => c.allowsAnyS o
  | .any, .union _ => true
  | .empty, .union _ => false
  | .atom a, .union ns => a.allowsAny (.union ns)
  | .multi _ cs, .union ns => ns.any (fun c2 => cs.all (fun c1 => c1.allowsAnyS c2))

def GC.allowsAny : GC → GC → Bool
  | .s c, o => c.allowsAny o
  | .union ms, .union ns => ms.any (fun c1 => ns.any (fun c2 => c1.allowsAnyS c2))
  | .union ms, .s o => ms.any (fun c => c.allowsAnyS o)

/-! ### `invert` -/

def GS.invert : GS → PyM GC
  | .any => .ok .empty
  | .empty => .ok .any
  | .atom a =>
    match a.invert with
    | .error e => .error e
    | .ok b => .ok (.atom b)
  | .multi _ cs =>
    match mapE Atom.invert cs with
    | .error e => .error e
    | .ok l => .ok (.union (l.map GS.atom))

/-- all members are `Constraint` instances? -/
def atomsOf? : List GC → Option (List Atom)
  | [] => some []
  | .s (.atom a) :: r => (atomsOf? r).map (fun l => a :: l)
  | _ :: _ => none

/-- `UnionConstraint.invert` -/
def unionInvert (ms : List GS) : PyM GC :=
  match mapE GS.invert ms with
  | .error e => .error e
  | .ok inv =>
    match atomsOf? inv with
    | none => .error .notImplemented
    | some as =>
      match mkMulti (as.any (fun a => a.x)) as with
      | .error e => .error e
      | .ok m => .ok (.s m)

def GC.invert : GC → PyM GC
  | .s c => c.invert
  | .union ms => unionInvert ms

/-! ### `intersect` -/

/-- `Constraint.intersect` / `ExtraConstraint.intersect` with an atom -/
def Atom.intersectA (self o : Atom) : PyM GS :=
  if self.x then
    if o == self then .ok (.atom self)
    else if self.value == o.value && self.op != o.op then .ok .empty
    else mkMulti true [self, o]
  else
    if o == self then .ok (.atom self)
    else if self.allowsAllA o then .ok (.atom o)
    else if o.allowsAllA self then .ok (.atom self)
    else if !self.allowsAnyS (.atom o) || !o.allowsAnyS (.atom self) then .ok .empty
    else mkMulti false [self, o]

/-- `MultiConstraint.intersect(other)` for an atom `other` (not overridden by `ExtraMultiConstraint`) -/
def multiIntersectA (x : Bool) (cs : List Atom) (o : Atom) : PyM GS :=
  if cs.contains o then .ok (.multi x cs)
  else if o.op == .eq && !(multiOps x).contains "==" then
    -- `other if self.allows(other) else EmptyConstraint()` (`other` is an `==` atom: `allows` cannot raise)
    (if (GS.multi x cs).allowsV o.value then .ok (.atom o) else .ok .empty)
  else
    match o.invert with
    | .error e => .error e
    | .ok i =>
      if cs.contains i then .ok .empty
      else mkMulti x (cs ++ [o])

/-- `op_values["=="] & op_values["!="]` non-empty, over `chain(self, other)` -/
def eqNeClash (l : List Atom) : Bool :=
  (l.filter (fun c => c.op.str == "==")).any fun c =>
    (l.filter (fun d => d.op.str == "!=")).any fun d => d.value == c.value

/-- `[Extra]MultiConstraint.intersect(other)` for a multi `other` -/
def multiIntersectM (x : Bool) (cs ds : List Atom) : PyM GS :=
  if x && eqNeClash (cs ++ ds) then .ok .empty
  else mkMulti x (cs ++ ds.filter (fun c => !cs.contains c))

/-- `self.intersect(other)`, neither a union.  (`Constraint.intersect` and `MultiConstraint.intersect`
forward `Any`/`Empty` arguments to `other.intersect(self)`.) -/
def GS.intersectS : GS → GS → PyM GS
  | .any, o => .ok o
  | .empty, _ => .ok .empty
  | .atom a, .atom o => a.intersectA o
  | .atom a, .any => .ok (.atom a)
  | .atom _, .empty => .ok .empty
  | .atom a, .multi x cs => multiIntersectA x cs a
  | .multi x cs, .multi _ ds => multiIntersectM x cs ds
  | .multi x cs, .atom o => multiIntersectA x cs o
  | .multi x cs, .any => .ok (.multi x cs)
  | .multi _ _, .empty => .ok .empty

/-- `set(a).issubset(set(b))` -/
def subsetL {α : Type} [DecidableEq α] (a b : List α) : Bool := a.all (fun c => b.contains c)

/-- `isinstance(constraint, MultiConstraint) and frozenset(constraint.constraints) in seen_multi_constraints` -/
def sameMultiSeen (new : List GS) : GS → Bool
  | .multi _ cs => new.any (fun n => match n with
    | .multi _ ds => subsetL ds cs && subsetL cs ds
    | _ => false)
  | _ => false

/-- `add_unseen_constraint`.  `seen_multi_constraints` always holds exactly the `frozenset`s of the
multi-constraints already in `new_constraints`, so it is read off `new`. -/
def addUnseen (new : List GS) (c : GS) : List GS :=
  if c.isEmpty || new.contains c || sameMultiSeen new c then new else new ++ [c]

def crossRow (our : GS) : List GS → List GS → PyM (List GS)
  | [], new => .ok new
  | their :: ns, new =>
    match our.intersectS their with
    | .error e => .error e
    | .ok r => crossRow our ns (addUnseen new r)

def crossAll : List GS → List GS → List GS → PyM (List GS)
  | [], _, new => .ok new
  | our :: ms, ns, new =>
    match crossRow our ns new with
    | .error e => .error e
    | .ok new' => crossAll ms ns new'

/-- `for their in other.constraints: intersection = intersection.intersect(their)` -/
def foldIntersect (c : GS) : List Atom → PyM GS
  | [] => .ok c
  | a :: as =>
    match c.intersectS (.atom a) with
    | .error e => .error e
    | .ok c' => foldIntersect c' as

def distAll : List GS → List Atom → List GS → PyM (List GS)
  | [], _, new => .ok new
  | our :: ms, ds, new =>
    match foldIntersect our ds with
    | .error e => .error e
    | .ok r => distAll ms ds (addUnseen new r)

def finishIntersect : List GS → GC
  | [] => .empty
  | [c] => .s c
  | l => .union l

/-- `UnionConstraint.intersect` -/
def unionIntersect (ms : List GS) (other : GC) : PyM GC :=
  if other.isAny then .ok (.union ms)
  else if other.isEmpty then .ok other
  else if (match other with
           | .union ns => subsetL ns ms && subsetL ms ns
           | _ => false) then .ok (.union ms)
  else if (match other with
           | .s (.atom o) => o.x && ms.contains (.atom o)
           | _ => false) then .ok other
  else
    let other' : GC := match other with
      | .s (.atom o) => .union [.atom o]
      | o => o
    match other' with
    | .union ns =>
      if subsetL ms ns then .ok (.union ms)
      else if subsetL ns ms then
        (match ns with
         | [n] => .ok (.s n)
         | _ => .ok (.union ns))
      else
        match crossAll ms ns [] with
        | .error e => .error e
        | .ok new => .ok (finishIntersect new)
    | .s (.multi _ ds) =>
      match distAll ms ds [] with
      | .error e => .error e
      | .ok new => .ok (finishIntersect new)
    | _ => .error .assertion

def GC.intersect : GC → GC → PyM GC
  | .s .any, o => .ok o
  | .s .empty, _ => .ok .empty
  | .s a, .s b =>
    match a.intersectS b with
    | .error e => .error e
    | .ok r => .ok (.s r)
  | .s a, .union ns => unionIntersect ns (.s a)     -- `return other.intersect(self)`
  | .union ms, o => unionIntersect ms o

/-! ### `union` -/

/-- `Constraint.union` / `ExtraConstraint.union` with an atom -/
def Atom.unionA (self o : Atom) : PyM GC :=
  if self.x then
    if o == self then .ok (.atom self)
    else if self.value == o.value && self.op != o.op then .ok .any
    else .ok (.union [.atom self, .atom o])
  else
    if o == self then .ok (.atom self)
    else if self.allowsAllA o then .ok (.atom self)
    else if o.allowsAllA self then .ok (.atom o)
    else
      -- ops = {self.operator, other.operator}
      let c1 := (self.op == .ne && o.op == .ne) || (self.op == .nc && o.op == .nc)
      let c2 := (self.op == .in_ && o.op == .ne) || (self.op == .ne && o.op == .in_) ||
                (self.op == .in_ && o.op == .nc) || (self.op == .nc && o.op == .in_)
      if c1 || ((c2 && (self.op == .in_ && strIn self.value o.value)) ||
                (o.op == .in_ && strIn o.value self.value)) then .ok .any
      else
        match self.invert with
        | .error e => .error e
        | .ok i => if i == o then .ok .any else .ok (.union [.atom self, .atom o])

/-- `MultiConstraint._only_ne` -/
def onlyNe (cs : List Atom) : Bool := cs.all (fun c => c.op == .ne)

/-- `MultiConstraint.union` / `ExtraMultiConstraint.union` with an atom -/
def multiUnionA (x : Bool) (cs : List Atom) (o : Atom) : PyM GC :=
  if x then
    if cs.contains o then .ok (.atom o)
    else if (cs.map (fun c => c.value)).eraseDups.length == 2 && (cs.map (fun c => c.value)).contains o.value then
      .ok (.union ((cs.filter (fun c => c.value != o.value)).map GS.atom ++ [.atom o]))
    else .ok (.union [.multi x cs, .atom o])
  else
    if cs.contains o then .ok (.atom o)
    else if !(onlyNe cs && (o.op == .eq || o.op == .ne)) then
      (if o.op == .eq && (GS.multi x cs).allowsV o.value then .ok (.multi x cs)
       else .ok (.union [.multi x cs, .atom o]))
    else if !(cs.map (fun c => c.value)).contains o.value then
      (if o.op == .ne then .ok .any else .ok (.multi x cs))
    else
      match cs.filter (fun c => c.value != o.value) with
      | [] => .ok .any
      | [c] => .ok (.atom c)
      | l =>
        match mkMulti x l with
        | .error e => .error e
        | .ok m => .ok (.s m)

/-- `MultiConstraint.union` / `ExtraMultiConstraint.union` with a multi -/
def multiUnionM (x : Bool) (cs : List Atom) (y : Bool) (ds : List Atom) : PyM GC :=
  if x then
    if subsetL cs ds then .ok (.multi x cs)
    else if subsetL ds cs then .ok (.multi y ds)
    else .ok (.union [.multi x cs, .multi y ds])
  else
    if !(onlyNe cs && onlyNe ds) then
      (if subsetL cs ds then .ok (.multi x cs)
       else if subsetL ds cs then .ok (.multi y ds)
       else .ok (.union [.multi x cs, .multi y ds]))
    else
      let common := cs.filter (fun c => ds.contains c)
      if common.isEmpty then .ok .any
      else
        match mkMulti x common with
        | .error e => .error e
        | .ok m => .ok (.s m)

/-- `self.union(other)`, neither a union -/
def GS.unionS : GS → GS → PyM GC
  | .any, _ => .ok .any
  | .empty, o => .ok (.s o)
  | .atom a, .atom o => a.unionA o
  | .atom _, .any => .ok .any
  | .atom a, .empty => .ok (.atom a)
  | .atom a, .multi x cs => multiUnionA x cs a
  | .multi x cs, .multi y ds => multiUnionM x cs y ds
  | .multi x cs, .atom o => multiUnionA x cs o
  | .multi _ _, .any => .ok .any
  | .multi x cs, .empty => .ok (.multi x cs)

structure UState where
  ours : List GS
  theirs : List GS
  merged : List GS
deriving Repr

def addNew (l : List GS) (c : GS) : List GS := if l.contains c then l else l ++ [c]

/-- body of the double loop of `UnionConstraint.union`; `none` = `return AnyConstraint()` -/
def uStep (st : UState) (our their : GS) : PyM (Option UState) :=
  match our.unionS their with
  | .error e => .error e
  | .ok u =>
    if u.isAny then .ok none
    else
      match u with
      | .s (.atom a) =>
        if GS.atom a == our then .ok (some { st with ours := addNew st.ours (.atom a) })
        else if GS.atom a == their then .ok (some { st with theirs := addNew st.theirs their })
        else .ok (some { st with merged := addNew st.merged (.atom a) })
      | _ => .ok (some { st with ours := addNew st.ours our, theirs := addNew st.theirs their })

def uRow (their : GS) : List GS → UState → PyM (Option UState)
  | [], st => .ok (some st)
  | our :: ms, st =>
    match uStep st our their with
    | .error e => .error e
    | .ok none => .ok none
    | .ok (some st') => uRow their ms st'

def uLoop : List GS → List GS → UState → PyM (Option UState)
  | [], _, st => .ok (some st)
  | their :: ns, ms, st =>
    match uRow their ms st with
    | .error e => .error e
    | .ok none => .ok none
    | .ok (some st') => uLoop ns ms st'

def finishUnion : List GS → GC
  | [c] => .s c
  | l => .union l

/-- `c in other.constraints` for a member `c` and a multi `other` -/
def atomIn (ds : List Atom) : GS → Bool
  | .atom a => ds.contains a
  | _ => false

/-- `UnionConstraint.union` -/
def unionUnion (ms : List GS) (other : GC) : PyM GC :=
  if other.isAny then .ok other
  else if other.isEmpty then .ok (.union ms)
  else if other == .union ms then .ok (.union ms)
  else
    let other' : GC := match other with
      | .s (.atom o) => .union [.atom o]
      | o => o
    match other' with
    | .union ns =>
      match uLoop ns ms ⟨[], [], []⟩ with
      | .error e => .error e
      | .ok none => .ok .any
      | .ok (some st) => .ok (finishUnion ((st.theirs ++ st.merged).foldl addNew st.ours))
    | .s (.multi y ds) =>
      if ms.any (atomIn ds) then .ok (.union ms)
      else .ok (finishUnion (ms ++ [.multi y ds]))
    | _ => .error .assertion

/-- `self.union(other)` (the constructor is `GC.union`, hence the name) -/
def GC.unionWith : GC → GC → PyM GC
  | .s .any, _ => .ok .any
  | .s .empty, o => .ok o
  | .s a, .s b => a.unionS b
  | .s (.atom a), .union ns => unionUnion [.atom a] (.union ns)   -- `UnionConstraint(self).union(other)`
  | .s a, .union ns => unionUnion ns (.s a)                       -- `other.union(self)`
  | .union ms, o => unionUnion ms o

/-! ### `difference` -/

def GC.difference : GC → GC → PyM GC
  | .s .any, o => if o.isAny then .ok .empty else .error .value
  | .s .empty, _ => .ok .empty
  | .s (.atom a), o =>
    match o.allows (.atom a) with
    | .error e => .error e
    | .ok true => .ok .empty
    | .ok false => .ok (.atom a)
  | _, _ => .error .notImplemented

/-! ### `__str__`, `__hash__` -/

def GS.toStr : GS → String
  | .any => "*"
  | .empty => ""
  | .atom a => a.toStr
  | .multi _ cs => joinWith ", " (cs.map Atom.toStr)

def GC.toStr : GC → String
  | .s c => c.toStr
  | .union ms => joinWith " || " (ms.map GS.toStr)

/-- the object handed to Python's `hash`, as a token stream of the nested tuple
(`(op, value)`, `("multi", *atoms)`, `("union", *members)`, `"any"`, `"empty"`) -/
inductive HTok where
  | str (s : String)
  | lpar
  | rpar
deriving DecidableEq, Repr, Inhabited

abbrev HKey := List HTok

def Atom.hashKey (a : Atom) : HKey := [.lpar, .str a.op.str, .str a.value, .rpar]

def GS.hashKey : GS → HKey
  | .any => [.str "any"]
  | .empty => [.str "empty"]
  | .atom a => a.hashKey
  | .multi _ cs => [.lpar, .str "multi"] ++ (cs.map Atom.hashKey).flatten ++ [.rpar]

def GC.hashKey : GC → HKey
  | .s c => c.hashKey
  | .union ms => [.lpar, .str "union"] ++ (ms.map GS.hashKey).flatten ++ [.rpar]

/-! ## reference semantics (what a constraint *means*)

Single-valued variables: a constraint denotes a set of strings.  `extra`: a value is the set `E` of active
extras; `extra == "a"` holds iff `a ∈ E`, `extra != "a"` iff `a ∉ E` (`markers.py:SingleMarker.validate`). -/

def Atom.den (a : Atom) (v : String) : Bool :=
  match a.op with
  | .eq => v == a.value
  | .ne => v != a.value
  | .in_ => strIn a.value v
  | .nc => !strIn a.value v

/-- meaning of a constraint given the meaning `f` of its atoms (at one fixed probe) -/
def GS.sem (f : Atom → Bool) : GS → Bool
  | .any => true
  | .empty => false
  | .atom a => f a
  | .multi _ cs => cs.all f

def GC.sem (f : Atom → Bool) : GC → Bool
  | .s c => c.sem f
  | .union ms => ms.any (fun c => c.sem f)

def GS.den (c : GS) (v : String) : Bool := c.sem (fun a => a.den v)

def GC.den (c : GC) (v : String) : Bool := c.sem (fun a => a.den v)

/-- `in` / `not in` have no meaning for `extra` (the constructor rejects them); they denote `false`. -/
def Atom.denX (a : Atom) (E : String → Bool) : Bool :=
  match a.op with
  | .eq => E a.value
  | .ne => !E a.value
  | _ => false

def GS.denX (c : GS) (E : String → Bool) : Bool := c.sem (fun a => a.denX E)

def GC.denX (c : GC) (E : String → Bool) : Bool := c.sem (fun a => a.denX E)

/-! ## well-formedness: the shapes parser and algebra produce in the `==`/`!=` fragment -/

def Atom.isEqNe (a : Atom) : Bool := a.op == .eq || a.op == .ne

/-- single-valued variant: plain `Constraint` atoms with `==`/`!=`; a `MultiConstraint` holds `!=` atoms. -/
def GS.wfG : GS → Bool
  | .any => true
  | .empty => true
  | .atom a => !a.x && a.isEqNe
  | .multi x cs => !x && cs.all (fun c => !c.x && c.op == .ne)

/-- … and a `UnionConstraint` has at least one member -/
def GC.wfG : GC → Bool
  | .s c => c.wfG
  | .union ms => !ms.isEmpty && ms.all GS.wfG

/-- `extra` variant: `ExtraConstraint` atoms with `==`/`!=`; an `ExtraMultiConstraint` mentions every
value once. -/
def GS.wfX : GS → Bool
  | .any => true
  | .empty => true
  | .atom a => a.x && a.isEqNe
  | .multi x cs => x && cs.all (fun c => c.x && c.isEqNe) && decide ((cs.map (fun c => c.value)).Nodup)

def GC.wfX : GC → Bool
  | .s c => c.wfX
  | .union ms => !ms.isEmpty && ms.all GS.wfX

/-- single-valued variant, all four operators: plain `Constraint` atoms; a `MultiConstraint` holds atoms
with a negative operator (`!=`, `in`, `not in` — what `MultiConstraint.__init__` accepts); unions are
non-empty.  `wfG` is `wf4` restricted to `==`/`!=` (`frag`). -/
def GS.wf4 : GS → Bool
  | .any => true
  | .empty => true
  | .atom a => !a.x
  | .multi x cs => !x && cs.all (fun c => !c.x && c.op != .eq)

def GC.wf4 : GC → Bool
  | .s c => c.wf4
  | .union ms => !ms.isEmpty && ms.all GS.wf4

/-- no `MultiConstraint` / `UnionConstraint` of nothing -/
def GS.nondeg : GS → Bool
  | .multi _ cs => !cs.isEmpty
  | _ => true

def GC.nondeg : GC → Bool
  | .s c => c.nondeg
  | .union ms => !ms.isEmpty && ms.all GS.nondeg

/-- the one call site where `union` is still wrong (pinned by the test-suite): two `not in` atoms neither of
whose values contains the other are united to `AnyConstraint` (`Constraint.union`, `ops in ({"!="}, {"not in"})`) -/
def ncClash (a o : Atom) : Bool :=
  a.op == .nc && o.op == .nc && !strIn a.value o.value && !strIn o.value a.value

def GS.ncClash : GS → GS → Bool
  | .atom a, .atom o => Generic.ncClash a o
  | _, _ => false

/-- the top-level members: `self` or `self.constraints` of a union -/
def GC.members : GC → List GS
  | .s c => [c]
  | .union ms => ms

/-- no pair of top-level members of the two operands hits that call site -/
def GC.ncCompat (a b : GC) : Bool :=
  a.members.all fun m => b.members.all fun n => !GS.ncClash m n

/-! ## parser (`generic/parser.py`) -/

/-- `str.strip()` -/
def strip (l : List Char) : List Char := (dropSpaces (dropSpaces l).reverse).reverse

/-- a match of `\s*\|\|?\s*` starting exactly here; returns the text after it -/
def sepOr (cs : List Char) : Option (List Char) :=
  match dropSpaces cs with
  | '|' :: '|' :: r => some (dropSpaces r)
  | '|' :: r => some (dropSpaces r)
  | _ => none

/-- a match of `\s*,\s*` starting exactly here -/
def sepComma (cs : List Char) : Option (List Char) :=
  match dropSpaces cs with
  | ',' :: r => some (dropSpaces r)
  | _ => none

/-- `re.split(sep, text)`: leftmost matches, scanning left to right.  `fuel` ≥ length + 1 always suffices
(every separator match consumes a character). -/
def splitBy (sep : List Char → Option (List Char)) : Nat → List Char → List Char → List (List Char)
  | 0, _, acc => [acc.reverse]
  | _ + 1, [], acc => [acc.reverse]
  | n + 1, c :: cs, acc =>
    match sep (c :: cs) with
    | some rest => acc.reverse :: splitBy sep n rest []
    | none => splitBy sep n cs (c :: acc)

def reSplit (sep : List Char → Option (List Char)) (l : List Char) : List (List Char) :=
  splitBy sep (l.length + 1) l []

/-- does `c` match the pattern letter `l` (lower-case ASCII) under `re.IGNORECASE`? -/
def ciEq (c l : Char) : Bool :=
  c == l || c.toNat + 32 == l.toNat || (l == 'i' && (c.toNat == 0x130 || c.toNat == 0x131))

/-- `$` without MULTILINE -/
def atEnd (cs : List Char) : Bool := cs == [] || cs == ['\n']

/-- `\s*(?P<op>(not\sin|in))$` — returns the matched operator text -/
def matchOpTail (cs : List Char) : Option (List Char) :=
  let r := dropSpaces cs
  let tryIn : Option (List Char) :=
    match r with
    | a :: b :: rest => if ciEq a 'i' && ciEq b 'n' && atEnd rest then some [a, b] else none
    | _ => none
  match r with
  | a :: b :: c :: w :: d :: e :: rest =>
    if ciEq a 'n' && ciEq b 'o' && ciEq c 't' && isSpace w && ciEq d 'i' && ciEq e 'n' && atEnd rest
    then some [a, b, c, w, d, e] else tryIn
  | _ => tryIn

/-- lazy `(?P<value>.+?)\1` followed by the operator tail; `acc` = value so far, reversed -/
def scanValue (q : Char) : List Char → List Char → Option (List Char × List Char)
  | [], _ => none
  | c :: cs, acc =>
    if c == q && !acc.isEmpty then
      match matchOpTail cs with
      | some op => some (acc.reverse, op)
      | none => if c == '\n' then none else scanValue q cs (c :: acc)
    else if c == '\n' then none else scanValue q cs (c :: acc)

/-- `STR_CMP_CONSTRAINT.match` → (value, op) -/
def matchStrCmp (cs : List Char) : Option (List Char × List Char) :=
  match cs with
  | q :: rest => if q == '\'' || q == '"' then scanValue q rest [] else none
  | [] => none

def spanNonSpace : List Char → List Char × List Char
  | [] => ([], [])
  | c :: cs => if isSpace c then ([], c :: cs) else let (a, b) := spanNonSpace cs; (c :: a, b)

/-- `\s*([^\s]+?)\s*$` -/
def matchBasicRest (r : List Char) : Option (List Char) :=
  let (tok, tail) := spanNonSpace (dropSpaces r)
  if tok.isEmpty then none
  else if (dropSpaces tail).isEmpty then some tok else none

/-- `BASIC_CONSTRAINT.match` → (group 1, group 2); the alternatives of `(!=|==?)?` in backtracking order -/
def matchBasic (cs : List Char) : Option (Option String × List Char) :=
  let try1 : Option (Option String × List Char) :=
    match cs with
    | '!' :: '=' :: r => (matchBasicRest r).map (fun v => (some "!=", v))
    | _ => none
  let try2 : Option (Option String × List Char) :=
    match cs with
    | '=' :: '=' :: r => (matchBasicRest r).map (fun v => (some "==", v))
    | _ => none
  let try3 : Option (Option String × List Char) :=
    match cs with
    | '=' :: r => (matchBasicRest r).map (fun v => (some "=", v))
    | _ => none
  match try1 with
  | some r => some r
  | none =>
    match try2 with
    | some r => some r
    | none =>
      match try3 with
      | some r => some r
      | none => (matchBasicRest cs).map (fun v => (none, v))

/-- `_parse_single_constraint` -/
def parseSingle (x : Bool) (cs : List Char) : PyM Atom :=
  match matchStrCmp cs with
  | some (v, op) =>
    -- `op = "not in" if len(m.group("op")) > 2 else "in"` (repo fix 4011dd2: the pattern is case
    -- insensitive and allows any whitespace character inside "not in")
    Atom.mk? x (String.ofList (strip v)) (if op.length > 2 then "not in" else "in")
  | none =>
    match matchBasic cs with
    | some (op, v) => Atom.mk? x (String.ofList (strip v)) (op.getD "==")
    | none => .error .value

/-- one `||` group: parse every clause, then fold `intersect` -/
def parseGroup (x : Bool) (g : List Char) : PyM GS :=
  match mapE (parseSingle x) (reSplit sepComma g) with
  | .error e => .error e
  | .ok [] => .error .index          -- unreachable: `re.split` returns at least one piece
  | .ok (a :: as) => foldIntersect (.atom a) as

/-- `_parse_constraint(constraints, constraint_type)` -/
def parseWith (x : Bool) (s : String) : PyM GC :=
  if s == "*" then .ok .any
  else
    match mapE (parseGroup x) (reSplit sepOr (strip s.toList)) with
    | .error e => .error e
    | .ok [g] => .ok (.s g)
    | .ok l => .ok (.union l)

def parseConstraint (s : String) : PyM GC := parseWith false s

def parseExtraConstraint (s : String) : PyM GC := parseWith true s

end Poetry.Generic
