/-
What `__hash__` of each value type of poetry-core feeds to Python's `hash` (C18).  NEW definitions only:
the equality functions (`__eq__`) already live with their models —
`Version.eqv` (`_compare_key` equality), `RC.eqv` / `VRange.eqv` (`Version.__eq__`, `VersionRange.__eq__`,
including the cross-type `Version == VersionRange`), `Marker.VC.eqv` (`EmptyConstraint.__eq__`,
`VersionUnion.__eq__`), structural `==` on `Generic.GC`, `Marker.Leaf.beq` / `Marker.M.beq`.

Python's `hash` on `str` / `int` / `tuple` / `None` is an uninterpreted function: a hash is modelled by its
INPUT, a finite tree `HIn` whose leaves are the primitive objects handed to `hash` and whose inner nodes
are `tuple` construction and `^` (xor).  Equal inputs give equal hashes whatever the function is
(`HIn.eval` makes this explicit for an arbitrary interpretation `HFun`, with xor interpreted as `Nat.xor`,
`hash(True) = 1`, `hash(False) = 0`).  Core Lean only.

Mirrored code:
* `PEP440Version` (dataclass, `eq=True, frozen=True`, the only compared field is `_compare_key`):
  `hash((self._compare_key,))`.  `Version` keeps this generated `__hash__` although it overrides `__eq__`.
* `VersionRange.__hash__`: `hash(min) ^ hash(max) ^ hash(include_min) ^ hash(include_max)`.
* `VersionUnion.__hash__`: `reduce(xor, map(hash, self._ranges))`.
* `EmptyConstraint.__hash__` (version and generic): `hash("empty")`; `AnyConstraint`: `hash("any")`.
* generic `Constraint`: `hash((op, value))`; `MultiConstraint`: `hash(("multi", *cs))`; `UnionConstraint`:
  `hash(("union", *cs))` — this is `Generic.GC.hashKey` (a token stream of the nested tuple), embedded as a leaf.
* markers: `SingleMarker`: `hash((name, operator, value, swapped))`; `AtomicMultiMarker` / `AtomicMarkerUnion`:
  `hash((name, constraint))`; `MultiMarker`: `hash(("multi", *markers))`; `MarkerUnion`: `hash(("union", *markers))`;
  `AnyMarker`: `hash("any")`; `EmptyMarker`: `hash("empty")`.
-/
import PoetryVerif.Model.MarkerAlg
import PoetryVerif.Model.Dep

namespace Poetry.EqHash
open Poetry Poetry.Generic Poetry.Marker

/-- the object handed to `hash`, as a tree -/
inductive HIn where
  | str (s : String)
  | bool (b : Bool)
  | none
  /-- `PEP440Version._compare_key` (a tuple of ints, `Release`, `ReleaseTag`s and the local tuple) -/
  | vkey (k : Version.Key)
  /-- the nested tuple a generic constraint hashes (`Generic.GC.hashKey`) -/
  | gkey (k : Generic.HKey)
  /-- `(x₁, …, xₙ)` -/
  | tup (xs : List HIn)
  /-- `hash(x₁) ^ … ^ hash(xₙ)` -/
  | xor (xs : List HIn)
deriving Repr, Inhabited

/-- an interpretation of Python's `hash` on the primitive inputs (arbitrary functions) -/
structure HFun where
  str : String → Nat
  none : Nat
  vkey : Version.Key → Nat
  gkey : Generic.HKey → Nat
  tup : List Nat → Nat

mutual
/-- the hash value under an interpretation: tuples through `H.tup`, `^` as `Nat.xor`, `hash(True) = 1`,
`hash(False) = 0` -/
def HIn.eval (H : HFun) : HIn → Nat
  | .str s => H.str s
  | .bool b => if b then 1 else 0
  | .none => H.none
  | .vkey k => H.vkey k
  | .gkey k => H.gkey k
  | .tup xs => H.tup (HIn.evalList H xs)
  | .xor xs => (HIn.evalList H xs).foldl Nat.xor 0
def HIn.evalList (H : HFun) : List HIn → List Nat
  | [] => []
  | x :: xs => HIn.eval H x :: HIn.evalList H xs
end

mutual
/-- decision procedure for equality of hash inputs (used by the driver) -/
def HIn.beq : HIn → HIn → Bool
  | .str a, .str b => a == b
  | .bool a, .bool b => a == b
  | .none, .none => true
  | .vkey a, .vkey b => a == b
  | .gkey a, .gkey b => a == b
  | .tup as, .tup bs => HIn.beqList as bs
  | .xor as, .xor bs => HIn.beqList as bs
  | _, _ => false
def HIn.beqList : List HIn → List HIn → Bool
  | [], [] => true
  | a :: as, b :: bs => HIn.beq a b && HIn.beqList as bs
  | _, _ => false
end

/-! ### versions and version constraints -/

/-- `PEP440Version.__hash__` (dataclass generated): `hash((self._compare_key,))` -/
def verHash (v : Version) : HIn := .tup [.vkey v.key]

/-- `hash(self.min)` / `hash(self.max)` for `Version | None` -/
def optVerHash : Option Version → HIn
  | Option.none => .none
  | some v => verHash v

/-- `VersionRange.__hash__` -/
def rangeHash (r : VRange) : HIn :=
  .xor [optVerHash r.min, optVerHash r.max, .bool r.imin, .bool r.imax]

def rcHash : RC → HIn
  | .ver v => verHash v
  | .rng r => rangeHash r

/-- `__hash__` of a version constraint: `EmptyConstraint`, `Version`, `VersionRange`, `VersionUnion` -/
def vcHash : VC → HIn
  | .empty => .str "empty"
  | .single c => rcHash c
  | .union rs => .xor (rs.map rcHash)

/-! ### generic constraints, markers -/

def gcHash (c : GC) : HIn := .gkey c.hashKey

def leafCHash : LeafC → HIn
  | .ver c => vcHash c
  | .gen c => gcHash c

/-- `SingleMarker._key` / `SingleMarkerLike._key` under `hash` -/
def leafHash : Leaf → HIn
  | .single s => .tup [.str s.name, .str s.op, .str s.value, .bool s.swapped]
  | .amulti n c => .tup [.str n, gcHash c]
  | .aunion n c => .tup [.str n, gcHash c]

mutual
def mHash : M → HIn
  | .any => .str "any"
  | .empty => .str "empty"
  | .leaf l => leafHash l
  | .multi ms => .tup (.str "multi" :: mHashList ms)
  | .union ms => .tup (.str "union" :: mHashList ms)
def mHashList : List M → List HIn
  | [] => []
  | m :: ms => mHash m :: mHashList ms
end

/-! ### package specifications, dependencies, packages -/

def optStrHash : Option String → HIn
  | Option.none => .none
  | some s => .str s

/-- `x or None` -/
def orNone (o : Option String) : Option String := if Dep.truthy o then o else Option.none

/-- `PackageSpecification.__hash__`: `hash(complete_name)`, and when `source_type` is truthy
`^ hash(source_type) ^ hash(source_url or None) ^ hash(source_subdirectory or None)` (references are left out on
purpose; `or None` since repo fix 34fbb11: `is_same_source_as` treats every falsy value alike) -/
def specHash (s : Dep.Spec) : HIn :=
  if Dep.truthy s.sourceType then
    .xor [.str s.completeName, optStrHash s.sourceType, optStrHash (orNone s.sourceUrl),
      optStrHash (orNone s.sourceSubdirectory)]
  else .str s.completeName

/-- `clone()` is `copy.copy(self)`: an object with the same attribute values.  The model has no hidden state (the
code keeps no memo of the hash either; a memo that survives `clone()` is exactly what the derivation pools of the
harness look for) -/
def specClone (s : Dep.Spec) : Dep.Spec := s

/-- `with_features(features)`: a clone whose `_features` is `frozenset(canonicalize_name(f) for f in features)` -/
def specWithFeatures (s : Dep.Spec) (fs : List String) : Dep.Spec :=
  { specClone s with features := Dep.normFeatures fs }

/-- `without_features()` -/
def specWithoutFeatures (s : Dep.Spec) : Dep.Spec := specWithFeatures s []

/-- `Dependency.with_features` / `without_features` (inherited: the clone keeps constraint, marker, …) -/
def depWithFeatures (d : Dep.Dep) (fs : List String) : Dep.Dep := { d with spec := specWithFeatures d.spec fs }
def depWithoutFeatures (d : Dep.Dep) : Dep.Dep := depWithFeatures d []

/-- `Dependency.__hash__` is the specification's (the constraint is mutable and left out) -/
def depHash (d : Dep.Dep) : HIn := specHash d.spec

/-- `Package`: a specification with a version.  `__eq__`: `super().__eq__(other) and self._version == other.version`;
`__hash__`: `super().__hash__() ^ hash(self._version)` -/
structure Pkg where
  spec : Dep.Spec
  version : Version

def Pkg.beq (a b : Pkg) : Bool := a.spec.beq b.spec && Version.eqv a.version b.version
def pkgHash (p : Pkg) : HIn := .xor [specHash p.spec, verHash p.version]

/-- no source reference of the three is a proper prefix of another, and none carries a resolved reference:
the guard under which specification equality is transitive -/
def refsExact (l : List Dep.Spec) : Prop :=
  (∀ a ∈ l, Dep.truthy a.sourceResolvedReference = false) ∧
  (∀ a ∈ l, ∀ b ∈ l, Dep.startsWithS (a.sourceReference.getD "") (b.sourceReference.getD "") = true →
    a.sourceReference.getD "" = b.sourceReference.getD "")

/-! ### reachability predicates used by the theorems -/

/-- a `VersionRange` some `Version` compares equal to (`Version.__eq__`): both ends present and equal -/
def degenerate (r : VRange) : Bool :=
  match r.min, r.max with
  | some m, some M => Version.eqv m M
  | _, _ => false

def rcNonDegenerate : RC → Bool
  | .ver _ => true
  | .rng r => !degenerate r

/-- no member of the constraint is a degenerate range -/
def vcNonDegenerate : VC → Bool
  | .empty => true
  | .single c => rcNonDegenerate c
  | .union rs => rs.all rcNonDegenerate

/-- the coherence invariant of a `SingleMarker`: the constraint is the one the constructor builds from the object's own
key `(name, operator, value, swapped)` — `SingleMarker.__init__` is the only writer of `_constraint`, it derives it
from exactly these four values (`leafPrepare`, `parseByKind`), and every algebra result builds its leaves through
the constructor (`SingleMarker(self.name, …)`, `parse_marker`). -/
def singleCoherent (s : Single) : Prop :=
  ∃ s', mkSingle s.name (itemConstraintString s.op s.value s.swapped) s.swapped = .ok s' ∧ s'.c = s.c

/-- class invariants of the leaves: an `AtomicMultiMarker` holds a `MultiConstraint`, an `AtomicMarkerUnion` a
`UnionConstraint` (their constructors accept nothing else) -/
def leafCoherent : Leaf → Prop
  | .single s => singleCoherent s
  | .amulti _ c => ∃ x cs, c = GC.multi x cs
  | .aunion _ c => ∃ ms, c = GC.union ms

mutual
def mCoherent : M → Prop
  | .leaf l => leafCoherent l
  | .multi ms => mCoherentList ms
  | .union ms => mCoherentList ms
  | .any => True
  | .empty => True
def mCoherentList : List M → Prop
  | [] => True
  | m :: ms => mCoherent m ∧ mCoherentList ms
end

/-- executable form of the invariant (what the driver reports per object) -/
def singleCoherentB (s : Single) : Bool :=
  match mkSingle s.name (itemConstraintString s.op s.value s.swapped) s.swapped with
  | .ok t => decide (t.c = s.c)
  | .error _ => false

def leafCoherentB : Leaf → Bool
  | .single s => singleCoherentB s
  | .amulti _ c => match c with | .s (.multi _ _) => true | _ => false
  | .aunion _ c => match c with | .union _ => true | _ => false

mutual
def mCoherentB : M → Bool
  | .leaf l => leafCoherentB l
  | .multi ms => mCoherentListB ms
  | .union ms => mCoherentListB ms
  | .any => true
  | .empty => true
def mCoherentListB : List M → Bool
  | [] => true
  | m :: ms => mCoherentB m && mCoherentListB ms
end

end Poetry.EqHash
