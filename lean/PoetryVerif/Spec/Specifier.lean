/-
Reference semantics of PEP 440 version specifiers with pre-releases enabled, formalised from
`packaging.specifiers` / `packaging._ranges` (packaging 26.3, the reference implementation):
`SpecifierSet(s).contains(v, prereleases=True)`.

packaging 26.3 decides membership through version *ranges*: every clause `op V` is turned into one or
two intervals by `_ranges.bounds_for_spec` (`standard_ranges`, `wildcard_ranges`) whose end points
are either real versions or the two artificial points `AFTER_LOCALS(V)` / `AFTER_POSTS(V)`
(`BoundaryVersion`); `matches_bounds_only` then tests the candidate against the pre-bound predicates
`LowerBound._above` / `UpperBound._below`.  This file mirrors those predicates one by one.  All
comparisons between versions go through the reference order `Spec.cmpRef` (`packaging.version._cmpkey`),
never through the poetry model's key.  `Specifier._fast_match` (direct comparison for candidates
without a local label) and the range intersection of `SpecifierSet._get_ranges` are shortcuts of the
same semantics in the code; the spec does not model them separately (comma = conjunction) and the
differential stream "spec-vs-ref" of vp/c04.py ties the two together.

Core Lean only; every function is total and structurally recursive.
-/
import PoetryVerif.Model.Version
import PoetryVerif.Spec.Pep440

namespace Poetry.Spec

/-- the operators of a PEP 440 version specifier (`===` is not part of the property):
`==V`, `!=V`, `<V`, `<=V`, `>V`, `>=V`, `~=V`, `==V.*`, `!=V.*` -/
inductive SOp where
  | eq | ne | lt | le | gt | ge | compat | eqStar | neStar
deriving DecidableEq, Repr

/-- one clause `op literal`; for `eqStar`/`neStar` the literal is the version before `.*` -/
structure Clause where
  op : SOp
  lit : Version
deriving Repr

/-! ### version comparisons of the reference (`Version.__lt__`, `__le__`, `__gt__`, `__ge__`)

As in the code, the bound (literal) is always the receiver: `LowerBound._above` is `bound.__le__` /
`bound.__lt__`, `UpperBound._below` is `bound.__ge__` / `bound.__gt__`, applied to the candidate. -/

def vLt (a b : Version) : Bool := cmpRef a b == .lt
def vLe (a b : Version) : Bool := cmpRef a b != .gt
def vGt (a b : Version) : Bool := cmpRef a b == .gt
def vGe (a b : Version) : Bool := cmpRef a b != .lt

/-- `Version.from_parts(...)` / `Version.__replace__(...)`: a version value given by its parts.  The
text plays no role in the reference order. -/
def mkV (epoch : Nat) (release : List Nat) (pre post dev : Option Tag) (loc : Option (List String)) :
    Version :=
  { epoch, release, pre, post, dev, loc, text := "" }

def dev0 : Option Tag := some ⟨.dev, 0⟩

/-- `MIN_VERSION = Version("0.dev0")` -/
def minVersion : Version := mkV 0 [0] none none dev0 none

/-- the epoch and `trim_release(release)` comparison used by `BoundaryVersion._is_family`,
`_make_above_after_posts`, `_make_above_after_locals`, `_make_below_after_locals` and `_fast_match`:
same epoch, and the candidate's release equals the literal's up to trailing zeros (the code tests
"prefix equal to the trimmed release, every further component 0"; releases are never empty, so this is
equality of the zero-stripped releases, the `refRelease` of `Spec.cmpRef`). -/
def sameRelease (lit v : Version) : Bool :=
  v.epoch == lit.epoch && refRelease v.release == refRelease lit.release

/-- the *local family* of `lit` (`BoundaryVersion._is_family`, kind `AFTER_LOCALS`; the tail of
`_make_below_after_locals`): same public version, any local label. -/
def inLocalFamily (lit v : Version) : Bool :=
  sameRelease lit v && v.pre == lit.pre && v.post == lit.post && v.dev == lit.dev

/-- the *post family* of `lit` as tested by `_make_above_after_posts`: same epoch, release and
pre-release segment (`lit` itself, `lit+local`, every `lit.postN…`). -/
def inPostFamily (lit v : Version) : Bool :=
  sameRelease lit v && v.pre == lit.pre

/-- `_make_below_after_locals(lit)`: `v <= AFTER_LOCALS(lit)` (upper bound of `<=V`, `==V`). -/
def belowAfterLocals (lit v : Version) : Bool :=
  vGe lit v || inLocalFamily lit v

/-- `_make_above_after_locals(lit)`: `v > AFTER_LOCALS(lit)` (lower bound of the upper half of `!=V`). -/
def aboveAfterLocals (lit v : Version) : Bool :=
  !vGe lit v && !inLocalFamily lit v

/-- `_make_above_after_posts(lit)`: `v > AFTER_POSTS(lit)` (lower bound of `>V`, V without post/dev). -/
def aboveAfterPosts (lit v : Version) : Bool :=
  !vGe lit v && !inPostFamily lit v

/-- `release[:-1] + (release[-1] + 1,)` -/
def bumpLast : List Nat → List Nat
  | [] => []
  | [x] => [x + 1]
  | x :: xs => x :: bumpLast xs

/-- `_base_dev0(version)`: `1.2 ↦ 1.2.dev0` (epoch and release only) -/
def baseDev0 (v : Version) : Version := mkV v.epoch v.release none none dev0 none

/-- `_next_prefix_dev0(version)`: `1.2 ↦ 1.3.dev0` (epoch and release only) -/
def nextPrefixDev0 (epoch : Nat) (release : List Nat) : Version :=
  mkV epoch (bumpLast release) none none dev0 none

/-- `Version.is_prerelease`: `dev is not None or pre is not None` -/
def isPre (v : Version) : Bool := v.pre.isSome || v.dev.isSome

/-- the exclusive upper bound of `<V` in `standard_ranges`: V itself when V is a pre-release,
otherwise `V.__replace__(dev=0, local=None)` (the earliest pre-release of V; a post segment stays). -/
def ltBound (lit : Version) : Version :=
  if isPre lit then lit else mkV lit.epoch lit.release lit.pre lit.post dev0 none

/-- `standard_ranges("<", V)`: empty when the bound is `<= MIN_VERSION`, else `(-inf, bound)`. -/
def containsLt (lit v : Version) : Bool :=
  if vLe (ltBound lit) minVersion then false else vGt (ltBound lit) v

/-- `standard_ranges(">", V)`: `[V.dev(N+1), +inf)` if V has a dev segment; `[V.post(N+1).dev0, +inf)`
if V has a post segment; otherwise `(AFTER_POSTS(V), +inf)`. -/
def containsGt (lit v : Version) : Bool :=
  match lit.dev, lit.post with
  | some d, _ => vLe (mkV lit.epoch lit.release lit.pre lit.post (some { d with num := d.num + 1 }) none) v
  | none, some p => vLe (mkV lit.epoch lit.release lit.pre (some { p with num := p.num + 1 }) dev0 none) v
  | none, none => aboveAfterPosts lit v

/-- `standard_ranges(">=", V)`: `[V, +inf)` -/
def containsGe (lit v : Version) : Bool := vLe lit v

/-- `standard_ranges("<=", V)`: `(-inf, AFTER_LOCALS(V)]` -/
def containsLe (lit v : Version) : Bool := belowAfterLocals lit v

/-- `standard_ranges("==", V, has_local)`: `[V, V]` when the literal names a local label, otherwise
`[V, AFTER_LOCALS(V)]` (the candidate's local label is ignored). -/
def containsEq (lit v : Version) : Bool :=
  vLe lit v && (if lit.loc.isSome then vGe lit v else belowAfterLocals lit v)

/-- `standard_ranges("!=", V, has_local)`: `(-inf, V) ∪ (upper, +inf)` with `upper = V` when the literal
names a local label and `AFTER_LOCALS(V)` otherwise; evaluated like `matches_bounds_only` does. -/
def containsNe (lit v : Version) : Bool :=
  vGt lit v || (if lit.loc.isSome then vLt lit v else aboveAfterLocals lit v)

/-- `standard_ranges("~=", V)`: `[V, next_prefix_dev0(V with release[:-1]))`.  The specifier grammar
demands at least two release components; with fewer there is no prefix and nothing matches. -/
def containsCompat (lit v : Version) : Bool :=
  if lit.release.length < 2 then false
  else vLe lit v && vGt (nextPrefixDev0 lit.epoch lit.release.dropLast) v

/-- `wildcard_ranges("==", V)`: `[V.dev0, next_prefix(V).dev0)` over epoch + release of V -/
def containsEqStar (lit v : Version) : Bool :=
  vLe (baseDev0 lit) v && vGt (nextPrefixDev0 lit.epoch lit.release) v

/-- `wildcard_ranges("!=", V)`: `(-inf, V.dev0) ∪ [next_prefix(V).dev0, +inf)` -/
def containsNeStar (lit v : Version) : Bool :=
  vGt (baseDev0 lit) v || vLe (nextPrefixDev0 lit.epoch lit.release) v

/-- `Specifier(op + lit).contains(v, prereleases=True)`:
`matches_bounds_only(bounds_for_spec(op, text, lit), v)`. -/
def Clause.contains (c : Clause) (v : Version) : Bool :=
  match c.op with
  | .eq => containsEq c.lit v
  | .ne => containsNe c.lit v
  | .lt => containsLt c.lit v
  | .le => containsLe c.lit v
  | .gt => containsGt c.lit v
  | .ge => containsGe c.lit v
  | .compat => containsCompat c.lit v
  | .eqStar => containsEqStar c.lit v
  | .neStar => containsNeStar c.lit v

/-- `SpecifierSet(...).contains(v, prereleases=True)`: a comma is a conjunction; the empty set
admits everything. -/
def contains (s : List Clause) (v : Version) : Bool := s.all (fun c => c.contains v)

/-! ### concrete syntax (`Specifier._regex`, `Specifier.__init__`, `SpecifierSet.__init__`) -/

/-- split the operator off the front of a clause (`Specifier.__init__`: `~=`, `==`, `!=`, `<=`, `>=`
first, then the one-character operators); `===` (arbitrary equality, outside the property) is rejected. -/
def splitOp : List Char → Option (SOp × List Char)
  | '=' :: '=' :: '=' :: _ => none
  | '~' :: '=' :: r => some (.compat, r)
  | '=' :: '=' :: r => some (.eq, r)
  | '!' :: '=' :: r => some (.ne, r)
  | '<' :: '=' :: r => some (.le, r)
  | '>' :: '=' :: r => some (.ge, r)
  | '<' :: r => some (.lt, r)
  | '>' :: r => some (.gt, r)
  | _ => none

/-- `str.rstrip()` on characters -/
def dropSpacesEnd (s : List Char) : List Char := (dropSpaces s.reverse).reverse

/-- if the text ends in `.*`, the text before it -/
def stripStar? (s : List Char) : Option (List Char) :=
  match s.reverse with
  | '*' :: '.' :: r => some r.reverse
  | _ => none

/-- the version text of a clause has no inner white space: `Version.parse` tolerates white space
around the version, the specifier grammar does not tolerate it before `.*`. -/
def endsWithSpace (s : List Char) : Bool :=
  match s.reverse with
  | c :: _ => isSpace c
  | [] => false

def parseLit (s : List Char) : Option Version :=
  match Version.parse (String.ofList s) with
  | .ok v => some v
  | .error _ => none

/-- One clause of a specifier set (`Specifier._regex.fullmatch`, then the operator/version split of
`Specifier.__init__`): optional white space, operator, optional white space, PEP 440 version text
(parsed with `Version.parse`), optional white space.  Restrictions of the grammar: a trailing `.*`
only after `==`/`!=` and only on epoch + release; a local label only after `==`/`!=`; `~=` needs at
least two release components. -/
def parseClause (s : String) : Option Clause :=
  match splitOp (dropSpaces s.toList) with
  | none => none
  | some (op, rest) =>
    let body := dropSpacesEnd (dropSpaces rest)
    match stripStar? body with
    | some base =>
      if endsWithSpace base then none else
      match parseLit base with
      | none => none
      | some v =>
        if v.pre.isSome || v.post.isSome || v.dev.isSome || v.loc.isSome then none
        else match op with
          | .eq => some ⟨.eqStar, v⟩
          | .ne => some ⟨.neStar, v⟩
          | _ => none
    | none =>
      match parseLit body with
      | none => none
      | some v =>
        match op with
        | .eq => some ⟨.eq, v⟩
        | .ne => some ⟨.ne, v⟩
        | .compat => if v.loc.isSome || v.release.length < 2 then none else some ⟨.compat, v⟩
        | o => if v.loc.isSome then none else some ⟨o, v⟩

/-- `str.split(",")` on characters -/
def splitComma : List Char → List (List Char)
  | [] => [[]]
  | c :: cs =>
    match splitComma cs with
    | [] => [[]]
    | h :: t => if c == ',' then [] :: h :: t else (c :: h) :: t

def parseClauses : List (List Char) → Option (List Clause)
  | [] => some []
  | x :: xs =>
    if (dropSpaces x).isEmpty then parseClauses xs
    else match parseClause (String.ofList x), parseClauses xs with
      | some c, some cs => some (c :: cs)
      | _, _ => none

/-- `SpecifierSet.__init__`: split on `,`, strip, drop empty items, parse each item as a clause
(`""` and `","` give the empty set). -/
def parseSet (s : String) : Option (List Clause) := parseClauses (splitComma s.toList)

end Poetry.Spec
