/-
Reference semantics of PEP 508 environment-marker evaluation, formalised from
`packaging.markers._evaluate_markers` / `_eval_op` on the domain the properties C06/C07/C13/C17
quantify over:

* version variables (`python_version`, `python_full_version`, `platform_release`,
  `implementation_version`) with `==, !=, <, <=, >, >=, ~=` and a literal that is a *final
  release*: `Specifier(op+literal).contains(env value, prereleases=True)`, restricted to
  final-release environment values, where it reduces to comparisons of zero-padded release tuples
  (and, for `~=V`, `>= V` together with the prefix match `== V[:-1].*`);
* string variables with `==`, `!=` (string equality) ;
* `in` / `not in` with a list literal: membership **by token** (tokens separated by blanks, commas,
  bars), as the property states; for version variables a token matches like `== token`;
* reversed operands `"lit" in name` / `"lit" not in name`: substring test on the environment value;
* aliases (`os.name` …) denote their canonical names;
* `extra == "x"` / `extra != "x"`: membership of the PEP 503-normalised name in the set of
  active extras (normalised).

`none` = outside this formalised domain (the harness never compares such cases).
Tied to the real `packaging` by its own differential stream (vp/c06.py, "spec-vs-reference").
Independent of the poetry model: it uses only `Version.parse` (the shared PEP 440 grammar) and
the reference order `Spec.cmpRef`.
-/
import PoetryVerif.Model.MarkerSyn
import PoetryVerif.Spec.Pep440

namespace Poetry.Spec.Pep508
open Poetry Poetry.Marker

def refAliases : List (String × String) :=
  [("os.name", "os_name"), ("sys.platform", "sys_platform"), ("platform.version", "platform_version"),
   ("platform.machine", "platform_machine"), ("platform.python_implementation", "platform_python_implementation"),
   ("python_implementation", "platform_python_implementation")]

def canonVar (n : String) : String :=
  match refAliases.find? (fun p => p.1 == n) with
  | some (_, v) => v
  | none => n

def versionVars : List String :=
  ["python_version", "python_full_version", "platform_release", "implementation_version"]

/-- a final release without epoch: only the release segment is set -/
def isFinal (v : Version) : Bool :=
  v.epoch == 0 && v.pre.isNone && v.post.isNone && v.dev.isNone && v.loc.isNone && !v.release.isEmpty

/-- `==V.*` on final releases: the candidate's release, zero padded to the prefix length, starts
with the prefix -/
def prefixMatch (pre cand : List Nat) : Bool :=
  (cand ++ List.replicate (pre.length - cand.length) 0).take pre.length == pre

/-- `Specifier(op ++ lit).contains(cand, prereleases=True)` for final `lit` and final `cand` -/
def versionOp (op : String) (lit cand : Version) : Option Bool :=
  if !(isFinal lit && isFinal cand) then none
  else
    let c := cmpRef cand lit
    match op with
    | "==" => some (c == .eq)
    | "!=" => some (c != .eq)
    | "<" => some (c == .lt)
    | "<=" => some (c != .gt)
    | ">" => some (c == .gt)
    | ">=" => some (c != .lt)
    | "~=" =>
      if lit.release.length < 2 then none
      else some (c != .lt && prefixMatch lit.release.dropLast cand.release)
    | _ => none

def isListSep (c : Char) : Bool := c == ' ' || c == ',' || c == '|'

/-- tokens of a list literal (no empty tokens) -/
def tokens (s : String) : List String :=
  let rec go (cs : List Char) (cur : List Char) : List String :=
    match cs with
    | [] => if cur.isEmpty then [] else [String.ofList cur.reverse]
    | c :: r =>
      if isListSep c then (if cur.isEmpty then go r [] else String.ofList cur.reverse :: go r [])
      else go r (c :: cur)
  go s.toList []

/-- naive substring test -/
def isInfix (needle hay : List Char) : Bool :=
  match hay with
  | [] => needle.isEmpty
  | _ :: r => (stripPrefix? needle hay).isSome || isInfix needle r

def parseFinal (s : String) : Option Version :=
  match Version.parse s with
  | .ok v => if isFinal v then some v else none
  | .error _ => none

/-- one `item` -/
def evalItem (name op value : String) (swapped : Bool) (E : Env) : Option Bool :=
  let key := canonVar name
  if key == "extra" then
    if swapped then none
    else
      match E.extras with
      | none => none
      | some ex =>
        let active := ex.map canonName
        match op with
        | "==" => some (active.contains (canonName value))
        | "!=" => some (!active.contains (canonName value))
        | _ => none
  else
    match E.get? key with
    | none => none
    | some ev =>
      if swapped then
        match op with
        | "in" => some (isInfix value.toList ev.toList)
        | "not in" => some (!isInfix value.toList ev.toList)
        | _ => none
      else if versionVars.contains key then
        match op with
        | "in" | "not in" =>
          match parseFinal ev, (tokens value).mapM parseFinal with
          | some cand, some lits =>
            if lits.isEmpty then none
            else
              let hit := lits.any (fun l => cmpRef cand l == .eq)
              some (if op == "in" then hit else !hit)
          | _, _ => none
        | _ =>
          match parseFinal value, parseFinal ev with
          | some lit, some cand => versionOp op lit cand
          | _, _ => none
      else
        match op with
        | "==" => some (ev == value)
        | "!=" => some (ev != value)
        | "in" => if (tokens value).isEmpty then none else some ((tokens value).contains ev)
        | "not in" => if (tokens value).isEmpty then none else some (!(tokens value).contains ev)
        | _ => none

def and? : Option Bool → Option Bool → Option Bool
  | some a, some b => some (a && b)
  | _, _ => none

def or? : Option Bool → Option Bool → Option Bool
  | some a, some b => some (a || b)
  | _, _ => none

mutual
def evalAtom (E : Env) : Atom → Option Bool
  | .item n op v sw => evalItem n op v sw E
  | .paren m => evalSyn E m

/-- `and` binds tighter than `or`: the value of `a and b or c …` is
`(a ∧ (value of the conjunction that continues)) ∨ (rest after the next or)`; implemented with an
accumulator for the current conjunction. -/
def evalSynAcc (E : Env) (acc : Option Bool) : Syn → Option Bool
  | .one a => and? acc (evalAtom E a)
  | .more a false rest => evalSynAcc E (and? acc (evalAtom E a)) rest
  | .more a true rest => or? (and? acc (evalAtom E a)) (evalSynAcc E (some true) rest)

def evalSyn (E : Env) (m : Syn) : Option Bool := evalSynAcc E (some true) m
end

end Poetry.Spec.Pep508
