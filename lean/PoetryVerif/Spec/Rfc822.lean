/-
Reference parser of an RFC 822-style message, as CPython's `email.parser` sees METADATA / PKG-INFO
(`email.parser.HeaderParser().parsestr`, i.e. `FeedParser(policy=compat32)` with `headersonly=True`;
for a message without a multipart Content-Type, `email.message_from_string` yields the same headers
and payload).

Followed statement by statement: `email/feedparser.py` (`BufferedSubFile.push` line cracking with
`StringIO(newline='')`, `FeedParser._parsegen`, `FeedParser._parse_headers`) and
`email/_policybase.py` (`Compat32.header_source_parse`).  Python 3.12.

Core Lean only.  Everything is defined on `List Char`; `parse : String → Msg` wraps it.
This file is tied to the real `email` library by its own differential stream in `vp/c14.py`
(a disagreement there is a defect of this file, never a violation of the property).
-/
namespace Poetry.Spec.Rfc822

abbrev Line := List Char

/-- universal-newline line cracking that keeps the line ends: a line ends after `\n`, after `\r\n`,
or after a `\r` that is not followed by `\n` (`io.StringIO(newline='').readlines()`).  `brk` says which
*other* single characters end a line (none for `email`; `str.splitlines` has more, see `Model/Meta`).
`brk '\n'` and `brk '\r'` are expected to hold. -/
def linesBy (brk : Char → Bool) : List Char → List Line
  | [] => []
  | [c] => [[c]]
  | c :: d :: cs =>
    if c = '\r' ∧ d = '\n' then
      ['\r', '\n'] :: linesBy brk cs
    else if brk c then [c] :: linesBy brk (d :: cs)
    else match linesBy brk (d :: cs) with
      | [] => [[c]]
      | l :: ls => (c :: l) :: ls

def isNL (c : Char) : Bool := c = '\n' || c = '\r'

/-- the lines `FeedParser` works on -/
def lines (s : List Char) : List Line := linesBy isNL s

def isWS (c : Char) : Bool := c = ' ' || c = '\t'

/-- `[\041-\071\073-\176]` : printable ASCII except the colon -/
def isFtext (c : Char) : Bool := (33 ≤ c.toNat && c.toNat ≤ 57) || (59 ≤ c.toNat && c.toNat ≤ 126)

def fromPrefix : List Char := ['F', 'r', 'o', 'm', ' ']

def startsWithFrom (l : Line) : Bool := fromPrefix.isPrefixOf l

/-- `headerRE = ^(From |[\041-\071\073-\176]*:|[\t ])` matches at the start of the line -/
def isHeaderLine (l : Line) : Bool :=
  startsWithFrom l ||
  (match l.dropWhile isFtext with | ':' :: _ => true | _ => false) ||
  (match l with | c :: _ => isWS c | [] => false)

/-- `NLCRE.match(line)`: the line starts with a line end (for a cracked line: it is blank) -/
def startsWithNL (l : Line) : Bool := match l with | c :: _ => isNL c | [] => false

def lstripWS (s : List Char) : List Char := s.dropWhile isWS

/-- `value.rstrip('\r\n')` -/
def rstripNL (s : List Char) : List Char := (s.reverse.dropWhile isNL).reverse

/-- `NLCRE_eol`: remove one trailing line end (`\r\n`, `\r` or `\n`) -/
def chopEol (l : Line) : Line :=
  match l.reverse with
  | '\n' :: '\r' :: r => r.reverse
  | '\n' :: r => r.reverse
  | '\r' :: r => r.reverse
  | _ => l

/-- `Compat32.header_source_parse(sourcelines)` for a non-empty list of source lines whose first line
contains a colon -/
def sourceParse (first : Line) (conts : List Line) : List Char × List Char :=
  let name := first.takeWhile (· ≠ ':')
  let after := (first.dropWhile (· ≠ ':')).drop 1
  (name, rstripNL (lstripWS after ++ conts.flatten))

structure HRes where
  unixFrom : Option (List Char)
  headers : List (List Char × List Char)
  defects : List String
  /-- line given back to the body by `unreadline` -/
  pushBack : Option Line
deriving Repr, DecidableEq

/-- flush the pending header (`if lastheader: self._cur.set_raw(...)`) in front of what follows -/
def flush (pending : Option (Line × List Line)) (r : HRes) : HRes :=
  match pending with
  | none => r
  | some (f, cs) => { r with headers := sourceParse f cs :: r.headers }

/-- `FeedParser._parse_headers(lines)`.  `first` ⇔ `lineno == 0`; "`lineno == len(lines) - 1`" ⇔ no line
follows.  `pending = (first line, continuation lines)` of `lastheader`/`lastvalue`. -/
def parseHeaders : (first : Bool) → (pending : Option (Line × List Line)) → List Line → HRes
  | _, pending, [] => flush pending ⟨none, [], [], none⟩
  | first, pending, l :: rest =>
    match l with
    | [] => parseHeaders false pending rest   -- cannot happen: cracked lines are non-empty
    | c :: _ =>
      if isWS c then
        match pending with
        | none =>
          let r := parseHeaders false none rest
          { r with defects := "FirstHeaderLineIsContinuationDefect" :: r.defects }
        | some (f, cs) => parseHeaders false (some (f, cs ++ [l])) rest
      else if startsWithFrom l then
        if first then
          let r := parseHeaders false none rest
          flush pending { r with unixFrom := some (chopEol l) }
        else if rest.isEmpty then
          flush pending ⟨none, [], [], some l⟩
        else
          let r := parseHeaders false none rest
          flush pending { r with defects := "MisplacedEnvelopeHeaderDefect" :: r.defects }
      else if c = ':' then
        let r := parseHeaders false none rest
        flush pending { r with defects := "InvalidHeaderDefect" :: r.defects }
      else
        flush pending (parseHeaders false (some (l, [])) rest)

structure Msg where
  unixFrom : Option (List Char)
  headers : List (List Char × List Char)
  body : List Char
  defects : List String
deriving Repr, DecidableEq

/-- `FeedParser._parsegen` with `headersonly`: collect header lines up to the first line that is not
one; a blank separator line is dropped, any other line starts the body (with a defect). -/
def parseLines (ls : List Line) : Msg :=
  let hs := ls.takeWhile isHeaderLine
  let rest := ls.dropWhile isHeaderLine
  let (sepDefect, bodyLines) :=
    match rest with
    | [] => ([], [])
    | l :: rest' => if startsWithNL l then ([], rest') else (["MissingHeaderBodySeparatorDefect"], rest)
  let r := parseHeaders true none hs
  let bodyLines := match r.pushBack with | some l => l :: bodyLines | none => bodyLines
  { unixFrom := r.unixFrom, headers := r.headers, body := bodyLines.flatten,
    defects := sepDefect ++ r.defects }

def parseChars (s : List Char) : Msg := parseLines (lines s)

/-- the message `email.parser.HeaderParser().parsestr(s)` -/
def parse (s : String) : Msg := parseChars s.toList

end Poetry.Spec.Rfc822
