/-
Reference semantics of PEP 440 ordering, formalised from `packaging.version._cmpkey`
(the reference implementation).  Independent of the poetry model's key: sentinels are an
explicit three-way sum, letters are the literal strings packaging uses.
Tied to the real `packaging` by its own differential run (vp/c03.py, "ref" stream).
-/
import PoetryVerif.Model.Version

namespace Poetry.Spec

inductive Ext (α : Type) where
  | negInf | fin (a : α) | inf
deriving Repr

def Ext.cmp {α : Type} (c : α → α → Ordering) : Ext α → Ext α → Ordering
  | .negInf, .negInf => .eq
  | .negInf, _ => .lt
  | _, .negInf => .gt
  | .inf, .inf => .eq
  | .inf, _ => .gt
  | _, .inf => .lt
  | .fin a, .fin b => c a b

/-- packaging: `tuple(reversed(list(itertools.dropwhile(lambda x: x == 0, reversed(release)))))` -/
def refRelease (r : List Nat) : List Nat := (r.reverse.dropWhile (· == 0)).reverse

/-- letters as packaging normalises them -/
def refLetter : Phase → String
  | .a => "a" | .b => "b" | .rc => "rc" | .post => "post" | .dev => "dev"

def cmpTag (a b : String × Nat) : Ordering := (compare a.1 b.1).then (compare a.2 b.2)

def refPre (v : Version) : Ext (String × Nat) :=
  if v.pre.isNone && v.post.isNone && v.dev.isSome then .negInf
  else match v.pre with
    | none => .inf
    | some t => .fin (refLetter t.phase, t.num)

def refPost (v : Version) : Ext (String × Nat) :=
  match v.post with | none => .negInf | some t => .fin (refLetter t.phase, t.num)

def refDev (v : Version) : Ext (String × Nat) :=
  match v.dev with | none => .inf | some t => .fin (refLetter t.phase, t.num)

/-- one local segment: `(i, "")` for ints, `(NegativeInfinity, s)` for strings -/
def refLocSeg (s : String) : Ext Nat × String :=
  if Version.isNumericStr s then (.fin (digitsToNat s.toList), "") else (.negInf, s)

def cmpLocSeg (a b : Ext Nat × String) : Ordering :=
  (Ext.cmp compare a.1 b.1).then (compare a.2 b.2)

def cmpLocList : List (Ext Nat × String) → List (Ext Nat × String) → Ordering
  | [], [] => .eq
  | [], _ :: _ => .lt
  | _ :: _, [] => .gt
  | a :: as, b :: bs => (cmpLocSeg a b).then (cmpLocList as bs)

def refLocal (v : Version) : Ext (List (Ext Nat × String)) :=
  match v.loc with
  | none => .negInf
  | some parts => .fin (parts.map refLocSeg)

/-- the reference order: lexicographic comparison of `_cmpkey` -/
def cmpRef (a b : Version) : Ordering :=
  (compare a.epoch b.epoch).then <|
  (compare (refRelease a.release) (refRelease b.release)).then <|
  (Ext.cmp cmpTag (refPre a) (refPre b)).then <|
  (Ext.cmp cmpTag (refPost a) (refPost b)).then <|
  (Ext.cmp cmpTag (refDev a) (refDev b)).then <|
  Ext.cmp cmpLocList (refLocal a) (refLocal b)

end Poetry.Spec
