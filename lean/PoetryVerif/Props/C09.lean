/-
C09 — sdist and wheel of one project agree with each other and honour include/exclude.
Property theorems about the selection model (Model/Select.lean), for ALL trees, tables and ignore lists.
`S` is always the result of the model of `find_files_to_add` / of the whole selection; membership facts are
stated on source paths (`Sel.src`, project relative).
-/
import PoetryVerif.Proofs.Select
import PoetryVerif.Proofs.SelectUnpack
import PoetryVerif.Proofs.SelectBoundary
import PoetryVerif.Model.GitIgnore

set_option linter.unusedSimpArgs false
set_option linter.unusedVariables false

namespace Poetry.C09
open Poetry Poetry.Select

/-- the path itself or one of its ancestor directories is in the list (what `is_excluded` looks at) -/
def HitBy (xs : List String) (p : Path) : Prop := ∃ q, q ≠ [] ∧ q <+: p ∧ posix q ∈ xs

/-- an `include` entry of the configuration, valid for `fmt`, whose glob names the entry at `q` -/
def NamedByInclude (fmt : Fmt) (T : Tree) (cfg : Cfg) (q : String) : Prop :=
  ∃ spec ∈ cfg.includes, fmt.name ∈ spec.formats ∧ ∃ pat, parsePattern spec.path = .ok pat ∧
    ∃ e ∈ T, globMatch pat e.path e.isDir = true ∧ posix e.path = q

theorem explicitIncluded_named {fmt : Fmt} {T : Tree} {cfg : Cfg} {pobjs iobjs : List IncObj}
    (hm : mkModule fmt T cfg = .ok (pobjs, iobjs)) {x : String} (hx : x ∈ explicitIncluded fmt iobjs) :
    NamedByInclude fmt T cfg x := by
  obtain ⟨_, h2, _, _⟩ := mkModule_ok hm
  unfold explicitIncluded at hx
  simp only [List.mem_flatMap, List.mem_filter, List.mem_map] at hx
  obtain ⟨o, ⟨ho, _⟩, e, he, rfl⟩ := hx
  obtain ⟨spec, hs, hf, hmk⟩ := h2 o ho
  obtain ⟨pat, hp, _, _, hel, _⟩ := mkInclude_ok hmk
  rw [hel] at he
  obtain ⟨heT, hg⟩ := mem_globFrom_root he
  exact ⟨spec, hs, hf, pat, hp, e, heT, hg, rfl⟩

/-- **No excluded or VCS-ignored file unless an include for this format re-adds it.**
If a file chosen by `find_files_to_add` — or a directory above it — is produced by an `exclude` glob or listed
by the VCS as ignored, then an `include` entry valid for this format names that file or a directory above it. -/
theorem no_excluded_unless_included {fmt : Fmt} {T : Tree} {cfg : Cfg} {ig : List String} {S : List Sel}
    {ee : List String} (h : findFilesToAdd fmt T cfg ig = .ok S)
    (hee : explicitExcluded T cfg.excludes = .ok ee) :
    ∀ s ∈ S, HitBy (ig ++ ee) s.src → ∃ q, q ≠ [] ∧ q <+: s.src ∧ NamedByInclude fmt T cfg (posix q) := by
  intro s hs ⟨q, hq, hpre, hmem⟩
  obtain ⟨pobjs, iobjs, excl, hm, hex, rfl⟩ := findFilesToAdd_ok h
  obtain ⟨ee', hee', rfl⟩ := excludedSet_ok hex
  rw [hee] at hee'; cases hee'
  obtain ⟨hp, h2, _, _⟩ := mkModule_ok hm
  rcases mem_foldl_addSel hs with hs | hs
  · simp at hs
  rw [List.mem_flatMap] at hs
  obtain ⟨inc, hinc, hs⟩ := hs
  unfold processInclude at hs
  rw [List.mem_flatMap] at hs
  obtain ⟨el, hel, hs⟩ := hs
  obtain ⟨_, hcase⟩ := mem_processElement hs
  -- a path that is not excluded although listed must have been taken out by an explicit include
  have key : ∀ p : Path, isExcluded ((ig ++ ee).filter (fun s => !(explicitIncluded fmt iobjs).contains s)) p = false →
      q <+: p → posix q ∈ explicitIncluded fmt iobjs := by
    intro p hne hqp
    have := (not_excluded_prefixes hne).2 q hq hqp
    rw [List.mem_filter] at this
    simp only [not_and, Bool.not_eq_true', Bool.not_eq_false'] at this
    have := this hmem
    simpa using this
  rcases hcase with ⟨_, _, c, _, _, hne, rfl⟩ | ⟨_, hor, rfl⟩
  · exact ⟨q, hq, hpre, explicitIncluded_named hm (key c.path hne hpre)⟩
  · rcases hor with hne | hnp
    · exact ⟨q, hq, hpre, explicitIncluded_named hm (key el.path hne hpre)⟩
    · -- a file element of a plain `include`: that entry names the file itself
      have hio : inc ∈ iobjs := by
        rcases List.mem_append.mp hinc with hpo | hio
        · have := hp inc hpo; simp [this] at hnp
        · exact hio
      obtain ⟨spec, hsm, hf, hmk⟩ := h2 inc hio
      obtain ⟨pat, hpat, _, _, helems, _⟩ := mkInclude_ok hmk
      rw [helems] at hel
      obtain ⟨heT, hg⟩ := mem_globFrom_root hel
      have hne : el.path ≠ [] := by
        intro h0; rw [mkSel_src, h0] at hpre; exact hq (List.prefix_nil.mp hpre)
      exact ⟨el.path, hne, List.prefix_refl _, spec, hsm, hf, pat, hpat, el, heT, hg, rfl⟩

/-- a small project: package `p` with a generated module that is excluded but re-included for the wheel -/
def exTree : Tree :=
  [⟨[], true, ""⟩, ⟨["pyproject.toml"], false, "t"⟩, ⟨["LICENSE"], false, "l"⟩, ⟨["p"], true, ""⟩,
   ⟨["p", "__init__.py"], false, "i"⟩, ⟨["p", "gen.py"], false, "g"⟩, ⟨["p", "x.pyc"], false, "c"⟩]

def exCfg : Cfg where
  moduleName := "p"
  rootName := "proj"
  distName := "p"
  version := "1.0"
  packages := []
  includes := [⟨"p/gen.py", ["sdist", "wheel"]⟩, ⟨"p/*.pyc", ["wheel"]⟩]
  excludes := ["p/gen.py"]
  readmes := []
  scripts := []
  hasEntryPoints := false

def exWheel : List Sel :=
  [⟨["p", "__init__.py"], ["p", "__init__.py"], false⟩, ⟨["p", "gen.py"], ["p", "gen.py"], false⟩,
   ⟨["p", "x.pyc"], ["p", "x.pyc"], false⟩]

example : findFilesToAdd .wheel exTree exCfg [] = .ok exWheel ∧
    explicitExcluded exTree exCfg.excludes = .ok ["p/gen.py"] ∧ posix ["p", "gen.py"] ∈ ([] ++ ["p/gen.py"]) := by
  decide +kernel

/-- **No bytecode caches**, with the caveat the code has: a `*.pyc` file outside any `__pycache__` directory is
added when a plain `include` entry valid for this format names that very file; nothing else. -/
theorem no_pycache_pyc {fmt : Fmt} {T : Tree} {cfg : Cfg} {ig : List String} {S : List Sel}
    (h : findFilesToAdd fmt T cfg ig = .ok S) :
    ∀ s ∈ S, isBytecode s.src = true →
      s.src.contains Gen.pycacheDirName = false ∧ NamedByInclude fmt T cfg (posix s.src) := by
  intro s hs hb
  obtain ⟨pobjs, iobjs, excl, hm, hex, rfl⟩ := findFilesToAdd_ok h
  obtain ⟨hp, h2, _, _⟩ := mkModule_ok hm
  rcases mem_foldl_addSel hs with hs | hs
  · simp at hs
  rw [List.mem_flatMap] at hs
  obtain ⟨inc, hinc, hs⟩ := hs
  unfold processInclude at hs
  rw [List.mem_flatMap] at hs
  obtain ⟨el, hel, hs⟩ := hs
  obtain ⟨hnopc, hcase⟩ := mem_processElement hs
  have nb : ∀ p : Path, isExcluded excl p = false → isBytecode p = false := fun p hp => (not_excluded_prefixes hp).1
  rcases hcase with ⟨_, _, c, _, _, hne, rfl⟩ | ⟨_, hor, rfl⟩
  · rw [mkSel_src, nb c.path hne] at hb; simp at hb
  · rcases hor with hne | hnp
    · rw [mkSel_src, nb el.path hne] at hb; simp at hb
    · have hio : inc ∈ iobjs := by
        rcases List.mem_append.mp hinc with hpo | hio
        · have := hp inc hpo; simp [this] at hnp
        · exact hio
      obtain ⟨spec, hsm, hf, hmk⟩ := h2 inc hio
      obtain ⟨pat, hpat, _, _, helems, _⟩ := mkInclude_ok hmk
      rw [helems] at hel
      obtain ⟨heT, hg⟩ := mem_globFrom_root hel
      exact ⟨hnopc, spec, hsm, hf, pat, hpat, el, heT, hg, rfl⟩

/-- **Every file explicitly included for a format is present in that format** (the `__pycache__` shortcut of
the code excepted): a file of the tree matched by an `include` entry valid for `fmt` is selected. -/
theorem explicit_include_present {fmt : Fmt} {T : Tree} {cfg : Cfg} {ig : List String} {S : List Sel}
    (h : findFilesToAdd fmt T cfg ig = .ok S) (hroot : isDirIn T [] = true)
    {spec : IncSpec} (hspec : spec ∈ cfg.includes) (hf : fmt.name ∈ spec.formats)
    {pat : Pattern} (hpat : parsePattern spec.path = .ok pat)
    {e : Entry} (he : e ∈ T) (hfile : e.isDir = false) (hmatch : pathMatches pat e.path = true)
    (hpc : e.path.contains Gen.pycacheDirName = false) :
    ∃ s ∈ S, s.src = e.path := by
  obtain ⟨pobjs, iobjs, excl, hm, hex, rfl⟩ := findFilesToAdd_ok h
  obtain ⟨_, _, h3, _⟩ := mkModule_ok hm
  obtain ⟨o, ho, hmk⟩ := h3 spec hspec hf
  obtain ⟨pat', hpat', hnp, _, helems, _⟩ := mkInclude_ok hmk
  rw [hpat] at hpat'; cases hpat'
  have hel : e ∈ o.elements := by
    rw [helems, mem_globFrom_root_iff hroot]
    exact ⟨he, by simpa [pathMatches, hfile] using hmatch⟩
  have hsel : mkSel fmt o e ∈ (pobjs ++ iobjs).flatMap (processInclude fmt T excl) := by
    rw [List.mem_flatMap]
    refine ⟨o, by simp [ho], ?_⟩
    unfold processInclude
    rw [List.mem_flatMap]
    refine ⟨e, hel, ?_⟩
    unfold processElement
    have hpc' : Gen.pycacheDirName ∉ e.path := by simpa using hpc
    simp [hpc', hfile, hnp]
  obtain ⟨s, hs, hsrc⟩ := src_mem_foldl_addSel (acc := []) hsel
  exact ⟨s, hs, hsrc⟩

/-- **Every selected package file is there; package directories are expanded.**  For every `packages` entry that
applies to the format (or the default package), every file of the tree that the entry's glob matches, and every file
below a directory that the glob matches — whether the glob returned that directory alone or among several results —
is selected, unless `is_excluded` holds for it (exclude pattern, VCS-ignored, bytecode). -/
theorem package_directory_expanded {fmt : Fmt} {T : Tree} {cfg : Cfg} {ig : List String} {S : List Sel}
    (h : findFilesToAdd fmt T cfg ig = .ok S)
    {pkgs : List PkgSpec} (hpk : modulePackages fmt T cfg = .ok pkgs)
    {pobjs iobjs : List IncObj} (hm : mkModule fmt T cfg = .ok (pobjs, iobjs))
    {excl : List String} (hx : excludedSet fmt T cfg ig iobjs = .ok excl)
    {spec : PkgSpec} (hspec : spec ∈ pkgs) {pat : Pattern} (hpat : parsePattern spec.incl = .ok pat)
    {g c : Entry} (hg : g ∈ globFrom T (match spec.source with | some s => parseRel s | none => []) pat)
    (hreach : g = c ∨ (g.isDir = true ∧ c ∈ descendants T g.path))
    (hc : c ∈ T) (hfile : c.isDir = false) (hne : isExcluded excl c.path = false) :
    ∃ s ∈ S, s.src = c.path := by
  obtain ⟨L, hL, rfl⟩ := findFilesToAdd_offers h
  obtain ⟨p', i', excl', pkgs', hm', hx', hpk', hiff⟩ := mem_offers hL
  rw [hm] at hm'; cases hm'
  rw [hx] at hx'; cases hx'
  rw [hpk] at hpk'; cases hpk'
  obtain ⟨_, _, _, pk2, hpk2, hmap⟩ := mkModule_ok hm
  rw [hpk] at hpk2; cases hpk2
  obtain ⟨o, _, hmk⟩ := (mapM_ok_mem hmap).2 spec hspec
  have hgc : g.path <+: c.path := by
    rcases hreach with rfl | ⟨_, hd⟩
    · exact List.prefix_refl _
    · obtain ⟨_, rel, _, hp⟩ := mem_descendants hd; exact ⟨rel, hp.symm⟩
  have hy : Yields T excl true (match spec.source with | some s => parseRel s | none => []) pat c := by
    refine ⟨g, hg, hc, hfile, isBytecode_false_prefix (not_excluded_prefixes hne).1 hgc, ?_⟩
    rcases hreach with rfl | ⟨hd, hdesc⟩
    · exact .inl ⟨rfl, fun _ => hne⟩
    · exact .inr ⟨hd, hdesc, hne⟩
  have hmem : mkSel fmt o c ∈ L := (hiff _).mpr (.inl ⟨spec, hspec, o, pat, hmk, hpat, c, hy, rfl⟩)
  obtain ⟨s, hs, hsrc⟩ := src_mem_foldl_addSel (acc := []) hmem
  exact ⟨s, hs, hsrc⟩

/-- a `packages` glob returning a file and a non-empty sub-directory: the file below the sub-directory is selected -/
def ex3Cfg : Cfg where
  moduleName := "p"
  rootName := "proj"
  distName := "p"
  version := "1.0"
  packages := [⟨"p/*", none, none, ["sdist", "wheel"]⟩]
  includes := []
  excludes := []
  readmes := []
  scripts := []
  hasEntryPoints := false

def ex3Tree : Tree :=
  [⟨[], true, ""⟩, ⟨["pyproject.toml"], false, "t"⟩, ⟨["p"], true, ""⟩, ⟨["p", "__init__.py"], false, "i"⟩,
   ⟨["p", "sub"], true, ""⟩, ⟨["p", "sub", "a.py"], false, "a"⟩]

def ex3Pat : Pattern := ⟨[.wild "p", .wild "*"], false⟩

example : parsePattern "p/*" = .ok ex3Pat ∧
    (⟨["p", "sub"], true, ""⟩ : Entry) ∈ globFrom ex3Tree [] ex3Pat ∧ (⟨["p", "__init__.py"], false, "i"⟩ : Entry) ∈ globFrom ex3Tree [] ex3Pat ∧
    (⟨["p", "sub", "a.py"], false, "a"⟩ : Entry) ∈ descendants ex3Tree ["p", "sub"] ∧
    findFilesToAdd .wheel ex3Tree ex3Cfg [] =
      .ok [⟨["p", "__init__.py"], ["p", "__init__.py"], false⟩, ⟨["p", "sub", "a.py"], ["p", "sub", "a.py"], false⟩] :=
  ⟨by decide +kernel, by decide +kernel, by decide +kernel, by decide +kernel, by decide +kernel⟩

/-- the selection of a format: what `find_files_to_add` chose, plus (sdist) the project files -/
theorem select_mem {fmt : Fmt} {T : Tree} {cfg : Cfg} {ig : List String} {S : List Sel}
    (h : select fmt T cfg ig = .ok S) :
    ∃ B, findFilesToAdd fmt T cfg ig = .ok B ∧ (∀ b ∈ B, b ∈ S) ∧
      (fmt = .wheel → S = B) ∧
      (∀ s ∈ S, s ∈ B ∨ (fmt = .sdist ∧ ∃ A, sdistAdditional T cfg = .ok A ∧ s ∈ A)) := by
  unfold select at h
  cases hB : findFilesToAdd fmt T cfg ig with
  | error e => simp [hB, bind, Except.bind] at h
  | ok B =>
    cases fmt with
    | wheel =>
      simp [hB, bind, Except.bind] at h
      subst h
      exact ⟨B, rfl, fun _ hb => hb, fun _ => rfl, fun s hs => .inl hs⟩
    | sdist =>
      cases hA : sdistAdditional T cfg with
      | error e => simp [hB, hA, bind, Except.bind] at h
      | ok A =>
        simp [hB, hA, bind, Except.bind] at h
        subst h
        refine ⟨B, rfl, fun b hb => acc_subset_foldl_addSel hb, by simp, ?_⟩
        intro s hs
        rcases mem_foldl_addSel hs with h1 | h1
        · exact .inl h1
        · exact .inr ⟨rfl, A, rfl, h1⟩

/-- **Layout of the sdist**: every member lies under the single directory `NAME-VERSION/`; `PKG-INFO` is there;
so is every selected file (the package files and explicit includes chosen by `find_files_to_add`), and
`pyproject.toml`, every readme and every legal file that exists in the tree. -/
theorem sdist_layout {T : Tree} {cfg : Cfg} {ig : List String} {M : List Path}
    (h : sdistMembers T cfg ig = .ok M) :
    (∀ m ∈ M, m.head? = some (sdistRoot cfg)) ∧
    [sdistRoot cfg, Gen.sdistPkgInfoName] ∈ M ∧
    (∀ B, findFilesToAdd .sdist T cfg ig = .ok B → ∀ b ∈ B, ∃ a, (sdistRoot cfg :: a) ∈ M) ∧
    (∀ p : Path, existsIn T p = true →
        (p = [Gen.sdistProjectFile] ∨ p ∈ cfg.readmes.map parseRel ∨ p ∈ (legalFiles T).map (·.path)) →
        (sdistRoot cfg :: p) ∈ M) := by
  unfold sdistMembers at h
  cases hS : select .sdist T cfg ig with
  | error e => simp [hS, bind, Except.bind] at h
  | ok S =>
    simp [hS, bind, Except.bind] at h
    subst h
    have msort : ∀ s, s ∈ sortSels (·.arc) S ↔ s ∈ S := fun s => by unfold sortSels; exact mem_isort _ _ _
    obtain ⟨B, hB, hsub, _, hfrom⟩ := select_mem hS
    refine ⟨?_, by simp, ?_, ?_⟩
    · intro m hm
      simp only [List.mem_append, List.mem_map, List.mem_singleton] at hm
      rcases hm with ⟨s, _, rfl⟩ | rfl <;> rfl
    · intro B' hB' b hb
      rw [hB] at hB'; cases hB'
      exact ⟨b.arc, by simp only [List.mem_append, List.mem_map]; exact .inl ⟨b, (msort b).mpr (hsub b hb), rfl⟩⟩
    · intro p hex hp
      -- p is among the additional files and exists, hence is offered to the set with arc = src = p
      unfold select at hS
      cases hA : sdistAdditional T cfg with
      | error e => simp [hB, hA, bind, Except.bind] at hS
      | ok A =>
        simp [hB, hA, bind, Except.bind] at hS
        have hoffer : ∃ x ∈ A, x.src = p := by
          unfold sdistAdditional at hA
          cases hsc : scriptFiles T cfg with
          | error e => simp [hsc, bind, Except.bind] at hA
          | ok scripts =>
            simp only [hsc, bind, Except.bind] at hA
            cases hA
            obtain ⟨e, he⟩ : ∃ e, T.find? (fun e => e.path == p) = some e := by
              unfold existsIn at hex
              cases hfind : T.find? (fun e => e.path == p) with
              | none =>
                rw [List.find?_eq_none] at hfind
                obtain ⟨x, hx, hxe⟩ := List.any_eq_true.mp hex
                exact absurd hxe (hfind x hx)
              | some e => exact ⟨e, rfl⟩
            refine ⟨⟨p, p, e.isDir⟩, ?_, rfl⟩
            rw [List.mem_filterMap]
            refine ⟨p, ?_, by simp [he]⟩
            simp only [List.mem_append, List.mem_singleton]
            rcases hp with rfl | hp | hp
            · exact .inl (.inr rfl)
            · exact .inr hp
            · exact .inl (.inl (.inl hp))
        obtain ⟨x, hx, hxs⟩ := hoffer
        obtain ⟨s, hs, hsrc⟩ := src_mem_foldl_addSel (acc := B) hx
        rw [hS] at hs
        have harc : s.arc = s.src := sdist_arc_eq_src (hfrom s hs) hB hA
        simp only [List.mem_append, List.mem_map]
        exact .inl ⟨s, (msort s).mpr hs, by rw [harc, hsrc, hxs]⟩

example : ∃ M, sdistMembers exTree exCfg [] = .ok M ∧
    M = [["p-1.0", "LICENSE"], ["p-1.0", "p", "__init__.py"], ["p-1.0", "p", "gen.py"], ["p-1.0", "pyproject.toml"],
         ["p-1.0", "PKG-INFO"]] := ⟨_, by decide +kernel, rfl⟩

/-- **PKG-INFO = METADATA**: both are the text of the one renderer `get_metadata_content`
(`build_pkg_info` encodes it, `_write_metadata_file` writes it). -/
theorem pkginfo_eq_metadata {M : Type} (getMetadataContent : M → String) (m : M) :
    pkgInfo getMetadataContent m = wheelMetadata getMetadataContent m := rfl

/-! ## wheel built from the unpacked sdist -/

/-- an archive as a (member path ↦ content) relation: contents are read from the tree at the source path -/
def archive (T : Tree) (W : List Sel) : List (Path × String) :=
  W.filterMap fun w => (T.find? (fun e => e.path == w.src)).map (fun e => (w.arc, e.content))

/-- The property as stated: whenever the wheel's sources are also in the sdist, selecting the wheel's files on
the unpacked sdist (no VCS there) succeeds and gives the same path ↦ content map.  **False of the code as it
stands** — see the two counterexamples below; kept as the statement the partial results are measured against. -/
def wheel_from_sdist_eq_full_statement : Prop :=
  ∀ (T : Tree) (cfg : Cfg) (ig : List String) (W S : List Sel) (txt : String),
    select .wheel T cfg ig = .ok W → select .sdist T cfg ig = .ok S →
    (∀ w ∈ W, ∃ s ∈ S, s.src = w.src) →
    ∃ W', select .wheel (unpack T S txt) cfg [] = .ok W' ∧
      ∀ x, x ∈ archive T W ↔ x ∈ archive (unpack T S txt) W'

/-- witness 1: `p/_version.py` is ignored by the VCS and re-included by `include = ["p/_version.py"]`
(no `format`, hence sdist only) -/
def cx1Tree : Tree :=
  [⟨[], true, ""⟩, ⟨["pyproject.toml"], false, "t"⟩, ⟨["p"], true, ""⟩, ⟨["p", "__init__.py"], false, "i"⟩,
   ⟨["p", "_version.py"], false, "v"⟩]

def cx1Cfg : Cfg where
  moduleName := "p"
  rootName := "proj"
  distName := "p"
  version := "1.0"
  packages := []
  includes := [⟨"p/_version.py", Gen.includeDefaultFormats⟩]
  excludes := []
  readmes := []
  scripts := []
  hasEntryPoints := false

def cx1S : List Sel :=
  [⟨["p", "__init__.py"], ["p", "__init__.py"], false⟩, ⟨["p", "_version.py"], ["p", "_version.py"], false⟩,
   ⟨["pyproject.toml"], ["pyproject.toml"], false⟩]

/-- **Counterexample (VCS-ignored file re-included for the sdist only).** The wheel built from the tree omits
`p/_version.py` (ignored, and the include is not valid for the wheel); the sdist contains it; the wheel built
from the unpacked sdist — where no VCS hides anything — contains it.  The premise `wheel ⊆ sdist` holds. -/
theorem wheel_from_sdist_counterexample_vcs : ¬ wheel_from_sdist_eq_full_statement := by
  intro h
  obtain ⟨W', h1, h2⟩ := h cx1Tree cx1Cfg ["p/_version.py"] [⟨["p", "__init__.py"], ["p", "__init__.py"], false⟩] cx1S ""
    (by decide +kernel) (by decide +kernel) (by decide +kernel)
  have hw : select .wheel (unpack cx1Tree cx1S "") cx1Cfg [] =
      .ok [⟨["p", "__init__.py"], ["p", "__init__.py"], false⟩, ⟨["p", "_version.py"], ["p", "_version.py"], false⟩] := by
    decide +kernel
  rw [hw] at h1
  cases h1
  have := (h2 (["p", "_version.py"], "v")).mpr (by decide +kernel)
  revert this
  decide +kernel

/-- witness 2: `include = [{path = "*", format = ["sdist", "wheel"]}]` also matches the `PKG-INFO` that the sdist
builder generates -/
def cx2Tree : Tree :=
  [⟨[], true, ""⟩, ⟨["pyproject.toml"], false, "t"⟩, ⟨["NOTES"], false, "n"⟩, ⟨["p"], true, ""⟩,
   ⟨["p", "__init__.py"], false, "i"⟩]

def cx2Cfg : Cfg where
  moduleName := "p"
  rootName := "proj"
  distName := "p"
  version := "1.0"
  packages := []
  includes := [⟨"*", ["sdist", "wheel"]⟩]
  excludes := []
  readmes := []
  scripts := []
  hasEntryPoints := false

def cx2W : List Sel :=
  [⟨["p", "__init__.py"], ["p", "__init__.py"], false⟩, ⟨["NOTES"], ["NOTES"], false⟩,
   ⟨["pyproject.toml"], ["pyproject.toml"], false⟩]

/-- **Counterexample (a wheel pattern matches the generated PKG-INFO).** The unpacked sdist contains a file the
source tree never had; a root-level wildcard include valid for the wheel picks it up. -/
theorem wheel_from_sdist_counterexample_pkginfo : ¬ wheel_from_sdist_eq_full_statement := by
  intro h
  obtain ⟨W', h1, h2⟩ := h cx2Tree cx2Cfg [] cx2W cx2W "m"
    (by decide +kernel) (by decide +kernel) (by decide +kernel)
  have hw : select .wheel (unpack cx2Tree cx2W "m") cx2Cfg [] =
      .ok [⟨["p", "__init__.py"], ["p", "__init__.py"], false⟩, ⟨["NOTES"], ["NOTES"], false⟩,
           ⟨["PKG-INFO"], ["PKG-INFO"], false⟩, ⟨["pyproject.toml"], ["pyproject.toml"], false⟩] := by decide +kernel
  rw [hw] at h1
  cases h1
  have := (h2 (["PKG-INFO"], "m")).mpr (by decide +kernel)
  revert this
  decide +kernel

/-- **Path-locality step.** Extra hypothesis: the glob's base directory survives into the unpacked tree.  Then every
glob the builders evaluate returns, on the unpacked sdist, exactly those of its results on the source tree that
were packed (whether a path matches depends on the path and its kind only) — plus, possibly, the generated
`PKG-INFO`.  `wheel_from_sdist_eq_of_hypotheses` below composes this step through `find_excluded_files` and
`find_files_to_add`. -/
theorem wheel_from_sdist_eq_partial {T : Tree} {S : List Sel} {txt : String} {base : Path} {pat : Pattern}
    (hbase : isDirIn (unpack T S txt) base = true) (e : Entry)
    (hne : e ≠ { path := [Gen.sdistPkgInfoName], isDir := false, content := txt }) :
    e ∈ globFrom (unpack T S txt) base pat ↔ e ∈ unpack T S txt ∧ e ∈ globFrom T base pat := by
  rw [mem_globFrom_iff, mem_globFrom_iff]
  constructor
  · rintro ⟨_, hU, hm⟩
    refine ⟨hU, isDirIn_unpack hbase, ?_, hm⟩
    rcases mem_unpack.mp hU with ⟨hT, _⟩ | rfl
    · exact hT
    · exact absurd rfl hne
  · rintro ⟨hU, _, _, hm⟩
    exact ⟨hbase, hU, hm⟩

example : isDirIn (unpack cx1Tree cx1S "") ["p"] = true := by decide +kernel

/-- **The positive statement, with its hypotheses named.**  For a well-formed tree (`TreeWF`: one entry per path,
files are leaves, path components contain no separator, nothing is called `PKG-INFO`):
* `hsub` — the premise of the property: every source of the wheel is in the sdist;
* `hRebuild` — *no package emptied*: selecting the wheel's files on the unpacked sdist does not raise;
* `hPkgs` — the same package list applies (automatic when `packages` lists a wheel package; otherwise the default
  package is detected alike);
* `hVcs` — *no VCS-ignored path is packed*: nothing in the sdist is, or lies below, a path the VCS ignores
  (rules out the configuration of `wheel_from_sdist_counterexample_vcs`);
* `hPk` — *no wheel pattern picks the generated PKG-INFO* (rules out `wheel_from_sdist_counterexample_pkginfo`);
* `hArc` — archive names are unambiguous: no file is offered under two different archive names
  (e.g. by a package with `to` and by an explicit include);
then the wheel selected from the unpacked sdist has exactly the members of the wheel selected from the tree, and the
two archives are the same path ↦ content relation. -/
theorem wheel_from_sdist_eq_of_hypotheses {T : Tree} (wf : TreeWF T) {cfg : Cfg} {ig : List String}
    {W S W' : List Sel} {txt : String}
    (hW : select .wheel T cfg ig = .ok W) (hS : select .sdist T cfg ig = .ok S)
    (hsub : ∀ w ∈ W, ∃ s ∈ S, s.src = w.src)
    (hRebuild : select .wheel (unpack T S txt) cfg [] = .ok W')
    (hPkgs : modulePackages .wheel (unpack T S txt) cfg = modulePackages .wheel T cfg)
    (hVcs : ∀ s ∈ S, ∀ q, q ≠ [] → q <+: s.src → posix q ∉ ig)
    (hPk : ∀ w' ∈ W', w'.src ≠ [Gen.sdistPkgInfoName])
    (hArc : ∀ L, offers .wheel T cfg ig = .ok L → ∀ a ∈ L, ∀ b ∈ L, a.src = b.src → a = b) :
    (∀ t, t ∈ W' ↔ t ∈ W) ∧ ∀ x, x ∈ archive T W ↔ x ∈ archive (unpack T S txt) W' := by
  obtain ⟨B, hB, _, hWB, _⟩ := select_mem hW
  obtain ⟨B', hB', _, hWB', _⟩ := select_mem hRebuild
  have e1 := hWB rfl; subst e1
  have e2 := hWB' rfl; subst e2
  obtain ⟨LT, hLT, rfl⟩ := findFilesToAdd_offers hB
  obtain ⟨LU, hLU, rfl⟩ := findFilesToAdd_offers hB'
  have hfT := hArc LT hLT
  have core := fun t => offers_unpack wf hS hLT hLU hPkgs hVcs t
  -- offers on the unpacked tree that can reach W' are offers on the tree
  have hne : ∀ t ∈ LU, t.src ≠ [Gen.sdistPkgInfoName] := by
    intro t ht
    obtain ⟨s, hs, hsrc⟩ := src_mem_foldl_addSel (acc := []) ht
    rw [← hsrc]; exact hPk s hs
  have hUT : ∀ t ∈ LU, t ∈ LT := fun t ht => (core t).1 ht (hne t ht)
  have hfU : ∀ a ∈ LU, ∀ b ∈ LU, a.src = b.src → a = b := fun a ha b hb h => hfT a (hUT a ha) b (hUT b hb) h
  have hmem : ∀ t, t ∈ LU.foldl addSel [] ↔ t ∈ LT.foldl addSel [] := by
    intro t
    rw [mem_foldl_addSel_functional hfU, mem_foldl_addSel_functional hfT]
    constructor
    · exact hUT t
    · intro ht
      exact (core t).2 ht (hsub t ((mem_foldl_addSel_functional hfT t).mpr ht))
  refine ⟨hmem, ?_⟩
  -- contents: every member's source is a packed file of T, found alike in both trees
  have hfind : ∀ t ∈ LT.foldl addSel [], T.find? (fun e => e.path == t.src) = (unpack T S txt).find? (fun e => e.path == t.src) := by
    intro t ht
    have htL := (mem_foldl_addSel_functional hfT t).mp ht
    obtain ⟨_, _, _, _, _, _, _, hiff⟩ := mem_offers hLT
    obtain ⟨s, hs, hsrc⟩ := hsub t ht
    have hent := select_sdist_entries hS s hs
    have packed : ∀ c : Entry, c ∈ T → c.isDir = false → c.path = t.src →
        T.find? (fun e => e.path == t.src) = (unpack T S txt).find? (fun e => e.path == t.src) := by
      intro c hc hcf hcp
      have harc : c.path = s.arc := by rw [hent.1, hsrc, hcp]
      have hcU : c ∈ unpack T S txt := mem_unpack_iff.mpr (.inl ⟨hc, s, hs, harc ▸ List.prefix_refl _, .inr harc⟩)
      obtain ⟨f1, f2⟩ := find_agree wf hc hcU
      rw [← hcp, f1, f2]
    rcases (hiff t).mp htL with ⟨_, _, _, _, _, _, c, ⟨_, _, h1, h2, _⟩, rfl⟩ | ⟨_, _, _, _, _, _, _, c, ⟨_, _, h1, h2, _⟩, rfl⟩
    · exact packed c h1 h2 rfl
    · exact packed c h1 h2 rfl
  intro x
  unfold archive
  simp only [List.mem_filterMap]
  constructor
  · rintro ⟨w, hw, hx⟩
    exact ⟨w, (hmem w).mpr hw, by rw [← hfind w hw]; exact hx⟩
  · rintro ⟨w, hw, hx⟩
    have hw' := (hmem w).mp hw
    exact ⟨w, hw', by rw [hfind w hw']; exact hx⟩


/-- the hypotheses of `wheel_from_sdist_eq_of_hypotheses` are met by a project with an excluded module re-included
for both formats, a licence file and a stray `.pyc` -/
def ex2Cfg : Cfg where
  moduleName := "p"
  rootName := "proj"
  distName := "p"
  version := "1.0"
  packages := []
  includes := [⟨"p/gen.py", ["sdist", "wheel"]⟩]
  excludes := ["p/gen.py"]
  readmes := []
  scripts := []
  hasEntryPoints := false

def ex2W : List Sel := [⟨["p", "__init__.py"], ["p", "__init__.py"], false⟩, ⟨["p", "gen.py"], ["p", "gen.py"], false⟩]

def ex2S : List Sel :=
  ex2W ++ [⟨["LICENSE"], ["LICENSE"], false⟩, ⟨["pyproject.toml"], ["pyproject.toml"], false⟩]

example : TreeWF exTree ∧ select .wheel exTree ex2Cfg [] = .ok ex2W ∧ select .sdist exTree ex2Cfg [] = .ok ex2S ∧
    (∀ w ∈ ex2W, ∃ s ∈ ex2S, s.src = w.src) ∧
    select .wheel (unpack exTree ex2S "m") ex2Cfg [] = .ok ex2W ∧
    modulePackages .wheel (unpack exTree ex2S "m") ex2Cfg = modulePackages .wheel exTree ex2Cfg ∧
    (∀ w' ∈ ex2W, w'.src ≠ [Gen.sdistPkgInfoName]) ∧
    (∀ L, offers .wheel exTree ex2Cfg [] = .ok L → ∀ a ∈ L, ∀ b ∈ L, a.src = b.src → a = b) := by
  refine ⟨treeWF_of_check (by decide +kernel), by decide +kernel, by decide +kernel, by decide +kernel,
    by decide +kernel, by decide +kernel, by decide +kernel, ?_⟩
  intro L hL
  have : offers .wheel exTree ex2Cfg [] = .ok (ex2W ++ [⟨["p", "gen.py"], ["p", "gen.py"], false⟩]) := by decide +kernel
  rw [this] at hL
  cases hL
  decide +kernel

/-- **The positive statement, reduced to its decidable boundary.**  Without a VCS-ignored list (`ig = []`: no `.git`,
or nothing ignored) three of the six named hypotheses of `wheel_from_sdist_eq_of_hypotheses` are discharged by the
model of `find_files_to_add` / `find_excluded_files`, given two decidable conditions on the package list `pkgs` the
wheel uses:
* `hVcs` is vacuous;
* `hArc` follows from `arcSafe pkgs cfg` — either no package is relocated with `from`/`to`, so every offer is
  `source ↦ same path` (`arc_functional_of_plain`), or the wheel is fed by a single package rule and no wheel-format
  include (`arc_functional_of_single`); the complement (a relocated package together with a second rule) is where one
  file can be offered under two archive names;
* `hPk` follows from `pkgInfoUnreached pkgs cfg` — no wheel rule (package or wheel-format include) matches a root-level
  `PKG-INFO` or takes the whole project root (`offers_not_pkgInfo`); its complement is exactly the class of
  `wheel_from_sdist_counterexample_pkginfo`.
What remains: the premise `hsub`; `hRebuild` (the rebuild does not raise — complement: the catalogued class "package
emptied by exclusion", decidable by evaluating the model on the unpacked tree); `hPkgs` for the *default* package
(discharged below when `packages` names a wheel package). -/
theorem wheel_from_sdist_eq_decidable {T : Tree} (wf : TreeWF T) {cfg : Cfg} {W S W' : List Sel} {txt : String}
    {pkgs : List PkgSpec}
    (hW : select .wheel T cfg [] = .ok W) (hS : select .sdist T cfg [] = .ok S)
    (hsub : ∀ w ∈ W, ∃ s ∈ S, s.src = w.src)
    (hRebuild : select .wheel (unpack T S txt) cfg [] = .ok W')
    (hPkgs : modulePackages .wheel (unpack T S txt) cfg = modulePackages .wheel T cfg)
    (hpk : modulePackages .wheel T cfg = .ok pkgs)
    (hPlain : arcSafe pkgs cfg = true)
    (hInfo : pkgInfoUnreached pkgs cfg = true) :
    (∀ t, t ∈ W' ↔ t ∈ W) ∧ ∀ x, x ∈ archive T W ↔ x ∈ archive (unpack T S txt) W' := by
  refine wheel_from_sdist_eq_of_hypotheses wf hW hS hsub hRebuild hPkgs (fun _ _ _ _ _ h => by cases h) ?_ ?_
  · obtain ⟨B', hB', _, hWB', _⟩ := select_mem hRebuild
    have e2 := hWB' rfl; subst e2
    obtain ⟨LU, hLU, rfl⟩ := findFilesToAdd_offers hB'
    intro w' hw'
    have hmem : w' ∈ LU := by
      rcases mem_foldl_addSel hw' with h | h
      · cases h
      · exact h
    exact offers_not_pkgInfo hLU (fun ps h => by rw [hPkgs, hpk] at h; cases h; exact hInfo) w' hmem
  · intro L hL
    unfold arcSafe at hPlain
    rcases Bool.or_eq_true_iff.mp hPlain with hp | hs
    · exact arc_functional_of_plain hL (fun ps h => by rw [hpk] at h; cases h; exact hp)
    · unfold singleRule at hs
      simp only [Bool.and_eq_true, decide_eq_true_eq, List.isEmpty_iff] at hs
      refine arc_functional_of_single wf hL (fun ps h => ?_)
      rw [hpk] at h; cases h
      refine ⟨hs.1, fun i hi hf => ?_⟩
      have : i ∈ cfg.includes.filter fun i => i.formats.contains Fmt.wheel.name := by
        rw [List.mem_filter]; exact ⟨hi, by simpa using hf⟩
      rw [hs.2] at this; cases this

/-- with `packages` naming a package for the wheel, `hPkgs` is discharged too: only the premise and "the rebuild does
not raise" remain besides the two decidable conditions -/
theorem wheel_from_sdist_eq_no_vcs {T : Tree} (wf : TreeWF T) {cfg : Cfg} {W S W' : List Sel} {txt : String}
    (hW : select .wheel T cfg [] = .ok W) (hS : select .sdist T cfg [] = .ok S)
    (hsub : ∀ w ∈ W, ∃ s ∈ S, s.src = w.src)
    (hRebuild : select .wheel (unpack T S txt) cfg [] = .ok W')
    (hExplicit : (cfg.packages.filter (fun p => p.formats.contains Fmt.wheel.name)).isEmpty = false)
    (hPlain : arcSafe (cfg.packages.filter (fun p => p.formats.contains Fmt.wheel.name)) cfg = true)
    (hInfo : pkgInfoUnreached (cfg.packages.filter (fun p => p.formats.contains Fmt.wheel.name)) cfg = true) :
    (∀ t, t ∈ W' ↔ t ∈ W) ∧ ∀ x, x ∈ archive T W ↔ x ∈ archive (unpack T S txt) W' := by
  have hpk : modulePackages .wheel T cfg = .ok (cfg.packages.filter (fun p => p.formats.contains Fmt.wheel.name)) := by
    unfold modulePackages; simp only [hExplicit]; rfl
  exact wheel_from_sdist_eq_decidable wf hW hS hsub hRebuild (modulePackages_explicit hExplicit) hpk hPlain hInfo

/-- the hypotheses are met by the project of `ex2Cfg` (default package `p`) … -/
example : modulePackages .wheel exTree ex2Cfg = .ok [⟨"p", none, none, Gen.defaultPackageFormats⟩] ∧
    arcSafe [⟨"p", none, none, Gen.defaultPackageFormats⟩] ex2Cfg = true ∧
    pkgInfoUnreached [⟨"p", none, none, Gen.defaultPackageFormats⟩] ex2Cfg = true := by
  refine ⟨by decide +kernel, by decide +kernel, by decide +kernel⟩

/-- … and the boundary is exact on the catalogued class: the configuration of `wheel_from_sdist_counterexample_pkginfo`
(`include = ["*"]` for the wheel) fails `pkgInfoUnreached`; a relocated package next to a wheel-format include fails
`arcSafe`, alone it passes -/
example : pkgInfoUnreached [⟨"p", none, none, Gen.defaultPackageFormats⟩] cx2Cfg = false ∧
    arcSafe [⟨"p", some "src", none, ["sdist", "wheel"]⟩] cx2Cfg = false ∧
    arcSafe [⟨"p", some "src", none, ["sdist", "wheel"]⟩] ⟨"p", "proj", "p", "1.0", [], [], [], [], [], false⟩ = true := by
  refine ⟨by decide +kernel, by decide +kernel, by decide +kernel⟩

/-- **Directory patterns of `.gitignore` cover the whole subtree** (reference model of
`git ls-files --others -i --exclude-standard`, Model/GitIgnore.lean): once a directory `d` is excluded — by `name/`,
`/path/name/`, or any other line — every file below it is in the ignored listing, whatever deeper `.gitignore` files or
negations say. -/
theorem gitignore_directory_covers_subtree (files : List GitIgnore.IgnFile) (d rest : Path) (hd : d ≠ []) (hr : rest ≠ [])
    (h : GitIgnore.excluded files d true = true) : GitIgnore.ignoredFile files (d ++ rest) = true := by
  unfold GitIgnore.ignoredFile
  rw [List.any_eq_true]
  have hlen : 0 < d.length := List.length_pos_iff.mpr hd
  have hrl : 0 < rest.length := List.length_pos_iff.mpr hr
  refine ⟨d.length - 1, by simp [List.mem_range]; omega, ?_⟩
  have e1 : d.length - 1 + 1 = d.length := by omega
  have e2 : (d ++ rest).take d.length = d := by simp
  rw [e1, e2]
  have : decide (d.length < (d ++ rest).length) = true := by simp; omega
  rw [this]; exact h

example : GitIgnore.ignoredListing [⟨[], GitIgnore.parseFile "build/\n/p/data/\n!keep.txt\n"⟩]
    [⟨[], true, ""⟩, ⟨["build"], true, ""⟩, ⟨["build", "x.o"], false, ""⟩, ⟨["p"], true, ""⟩, ⟨["p", "data"], true, ""⟩,
     ⟨["p", "data", "keep.txt"], false, ""⟩, ⟨["p", "a.py"], false, ""⟩, ⟨["q", "data", "d.txt"], false, ""⟩] =
    [["build", "x.o"], ["p", "data", "keep.txt"]] := by decide +kernel

end Poetry.C09
