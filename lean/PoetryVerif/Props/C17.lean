/-
C17 — Marker projections only ever weaken; reduction by a Python range is exact.
Property theorems only (helper lemmas in Proofs/MarkerProj.lean).

Vocabulary.  `M.sem ev m` is the truth of the marker tree `m` when `ev` gives the truth of its
single-marker-likes (`any` ↦ true, `empty` ↦ false, `multi` ↦ all, `union` ↦ any); `leafEval E` is that
leaf truth taken from poetry's own `validate` on the environment `E`, and C07's `M.validate_eq_sem` shows
`M.validate E m = .ok (M.sem (leafEval E) m)` whenever every leaf of `m` evaluates on `E` (`M.Evaluable E m`).
`M.vars m` lists the variable names at the leaves.

Staging.  `only`, `exclude`, `reduce_by_python_constraint` rebuild their result with `MultiMarker.of`,
`MarkerUnion.of`, `intersection`, `intersect`, whose soundness is C07's (`Proofs/MarkerAlgSound.lean`,
every fuel and recursion stack).  That development is relative to a leaf specification
`LeafSpec ev G` (marker equality and leaf merging respect the leaf truth `ev` on leaves satisfying the
invariant `G`; the concrete instance for `leafEval E` is C06/C07's subject) — the theorems below take the
same `S : LeafSpec ev G` and `M.Good G m`, so they compose with C07 without further hypotheses.  The last section
(`only_mentions`, `reduce_exact_validate`) instantiates everything on `FullLeafLLs E` — plain string variables, `extra`,
`python_version op "a.b"`, `python_full_version op "a.b.c"` with comparison operators or `~=`, `in` / `not in` lists on both python variables — where the leaf
specification, the python_version / python_full_version pairing included (`pairSound_pyC`, `pairSound_pyLists`, `pairSound_pyLL`), C11's exactness,
`create_nested_marker` through `parse_marker` and C12's two answers are all proved: no hypothesis is left there
beyond the description of the environment and of the project's range.  The `…_partial` theorems keep the general
form (any invariant `G` with a leaf specification `S`); the statements without domain are kept as
`C17_…_full_statement`.
-/
import PoetryVerif.Proofs.MarkerProjReduce
import PoetryVerif.Proofs.PyConvReduce
import PoetryVerif.Proofs.MarkerAlgSoundOps
import PoetryVerif.Proofs.PyConvFullLL
import PoetryVerif.Proofs.PyConvNamed
import PoetryVerif.Proofs.MarkerExcludeIdem

set_option linter.unusedSimpArgs false
set_option linter.unusedVariables false

namespace Poetry.C17
open Poetry Poetry.Marker

/-! ## example objects -/

def v38 : Version := ⟨0, [3, 8], none, none, none, none, "3.8"⟩
/-- `python_version >= "3.8"` -/
def lPy : Leaf := .single ⟨"python_version", ">=", "3.8", false, .ver (.single (.rng ⟨some v38, none, true, false⟩))⟩
/-- `sys_platform == "linux"` -/
def lSys : Leaf := .single ⟨"sys_platform", "==", "linux", false, .gen (.s (.atom ⟨"linux", .eq, false⟩))⟩
/-- `extra == "docs"` -/
def lExtra : Leaf := .single ⟨"extra", "==", "docs", false, .gen (.s (.atom ⟨"docs", .eq, false⟩))⟩
/-- CPython 3.9.1 on win32, extras {docs} -/
def exEnv : Env :=
  ⟨[("python_version", "3.9"), ("python_full_version", "3.9.1"), ("sys_platform", "win32")], some ["docs"]⟩

/-! ## `only` -/

/-- **`only` mentions only the requested variables.**  Proved through C07's soundness induction instantiated
with the invariant "named in `names`" (`Proofs/MarkerProjVars.lean`: every leaf a successful
`_merge_single_markers` returns is named like an operand).  `hc`: the leaves' variables are spelt canonically
(what `SingleMarker.__init__` stores; `leafSpec_canon` adds this to any invariant).  That the text
`_merge_python_version_single_markers` rewrites with `str.replace` and re-parses is again a marker on
`python_version` / `python_full_version` is proved (`reparseNames_holds`, `Proofs/MarkerProjReparse.lean`). -/
theorem only_mentions_partial {ev : Leaf → Bool} {G : Leaf → Prop} (S : LeafSpec ev G)
    (hc : ∀ l, G l → Canon l) (names : List String) (m r : M) (hg : M.Good G m)
    (h : M.only names m = .ok r) : ∀ n ∈ M.vars r, n ∈ names :=
  only_mentions_thm S hc names m r hg h

/-- the simplifier's constructors mention no variable their operands do not mention (the former hypothesis
`OfVars`, now a theorem relative to `S`) -/
theorem of_mentions {ev : Leaf → Bool} {G : Leaf → Prop} (S : LeafSpec ev G)
    (hc : ∀ l, G l → Canon l) (fuel : Nat) (stk : Stack) (ms : List M) (r : M) (hg : M.GoodAll G ms) :
    (multiOf fuel stk ms = .ok r → ∀ n ∈ M.vars r, n ∈ M.varsList ms) ∧
    (unionOf fuel stk ms = .ok r → ∀ n ∈ M.vars r, n ∈ M.varsList ms) :=
  of_vars S hc fuel stk ms r hg

/-- `_merge_single_markers` itself: the leaves of a successful merge are named like an operand -/
theorem merge_mentions (N : List String) (l1 l2 : Leaf) (im : Bool) (r : M)
    (h1 : Named N l1) (h2 : Named N l2) (h : mergeLeaves l1 l2 im = .ok (some r)) : M.Good (Named N) r :=
  mergeLeaves_named N l1 l2 im r h1 h2 h

/-- **`only` only weakens**: wherever the marker holds, its projection holds — for conjunctions *and*
disjunctions, foreign leaves being replaced by the universal marker; the projection keeps the leaf
invariant. -/
theorem only_weakens {ev : Leaf → Bool} {G : Leaf → Prop} (S : LeafSpec ev G) (names : List String) (m r : M)
    (hg : M.Good G m) (h : M.only names m = .ok r) :
    M.Good G r ∧ (M.sem ev m = true → M.sem ev r = true) :=
  only_weakens_aux S names m r hg h

/-- the same through poetry's own `validate`, on an environment where the leaves evaluate -/
theorem only_weakens_validate_partial (E : Env) {G : Leaf → Prop} (S : LeafSpec (leafEval E) G)
    (names : List String) (m r : M) (hg : M.Good G m)
    (h : M.only names m = .ok r) (hem : M.Evaluable E m) (her : M.Evaluable E r)
    (hm : M.validate E m = .ok true) : M.validate E r = .ok true := by
  rw [M.validate_eq_sem E m hem] at hm
  rw [M.validate_eq_sem E r her]
  injection hm with hm
  rw [(only_weakens S names m r hg h).2 hm]

/-- a foreign leaf becomes the universal marker: strictly weaker on `exEnv`, where `sys_platform == "linux"`
is false; a requested leaf is kept -/
example : M.only ["python_version"] (.leaf lSys) = .ok .any ∧ M.only ["python_version"] (.leaf lPy) = .ok (.leaf lPy) ∧
    M.onlyList ["python_version"] [.leaf lPy, .leaf lSys] = .ok [.leaf lPy, .any] ∧
    lSys.validate exEnv = .ok false ∧ lPy.validate exEnv = .ok true ∧
    M.vars (.multi [.leaf lPy, .leaf lSys]) = ["python_version", "sys_platform"] := by
  refine ⟨rfl, rfl, rfl, by rfl, by rfl, rfl⟩

/-- the leaf invariant is satisfiable: with `G := fun _ => True` every marker is good -/
example : M.Good (fun _ => True) (.multi [.leaf lPy, .union [.leaf lSys, .leaf lExtra]]) := M.good_trivial _

def C17_only_mentions_full_statement : Prop :=
  ∀ (text : String) (S : List String) (m r : M), parseMarker text = .ok m → M.only S m = .ok r →
    ∀ n ∈ M.vars r, n ∈ S

def C17_only_weakens_full_statement : Prop :=
  ∀ (text : String) (S : List String) (m r : M) (E : Env), parseMarker text = .ok m → M.only S m = .ok r →
    M.Evaluable E m → M.Evaluable E r → M.validate E m = .ok true → M.validate E r = .ok true

/-! ## `exclude`, `without_extras` -/

/-- **removing the clauses about one variable from a conjunction of single-variable clauses leaves exactly
the conjunction of the others**. -/
theorem exclude_conj {ev : Leaf → Bool} {G : Leaf → Prop} (S : LeafSpec ev G) (x : String) (ms : List M)
    (hl : allLeaves ms = true) (hg : M.GoodAll G ms) (r : M) (h : M.exclude x (.multi ms) = .ok r) :
    M.Good G r ∧ M.sem ev r = semAllExcept ev x ms :=
  exclude_conj_aux S x ms hl hg r h

/-- the clauses that survive are computed without the simplifier: exactly the members on other variables -/
theorem exclude_members (ev : Leaf → Bool) (x : String) (ms : List M) (hl : allLeaves ms = true) :
    ∃ xs, M.excludeList x ms = .ok xs ∧ allLeaves xs = true ∧ M.semAll ev xs = semAllExcept ev x ms := by
  obtain ⟨xs, h1, h2, _, h3⟩ := excludeList_leaves ev (fun _ => True) x ms hl (M.goodAll_trivial ms)
  exact ⟨xs, h1, h2, h3⟩

/-- the surviving clauses are exactly the members on other variables, in their order (`dropNamed`): the member list
`exclude` hands to the simplifier is a plain filter of the conjunction — nothing is rewritten, merged or reordered
before `intersection` sees it -/
theorem exclude_members_eq_filter (x : String) (ms : List M) (hl : allLeaves ms = true) :
    M.excludeList x ms = .ok (dropNamed x ms) ∧ allLeaves (dropNamed x ms) = true :=
  ⟨excludeList_eq_dropNamed x ms hl, dropNamed_allLeaves x ms hl⟩

/-- the surviving clauses do not mention the removed variable -/
theorem exclude_members_not_mentioned (x : String) (ms : List M) (hl : allLeaves ms = true) :
    ∃ xs, M.excludeList x ms = .ok xs ∧ x ∉ M.varsList xs :=
  ⟨dropNamed x ms, excludeList_eq_dropNamed x ms hl,
    noneNamed_not_mem_vars x _ (dropNamed_allLeaves x ms hl) (dropNamed_noneNamed x ms)⟩

/-- removing a variable no clause is about changes nothing (`without_extras` on a marker without `extra`) -/
theorem exclude_members_absent (x : String) (ms : List M) (hl : allLeaves ms = true)
    (hn : noneNamed x ms = true) : M.excludeList x ms = .ok ms :=
  excludeList_noneNamed x ms hl hn

/-- removing twice is removing once -/
theorem exclude_members_idempotent (x : String) (ms xs : List M) (hl : allLeaves ms = true)
    (h : M.excludeList x ms = .ok xs) : M.excludeList x xs = .ok xs := by
  rw [excludeList_eq_dropNamed x ms hl] at h
  cases h
  exact excludeList_noneNamed x _ (dropNamed_allLeaves x ms hl) (dropNamed_noneNamed x ms)

/-- removals of two variables commute -/
theorem exclude_members_commute (x y : String) (ms xs ys : List M) (hl : allLeaves ms = true)
    (hx : M.excludeList x ms = .ok xs) (hy : M.excludeList y ms = .ok ys) :
    M.excludeList y xs = M.excludeList x ys := by
  rw [excludeList_eq_dropNamed x ms hl] at hx
  rw [excludeList_eq_dropNamed y ms hl] at hy
  cases hx; cases hy
  rw [excludeList_eq_dropNamed y _ (dropNamed_allLeaves x ms hl),
    excludeList_eq_dropNamed x _ (dropNamed_allLeaves y ms hl), dropNamed_comm]

example : noneNamed "extra" [.leaf lPy, .leaf lSys] = true ∧ noneNamed "extra" [.leaf lPy, .leaf lExtra] = false ∧
    dropNamed "extra" [.leaf lExtra, .leaf lPy, .leaf lExtra, .leaf lSys] = [.leaf lPy, .leaf lSys] := by
  refine ⟨by decide, by decide, rfl⟩

/-- `without_extras` is `exclude("extra")` -/
theorem without_extras_eq (m : M) : M.withoutExtras m = M.exclude "extra" m := rfl

example : allLeaves [.leaf lPy, .leaf lExtra, .leaf lSys] = true ∧
    M.excludeList "extra" [.leaf lPy, .leaf lExtra, .leaf lSys] = .ok [.leaf lPy, .leaf lSys] ∧
    semAllExcept (leafEval exEnv) "extra" [.leaf lPy, .leaf lExtra, .leaf lSys] = false ∧
    semAllExcept (leafEval exEnv) "sys_platform" [.leaf lPy, .leaf lExtra, .leaf lSys] = true := by
  refine ⟨rfl, rfl, by decide, by decide⟩

def C17_exclude_conj_full_statement : Prop :=
  ∀ (E : Env) (x : String) (ms : List M) (r : M), allLeaves ms = true →
    M.Evaluable E (.multi ms) → M.Evaluable E r →
    M.exclude x (.multi ms) = .ok r → M.validate E r = .ok (semAllExcept (leafEval E) x ms)

/-! ## `reduce_by_python_constraint` -/

/-- **reduction by a Python range is exact on every environment whose interpreter lies in the range**:
structural induction over `reduce_by_python_constraint`, including the `MarkerUnion` shortcut and the three
answers of `SingleMarker.reduce_by_python_constraint`; C07's `of` / `intersect` soundness is used as proved.
`ReduceCtx ev G P W pc py` collects, at the environment under consideration (leaf truth `ev`, interpreter `py`
with `pc.allows py`; `P`: the shape of the input's python leaves), the leaf specification and what is used from C11 (`pyConstraint_exact` for leaves and
python-only markers, `createNested_exact` through `parse_marker`), C12 (`allows_all` yes / `allows_any` no
soundness at `py`), and canonical spelling of the variables. -/
theorem reduce_exact_partial {ev : Leaf → Bool} {G P : Leaf → Prop} {W : VC → Prop} (pc : VC) (py : Version)
    (C : ReduceCtx ev G P W pc py) (m r : M) (hg : M.Good (fun l => G l ∧ P l) m) (h : M.reduce pc m = .ok r) :
    M.Good G r ∧ M.sem ev r = M.sem ev m :=
  reduce_exact_aux C m r hg h

/-- **the same against poetry's own `validate`**, with what C11 and C12 contribute discharged (`reduceCtx_poetry`:
`pyConstraint_exact` for the python leaves of the input, `createNested_exact` through `parse_marker`, canonical
names, and C12's `allows_all` yes / `allows_any` no at the probe for constraints of C05's regular setting): for a
Python range `pc` of C11's domain that is a well-formed constraint (`PyVCok`) and admits interpreter `X.Y.Z`, a
marker whose leaves are what `_compact_markers` builds (`CompLeaf E`), its python leaves of the exact shape
(`PyShaped`), the reduced marker validates on the environment of `X.Y.Z` to the same value as the original.
Remaining hypotheses: the leaf specification `S` and `pyConstraint_exact` for the python-only
sub-unions of the `MarkerUnion` shortcut (`hlow`). -/
theorem reduce_exact_validate_partial (E : Env) (X Y Z : Nat) (hE : EnvPy E X Y Z)
    (S : LeafSpec (leafEval E) (CompLeaf E)) (pc : VC) (hd : PyDomVC pc = true)
    (hpcok : PyVCok pc) (hpc : pc.allowsPlain (pyV X Y Z) = true)
    (hlow : ∀ (u : M) (g : VC), M.Good (CompLeaf E) u → (∀ n ∈ M.vars u, n ∈ pyNames) → gpc u = .ok g →
      PyVCok g ∧ (g.allowsPlain (pyV X Y Z) = true → M.sem (leafEval E) u = true))
    (m r : M) (hg : M.Good (fun l => CompLeaf E l ∧ PyShaped l) m) (h : M.reduce pc m = .ok r) :
    M.validate E r = M.validate E m := by
  have C := reduceCtx_poetry E X Y Z hE S pc hd hpcok hpc hlow
  have hr := reduce_exact_aux C m r hg h
  have hev : ∀ x, M.Good (CompLeaf E) x → M.Evaluable E x := fun x hx =>
    M.good_mono (fun l hl => by obtain ⟨s, _, _, hb, _⟩ := hl; exact hb) x hx
  rw [M.validate_eq_sem E r (hev r hr.1),
    M.validate_eq_sem E m (hev m (M.good_mono (fun l hl => hl.1) m hg)), hr.2]

/-- the project ranges of the hypothesis exist: `>=3.8,<3.11` is in C11's domain and a well-formed constraint -/
example : PyDomVC (.single (.rng ⟨some (finalV [3, 8]), some (finalV [3, 11]), true, false⟩)) = true ∧
    PyVCok (.single (.rng ⟨some (finalV [3, 8]), some (finalV [3, 11]), true, false⟩)) :=
  ⟨by decide, ok_both _ _ (pb _) (pb _) (by decide)⟩

/-- a leaf on another variable is returned unchanged, whatever the range -/
example (pc : VC) : M.reduce pc (.leaf lSys) = .ok (.leaf lSys) := rfl

def pyOf (X Y Z : Nat) : Version := Version.mk' 0 [X, Y, Z] none none none none

def C17_reduce_exact_full_statement : Prop :=
  ∀ (text : String) (m r : M) (pc : VC) (E : Env) (X Y Z : Nat), parseMarker text = .ok m →
    E.get? "python_full_version" = some (pyOf X Y Z).text →
    E.get? "python_version" = some (Version.relText [X, Y]) →
    pc.allows (pyOf X Y Z) = .ok true → M.reduce pc m = .ok r →
    M.Evaluable E m → M.Evaluable E r → M.validate E r = M.validate E m

/-! ## against poetry's own `validate`, no leaf-level hypothesis

On `FullLeafLLs E` (plain string variables, `extra`, `python_version op "a.b"`, `python_full_version op "a.b.c"` with
comparison operators or `~=`, `in / not in` lists on `python_version` and `python_full_version`; C07's leaf specification holds there outright, the python_version / python_full_version
pairing included: `pairSound_pyC`, `pairSound_pyLists`, `pairSound_pyLL`), for an environment of interpreter `X.Y.Z` with a set of active extras. -/

/-- **`only` mentions only the requested variables.** -/
theorem only_mentions {E : Env} {ex : List String} (hX : E.extras = some ex) {X Y Z : Nat} (hE : EnvPy E X Y Z)
    (names : List String) (m r : M) (hg : M.Good (FullLeafLLs E) m) (h : m.only names = .ok r) :
    ∀ n ∈ M.vars r, n ∈ names :=
  only_mentions_fullLLs hX hE names m r hg h

/-- **reduction by a Python range is exact**: for a range of C11's domain with bounds of two or three components
that is a well-formed constraint and admits the interpreter, the reduced marker stays in the domain and validates
to the same value as the original. -/
theorem reduce_exact_validate {E : Env} {ex : List String} (hX : E.extras = some ex) {X Y Z : Nat}
    (hE : EnvPy E X Y Z) (pc : VC) (hd : PyDomVC pc = true) (hp2 : PyPrec2 pc) (hpcok : PyVCok pc)
    (hpc : pc.allowsPlain (pyV X Y Z) = true) (m r : M) (hg : M.Good (FullLeafLLs E) m)
    (h : M.reduce pc m = .ok r) :
    M.Good (FullLeafLLs E) r ∧ M.validate E r = M.validate E m :=
  reduce_exact_validate_fullLLs hX hE pc hd hp2 hpcok hpc m r hg h

/-- the hypotheses on the range are satisfiable: `>=3.8,<3.11` -/
example : PyPrec2 (.single (.rng ⟨some (finalV [3, 8]), some (finalV [3, 11]), true, false⟩)) := by
  intro rc hrc e he
  simp only [VC.flatten, List.mem_cons, List.mem_nil_iff, or_false] at hrc
  subst hrc
  simp [RC.bounds, RC.view, VRange.bounds, RC.min, RC.max] at he
  rcases he with rfl | rfl <;> simp [finalV]

/-- **`only` only weakens**, through `validate`: the projection stays in the domain, and validates to true wherever
the marker does. -/
theorem only_weakens_validate {E : Env} {ex : List String} (hX : E.extras = some ex) {X Y Z : Nat}
    (hE : EnvPy E X Y Z) (names : List String) (m r : M) (hg : M.Good (FullLeafLLs E) m)
    (h : M.only names m = .ok r) (hm : M.validate E m = .ok true) :
    M.Good (FullLeafLLs E) r ∧ M.validate E r = .ok true := by
  have S := leafSpec_fullLLs hX hE
  have hr := only_weakens S names m r hg h
  have hev : ∀ x, M.Good (FullLeafLLs E) x → M.Evaluable E x := fun x hx =>
    M.good_mono (fun l hl => fullLeafLLs_evaluable hX hE hl) x hx
  exact ⟨hr.1, only_weakens_validate_partial E S names m r hg h (hev m hg) (hev r hr.1) hm⟩

/-- **the text back-conversion of `_merge_python_version_single_markers` keeps two-digit components** (what an
`rstrip(".0")` would break): `python_full_version >= "a.b.0"` / `< "a.b.0"` becomes `python_version >= "a.b"` /
`< "a.b"` — exactly the last component `.0` is dropped — and a literal whose last component is not `0` is left
alone. -/
theorem pyRewrite_two_digit {sop : Spec.SOp} {ops : String} (h : (sop, ops) ∈ pvOps) (a b c : Nat) (cst : LeafC) :
    ((ops = "<" ∨ ops = ">=") →
      pyRewrite ⟨"python_full_version", ops, Version.relText [a, b, 0], false, cst⟩ =
        leafText "python_version" ops (Version.relText [a, b]) false) ∧
    (c ≠ 0 → pyRewrite ⟨"python_full_version", ops, Version.relText [a, b, c], false, cst⟩ =
        leafText "python_full_version" ops (Version.relText [a, b, c]) false) :=
  ⟨fun hlg => pyRewrite_dropZero h hlg a b cst, fun hc => pyRewrite_keep h a b c hc cst⟩

example (cst : LeafC) :
    pyRewrite ⟨"python_full_version", ">=", "3.10.0", false, cst⟩ = "python_version >= \"3.10\"" ∧
    pyRewrite ⟨"python_full_version", ">=", "3.8.10", false, cst⟩ = "python_full_version >= \"3.8.10\"" ∧
    pyRewrite ⟨"python_full_version", "<", "3.10.0", false, cst⟩ = "python_version < \"3.10\"" := by
  have h1 : Version.relText [3, 10, 0] = "3.10.0" := by decide
  have h2 : Version.relText [3, 8, 10] = "3.8.10" := by decide
  have g1 := pyRewrite_dropZero (sop := .ge) (ops := ">=") (by decide) (Or.inr rfl) 3 10 cst
  have g2 := pyRewrite_keep (sop := .ge) (ops := ">=") (by decide) 3 8 10 (by decide) cst
  have g3 := pyRewrite_dropZero (sop := .lt) (ops := "<") (by decide) (Or.inl rfl) 3 10 cst
  rw [h1] at g1 g3; rw [h2] at g2
  exact ⟨g1.trans (by decide), g2.trans (by decide), g3.trans (by decide)⟩

end Poetry.C17
