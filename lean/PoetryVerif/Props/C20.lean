/-
C20 — results do not depend on thread scheduling or on call history.
Property theorems only; they quantify over ALL schedules (lists of (thread, action) choices, hence all
numbers of threads and all workloads).  Machines: `Model/Conc.lean`; invariants: `Proofs/Conc.lean`.

What is proved is the transparency of the BOOKKEEPING (memo caches, per-thread recursion stacks, lazy
parser slot).  Hypotheses that are NOT discharged in Lean, and that the correspondence run samples:
  (H1) the wrapped Python functions are functions of their arguments (`MemoSpec.f`), in particular
       `cnf`/`dnf`/`_merge_single_markers` return the same value whatever `detect_recursion` stack the
       calling thread has when the value is first cached (`StackPure` below);
  (H2) `==`/`hash` of the cache keys is a congruence for the wrapped function (`MemoSpec.Congr`; for
       markers and constraints this is property C18 + structural equality);
  (H3) each modelled step is atomic: one dict read / one dict write / one list operation under the GIL,
       and `functools.cache` behaves as `MState.step` (lookup; miss → call → store; exceptions not stored);
  (H4) `Lark.open` on a fixed grammar is deterministic and `Lark.parse` is thread-safe (`LazySpec`).
-/
import PoetryVerif.Proofs.Conc
import PoetryVerif.Proofs.ConcMarker
import PoetryVerif.Proofs.ConcTaint

set_option linter.unusedSimpArgs false
set_option linter.unusedVariables false

namespace Poetry.C20
open Poetry Poetry.Conc Poetry.Marker Poetry.EqHash

/-! ### memoisation -/

/-- **Cache invariant**, by induction over the schedule: in every reachable state every stored pair is
`(k, f k)`. -/
theorem memo_cache_invariant {K V : Type} (s : MemoSpec K V) (hc : s.Congr)
    (sched : List (Tid × MAct K)) (k : K) (v : V)
    (h : (k, v) ∈ (MState.run s MState.init sched).cache) : s.f k = .ok v :=
  (MInv.run s hc sched (MInv.init s)).cache_ok k v h

/-- **memo_transparent**: for a wrapped function `f` and key matching that is a congruence for `f`,
every call completed in any interleaving of any number of threads — hits, misses, duplicate computations,
overwriting stores, calls that raise — returned exactly `f k`. -/
theorem memo_transparent {K V : Type} (s : MemoSpec K V) (hc : s.Congr)
    (sched : List (Tid × MAct K)) (t : Tid) (k : K) (r : PyM V)
    (h : (t, k, r) ∈ (MState.run s MState.init sched).log) : r = s.f k :=
  (MInv.run s hc sched (MInv.init s)).log_ok (t, k, r) h

/-- a concrete key type with a non-trivial equivalence: keys are equal mod 4, hashed mod 2, and the
function only looks at the class -/
def exSpec : MemoSpec Nat Nat :=
  { f := fun k => if k % 4 = 3 then .error .value else .ok (k % 4 * 10), hash := fun k => k % 2,
    eq := fun a b => a % 4 == b % 4 }

theorem exSpec_congr : exSpec.Congr := by
  intro k' k h
  simp [MemoSpec.hit, exSpec] at h
  simp [exSpec, h.2]

/-- two threads both miss on equal keys (5 ≡ 1), both compute, both store (the second store overwrites
the slot and keeps the first key object); a third call hits; a raising call stores nothing -/
example :
    let st := MState.run exSpec MState.init
      [(1, .call 5), (2, .call 1), (1, .compute), (2, .compute), (2, .store), (1, .store), (3, .call 9),
       (3, .call 7), (3, .compute)]
    st.cache = [(1, 10)] ∧
    st.log = [(3, 7, .error .value), (3, 9, .ok 10), (1, 5, .ok 10), (2, 1, .ok 10)] := ⟨rfl, rfl⟩

/-- the congruence hypothesis (H2) is necessary: with a key match coarser than the function (here: only
the hash class is compared — "a cache keyed on something coarser than equality"), a later call gets the
value of a different key. -/
theorem memo_not_transparent_without_congr :
    ∃ (s : MemoSpec Nat Nat) (sched : List (Tid × MAct Nat)) (t : Tid) (k : Nat) (r : PyM Nat),
      (t, k, r) ∈ (MState.run s MState.init sched).log ∧ r ≠ s.f k :=
  ⟨{ f := fun k => .ok k, hash := fun k => k % 2, eq := fun _ _ => true },
    [(1, .call 2), (1, .compute), (1, .store), (2, .call 4)], 2, 4, .ok 2, List.mem_cons_self, by simp⟩

/-- **Full statement** for one memoised function `g` of the code (context `c0` = empty recursion stack,
fresh process): whatever context each step runs in, every completed call returned what a context-free
first call returns. -/
def C20_full_statement {C K V : Type} (g : C → K → PyM V) (hash : K → Nat) (eq : K → K → Bool) (c0 : C) : Prop :=
  ∀ (sched : List (C × Tid × MAct K)) (t : Tid) (k : K) (r : PyM V),
    (t, k, r) ∈ (runCtx g hash eq MState.init sched).log → r = g c0 k

/-- the proved part: the full statement under (H1) and (H2). -/
theorem C20_memo_partial {C K V : Type} (g : C → K → PyM V) (hash : K → Nat) (eq : K → K → Bool) (c0 : C)
    (hpure : StackPure g c0) (hc : (⟨g c0, hash, eq⟩ : MemoSpec K V).Congr) :
    C20_full_statement g hash eq c0 := by
  intro sched t k r h
  rw [runCtx_pure g hash eq c0 hpure] at h
  exact memo_transparent ⟨g c0, hash, eq⟩ hc _ t k r h

/-- (H1) is necessary: a wrapped function that answers differently under a non-empty stack poisons the
cache for every later caller. -/
theorem memo_needs_stack_purity :
    ∃ (g : Bool → Nat → PyM Nat), ¬ C20_full_statement g (fun k => k) (fun a b => a == b) false := by
  refine ⟨fun c k => if c then .ok 0 else .ok k, ?_⟩
  intro h
  have := h [(false, 1, .call 7), (true, 1, .compute), (false, 1, .store), (false, 2, .call 7)] 2 7 (.ok 0)
    List.mem_cons_self
  simp at this

/-! ### the concrete cached functions: (H2) discharged -/

/-- **memo_transparent for `cnf`** (concrete marker model, any fuel, any hash function): the cache is keyed by
`M.beq`/`mHash`; on coherent markers that is a congruence (C18: equal coherent markers are the same object), so
in every interleaving every `cnf` call through the cache returned what the cache-free `cnf` returns for its own
argument.  The wrapped function here is the context-free one (empty recursion stack); see `cnf_stack_irrelevant`
for when the real call agrees with it. -/
theorem memo_transparent_cnf (hashOf : HIn → Nat) (fuel : Nat)
    (sched : List (Tid × MAct CM)) (t : Tid) (k : CM) (r : PyM M)
    (h : (t, k, r) ∈ (MState.run (markerSpec hashOf (cnf fuel [])) MState.init sched).log) :
    r = cnf fuel [] k.1 :=
  memo_transparent _ (markerSpec_congr hashOf _) sched t k r h

theorem memo_transparent_dnf (hashOf : HIn → Nat) (fuel : Nat)
    (sched : List (Tid × MAct CM)) (t : Tid) (k : CM) (r : PyM M)
    (h : (t, k, r) ∈ (MState.run (markerSpec hashOf (dnf fuel [])) MState.init sched).log) :
    r = dnf fuel [] k.1 :=
  memo_transparent _ (markerSpec_congr hashOf _) sched t k r h

/-- `_merge_single_markers(marker1, marker2, merge_class)` (it takes no recursion stack at all) -/
theorem memo_transparent_merge (hashOf : List HIn → Nat)
    (sched : List (Tid × MAct CMerge)) (t : Tid) (k : CMerge) (r : PyM (Option M))
    (h : (t, k, r) ∈ (MState.run (mergeSpec hashOf) MState.init sched).log) :
    r = mergeLeaves k.1.1 k.1.2.1 k.1.2.2 :=
  memo_transparent _ (mergeSpec_congr hashOf) sched t k r h

/-- `parse_marker(text)` -/
theorem memo_transparent_parse_marker (hashOf : String → Nat)
    (sched : List (Tid × MAct String)) (t : Tid) (k : String) (r : PyM M)
    (h : (t, k, r) ∈ (MState.run (parseSpec hashOf) MState.init sched).log) :
    r = parseMarkerTop k :=
  memo_transparent _ (parseSpec_congr hashOf) sched t k r h

/-- **Why a cache keyed by version equality is unsound** (the seeded change `functools.cache` on
`first_devrelease`): `1.0 == 1.0.0` with equal hash, but `first_devrelease` keeps the spelling (`1.0.dev0` vs
`1.0.0.dev0`), so `Congr` FAILS and `memo_transparent`'s hypothesis cannot be met … -/
theorem firstDev_cache_not_congruent (hashOf : Version.Key → Nat) : ¬ (firstDevSpec hashOf).Congr := by
  intro h
  have h1 := h (Version.mk' 0 [1, 0] none none none none) (Version.mk' 0 [1, 0, 0] none none none none)
    (by
      have hk : (Version.mk' 0 [1, 0] none none none none).key = (Version.mk' 0 [1, 0, 0] none none none none).key := by
        rfl
      have he : Version.eqv (Version.mk' 0 [1, 0] none none none none) (Version.mk' 0 [1, 0, 0] none none none none) = true := by
        decide
      simp [MemoSpec.hit, firstDevSpec, hk, he])
  have h2 : (Version.mk' 0 [1, 0] none none none none).firstDevrelease.text ≠
      (Version.mk' 0 [1, 0, 0] none none none none).firstDevrelease.text := by decide
  simp only [firstDevSpec, Except.ok.injEq] at h1
  exact h2 (by rw [h1])

/-- … and a concrete schedule shows the damage: after `Version("1.0").first_devrelease()` was cached, another
thread asking for `Version("1.0.0").first_devrelease()` gets the object spelled `1.0.dev0`. -/
theorem firstDev_cache_history_dependent :
    ∃ (sched : List (Tid × MAct Version)) (t : Tid) (k r : Version),
      (t, k, .ok r) ∈ (MState.run (firstDevSpec (fun _ => 0)) MState.init sched).log ∧
      r.text ≠ k.firstDevrelease.text :=
  ⟨[(1, .call (Version.mk' 0 [1, 0] none none none none)), (1, .compute), (1, .store),
    (2, .call (Version.mk' 0 [1, 0, 0] none none none none))], 2, Version.mk' 0 [1, 0, 0] none none none none,
   (Version.mk' 0 [1, 0] none none none none).firstDevrelease, List.mem_cons_self, by decide⟩

/-- **The wildcard spelling cache** (seeded class: `functools.cache` on `_single_wildcard_range_string` keyed by the
`Version` pair).  `1.0.post1 == 1.0.0.post1` with equal hash, but the printed wildcard keeps the spelling of `first`
(`1.0.post1.*` vs `1.0.0.post1.*`, VPrint model of `_single_wildcard_range_string`): `Congr` FAILS … -/
theorem wildcard_text_cache_not_congruent (hashOf : Version.Key × Version.Key → Nat) :
    ¬ (wildcardSpec hashOf).Congr := by
  intro h
  have h1 := h (Version.mk' 0 [1, 0] none (some ⟨.post, 1⟩) none none, Version.mk' 0 [1, 0] none (some ⟨.post, 2⟩) none none)
    (Version.mk' 0 [1, 0, 0] none (some ⟨.post, 1⟩) none none, Version.mk' 0 [1, 0] none (some ⟨.post, 2⟩) none none)
    (by
      have hk : (Version.mk' 0 [1, 0] none (some ⟨.post, 1⟩) none none).key =
          (Version.mk' 0 [1, 0, 0] none (some ⟨.post, 1⟩) none none).key := by rfl
      have he : Version.eqv (Version.mk' 0 [1, 0] none (some ⟨.post, 1⟩) none none)
          (Version.mk' 0 [1, 0, 0] none (some ⟨.post, 1⟩) none none) = true := by decide
      have he2 : Version.eqv (Version.mk' 0 [1, 0] none (some ⟨.post, 2⟩) none none)
          (Version.mk' 0 [1, 0] none (some ⟨.post, 2⟩) none none) = true := by decide
      simp [MemoSpec.hit, wildcardSpec, hk, he, he2])
  have h2 : singleWildcardRangeString (Version.mk' 0 [1, 0] none (some ⟨.post, 1⟩) none none)
      (Version.mk' 0 [1, 0] none (some ⟨.post, 2⟩) none none) = .ok "1.0.post1.*" := by rfl
  have h3 : singleWildcardRangeString (Version.mk' 0 [1, 0, 0] none (some ⟨.post, 1⟩) none none)
      (Version.mk' 0 [1, 0] none (some ⟨.post, 2⟩) none none) = .ok "1.0.0.post1.*" := by rfl
  simp only [wildcardSpec, h2, h3] at h1
  simp at h1

/-- … and the schedule that shows it: after `==1.0.post1.*` was printed, printing `==1.0.0.post1.*` through the cache
yields the other spelling. -/
theorem wildcard_text_cache_history_dependent :
    ∃ (sched : List (Tid × MAct (Version × Version))) (t : Tid) (k : Version × Version) (r : String),
      (t, k, .ok r) ∈ (MState.run (wildcardSpec (fun _ => 0)) MState.init sched).log ∧
      singleWildcardRangeString k.1 k.2 = .ok "1.0.0.post1.*" ∧ r = "1.0.post1.*" :=
  ⟨[(1, .call (Version.mk' 0 [1, 0] none (some ⟨.post, 1⟩) none none, Version.mk' 0 [1, 0] none (some ⟨.post, 2⟩) none none)),
    (1, .compute), (1, .store),
    (2, .call (Version.mk' 0 [1, 0, 0] none (some ⟨.post, 1⟩) none none, Version.mk' 0 [1, 0] none (some ⟨.post, 2⟩) none none))],
   2, (Version.mk' 0 [1, 0, 0] none (some ⟨.post, 1⟩) none none, Version.mk' 0 [1, 0] none (some ⟨.post, 2⟩) none none),
   "1.0.post1.*", List.mem_cons_self, by rfl, rfl⟩

/-! ### the SPDX licence table -/

/-- the cache the code has — `lru_cache` on the argument-less `_load_licenses()` — is transparent in every
interleaving (one key; several threads may all load the table), and `license_by_id` only READS it (`dict.get`). -/
theorem memo_transparent_load_licenses (load : PyM LicTable)
    (sched : List (Tid × MAct Unit)) (t : Tid) (r : PyM LicTable)
    (h : (t, (), r) ∈ (MState.run (loadLicensesSpec load) MState.init sched).log) : r = load :=
  memo_transparent _ (loadLicensesSpec_congr load) sched t () r h

/-- **The seeded class "register custom licences under the lower-cased key"** (`licenses.setdefault(identifier.lower(),
License(identifier, …))`) turns the table into a memo cache of `license_by_id` whose key match (equal lower-cased
text) is NOT a congruence: a custom licence keeps the spelling of the identifier it was built from. -/
theorem license_setdefault_not_congruent (hashOf : List Char → Nat) :
    ¬ (licenseSetdefaultSpec [("mit".toList, ("MIT", "MIT License", true, false))] hashOf).Congr := by
  intro h
  have h1 := h "Acme Licence" "ACME LICENCE" (by
    have : lowerStr "Acme Licence" = lowerStr "ACME LICENCE" := by decide
    simp [MemoSpec.hit, licenseSetdefaultSpec, this])
  have h2 : licenseById [("mit".toList, ("MIT", "MIT License", true, false))] "Acme Licence" =
      .ok ("Acme Licence", "Acme Licence", false, false) := by rfl
  have h3 : licenseById [("mit".toList, ("MIT", "MIT License", true, false))] "ACME LICENCE" =
      .ok ("ACME LICENCE", "ACME LICENCE", false, false) := by rfl
  simp only [licenseSetdefaultSpec, h2, h3] at h1
  simp at h1

/-- … and the call history that shows it: after a project with licence text `Acme Licence` was handled, the
lookup for `ACME LICENCE` returns the first project's licence object; a known SPDX id is unaffected. -/
theorem license_setdefault_history_dependent :
    let spec := licenseSetdefaultSpec [("mit".toList, ("MIT", "MIT License", true, false))] (fun _ => 0)
    let st := MState.run spec MState.init
      [(1, .call "Acme Licence"), (1, .compute), (1, .store), (1, .call "ACME LICENCE"),
       (1, .call "mit"), (1, .compute), (1, .store)]
    st.log = [(1, "mit", .ok ("MIT", "MIT License", true, false)),
              (1, "ACME LICENCE", .ok ("Acme Licence", "Acme Licence", false, false)),
              (1, "Acme Licence", .ok ("Acme Licence", "Acme Licence", false, false))] ∧
    spec.f "ACME LICENCE" = .ok ("ACME LICENCE", "ACME LICENCE", false, false) := by
  exact ⟨by rfl, by rfl⟩

/-! ### (H1) characterised for the concrete simplifier -/

/-- **Stack irrelevance.**  Run `cnf` with the frames the calling thread already has (`frn`) kept apart from the frames
this call pushes itself (`own`); if no `detect_recursion` test is ever answered by one of the caller's frames (the
taint-tracking run of Model/ConcTaint.lean does not end in the taint mark), then the model's `cnf` returns the same
value with the caller's frames on the stack and without them.  By induction on the fuel over the whole mutual block
(`taintAt`), for every fuel. -/
theorem cnf_stack_irrelevant (fuel : Nat) (own frn : Stack) (m : M)
    (h : cnfT fuel own frn m ≠ .error taint) : cnf fuel (own ++ frn) m = cnf fuel own m := by
  have h1 := (taintAt fuel).cnf own frn (own ++ frn) m (between_append own frn)
  have h2 := (taintAt fuel).cnf own frn own m (between_own own frn)
  rcases h1 with h1 | h1
  · exact absurd h1 h
  · rcases h2 with h2 | h2
    · exact absurd h2 h
    · rw [← h1, ← h2]

theorem dnf_stack_irrelevant (fuel : Nat) (own frn : Stack) (m : M)
    (h : dnfT fuel own frn m ≠ .error taint) : dnf fuel (own ++ frn) m = dnf fuel own m := by
  have h1 := (taintAt fuel).dnf own frn (own ++ frn) m (between_append own frn)
  have h2 := (taintAt fuel).dnf own frn own m (between_own own frn)
  rcases h1 with h1 | h1
  · exact absurd h1 h
  · rcases h2 with h2 | h2
    · exact absurd h2 h
    · rw [← h1, ← h2]

/-- the guarded functions themselves (`intersection(*ms)`, `union(*ms)`) -/
theorem intersection_stack_irrelevant (fuel : Nat) (own frn : Stack) (ms : List M)
    (h : intersectionFT fuel own frn ms ≠ .error taint) :
    intersectionF fuel (own ++ frn) ms = intersectionF fuel own ms := by
  have h1 := (taintAt fuel).interF own frn (own ++ frn) ms (between_append own frn)
  have h2 := (taintAt fuel).interF own frn own ms (between_own own frn)
  rcases h1 with h1 | h1
  · exact absurd h1 h
  · rcases h2 with h2 | h2
    · exact absurd h2 h
    · rw [← h1, ← h2]

theorem union_stack_irrelevant (fuel : Nat) (own frn : Stack) (ms : List M)
    (h : unionFT fuel own frn ms ≠ .error taint) :
    unionF fuel (own ++ frn) ms = unionF fuel own ms := by
  have h1 := (taintAt fuel).uniF own frn (own ++ frn) ms (between_append own frn)
  have h2 := (taintAt fuel).uniF own frn own ms (between_own own frn)
  rcases h1 with h1 | h1
  · exact absurd h1 h
  · rcases h2 with h2 | h2
    · exact absurd h2 h
    · rw [← h1, ← h2]

/-- `StackPure` is genuinely false for the guarded functions: the same arguments under a stack that already holds
them raise RecursionError (which the enclosing `except RecursionError` turns into a different result). -/
theorem stackPure_false_in_general :
    intersectionF 1 [(false, [])] [] = .error .recursion ∧ intersectionF 1 [] [] ≠ .error .recursion ∧
    intersectionFT 1 [] [(false, [])] [] = .error taint := by
  refine ⟨?_, ?_, ?_⟩
  · rw [intersectionF.eq_def]; simp [Stack.has, M.beqList]
  · rw [intersectionF.eq_def]; simp only []; rw [dnf.eq_def]; simp [Stack.has]
  · rw [intersectionFT.eq_def]; simp [Stack.has, M.beqList, taint]

/-- **memo_transparent for the `cnf` cache as the code runs it**: the wrapped function reads the calling thread's
recursion stack (the context of each step); keys are coherent markers.  If, for every stack that occurs and every key
that is called, the taint-tracking run is taint-free (in particular: every call made from an empty stack), then in
every interleaving every completed call returned the context-free `cnf fuel [] k`.  No purity hypothesis, no
congruence hypothesis. -/
theorem memo_transparent_cnf_untainted (hashOf : HIn → Nat) (fuel : Nat)
    (sched : List (Stack × Tid × MAct CM))
    (hfree : ∀ e, e ∈ sched → ∀ e', e' ∈ sched → ∀ k, e'.2.2 = .call k → cnfT fuel [] e.1 k.1 ≠ .error taint)
    (t : Tid) (k : CM) (r : PyM M)
    (h : (t, k, r) ∈ (runCtx (fun stk (k : CM) => cnf fuel stk k.1) (fun k => hashOf (mHash k.1))
        (fun a b => M.beq a.1 b.1) MState.init sched).log) :
    r = cnf fuel [] k.1 := by
  rw [runCtx_pure_on (fun stk (k : CM) => cnf fuel stk k.1) _ _ [] (fun k => ∀ e, e ∈ sched → cnfT fuel [] e.1 k.1 ≠ .error taint)
    sched (fun e' he' k hk e he => hfree e he e' he' k hk)
    (fun e he k hP => by simpa using cnf_stack_irrelevant fuel [] e.1 k.1 (hP e he))
    MState.init (by intro t k hk; simp [MState.init, TMap.get] at hk)] at h
  exact memo_transparent_cnf hashOf fuel _ t k r h

theorem memo_transparent_dnf_untainted (hashOf : HIn → Nat) (fuel : Nat)
    (sched : List (Stack × Tid × MAct CM))
    (hfree : ∀ e, e ∈ sched → ∀ e', e' ∈ sched → ∀ k, e'.2.2 = .call k → dnfT fuel [] e.1 k.1 ≠ .error taint)
    (t : Tid) (k : CM) (r : PyM M)
    (h : (t, k, r) ∈ (runCtx (fun stk (k : CM) => dnf fuel stk k.1) (fun k => hashOf (mHash k.1))
        (fun a b => M.beq a.1 b.1) MState.init sched).log) :
    r = dnf fuel [] k.1 := by
  rw [runCtx_pure_on (fun stk (k : CM) => dnf fuel stk k.1) _ _ [] (fun k => ∀ e, e ∈ sched → dnfT fuel [] e.1 k.1 ≠ .error taint)
    sched (fun e' he' k hk e he => hfree e he e' he' k hk)
    (fun e he k hP => by simpa using dnf_stack_irrelevant fuel [] e.1 k.1 (hP e he))
    MState.init (by intro t k hk; simp [MState.init, TMap.get] at hk)] at h
  exact memo_transparent_dnf hashOf fuel _ t k r h

/-- `parse_marker(text)` made while the thread already has frames `stk` on its lists (it is called from inside
`_merge_single_markers` and `invert`): if the top-level `union(*sub_markers)` run is taint-free, the result is that of
a call from a quiescent thread. -/
theorem parse_marker_stack_irrelevant (stk : Stack) (text : String)
    (h : parseMarkerT stk text ≠ .error taint) : parseMarkerTopStk stk text = parseMarkerTop text := by
  rw [← parseMarkerTopStk_nil]
  unfold parseMarkerTopStk
  have : parseMarkerStk stk text = parseMarkerStk [] text := by
    unfold parseMarkerStk
    unfold parseMarkerT at h
    by_cases h1 : (text == "<empty>") = true
    · simp [h1]
    · by_cases h2 : (text.isEmpty || text == "*") = true
      · simp [h1, h2]
      · simp only [h1, h2, Bool.false_eq_true, if_false] at h ⊢
        cases hs : parseText text with
        | error e => simp [bind, Except.bind]
        | ok syn =>
          cases hc : compactSubMarkers syn with
          | error e => simp [bind, Except.bind, hc]
          | ok subs =>
            simp only [hs, hc, bind, Except.bind] at h ⊢
            simpa using union_stack_irrelevant defaultFuel [] stk subs h
  rw [this]

/-- **memo_transparent for the `parse_marker` cache as the code runs it** (keyed by the text; the wrapped function reads
the calling thread's recursion stack): whenever the taint-tracking run is taint-free for every stack that occurs and
every text that is called, every completed call in every interleaving returned `parse_marker(text)` of a quiescent
thread. -/
theorem memo_transparent_parse_marker_untainted (hashOf : String → Nat)
    (sched : List (Stack × Tid × MAct String))
    (hfree : ∀ e, e ∈ sched → ∀ e', e' ∈ sched → ∀ k, e'.2.2 = .call k → parseMarkerT e.1 k ≠ .error taint)
    (t : Tid) (k : String) (r : PyM M)
    (h : (t, k, r) ∈ (runCtx (fun stk text => parseMarkerTopStk stk text) hashOf (fun a b => a == b)
        MState.init sched).log) :
    r = parseMarkerTop k := by
  rw [runCtx_pure_on (fun stk text => parseMarkerTopStk stk text) _ _ []
    (fun k => ∀ e, e ∈ sched → parseMarkerT e.1 k ≠ .error taint)
    sched (fun e' he' k hk e he => hfree e he e' he' k hk)
    (fun e he k hP => by
      simp only [parseMarkerTopStk_nil]
      exact parse_marker_stack_irrelevant e.1 k (hP e he))
    MState.init (by intro t k hk; simp [MState.init, TMap.get] at hk)] at h
  have hspec : (⟨fun text => parseMarkerTopStk [] text, hashOf, fun a b => a == b⟩ : MemoSpec String M) =
      parseSpec hashOf := rfl
  rw [hspec] at h
  exact memo_transparent_parse_marker hashOf _ t k r h

/-! ### per-thread recursion stacks -/

/-- **stack_noninterference**: at any point of any interleaving, thread `t`'s `call_args` list and the
outcome of each of `t`'s touches (`pushed`, `raised` = RecursionError, `popped`) are exactly those of `t`
executing its own touches alone from the empty list.  Hence RecursionError is raised in the interleaved
run iff it is raised in the solo run, touch by touch. -/
theorem stack_noninterference {A : Type} (aeq : A → A → Bool) (sched : List (Tid × GAct A)) (t : Tid) :
    (GState.run aeq GState.init sched).stacks.get t [] = (runT aeq [] (proj t sched)).1 ∧
    outsOf t (GState.run aeq GState.init sched).outs = (runT aeq [] (proj t sched)).2 := by
  have h := run_proj aeq sched GState.init t
  simpa [GState.init, TMap.get, outsOf] using h

/-- **idle threads have empty stacks**: if what thread `t` has executed so far is a complete piece of
`try/finally`-structured code (`emit`), in particular nothing at all, then its list is empty and it never
popped an empty list — whatever the other threads are in the middle of, whatever was raised. -/
theorem idle_stack_empty {A : Type} (aeq : A → A → Bool) (sched : List (Tid × GAct A)) (t : Tid)
    (c : Code A) (hdone : proj t sched = (emit aeq [] c).1) :
    (GState.run aeq GState.init sched).stacks.get t [] = [] ∧
    GOut.popEmpty ∉ outsOf t (GState.run aeq GState.init sched).outs := by
  have h := stack_noninterference aeq sched t
  have hr := emit_restores aeq c []
  rw [h.1, h.2, hdone]
  exact hr

/-- every thread quiescent ⇒ every list empty (the post-condition the harness checks on the real
`call_args` dictionaries) -/
theorem quiescent_all_empty {A : Type} (aeq : A → A → Bool) (sched : List (Tid × GAct A))
    (prog : Tid → Code A) (hdone : ∀ t, proj t sched = (emit aeq [] (prog t)).1) (t : Tid) :
    (GState.run aeq GState.init sched).stacks.get t [] = [] :=
  (idle_stack_empty aeq sched t (prog t) (hdone t)).1

/-- thread 1 runs `intersection(x)` whose body re-enters with the same arguments under a `try` (raises,
caught) while thread 2 is in the middle of a call with the SAME arguments: no interference. -/
example :
    let c1 : Code Nat := .call 7 (.try_ (.call 7 .done .done) .done) .done
    let s : List (Tid × GAct Nat) := [(2, .enter 7), (1, .enter 7), (1, .enter 7), (2, .enter 8), (1, .exit)]
    proj 1 s = (emit (· == ·) [] c1).1 ∧
    (GState.run (· == ·) GState.init s).stacks = [(2, [7, 8]), (1, [])] ∧
    outsOf 1 (GState.run (· == ·) GState.init s).outs = [.pushed, .raised, .popped] := ⟨rfl, rfl, rfl⟩

/-- **shared_stack_interferes** — the seeded class "one recursion stack for all threads" (closure-level list, class
attribute of a `threading.local` subclass, thread id read once at import; machine `GState.runShared`): a concrete
2-thread schedule of well-bracketed code in which thread 2's call raises RecursionError although its solo run does not
— thread 1 is inside `intersection(7)` when thread 2 enters `intersection(7)`.  With per-thread lists
(`stack_noninterference`) this cannot happen. -/
theorem shared_stack_interferes :
    ∃ (sched : List (Tid × GAct Nat)) (c1 c2 : Code Nat),
      proj 1 sched = (emit (· == ·) [] c1).1 ∧ proj 2 sched = (emit (· == ·) [] c2).1 ∧
      -- solo, and in the per-thread machine, thread 2 pushes
      (runT (· == ·) [] (proj 2 sched)).2 = [.pushed, .popped] ∧
      outsOf 2 (GState.run (· == ·) GState.init sched).outs = [.pushed, .popped] ∧
      -- with the shared list it raises, and then even pops thread 1's frame
      outsOf 2 (GState.runShared (· == ·) GState.init sched).outs = [.raised, .popped] ∧
      outsOf 1 (GState.runShared (· == ·) GState.init sched).outs = [.pushed, .popEmpty] :=
  ⟨[(1, .enter 7), (2, .enter 7), (2, .exit), (1, .exit)], .call 7 .done .done, .call 7 .done .done,
   by rfl, by rfl, by rfl, by rfl, by rfl, by rfl⟩

/-! ### lazily built parser -/

/-- **lazy_init_idempotent**: every parse completed in any interleaving — including several threads all
finding the slot empty, all building, and overwriting each other's assignment — used `build grammar`, and
no parse ever found the slot empty (`AttributeError` on `None.parse`). -/
theorem lazy_init_idempotent {G P T R : Type} (s : LazySpec G P T R)
    (sched : List (Tid × LAct T)) (t : Tid) (x : T) (r : PyM R)
    (h : (t, x, r) ∈ (LState.run s LState.init sched).log) :
    r = s.parseWith (s.build s.grammar) x :=
  (LInv.run s sched (LInv.init s)).log_ok (t, x, r) h

/-- the slot only ever holds `build grammar` -/
theorem lazy_slot_invariant {G P T R : Type} (s : LazySpec G P T R)
    (sched : List (Tid × LAct T)) (p : P) (h : (LState.run s LState.init sched).slot = some p) :
    p = s.build s.grammar :=
  (LInv.run s sched (LInv.init s)).slot_ok p h

def exLazy : LazySpec Nat Nat Nat Nat :=
  { grammar := 3, build := fun g => g * 100, parseWith := fun p x => if x = 0 then .error .value else .ok (p + x) }

/-- both threads see the empty slot and both build; thread 2 parses between the two assignments -/
example :
    let st := LState.run exLazy LState.init
      [(1, .test 5), (2, .test 6), (2, .build), (1, .build), (2, .assign), (2, .use), (1, .assign), (1, .use),
       (3, .test 0), (3, .use)]
    st.slot = some 300 ∧ st.log = [(3, 0, .error .value), (1, 5, .ok 305), (2, 6, .ok 306)] := ⟨rfl, rfl⟩

/-! ### history -/

/-- **history_independent**: after ANY prefix (any interleaving of any calls by any threads, completed or
not), a call made by an idle thread returns what the same call returns in a fresh process — for a
memoised function, for a lazily built parser, and (outcomes of every touch, RecursionError included) for a
piece of guarded code run by a thread that has completed its earlier guarded code. -/
theorem history_independent_memo {K V : Type} (s : MemoSpec K V) (hc : s.Congr)
    (pre : List (Tid × MAct K)) (t : Tid) (k : K)
    (hidle : (MState.run s MState.init pre).pc.get t .idle = .idle) :
    (MState.run s (MState.run s MState.init pre) (MState.soloCall t k)).log.head? = some (t, k, s.f k) ∧
    (MState.run s MState.init (MState.soloCall t k)).log.head? = some (t, k, s.f k) := by
  constructor
  · obtain ⟨r, hr⟩ := soloCall_log s (MState.run s MState.init pre) t k hidle
    have hrun : MState.run s (MState.run s MState.init pre) (MState.soloCall t k) =
        MState.run s MState.init (pre ++ MState.soloCall t k) := by simp [MState.run]
    have := memo_transparent s hc (pre ++ MState.soloCall t k) t k r (by rw [← hrun, hr]; simp)
    rw [hr, this]; rfl
  · obtain ⟨r, hr⟩ := soloCall_log s MState.init t k (by simp [MState.init, TMap.get])
    have := memo_transparent s hc (MState.soloCall t k) t k r (by rw [hr]; simp)
    rw [hr, this]; rfl

theorem history_independent_lazy {G P T R : Type} (s : LazySpec G P T R)
    (pre : List (Tid × LAct T)) (t : Tid) (x : T)
    (hidle : (LState.run s LState.init pre).pc.get t .idle = .idle) :
    (LState.run s (LState.run s LState.init pre) (LState.soloParse t x)).log.head? =
      some (t, x, s.parseWith (s.build s.grammar) x) ∧
    (LState.run s LState.init (LState.soloParse t x)).log.head? =
      some (t, x, s.parseWith (s.build s.grammar) x) := by
  constructor
  · obtain ⟨r, hr⟩ := soloParse_log s (LState.run s LState.init pre) t x hidle
    have hrun : LState.run s (LState.run s LState.init pre) (LState.soloParse t x) =
        LState.run s LState.init (pre ++ LState.soloParse t x) := by simp [LState.run]
    have := lazy_init_idempotent s (pre ++ LState.soloParse t x) t x r (by rw [← hrun, hr]; simp)
    rw [hr, this]; rfl
  · obtain ⟨r, hr⟩ := soloParse_log s LState.init t x (by simp [LState.init, TMap.get])
    have := lazy_init_idempotent s (LState.soloParse t x) t x r (by rw [hr]; simp)
    rw [hr, this]; rfl

theorem history_independent_guard {A : Type} (aeq : A → A → Bool) (pre : List (Tid × GAct A)) (t : Tid)
    (c0 c : Code A) (hdone : proj t pre = (emit aeq [] c0).1) :
    let evs := (emit aeq [] c).1
    let after := GState.run aeq (GState.run aeq GState.init pre) (evs.map (fun e => (t, e)))
    let fresh := GState.run aeq GState.init (evs.map (fun e => (t, e)))
    outsOf t after.outs = outsOf t (GState.run aeq GState.init pre).outs ++ outsOf t fresh.outs ∧
    after.stacks.get t [] = [] := by
  intro evs after fresh
  have hproj : proj t (evs.map (fun e => (t, e))) = evs := by
    induction evs with
    | nil => rfl
    | cons e es ih => simp [proj] at ih ⊢; exact ih
  have hpre := idle_stack_empty aeq pre t c0 hdone
  have h1 := run_proj aeq (evs.map (fun e => (t, e))) (GState.run aeq GState.init pre) t
  have h2 := stack_noninterference aeq (evs.map (fun e => (t, e))) t
  rw [hproj, hpre.1] at h1
  rw [hproj] at h2
  refine ⟨?_, ?_⟩
  · show outsOf t (GState.run aeq (GState.run aeq GState.init pre) _).outs = _
    rw [h1.2, h2.2]
  · show (GState.run aeq (GState.run aeq GState.init pre) _).stacks.get t [] = _
    rw [h1.1]; exact (emit_restores aeq c []).1

end Poetry.C20
