/-
C18 — Equal values hash equally and equality is an equivalence.
Property theorems only (helper lemmas in Proofs/EqHash*.lean).  `==` is the model of `__eq__` of each type
(`Version.eqv`, `RC.eqv`, `Marker.VC.eqv`, structural `==` on `Generic.GC`, `Marker.M.beq`); the hash is modelled
by its input (`EqHash.verHash`, `vcHash`, `gcHash`, `mHash` : a tree of the primitive objects handed to Python's
`hash`, of tuple construction and of `^`): equal inputs give equal hashes whatever `hash` is (`hash_value_eq`).

Where the unrestricted statement is false of model and code the theorem carries the reachability guard and the
counterexample is proved beside it:
* `Version == VersionRange(min = max = v)` holds with different hashes, and is not even symmetric when only one end
  is inclusive → guard `vcNonDegenerate` (no range whose two ends compare equal).  Neither the parser nor the
  algebra builds such a range: `no_degenerate_range` (intersect), `no_degenerate_range_union*`,
  `no_degenerate_range_parse` — so the guard is discharged for everything reachable (`parsed_constraint_*`).
  (Before repo fix 583640d `parse_constraint("1.0 || 1.0+local")` WAS a degenerate range; kept as a regression example.)
* markers: `SingleMarker.__eq__` compares `(name, operator, value, swapped)` only, so interchangeability needs the
  invariant that the stored constraint is the one the constructor derives from that key (`mCoherent`).
-/
import PoetryVerif.Proofs.EqHashAllows
import PoetryVerif.Proofs.EqHashMarker
import PoetryVerif.Proofs.EqHashDep
import PoetryVerif.Proofs.EqHashParse
import PoetryVerif.Proofs.EqHashAlgOps
import PoetryVerif.Proofs.EqHashUnionAllows
import PoetryVerif.Proofs.EqHashDomain
import PoetryVerif.Proofs.EqHashRelAllows
import PoetryVerif.Proofs.VersionParse
import PoetryVerif.Proofs.VRangeSpecSet
import PoetryVerif.Proofs.VRangeTextU

set_option linter.unusedSimpArgs false
set_option linter.unusedVariables false

namespace Poetry.C18
open Poetry Poetry.Version Poetry.Marker Poetry.Generic Poetry.EqHash

/-! ## hashing: equal inputs, equal values -/

/-- whatever Python's `hash` does on the primitive inputs, equal hash inputs give equal hash values -/
theorem hash_value_eq (H : HFun) (x y : HIn) (h : x = y) : x.eval H = y.eval H := by rw [h]

/-- `VersionUnion.__hash__` is `reduce(xor, …)`: the value does not depend on the order of the members -/
theorem union_hash_order_independent (H : HFun) (rs rs' : List RC) (h : rs.Perm rs') :
    (vcHash (.union rs)).eval H = (vcHash (.union rs')).eval H := by
  simp only [vcHash, HIn.eval, evalList_eq_map, List.map_map]
  exact foldl_xor_perm (h.map _) 0

/-! ## versions -/

theorem version_beq_refl (a : Version) : Version.eqv a a = true := eqv_refl a
theorem version_beq_symm (a b : Version) (h : Version.eqv a b = true) : Version.eqv b a = true := eqv_symm h
theorem version_beq_trans (a b c : Version) (h1 : Version.eqv a b = true) (h2 : Version.eqv b c = true) :
    Version.eqv a c = true := eqv_trans h1 h2

/-- `==` and `hash` look at the same thing (`_compare_key`): equal iff equal hash input -/
theorem version_beq_hash (a b : Version) : Version.eqv a b = true ↔ verHash a = verHash b := by
  rw [eqv_iff_key]; simp [verHash]

/-- equal versions are interchangeable: every range constraint and every single-version constraint treats them
alike, as bound (`rc_allows_congr`) and as candidate -/
theorem version_beq_interchangeable (a b : Version) (ha : a.wf = true) (hb : b.wf = true)
    (h : Version.eqv a b = true) :
    (∀ v, a.allows v = b.allows v) ∧ (∀ c, Version.cmp a c = Version.cmp b c) ∧ (∀ c, Version.cmp c a = Version.cmp c b) ∧
      a.isUnstable = b.isUnstable ∧ a.isPostrelease = b.isPostrelease ∧ a.isLocal = b.isLocal := by
  have hk := (eqv_iff_key a b).1 h
  have hc := (cmp_eq_iff_key a b).2 hk
  exact ⟨version_allows_congr ha hb h, cmp_congr_left hc, fun c => cmp_congr_right hc c,
    isUnstable_of_key_eq hk, isPost_of_key_eq hk, isLocal_of_key_eq ha hb hk⟩

example : ∃ a b, Version.parse "1.0+L" = .ok a ∧ Version.parse "v1.0.0+l" = .ok b ∧ Version.eqv a b = true ∧
    a.wf = true ∧ b.wf = true ∧ a ≠ b :=
  ⟨_, _, rfl, rfl, by decide, by decide, by decide, by decide⟩

/-- re-parsing the text: the C03 obligation (the normal form re-parses to an equal version) in its stated shape
gives the same hash input -/
theorem version_reparse_eq (v v' : Version) (hrt : Version.parse v.toString = .ok v')
    (heq : Version.cmp v v' = .eq) : Version.eqv v v' = true ∧ verHash v = verHash v' := by
  have h : Version.eqv v v' = true := by unfold Version.eqv; rw [heq]; rfl
  exact ⟨h, (version_beq_hash v v').1 h⟩

/-! ## version constraints -/

theorem constraint_beq_refl (c : VC) : Marker.VC.eqv c c = true := vc_eqv_refl c

theorem constraint_beq_symm (a b : VC) (ha : vcNonDegenerate a = true) (hb : vcNonDegenerate b = true)
    (h : Marker.VC.eqv a b = true) : Marker.VC.eqv b a = true := vc_eqv_symm ha hb h

theorem constraint_beq_trans (a b c : VC) (ha : vcNonDegenerate a = true) (hb : vcNonDegenerate b = true)
    (hc : vcNonDegenerate c = true) (h1 : Marker.VC.eqv a b = true) (h2 : Marker.VC.eqv b c = true) :
    Marker.VC.eqv a c = true := vc_eqv_trans ha hb hc h1 h2

theorem constraint_beq_hash (a b : VC) (ha : vcNonDegenerate a = true) (hb : vcNonDegenerate b = true)
    (h : Marker.VC.eqv a b = true) : vcHash a = vcHash b := vcHash_eq ha hb h

def exRange1 : VRange := ⟨some (Version.mk' 0 [1] none none none none), some (Version.mk' 0 [2] none none none none), true, false⟩
def exRange2 : VRange := ⟨some (Version.mk' 0 [1, 0] none none none none), some (Version.mk' 0 [2, 0, 0] none none none none), true, false⟩

example : vcNonDegenerate (.single (.rng exRange1)) = true ∧ vcNonDegenerate (.single (.rng exRange2)) = true ∧
    Marker.VC.eqv (.single (.rng exRange1)) (.single (.rng exRange2)) = true ∧ exRange1 ≠ exRange2 := by
  refine ⟨by decide, by decide, by decide, by decide⟩

/-- **equal ranges / versions admit the same versions**, on every probe (regular or not) -/
theorem constraint_beq_interchangeable_member (a b : RC) (ha : rcNonDegenerate a = true) (hb : rcNonDegenerate b = true)
    (hwa : a.wfB) (hwb : b.wfB) (h : RC.eqv a b = true) (v : Version) : a.allows v = b.allows v :=
  rc_allows_congr ha hb hwa hwb h v

/-- … and so do equal constraints: for `Version`, `VersionRange`, `EmptyConstraint` through `allows`; for a
`VersionUnion` member by member (`allowsPlain`, what `VersionUnion.allows` computes except for its
`excludes_single_version` shortcut) -/
theorem constraint_beq_interchangeable_partial (a b : VC) (ha : vcNonDegenerate a = true) (hb : vcNonDegenerate b = true)
    (hwa : a.wfB) (hwb : b.wfB) (h : Marker.VC.eqv a b = true) (v : Version) :
    a.allowsPlain v = b.allowsPlain v ∧ (a.notUnion → b.notUnion → a.allows v = b.allows v) := by
  have plain : a.allowsPlain v = b.allowsPlain v := by
    cases a with
    | empty => cases b <;> simp_all [Marker.VC.eqv, VC.isEmpty, VC.allowsPlain, VC.flatten]
    | single x =>
      cases b with
      | empty => simp [Marker.VC.eqv, VC.isEmpty] at h
      | union bs => simp [Marker.VC.eqv] at h
      | single y =>
        simp only [VC.allowsPlain, VC.flatten, List.any_cons, List.any_nil, Bool.or_false]
        exact rc_allows_congr ha hb (hwa x (by simp [VC.flatten])) (hwb y (by simp [VC.flatten])) h v
    | union as =>
      cases b with
      | empty => simp [Marker.VC.eqv, VC.isEmpty] at h
      | single y => simp [Marker.VC.eqv] at h
      | union bs =>
        rw [vc_eqv_union] at h
        exact rcList_any_allows_congr ha hb (fun c hc => hwa c (by simpa [VC.flatten] using hc))
          (fun c hc => hwb c (by simpa [VC.flatten] using hc)) h v
  exact ⟨plain, fun hna hnb => by rw [VC.allows_of_notUnion a v hna, VC.allows_of_notUnion b v hnb, plain]⟩

/-- **equal constraints admit the same versions through `allows` itself, unions included**, in the regular
setting: both constraints are well-formed (what `VersionUnion.of` establishes: members well-formed and inhabited,
sorted, consecutive ones separated) over bounds that are mutually regular (any two equal or of different
releases) and not local builds (`RegB B`).  There `VersionUnion.allows` never raises and its
`excludes_single_version` shortcut agrees with the member-by-member answer (`VC.allows_of_reg`), so the
member-level congruence carries over. -/
theorem constraint_beq_interchangeable_regular {B : List Version} (hB : RegB B) (a b : VC)
    (ha : vcNonDegenerate a = true) (hb : vcNonDegenerate b = true) (hwa : a.WF) (hwb : b.WF)
    (hma : ∀ x ∈ a.flatten, RegMember B x) (hmb : ∀ x ∈ b.flatten, RegMember B x)
    (h : Marker.VC.eqv a b = true) (v : Version) : a.allows v = b.allows v := by
  have wfb : ∀ c : VC, (∀ x ∈ c.flatten, RegMember B x) → c.wfB := by
    intro c hc x hx
    have hw := (hc x hx).1
    cases x with
    | ver y => intro e he; simp [RC.bounds_ver] at he; subst he; exact hw
    | rng r => exact hw.1
  rw [VC.allows_of_reg hB a hwa hma v, VC.allows_of_reg hB b hwb hmb v,
    (constraint_beq_interchangeable_partial a b ha hb (wfb a hma) (wfb b hmb) h v).1]

/-- the hypotheses are satisfiable: `!=1.0` and `!=1.0.0` (`<1.0 || >1.0` against `<1.0.0 || >1.0.0`), equal,
not identical, both well-formed over the regular bound set `{1.0, 1.0.0}` -/
example : let V := Version.mk' 0 [1, 0] none none none none
    let W := Version.mk' 0 [1, 0, 0] none none none none
    let a := VC.union [.rng ⟨none, some V, false, false⟩, .rng ⟨some V, none, false, false⟩]
    let b := VC.union [.rng ⟨none, some W, false, false⟩, .rng ⟨some W, none, false, false⟩]
    RegB [V, W] ∧ a.WF ∧ b.WF ∧ (∀ x ∈ a.flatten, RegMember [V, W] x) ∧ (∀ x ∈ b.flatten, RegMember [V, W] x) ∧
    Marker.VC.eqv a b = true ∧ a ≠ b := by
  intro V W a b
  have h1 := twoSided_union_wf (B := [V, W]) V V (by decide) (by decide) (le_refl _) false (fun h => by cases h)
    (by simp) (by simp)
  have h2 := twoSided_union_wf (B := [V, W]) W W (by decide) (by decide) (le_refl _) false (fun h => by cases h)
    (by simp) (by simp)
  exact ⟨RegB.of_check (by decide), h1.1, h2.1, h1.2, h2.2, by decide, by decide⟩

/-- **outside the regular setting, the branch that does not go through the members**: `VersionUnion.allows` answers
`not (excluded == version)` when the union excludes a single LOCAL build.  On the shape the parser gives `!=V`
(`<V || >V`), for EVERY `V` — local builds, pre/post/dev releases — and every probe: `_inverted` is computed
symbolically (`inverted_neShape`), and two equal such constraints admit the same versions. -/
theorem constraint_beq_interchangeable_ne (x x' y y' : Version) (hx : x.wf = true) (hx' : x'.wf = true)
    (hy : y.wf = true) (hy' : y'.wf = true) (h1 : Version.eqv x x' = true) (h2 : Version.eqv y y' = true)
    (h : Marker.VC.eqv (.union (neShape x x')) (.union (neShape y y')) = true) (v : Version) :
    VC.allows (.union (neShape x x')) v = VC.allows (.union (neShape y y')) v :=
  neShape_allows_congr x x' y y' hx hx' hy hy' h1 h2 h v

/-- `!=1.0+local` is that shape, its excluded version is local, and `!=1.0.0+LOCAL` is an equal, different object -/
example : let V := Version.mk' 0 [1, 0] none none none (some ["local"])
    VParser.parseConstraint "!=1.0+local" = .ok (.union (neShape V V)) ∧ V.isLocal = true ∧
    (∃ W, VParser.parseConstraint "!=1.0.0+LOCAL" = .ok (.union (neShape W W)) ∧ W ≠ V ∧
      Marker.VC.eqv (.union (neShape V V)) (.union (neShape W W)) = true) := by
  intro V
  refine ⟨by decide +kernel, by decide, ⟨{ Version.mk' 0 [1, 0, 0] none none none (some ["local"]) with text := "1.0.0+LOCAL" }, by decide +kernel, by decide, by decide⟩⟩

/-- the full statement: `allows` itself, every constraint shape (unions with local builds or same-release bounds
included), every probe -/
def constraint_interchangeable_full_statement : Prop :=
  ∀ a b : VC, vcNonDegenerate a = true → vcNonDegenerate b = true → a.wfB → b.wfB → Marker.VC.eqv a b = true →
    ∀ v, a.allows v = b.allows v

/-- **the full statement is a theorem: equal constraints admit the same versions through `allows`** — also the branch
of `VersionUnion.allows` that runs `VersionRange().difference(union)` (`excludes_single_version`), whatever the bounds.
Proof: a structural relation (same constructors, bounds with equal comparison keys and equal `is_local()`, same
inclusion flags) is preserved by every function on the way — `Version.allows` / `VersionRange.allows` in both
arguments, `allowed_max`, `allows_lower/higher`, `is_strictly_lower/higher`, `is_adjacent_to`, `_cmp`, `<`, the stable
sort, `allows_any`, the single-range union, the merge loop, `VersionUnion.of`, the three `difference` functions, the loop
of `VersionRange.difference(VersionUnion)`, `_inverted`, `excludes_single_version` (Proofs/EqHashRel*.lean, five layers,
none false) — and equal well-formed constraints without degenerate ranges are related. -/
theorem constraint_beq_interchangeable : constraint_interchangeable_full_statement :=
  fun a b ha hb hwa hwb h v => vc_allows_congr a b ha hb hwa hwb h v

/-- … and the probe may be replaced by an equal probe as well -/
theorem constraint_beq_interchangeable_probe (a b : VC) (ha : vcNonDegenerate a = true) (hb : vcNonDegenerate b = true)
    (hwa : a.wfB) (hwb : b.wfB) (h : Marker.VC.eqv a b = true) (v w : Version) (hv : v.wf = true) (hw : w.wf = true)
    (hvw : Version.eqv v w = true) : a.allows v = b.allows w :=
  vcAllows_congr2 (VCRel_of_eqv ha hb hwa hwb h) (sameBound_of_eqv hv hw hvw)

/-- the same for `excludes_single_version` / `is_simple()` and `_inverted`: both raise the same exception or return
related results -/
theorem constraint_beq_same_inverse (as bs : List RC) (ha : as.all rcNonDegenerate = true)
    (hb : bs.all rcNonDegenerate = true) (hwa : ∀ c ∈ as, c.wfB) (hwb : ∀ c ∈ bs, c.wfB)
    (h : Marker.VC.eqv (.union as) (.union bs) = true) :
    PRel VCRel (VC.inverted as) (VC.inverted bs) ∧
    PRel ORel (VC.excludedSingleVersion as) (VC.excludedSingleVersion bs) := by
  rw [vc_eqv_union] at h
  have hl := LRel_of_eqv ha hb hwa hwb h
  exact ⟨inverted_congr hl, excludedSingleVersion_congr hl⟩

/-- for constraints coming out of the parser, no guard at all -/
theorem parsed_constraint_interchangeable (s t : String) (a b : VC) (ha : VParser.parseConstraint s = .ok a)
    (hb : VParser.parseConstraint t = .ok b) (h : Marker.VC.eqv a b = true) (v : Version) :
    a.allows v = b.allows v := by
  have wa := parseConstraint_WF s a ha
  have wb := parseConstraint_WF t b hb
  exact vc_allows_congr a b (vcND_of_vcWF wa) (vcND_of_vcWF wb) (fun r hr => RC.WF.wfB (wa r hr))
    (fun r hr => RC.WF.wfB (wb r hr)) h v

/-- a union with a local build among its bounds that is NOT of the `!=V` shape, and bounds of one release that are
not equal (`1.0` / `1.0.post1`): outside every earlier partial theorem, inside this one -/
example : ∃ a b, VParser.parseConstraint "<1.0+local || >=1.0.post1" = .ok a ∧
    VParser.parseConstraint "<1.0.0+LOCAL || >=1.0-1" = .ok b ∧ Marker.VC.eqv a b = true ∧ a ≠ b ∧
    (∃ rs, a = .union rs) := by
  refine ⟨_, _, rfl, rfl, by decide +kernel, by decide +kernel, _, rfl⟩

/-- **`intersect` never returns a degenerate `VersionRange`** (range ∩ range, range ∩ version, version ∩ version, any
operands): where the two ends coincide it returns the `Version` or fails its assertion -/
theorem no_degenerate_range (a b : RC) (c : VC) (h : RC.intersect a b = .ok c) : vcNonDegenerate c = true :=
  rc_intersect_nonDegenerate a b c h

theorem no_degenerate_range_rng (a b : VRange) (c : VC) (h : RC.rngIntersectRng a b = .ok c) :
    vcNonDegenerate c = true := rngIntersectRng_nonDegenerate a b c h

example : ∃ c, RC.rngIntersectRng ⟨some (Version.mk' 0 [1] none none none none), none, true, false⟩
    ⟨none, some (Version.mk' 0 [1, 0] none none none none), false, true⟩ = .ok c ∧
    c = .single (.ver (Version.mk' 0 [1] none none none none)) := ⟨_, by decide, rfl⟩

/-! ### the unrestricted statements are false -/

def cexV : Version := Version.mk' 0 [1, 0] none none none (some ["local"])
def cexDeg : VRange := ⟨some cexV, some cexV, true, true⟩
def cexHalf : VRange := ⟨some cexV, some cexV, true, false⟩

/-- `Version("1.0+local") == VersionRange(1.0+local, 1.0+local, True, True)` both ways — with different hashes
(`hash((key,))` against `hash(min) ^ hash(max) ^ hash(True) ^ hash(True)`) -/
theorem counterexample_version_eq_range_hash :
    ¬ (∀ a b : VC, Marker.VC.eqv a b = true → vcHash a = vcHash b) := by
  intro h
  have := h (.single (.ver cexV)) (.single (.rng cexDeg)) (by decide)
  simp [vcHash, rcHash, verHash, rangeHash] at this

/-- … and with one inclusive end `==` is not even symmetric -/
theorem counterexample_version_eq_range_symm :
    ¬ (∀ a b : VC, Marker.VC.eqv a b = true → Marker.VC.eqv b a = true) := by
  intro h
  have := h (.single (.ver cexV)) (.single (.rng cexHalf)) (by decide)
  revert this; decide

/-! ### parser and algebra never build a degenerate range

`vcWF c`: every member of `c` has well-formed bounds and strictly ordered ends (`RC.WF`); it implies
`vcNonDegenerate c` and `c.wfB`, the two guards of the theorems above. -/

theorem wellformed_is_nondegenerate (c : VC) (h : vcWF c) : vcNonDegenerate c = true ∧ c.wfB :=
  ⟨vcND_of_vcWF h, fun r hr => RC.WF.wfB (h r hr)⟩

/-- `a.union(b)` on two range constraints (`Version.union`, `VersionRange.union`), when it answers with one range
constraint: well-formed, in particular never degenerate (the case repaired by 583640d is the `Version ∪ Version` one) -/
theorem no_degenerate_range_union_single (x y : RC) (hx : x.WF) (hy : y.WF) (u : RC)
    (h : rcUnionSingle x y = .ok (some u)) : u.WF ∧ rcNonDegenerate u = true :=
  ⟨rcUnionSingle_WF x y hx hy u h, rcND_of_WF (rcUnionSingle_WF x y hx hy u h)⟩

/-- `VersionUnion.of(*ranges)` -/
theorem no_degenerate_range_union_of (l : List RC) (res : VC) (h : unionOfFlat l = .ok res) (hl : ∀ c ∈ l, c.WF) :
    vcWF res ∧ vcNonDegenerate res = true :=
  ⟨unionOfFlat_WF l res h hl, vcND_of_vcWF (unionOfFlat_WF l res h hl)⟩

/-- `a.intersect(b)` and `a.union(b)` for every operand shape (empty, version, range, union) -/
theorem no_degenerate_range_algebra (a b c : VC) (ha : vcWF a) (hb : vcWF b) :
    (VC.intersect a b = .ok c → vcWF c ∧ vcNonDegenerate c = true) ∧
    (VC.unionWith a b = .ok c → vcWF c ∧ vcNonDegenerate c = true) :=
  ⟨fun h => ⟨vcIntersect_WF a b ha hb c h, vcND_of_vcWF (vcIntersect_WF a b ha hb c h)⟩,
   fun h => ⟨vcUnionWith_WF a b ha hb c h, vcND_of_vcWF (vcUnionWith_WF a b ha hb c h)⟩⟩

/-- **`parse_constraint` / `parse_marker_version_constraint` never return a degenerate range**: every clause form
(`~`, `~=`, `^`, `X.*`, `!=X.*`, `<`, `<=`, `>`, `>=`, `==`, `!=`, bare), `,` and `||`, any text -/
theorem no_degenerate_range_parse (s : String) (c : VC) :
    (VParser.parseConstraint s = .ok c → vcWF c ∧ vcNonDegenerate c = true) ∧
    (VParser.parseMarkerVersionConstraint s = .ok c → vcWF c ∧ vcNonDegenerate c = true) :=
  ⟨fun h => ⟨parseConstraint_WF s c h, vcND_of_vcWF (parseConstraint_WF s c h)⟩,
   fun h => ⟨parseMarkerVersionConstraint_WF s c h, vcND_of_vcWF (parseMarkerVersionConstraint_WF s c h)⟩⟩

/-- hence, for constraints coming out of the parser, without any guard: `==` is symmetric and transitive, equal
constraints hash alike and (member-wise) admit the same versions.  (Was false before 583640d:
`counterexample_reachable_degenerate_range`.) -/
theorem parsed_constraint_beq_hash (s t : String) (a b : VC) (ha : VParser.parseConstraint s = .ok a)
    (hb : VParser.parseConstraint t = .ok b) (h : Marker.VC.eqv a b = true) :
    vcHash a = vcHash b ∧ Marker.VC.eqv b a = true ∧ ∀ v, a.allowsPlain v = b.allowsPlain v := by
  have wa := parseConstraint_WF s a ha
  have wb := parseConstraint_WF t b hb
  have na := vcND_of_vcWF wa
  have nb := vcND_of_vcWF wb
  exact ⟨vcHash_eq na nb h, vc_eqv_symm na nb h,
    fun v => (constraint_beq_interchangeable_partial a b na nb (fun r hr => RC.WF.wfB (wa r hr))
      (fun r hr => RC.WF.wfB (wb r hr)) h v).1⟩

theorem parsed_constraint_beq_trans (s t u : String) (a b c : VC) (ha : VParser.parseConstraint s = .ok a)
    (hb : VParser.parseConstraint t = .ok b) (hc : VParser.parseConstraint u = .ok c)
    (h1 : Marker.VC.eqv a b = true) (h2 : Marker.VC.eqv b c = true) : Marker.VC.eqv a c = true :=
  vc_eqv_trans (vcND_of_vcWF (parseConstraint_WF s a ha)) (vcND_of_vcWF (parseConstraint_WF t b hb))
    (vcND_of_vcWF (parseConstraint_WF u c hc)) h1 h2

example : VParser.parseConstraint ">=1,<2" = .ok (.single (.rng exRange1)) ∧
    VParser.parseConstraint "^1.0" = .ok (.single (.rng ⟨some (Version.mk' 0 [1, 0] none none none none),
      some (Version.mk' 0 [2, 0] none none none none), true, false⟩)) := ⟨by decide +kernel, by decide +kernel⟩

/-- regression (repo fix 583640d; was `counterexample_reachable_degenerate_range`): `1.0 || 1.0+local` used to parse to
the degenerate range `>=1.0+local,<=1.0+local`, equal to the version `1.0+local` with another hash; `Version.union` now
returns the version that admits the other one -/
example : VParser.parseConstraint "1.0 || 1.0+local" = .ok (.single (.ver (Version.mk' 0 [1, 0] none none none none))) ∧
    VParser.parseConstraint "1.0+local || 1.0" = .ok (.single (.ver (Version.mk' 0 [1, 0] none none none none))) := by
  constructor <;> decide +kernel

/-- re-parsing the text of a constraint, with C15's round trip (`text_roundtrip_full_statement`) for this
constraint as hypothesis: the re-read constraint is equivalent, and when it is equal it has the same hash input -/
theorem constraint_reparse_eq_or_equiv (c c' : VC) (s : String) (hs : c.toStr = .ok s)
    (hp : VParser.parseConstraint s = .ok c')
    (hrt : ∀ p, p.wf = true → Regular (c.bounds ++ c'.bounds) p → c'.allows p = c.allows p)
    (hc : vcNonDegenerate c = true) (hc' : vcNonDegenerate c' = true) :
    (Marker.VC.eqv c c' = true → vcHash c = vcHash c' ∧ Marker.VC.eqv c' c = true) ∧
      (∀ p, p.wf = true → Regular (c.bounds ++ c'.bounds) p → c'.allows p = c.allows p) :=
  ⟨fun h => ⟨vcHash_eq hc hc' h, vc_eqv_symm hc hc' h⟩, hrt⟩

/-- **re-parsing the text of a constraint, with C15's string-level round trip supplied** (`VC.text_roundtrip`:
single versions, plain ranges, `*`, `||` joins, `!=V`; hypotheses `Tidy`, `TextOK`, `RegB` for unions, no wildcard
spelling): the text is printed, `parse_constraint` reads it back, the re-read constraint admits the same versions,
and when it is `==` to the original it has the same hash input.  The non-degeneracy guards are discharged (both
constraints are well-formed). -/
theorem constraint_reparse_closed (c : VC) (hwf : c.WF) (hne : c.isEmpty = false)
    (htidy : ∀ m ∈ c.flatten, m.Tidy) (htext : ∀ e ∈ c.bounds, TextOK e)
    (hreg : ∀ rs, c = .union rs → RegB c.bounds) (hplain : PlainSpelling c) :
    ∃ s c', c.toStr = .ok s ∧ VParser.parseConstraint s = .ok c' ∧
      (Marker.VC.eqv c c' = true → vcHash c = vcHash c' ∧ Marker.VC.eqv c' c = true) ∧
      (∀ p, p.wf = true → Regular (c.bounds ++ c'.bounds) p → c'.allows p = c.allows p) := by
  obtain ⟨s, c', h1, h2, h3⟩ := VC.text_roundtrip c hwf hne htidy htext hreg hplain
  have hc : vcNonDegenerate c = true := vcND_of_vcWF (by
    intro r hr
    cases c with
    | empty => simp [VC.flatten] at hr
    | single m => simp [VC.flatten] at hr; subst hr; exact hwf.1
    | union rs => exact (hwf.2.1 r (by simpa [VC.flatten] using hr)).1)
  have hc' : vcNonDegenerate c' = true := vcND_of_vcWF (parseConstraint_WF s c' h2)
  exact ⟨s, c', h1, h2, (constraint_reparse_eq_or_equiv c c' s h1 h2 h3 hc hc').1, h3⟩

/-! ## string constraints (generic and `extra`): `__eq__` is structural on the model's representation -/

theorem generic_beq_refl (a : GC) : (a == a) = true := by simp
theorem generic_beq_symm (a b : GC) (h : (a == b) = true) : (b == a) = true := by
  rw [beq_iff_eq] at h ⊢; exact h.symm
theorem generic_beq_trans (a b c : GC) (h1 : (a == b) = true) (h2 : (b == c) = true) : (a == c) = true := by
  rw [beq_iff_eq] at h1 h2 ⊢; exact h1.trans h2
theorem generic_beq_hash (a b : GC) (h : (a == b) = true) : gcHash a = gcHash b ∧ a.hashKey = b.hashKey := by
  rw [beq_iff_eq] at h; subst h; exact ⟨rfl, rfl⟩
/-- equal string constraints admit the same values, the same sets of extras, and answer every containment
question alike -/
theorem generic_beq_interchangeable (a b : GC) (h : (a == b) = true) :
    (∀ v, a.den v = b.den v) ∧ (∀ E, a.denX E = b.denX E) ∧ (∀ q, a.allows q = b.allows q) ∧
      (∀ q, a.allowsAll q = b.allowsAll q) ∧ (∀ q, a.allowsAny q = b.allowsAny q) := by
  rw [beq_iff_eq] at h; subst h; exact ⟨fun _ => rfl, fun _ => rfl, fun _ => rfl, fun _ => rfl, fun _ => rfl⟩

/-- the hash ignores what `==` distinguishes only for the class tag: `Constraint("a")` and `ExtraConstraint("a")`
are unequal with the same hash input (a collision, not a defect) -/
example : (GC.atom ⟨"a", .eq, false⟩ == GC.atom ⟨"a", .eq, true⟩) = false ∧
    gcHash (GC.atom ⟨"a", .eq, false⟩) = gcHash (GC.atom ⟨"a", .eq, true⟩) := ⟨by decide, rfl⟩

example : ∃ a b, Generic.parseConstraint "!=a, !=b" = .ok a ∧ Generic.parseConstraint "!= a,!=b" = .ok b ∧ (a == b) = true :=
  ⟨_, _, rfl, rfl, by decide⟩

/-! ## markers -/

theorem marker_beq_refl (m : M) : M.beq m m = true := m_beq_refl m
theorem marker_beq_symm (a b : M) (h : M.beq a b = true) : M.beq b a = true := m_beq_symm a b h
theorem marker_beq_trans (a b c : M) (h1 : M.beq a b = true) (h2 : M.beq b c = true) : M.beq a c = true :=
  m_beq_trans a b c h1 h2
theorem marker_beq_hash (a b : M) (h : M.beq a b = true) : mHash a = mHash b := mHash_eq a b h

/-- **equal markers hold in the same environments** — for markers whose leaves satisfy the constructor invariant
`mCoherent` (the constraint of a `SingleMarker` is the one its constructor derives from the key `__eq__` compares):
they are then the same object, so `validate`, the text, `invert`, … all agree -/
theorem marker_beq_interchangeable (a b : M) (ha : mCoherent a) (hb : mCoherent b) (h : M.beq a b = true) :
    a = b ∧ (∀ E, M.validate E a = M.validate E b) ∧ a.toStr = b.toStr := by
  have := m_eq_of_beq a b ha hb h
  subst this
  exact ⟨rfl, fun _ => rfl, rfl⟩

/-- the invariant is decidable, and the executable form (reported by the driver for every pool object) implies it -/
theorem marker_coherent_of_check (m : M) (h : mCoherentB m = true) : mCoherent m := mCoherent_of_B m h

/-! ### coherence is an invariant of the parser and of the whole marker algebra

Every `SingleMarker` is built by its constructor; the invariant therefore reduces to two leaf-level facts about
constructor calls (`marker_coherent_leaf_obligations`):
  (1) `ParsedItemsCoherent` — an item `name op "literal"` of a PARSED text builds a coherent leaf (C06 proves this on its
      domain, `C06.marker_coherent_partial`; open for literals with white space next to the operator, where it needs the
      constraint parsers' insensitivity to that white space; over arbitrary syntax trees it is false,
      `C06.counterexample_coherence_arbitrary_op`), and
  (2) `MergeCoherent` — `_merge_single_markers` returns coherent leaves for coherent operands (its three
      `SingleMarker(name, constraint)` calls).
Given these, EVERYTHING is proved: `parse_marker`, and — by induction over the whole mutual simplifier block, for every
fuel and every `detect_recursion` stack — intersect, union, intersection(), union(), cnf, dnf, `MultiMarker.of`,
`MarkerUnion.of`, intersect_simplify, union_simplify, and invert, only, exclude, without_extras,
reduce_by_python_constraint.  (Both facts are checked per object at run time: flag of driver op `eqh`, and the same
test on the real objects.) -/

def marker_coherent_leaf_obligations : Prop := ParsedItemsCoherent ∧ MergeCoherent

/-- the invariant in the vocabulary of the simplifier proofs (`M.Good`, Proofs/MarkerSem.lean) -/
theorem marker_coherent_iff_good (m : M) : mCoherent m ↔ M.Good leafCoherent m := mCoherent_iff_good m

/-- **the simplifier preserves ANY leaf predicate closed under `_merge_single_markers`** — every function of the mutual
block, every fuel, every recursion stack (no semantic hypothesis) -/
theorem simplifier_preserves_leaf_invariant (G : Leaf → Prop) (MC : MergeClosed G) (fuel : Nat) (stk : Stack) :
    (∀ a b r, M.Good G a → M.Good G b → mIntersect fuel stk a b = .ok r → M.Good G r) ∧
    (∀ a b r, M.Good G a → M.Good G b → mUnion fuel stk a b = .ok r → M.Good G r) ∧
    (∀ ms r, GL G ms → intersectionF fuel stk ms = .ok r → M.Good G r) ∧
    (∀ ms r, GL G ms → unionF fuel stk ms = .ok r → M.Good G r) ∧
    (∀ m r, M.Good G m → cnf fuel stk m = .ok r → M.Good G r) ∧
    (∀ m r, M.Good G m → dnf fuel stk m = .ok r → M.Good G r) ∧
    (∀ ms r, GL G ms → multiOf fuel stk ms = .ok r → M.Good G r) ∧
    (∀ ms r, GL G ms → unionOf fuel stk ms = .ok r → M.Good G r) :=
  have g := gAt MC fuel
  ⟨g.inter stk, g.uni stk, g.interF stk, g.uniF stk, g.cnf stk, g.dnf stk, g.mOf stk, g.uOf stk⟩

/-- **coherence is preserved by ∩, ∪, cnf, dnf** (as the public methods run them: quiescent stacks; and for any stack) -/
theorem marker_coherent_algebra (MC : MergeCoherent) (a b r : M) (ha : mCoherent a) (hb : mCoherent b) :
    (a.intersectWith b = .ok r → mCoherent r) ∧ (a.unionWith b = .ok r → mCoherent r) ∧
    (∀ fuel stk, cnf fuel stk a = .ok r → mCoherent r) ∧ (∀ fuel stk, dnf fuel stk a = .ok r → mCoherent r) := by
  rw [mCoherent_iff_good] at ha hb
  simp only [mCoherent_iff_good]
  exact ⟨fun h => (gAt MC defaultFuel).inter [] a b r ha hb h, fun h => (gAt MC defaultFuel).uni [] a b r ha hb h,
    fun fuel stk h => (gAt MC fuel).cnf stk a r ha h, fun fuel stk h => (gAt MC fuel).dnf stk a r ha h⟩

/-- **`parse_marker` returns a coherent marker** (both the guarded public function and the raw one) -/
theorem marker_coherent_parse (H : marker_coherent_leaf_obligations) (text : String) (m : M) :
    (parseMarker text = .ok m → mCoherent m) ∧ (parseMarkerTop text = .ok m → mCoherent m) := by
  simp only [mCoherent_iff_good]
  exact ⟨fun h => parseMarker_good H.1 H.2 text m h,
    fun h => parseMarker_good H.1 H.2 text m ((parseMarkerTop_ok_iff text m).1 h)⟩

/-- **coherence is preserved by invert, only, exclude, without_extras, reduce_by_python_constraint** -/
theorem marker_coherent_ops (H : marker_coherent_leaf_obligations) (a r : M) (ha : mCoherent a) :
    (a.invert = .ok r → mCoherent r) ∧ (∀ names, a.only names = .ok r → mCoherent r) ∧
    (∀ name, a.exclude name = .ok r → mCoherent r) ∧ (a.withoutExtras = .ok r → mCoherent r) ∧
    (∀ pc, a.reduce pc = .ok r → mCoherent r) := by
  rw [mCoherent_iff_good] at ha
  simp only [mCoherent_iff_good]
  exact ⟨fun h => invert_good H.1 a r ha h, fun names h => only_good H.2 names a r ha h,
    fun name h => exclude_good H.2 name a r ha h, fun h => exclude_good H.2 "extra" a r ha h,
    fun pc h => reduce_good H.1 H.2 pc a r ha h⟩

/-- what the front end builds before simplification (`_compact_markers`) is coherent for every parsed text whose items are -/
theorem marker_coherent_compact (t : String) (syn : Syn) (m : M) (hp : parseText t = .ok syn)
    (hc : syn.coh = true) (h : compactRaw syn = .ok m) : mCoherent m := by
  rw [mCoherent_iff_good]
  exact good_of_Coherent m (compactRaw_sem ⟨[], none⟩ syn m h hc).1

/-! ### the two leaf facts discharged on the domain of the constructor and text theorems

Domain (`FullQLP C E`, Proofs/MarkerPrint4L.lean, the widest leaf class with a hypothesis-free `LeafSpec`): string
variables defined in `E` with `==`, `!=` (quotable values) and reversed `in` / `not in`; `extra == / !=`;
`python_version` with the six comparison operators, `~=` and `in` / `not in` lists of `X.Y`; `python_full_version` with
the six comparison operators (one to three release components) and `~=`.  On it both facts hold with NO hypothesis:
every `SingleMarker` is rebuilt from its own key by the constructor (`fullQLP_self`: the strong form of coherence),
`_merge_single_markers` stays inside (C07's `leafSpec_fullQLP`) and atomic leaves keep their class (`mergeClosed_AS`, for
every operand).  `C` is the set of `not in` values (any chain under the substring order, C07); `E` only says which
variables are defined (coherence itself does not depend on `E`). -/

/-- **`parse_marker` on a text over the domain returns a coherent marker — hypothesis-free** -/
theorem marker_coherent_parse_domain {C : String → Prop} {E : Env}
    (hC : ∀ u v, C u → C v → Generic.strIn u v = true ∨ Generic.strIn v u = true)
    {ex : List String} (hX : E.extras = some ex) {X Y Z : Nat} (hE : EnvPy E X Y Z)
    (text : String) (syn : Syn) (m : M) (hp : parseText text = .ok syn) (hi : SynItems (FullQLP C E) syn) :
    (parseMarker text = .ok m → mCoherent m ∧ M.Good (CohDomLeaf C E) m) ∧
    (parseMarkerTop text = .ok m → mCoherent m ∧ M.Good (CohDomLeaf C E) m) := by
  have key : parseMarker text = .ok m → mCoherent m ∧ M.Good (CohDomLeaf C E) m := fun h =>
    have g := parseMarker_dom hC hX hE text syn m hp hi h
    ⟨good_coherent_of_dom m g, g⟩
  exact ⟨key, fun h => key ((parseMarkerTop_ok_iff text m).1 h)⟩

/-- **∩, ∪, cnf, dnf keep a marker over the domain coherent (and in the domain) — hypothesis-free**, every fuel and
recursion stack -/
theorem marker_coherent_algebra_domain {C : String → Prop} {E : Env}
    (hC : ∀ u v, C u → C v → Generic.strIn u v = true ∨ Generic.strIn v u = true)
    {ex : List String} (hX : E.extras = some ex) {X Y Z : Nat} (hE : EnvPy E X Y Z)
    (a b r : M) (ha : M.Good (CohDomLeaf C E) a) (hb : M.Good (CohDomLeaf C E) b) (fuel : Nat) (stk : Stack) :
    (mIntersect fuel stk a b = .ok r → mCoherent r ∧ M.Good (CohDomLeaf C E) r) ∧
    (mUnion fuel stk a b = .ok r → mCoherent r ∧ M.Good (CohDomLeaf C E) r) ∧
    (cnf fuel stk a = .ok r → mCoherent r ∧ M.Good (CohDomLeaf C E) r) ∧
    (dnf fuel stk a = .ok r → mCoherent r ∧ M.Good (CohDomLeaf C E) r) := by
  have g := algebra_dom hC hX hE fuel
  exact ⟨fun h => ⟨good_coherent_of_dom r (g.inter stk a b r ha hb h), g.inter stk a b r ha hb h⟩,
    fun h => ⟨good_coherent_of_dom r (g.uni stk a b r ha hb h), g.uni stk a b r ha hb h⟩,
    fun h => ⟨good_coherent_of_dom r (g.cnf stk a r ha h), g.cnf stk a r ha h⟩,
    fun h => ⟨good_coherent_of_dom r (g.dnf stk a r ha h), g.dnf stk a r ha h⟩⟩

/-- **`only`, `exclude`, `without_extras` keep a marker over the domain coherent (and in the domain) — hypothesis-free** -/
theorem marker_coherent_projections_domain {C : String → Prop} {E : Env}
    (hC : ∀ u v, C u → C v → Generic.strIn u v = true ∨ Generic.strIn v u = true)
    {ex : List String} (hX : E.extras = some ex) {X Y Z : Nat} (hE : EnvPy E X Y Z)
    (a r : M) (ha : M.Good (CohDomLeaf C E) a) :
    (∀ names, a.only names = .ok r → mCoherent r ∧ M.Good (CohDomLeaf C E) r) ∧
    (∀ name, a.exclude name = .ok r → mCoherent r ∧ M.Good (CohDomLeaf C E) r) ∧
    (a.withoutExtras = .ok r → mCoherent r ∧ M.Good (CohDomLeaf C E) r) := by
  have MC := mergeClosed_cohDomLeaf hC hX hE
  exact ⟨fun names h => ⟨good_coherent_of_dom r (only_goodG MC names a r ha h), only_goodG MC names a r ha h⟩,
    fun name h => ⟨good_coherent_of_dom r (exclude_goodG MC name a r ha h), exclude_goodG MC name a r ha h⟩,
    fun h => ⟨good_coherent_of_dom r (exclude_goodG MC "extra" a r ha h), exclude_goodG MC "extra" a r ha h⟩⟩

/-- every leaf of the domain satisfies the STRONG form of coherence: the constructor applied to the leaf's own
`(name, operator, value, operand order)` returns the leaf -/
theorem marker_domain_leaf_rebuilt {C : String → Prop} {E : Env} (s : Single) (h : FullQLP C E (.single s)) :
    mkSingle s.name (itemConstraintString s.op s.value s.swapped) s.swapped = .ok s := fullQLP_self h

/-- whatever `_merge_single_markers` returns (ANY operands), an `AtomicMultiMarker` holds a `MultiConstraint` and an
`AtomicMarkerUnion` a `UnionConstraint` when the operands do -/
theorem merge_keeps_atomic_class : MergeClosed AS := mergeClosed_AS

/-- the item forms of the domain (each builds a leaf of `FullQLP C E`) -/
theorem marker_domain_items {C : String → Prop} {E : Env} :
    (∀ n, n ∈ plainStringVars → (∃ v, E.get? n = some v) → ∀ a : Generic.Atom, a.x = false → a.isEqNe = true →
      QuotableValue a.value → AtomItems (FullQLP C E) (.item n a.op.str a.value false)) ∧
    (∀ n ops gop v, (ops, gop) ∈ inOps → n ∈ plainStringVars → PlainTok v → ValOk v → (∃ ev, E.get? n = some ev) →
      (gop = Generic.Op.nc → C v) → AtomItems (FullQLP C E) (.item n ops v true)) ∧
    (∀ a : Generic.Atom, a.x = true → a.isEqNe = true → QuotableValue a.value →
      AtomItems (FullQLP C E) (.item "extra" a.op.str a.value false)) ∧
    (∀ sop ops, (sop, ops) ∈ pvOps → ∀ a b,
      AtomItems (FullQLP C E) (.item "python_version" ops (Version.relText [a, b]) false)) ∧
    (∀ a b, AtomItems (FullQLP C E) (.item "python_version" "~=" (Version.relText [a, b]) false)) ∧
    (∀ isIn p0 rest, (∀ q ∈ rest, SepRun q.1) →
      AtomItems (FullQLP C E) (.item "python_version" (listOp isIn) (verList2 p0 rest) false)) ∧
    (∀ sop ops, (sop, ops) ∈ pvOps → ∀ x r, r.length ≤ 2 →
      AtomItems (FullQLP C E) (.item "python_full_version" ops (Version.relText (x :: r)) false)) ∧
    (∀ a b c, AtomItems (FullQLP C E) (.item "python_full_version" "~=" (Version.relText [a, b, c]) false)) :=
  ⟨fun n hn hev a hx he hq => item_string n hn hev a hx he hq,
   fun n ops gop v hop hn hv hq hev hc => item_reversed n ops gop v hop hn hv hq hev hc,
   fun a hx he hq => item_extra a hx he hq,
   fun sop ops h a b => item_python_version h a b,
   fun a b => item_python_version_compat a b,
   fun isIn p0 rest hs => item_python_version_list isIn p0 rest hs,
   fun sop ops h x r hr => item_python_full_version h x r hr,
   fun a b c => item_python_full_version_compat a b c⟩

def exEnvDom : Env :=
  ⟨[("python_version", "3.9"), ("python_full_version", "3.9.1"), ("sys_platform", "linux")], some []⟩

def exSynDom : Syn :=
  .more (.item "python_version" ">=" "3.8" false) false
    (.one (.paren (.more (.item "sys_platform" "!=" "x" false) true (.one (.item "extra" "==" "a" false)))))

/-- the hypotheses are satisfiable: `python_version >= "3.8" and (sys_platform != "x" or extra == "a")` -/
example : exSynDom.text = "python_version >= \"3.8\" and (sys_platform != \"x\" or extra == \"a\")" ∧
    parseText exSynDom.text = .ok exSynDom ∧
    SynItems (FullQLP (fun _ => False) exEnvDom) exSynDom ∧ exEnvDom.extras = some [] ∧ EnvPy exEnvDom 3 9 1 := by
  have qx : QuotableValue "x" :=
    ⟨⟨⟨by decide, by intro d hd; have : d = 'x' := by simpa using hd
                     subst this; unfold tokChar; decide⟩, by decide⟩,
      by intro d hd; have : d = 'x' := by simpa using hd
         subst this; decide⟩
  have qa : QuotableValue "a" :=
    ⟨⟨⟨by decide, by intro d hd; have : d = 'a' := by simpa using hd
                     subst this; unfold tokChar; decide⟩, by decide⟩,
      by intro d hd; have : d = 'a' := by simpa using hd
         subst this; decide⟩
  have v38 : ValOk "3.8" := by
    intro d hd
    have : d = '3' ∨ d = '.' ∨ d = '8' := by simpa using hd
    rcases this with rfl | rfl | rfl <;> decide
  refine ⟨by decide +kernel, parseText_text exSynDom ⟨⟨by decide, by decide, v38⟩, ⟨by decide, by decide, qx.2⟩,
    ⟨by decide, by decide, qa.2⟩⟩, ?_, rfl, ⟨rfl, rfl⟩⟩
  refine ⟨?_, ?_⟩
  · exact item_python_version (sop := .ge) (ops := ">=") (by decide) 3 8
  · simp only [SynItems, AtomItems]
    exact ⟨item_string "sys_platform" (by decide) ⟨"linux", rfl⟩ ⟨"x", .ne, false⟩ rfl rfl qx,
      item_extra ⟨"a", .eq, true⟩ rfl rfl qa⟩

/-- the remaining obligation, visible: the two leaf-level facts (see the section comment) -/
def marker_coherent_full_statement : Prop := marker_coherent_leaf_obligations

/-- without the invariant the statement is false: `__eq__` does not look at the constraint -/
theorem counterexample_marker_incoherent :
    ¬ (∀ a b : M, M.beq a b = true → ∀ E, M.validate E a = M.validate E b) := by
  intro h
  let s1 : Single := ⟨"os_name", "==", "nt", false, .gen (GC.atom ⟨"nt", .eq, false⟩)⟩
  let s2 : Single := ⟨"os_name", "==", "nt", false, .gen (GC.atom ⟨"posix", .eq, false⟩)⟩
  have := h (.leaf (.single s1)) (.leaf (.single s2)) (by decide) ⟨[("os_name", "nt")], none⟩
  revert this; decide

/-- the repaired defect 35cdee8 stays repaired: operand order is part of the key -/
theorem swapped_operands_not_equal (n o v : String) (c c' : LeafC) :
    M.beq (.leaf (.single ⟨n, o, v, true, c⟩)) (.leaf (.single ⟨n, o, v, false, c'⟩)) = false := by
  simp [M.beq, Leaf.beq]

/-! ## package specifications, dependencies, packages

`PackageSpecification.__eq__` is `is_same_package_as`: equal complete names (canonical name + sorted extras) and
`is_same_source_as`, a *tolerance* relation on VCS references (prefix matching of references, equal resolved
references win, an absent resolved reference matches any).  It is reflexive and symmetric; transitive exactly
when references are compared exactly (`refsExact`). -/

theorem specification_beq_refl (a : Dep.Spec) : a.beq a = true := spec_beq_refl a
theorem specification_beq_symm (a b : Dep.Spec) (h : a.beq b = true) : b.beq a = true := spec_beq_symm h
theorem specification_beq_trans (a b c : Dep.Spec) (hg : refsExact [a, b, c]) (h1 : a.beq b = true)
    (h2 : b.beq c = true) : a.beq c = true := spec_beq_trans hg h1 h2
theorem specification_beq_hash (a b : Dep.Spec) (h : a.beq b = true) : specHash a = specHash b := specHash_eq h

theorem dependency_beq_refl (d : Dep.Dep) : d.beq d = true := dep_beq_refl d
theorem dependency_beq_symm (a b : Dep.Dep) (ha : vcNonDegenerate a.constraint = true)
    (hb : vcNonDegenerate b.constraint = true) (h : a.beq b = true) : b.beq a = true := dep_beq_symm ha hb h
theorem dependency_beq_trans (a b c : Dep.Dep) (hg : refsExact [a.spec, b.spec, c.spec])
    (ha : vcNonDegenerate a.constraint = true) (hb : vcNonDegenerate b.constraint = true)
    (hc : vcNonDegenerate c.constraint = true) (h1 : a.beq b = true) (h2 : b.beq c = true) : a.beq c = true :=
  dep_beq_trans hg ha hb hc h1 h2
/-- `Dependency.__hash__` is the specification's hash -/
theorem dependency_beq_hash (a b : Dep.Dep) (h : a.beq b = true) : depHash a = depHash b := by
  simp only [Dep.Dep.beq, Bool.and_eq_true] at h
  exact specHash_eq h.1
/-- equal dependencies that are not direct-origin ones carry equal constraints, hence admit the same versions
(`constraint_beq_interchangeable_partial`) -/
theorem dependency_beq_interchangeable (a b : Dep.Dep) (h : a.beq b = true) (hd : a.spec.isDirectOrigin = false) :
    a.spec.completeName = b.spec.completeName ∧ Marker.VC.eqv a.constraint b.constraint = true := by
  simp only [Dep.Dep.beq, Bool.and_eq_true, Bool.or_eq_true, vcEq_eq, hd, Bool.false_eq_true, or_false] at h
  exact ⟨((spec_beq_iff _ _).1 h.1).1.symm, h.2⟩

theorem package_beq_hash (a b : Pkg) (h : a.beq b = true) : pkgHash a = pkgHash b := by
  simp only [Pkg.beq, Bool.and_eq_true] at h
  simp [pkgHash, specHash_eq h.1, (version_beq_hash _ _).1 h.2]

/-! ### derived objects: the hash has no history

`clone`, `with_features`, `without_features` (and through `clone`: `with_constraint`, the dependency-group methods of
`Package`) return an object whose hash input is computed from the derived attribute values only.  In the model this is
by construction (no memo); the theorems state what the harness compares on the real code: a derived specification
IS the freshly constructed one, so it equals and hashes like every independent spelling of the derived value. -/

/-- deriving another feature set is the same as constructing the specification with that feature set -/
theorem derived_is_freshly_constructed (name : String) (st su sr srr sd : Option String) (fs0 fs : List String)
    (s : Dep.Spec) (h : Dep.Spec.make name st su sr srr sd fs0 = .ok s) :
    Dep.Spec.make name st su sr srr sd fs = .ok (specWithFeatures s fs) ∧
      Dep.Spec.make name st su sr srr sd [] = .ok (specWithoutFeatures s) ∧ specClone s = s := by
  simp only [Dep.Spec.make, bind, Except.bind, pure, Except.pure] at h ⊢
  cases hu : Dep.normalizeSourceUrl st su with
  | error e => simp [hu] at h
  | ok u =>
    simp only [hu, Except.ok.injEq] at h ⊢
    subst h
    exact ⟨rfl, rfl, rfl⟩

/-- the hash input is a function of `complete_name`, `source_type`, `source_url`, `source_subdirectory` — of the
current values, whatever object they were copied from -/
theorem specification_hash_no_history (a b : Dep.Spec) (h1 : a.completeName = b.completeName)
    (h2 : a.sourceType = b.sourceType) (h3 : a.sourceUrl = b.sourceUrl)
    (h4 : a.sourceSubdirectory = b.sourceSubdirectory) : specHash a = specHash b := by
  simp [specHash, h1, h2, h3, h4]

/-- a derived specification hashes like every specification it equals (an independently parsed spelling, the
re-parse of its own text, …) -/
theorem derived_specification_beq_hash (s t : Dep.Spec) (fs : List String)
    (h : (specWithFeatures s fs).beq t = true) : specHash (specWithFeatures s fs) = specHash t := specHash_eq h

/-- **deriving commutes with the hash input** (the class of the seeded changes C18-1 / round 3: a memoised hash or a
cached `complete_name` copied along by `with_features()` / `without_features()`): the hash input of the derived object is
this explicit function of the ancestor's `name`, `source_type`, `source_url`, `source_subdirectory` and of the NEW feature
list — the ancestor's own features, and whether / how often the ancestor was hashed before, do not occur (the model has
no cache: `specHash` is a pure function of the current fields) -/
theorem derived_hash_input (d : Dep.Spec) (fs : List String) :
    specHash (specWithFeatures d fs) =
      (if Dep.truthy d.sourceType then
        .xor [.str (d.name ++ Dep.featureSuffix (Dep.normFeatures fs)), optStrHash d.sourceType,
          optStrHash (orNone d.sourceUrl), optStrHash (orNone d.sourceSubdirectory)]
       else .str (d.name ++ Dep.featureSuffix (Dep.normFeatures fs))) ∧
    specHash (specWithoutFeatures d) = specHash (specWithFeatures d []) := ⟨rfl, rfl⟩

/-- … hence two ancestors that differ only in their features (and in their history) derive equal hash inputs, and the
same holds for `Dependency.with_features` (`depHash` is the specification's) -/
theorem derived_hash_independent_of_ancestor (d d' : Dep.Spec) (fs : List String) (h1 : d.name = d'.name)
    (h2 : d.sourceType = d'.sourceType) (h3 : d.sourceUrl = d'.sourceUrl)
    (h4 : d.sourceSubdirectory = d'.sourceSubdirectory) :
    specHash (specWithFeatures d fs) = specHash (specWithFeatures d' fs) := by
  rw [(derived_hash_input d fs).1, (derived_hash_input d' fs).1, h1, h2, h3, h4]

theorem dependency_derived_hash (d : Dep.Dep) (fs : List String) :
    depHash (depWithFeatures d fs) = specHash (specWithFeatures d.spec fs) ∧
    depHash (depWithoutFeatures d) = specHash (specWithoutFeatures d.spec) := ⟨rfl, rfl⟩

example : ∃ s, Dep.Spec.make "Foo_Bar" none none none none none ["Extra_A"] = .ok s ∧
    (specWithoutFeatures s).beq { s with prettyName := "foo.bar", features := [] } = true ∧
    (specWithoutFeatures s).completeName = "foo-bar" ∧ s.completeName = "foo-bar[extra-a]" :=
  ⟨_, rfl, by decide, by decide +kernel, by decide +kernel⟩

def gitSpec (ref : String) (resolved : Option String) : Dep.Spec :=
  { prettyName := "foo", name := "foo", sourceType := some "git", sourceUrl := some "https://github.com/a/b.git",
    sourceReference := some ref, sourceResolvedReference := resolved, sourceSubdirectory := none, features := [] }

example : refsExact [gitSpec "main" none, gitSpec "main" none, gitSpec "dev" none] := by
  refine ⟨by intro a ha; simp at ha; rcases ha with rfl | rfl <;> rfl, ?_⟩
  intro a ha b hb
  simp only [List.mem_cons, List.mem_nil_iff, or_false, or_self_left] at ha hb
  rcases ha with rfl | rfl <;> rcases hb with rfl | rfl <;> decide

/-- **D16** (known finding `vcs-reference-prefix-equality`): `@abc` equals `@abcdef` and `@abcxyz`, which differ -/
theorem counterexample_reference_prefix :
    ¬ (∀ a b c : Dep.Spec, a.beq b = true → b.beq c = true → a.beq c = true) := by
  intro h
  have := h (gitSpec "abcdef" none) (gitSpec "abc" none) (gitSpec "abcxyz" none) (by decide) (by decide)
  revert this; decide

/-- the same relation through resolved references (known finding `vcs-resolved-reference-equality`), without any
prefix: `main` == `main` resolved to `abcdef0` == rev `abcdef0` resolved to `abcdef0`, but `main` != rev `abcdef0` -/
theorem counterexample_resolved_reference :
    ¬ (∀ a b c : Dep.Spec, (∀ x ∈ [a, b, c], ∀ y ∈ [a, b, c],
        Dep.startsWithS (x.sourceReference.getD "") (y.sourceReference.getD "") = true →
          x.sourceReference.getD "" = y.sourceReference.getD "") →
        a.beq b = true → b.beq c = true → a.beq c = true) := by
  intro h
  have := h (gitSpec "main" none) (gitSpec "main" (some "abcdef0")) (gitSpec "abcdef0" (some "abcdef0"))
    (by
      intro x hx y hy
      simp only [List.mem_cons, List.mem_nil_iff, or_false] at hx hy
      rcases hx with rfl | rfl | rfl <;> rcases hy with rfl | rfl | rfl <;> decide)
    (by decide) (by decide)
  revert this; decide

def urlSpec (d : Option String) : Dep.Spec :=
  { prettyName := "foo", name := "foo", sourceType := some "url", sourceUrl := some "https://example.com/a.zip",
    sourceReference := none, sourceResolvedReference := none, sourceSubdirectory := d, features := [] }

/-- regression (repo fix 34fbb11; was `counterexample_empty_subdirectory`): `foo @ https://example.com/a.zip#subdirectory=`
(sub-directory `''`) equals the same URL without fragment (`None`) — and now has the same hash input -/
example : (urlSpec (some "")).beq (urlSpec none) = true ∧ specHash (urlSpec (some "")) = specHash (urlSpec none) ∧
    urlSpec (some "") ≠ urlSpec none := ⟨by decide, specHash_eq (by decide), by decide⟩

end Poetry.C18
