/-
C05 — Constraint intersection, union and difference are exact set operations.
Property theorems only (helper lemmas live in Proofs/VRange*.lean).  Vocabulary:
`Regular B p` (the probe is equal to, or of a different release than, every bound in `B`),
`RC.WF` / `VRange.WF` (well-formed bounds, strictly ordered ends), `VC.allowsPlain` (membership as the
disjunction over the member ranges; equal to `VC.allows` for every non-union constraint).
-/
import PoetryVerif.Proofs.VRangeOps
import PoetryVerif.Proofs.VRangeDiff
import PoetryVerif.Proofs.VRangeWalk
import PoetryVerif.Proofs.VRangeSort
import PoetryVerif.Proofs.VRangeSep
import PoetryVerif.Proofs.VRangeInv
import PoetryVerif.Proofs.VRangeSepV
import PoetryVerif.Proofs.VRangeInterU
import PoetryVerif.Proofs.VRangeDiffU
import PoetryVerif.Proofs.VRangeFinalSet
import PoetryVerif.Proofs.VRangeInterAt
import PoetryVerif.Proofs.VRangePairwise
import PoetryVerif.Proofs.VRangeDiffAt
import PoetryVerif.Proofs.VRangeMergePt

set_option linter.unusedSimpArgs false
set_option linter.unusedVariables false

namespace Poetry.C05
open Poetry Version

/-! ## the semantic bridge -/

/-- **Bridge**: on a well-formed probe that is regular for the bounds, the real `VersionRange.allows`
(with its post-release / local-label / `allowed_max` adjustments) is plain interval membership over the
effective endpoints. -/
theorem range_allows_iff_interval (r : VRange) (p : Version) (hr : r.wfB) (hp : p.wf = true)
    (hreg : Regular r.bounds p) : r.allows p = true ↔ r.den p :=
  VRange.allows_iff_den r p hr hp hreg

/-- the same for `Version | VersionRange` members, over the written endpoints -/
theorem member_allows_iff_interval (c : RC) (p : Version) (hc : c.wfB) (hp : p.wf = true)
    (hreg : Regular c.bounds p) : c.allows p = true ↔ c.sem p :=
  RC.allows_iff_sem c p hc hp hreg

/-- for every constraint that is not a union, `allows` never raises and is `allowsPlain` -/
theorem allows_eq_plain_of_not_union (c : VC) (p : Version) (h : ∀ rs, c ≠ .union rs) :
    c.allows p = .ok (c.allowsPlain p) := by
  cases c with
  | empty => rfl
  | single c => simp [VC.allows, VC.allowsPlain, VC.flatten]
  | union rs => exact absurd rfl (h rs)

/-! ## intersection, range level -/

/-- **range ∩ range is defined and exact.**  For well-formed ranges the two `assert`s of
`VersionRange.intersect` never fire, the result is empty, a version or a well-formed range, and it admits a
regular probe exactly when both operands do. -/
theorem range_intersect_exact (a b : VRange) (ha : a.WF) (hb : b.WF) :
    ∃ r, RC.rngIntersectRng a b = .ok r ∧
      ∀ p, p.wf = true → Regular (a.bounds ++ b.bounds) p →
        r.allows p = .ok (a.allows p && b.allows p) :=
  VRange.intersect_exact a b ha hb

def exA : VRange := ⟨some (Version.mk' 0 [1, 2] none none none none), some (Version.mk' 0 [2] none none none none), true, false⟩
def exB : VRange := ⟨some (Version.mk' 0 [1, 5] (some ⟨.rc, 1⟩) none none none), none, false, false⟩
def exP : Version := Version.mk' 0 [1, 7] none (some ⟨.post, 2⟩) none (some ["x"])

example : exA.WF ∧ exB.WF ∧ exP.wf = true ∧ Regular (exA.bounds ++ exB.bounds) exP := by
  refine ⟨⟨?_, ?_⟩, ⟨?_, ?_⟩, by decide, ?_⟩
  · intro e he; simp [VRange.bounds, exA] at he; rcases he with rfl | rfl <;> decide
  · intro m M hm hM; simp [exA] at hm hM; subst hm; subst hM; rw [vk_lt_iff]; decide
  · intro e he; simp [VRange.bounds, exB] at he; subst he; decide
  · intro m M hm hM; simp [exB] at hM
  · intro e he; simp [VRange.bounds, exA, exB] at he; rcases he with rfl | rfl | rfl <;> right <;> decide

/-- **version ∩ version / range ∩ version / range ∩ range** (`a.intersect(b)` for any two non-union
operands): defined, and exact on regular probes — outside the one branch recorded as known finding
"local-min-intersect" (a `Version` met with a range whose lower bound is a local build of it). -/
theorem member_intersect_exact (a b : RC) (ha : a.WF) (hb : b.WF)
    (hcase : ∀ r x, (a = .rng r ∧ b = .ver x) ∨ (a = .ver x ∧ b = .rng r) → ¬ RC.LocalMinCase r x) :
    ∃ r, RC.intersect a b = .ok r ∧
      ∀ p, p.wf = true → Regular (a.bounds ++ b.bounds) p →
        r.allows p = .ok (a.allows p && b.allows p) :=
  RC.intersect_exact a b ha hb hcase

/-- the full statement for this case without the carve-out … -/
def member_intersect_full_statement : Prop :=
  ∀ a b : RC, a.WF → b.WF → ∃ r, RC.intersect a b = .ok r ∧
    ∀ p, p.wf = true → Regular (a.bounds ++ b.bounds) p → r.allows p = .ok (a.allows p && b.allows p)

def cexV : Version := Version.mk' 0 [1, 0, 0] none none none none
def cexR : VRange := ⟨some (Version.mk' 0 [1, 0] none none none (some ["local"])), none, false, false⟩
def cexP : Version := Version.mk' 0 [1, 0, 0, 1] none none none none

/-- … **is false of model and code** (known finding "local-min-intersect"): `1.0.0 ∩ >1.0+local` is
`>1.0+local,<1.0.1`, which admits the regular probe `1.0.0.1` that `1.0.0` rejects. -/
theorem counterexample_local_min_intersect : ¬ member_intersect_full_statement := by
  intro h
  obtain ⟨r, hr, hall⟩ := h (.ver cexV) (.rng cexR) (by show cexV.wf = true; decide)
    ⟨by intro e he; simp [VRange.bounds, cexR] at he; subst he; decide,
     by intro m M hm hM; simp [cexR] at hM⟩
  have hreg : Regular ((RC.ver cexV).bounds ++ (RC.rng cexR).bounds) cexP := by
    intro e he
    simp [RC.bounds, RC.view, VRange.bounds, RC.min, RC.max, cexR] at he
    rcases he with rfl | rfl <;> right <;> decide
  have h1 := hall cexP (by decide) hreg
  have h2 : RC.rngIntersectVer cexR cexV =
      .single (.rng ⟨cexR.min, some cexV.stable.nextPatch, false, false⟩) := by decide
  have h3 : RC.intersect (.ver cexV) (.rng cexR) = .ok (RC.rngIntersectVer cexR cexV) := rfl
  rw [h3, h2] at hr
  cases hr
  simp only [VC.allows, RC.allows, Except.ok.injEq] at h1
  revert h1
  decide

/-! ## commutativity, empty and universal operands -/

/-- **intersection is commutative up to admitted versions** (non-union operands) -/
theorem member_intersect_comm (a b : RC) (ha : a.WF) (hb : b.WF)
    (hcase : ∀ r x, (a = .rng r ∧ b = .ver x) ∨ (a = .ver x ∧ b = .rng r) → ¬ RC.LocalMinCase r x) :
    ∃ r r', RC.intersect a b = .ok r ∧ RC.intersect b a = .ok r' ∧
      ∀ p, p.wf = true → Regular (a.bounds ++ b.bounds) p → r.allows p = r'.allows p := by
  obtain ⟨r, hr, h⟩ := RC.intersect_exact a b ha hb hcase
  obtain ⟨r', hr', h'⟩ := RC.intersect_exact b a hb ha
    (fun r x hx => hcase r x (by rcases hx with hx | hx; exact Or.inr ⟨hx.2, hx.1⟩; exact Or.inl ⟨hx.2, hx.1⟩))
  refine ⟨r, r', hr, hr', fun p hp hreg => ?_⟩
  rw [h p hp hreg, h' p hp (fun e he => hreg e (by simp at he ⊢; exact he.symm)), Bool.and_comm]

/-- the empty constraint is absorbing for ∩, neutral for ∪, and `a − ∅ = a`, `∅ − a = ∅` -/
theorem empty_laws (a : VC) :
    VC.intersect .empty a = .ok .empty ∧ VC.unionWith .empty a = .ok a ∧
    VC.difference .empty a = .ok .empty ∧
    (∀ c, VC.intersect (.single c) .empty = .ok .empty) ∧
    (∀ r, VC.difference (.single (.rng r)) .empty = .ok (.single (.rng r))) ∧
    (∀ rs, VC.difference (.union rs) .empty = .ok (.union rs)) ∧
    (∀ rs, VC.intersect (.union rs) .empty = .ok .empty) := by
  refine ⟨rfl, rfl, rfl, fun c => rfl, fun r => rfl, fun rs => rfl, fun rs => ?_⟩
  simp [VC.intersect, VC.flatten, VC.unionIntersectLoop, VC.unionOf, unionOfFlat]
  cases rs <;> simp [VC.unionIntersectLoop, bind, Except.bind, unionOfFlat]

/-- the universal range is neutral for ∩ on members (up to admitted versions) and admits everything -/
theorem any_laws (c : RC) (hc : c.WF) :
    (∀ p, VRange.any.allows p = true) ∧
    ∃ r, RC.intersect (.rng VRange.any) c = .ok r ∧
      ∀ p, p.wf = true → Regular c.bounds p → r.allows p = .ok (c.allows p) := by
  refine ⟨fun p => by simp [VRange.allows, VRange.allowsLo, VRange.allowsHi, VRange.any], ?_⟩
  have hany : (RC.rng VRange.any).WF :=
    ⟨by intro e he; simp [VRange.bounds, VRange.any] at he, by intro m M hm; simp [VRange.any] at hm⟩
  have hnl : ∀ x, ¬ RC.LocalMinCase VRange.any x := by
    rintro x ⟨_, m, hm, _⟩; simp [VRange.any] at hm
  obtain ⟨r, hr, h⟩ := RC.intersect_exact (.rng VRange.any) c hany hc (by
    intro r x hx
    rcases hx with ⟨h1, _⟩ | ⟨h1, _⟩
    · cases h1; exact hnl x
    · cases h1)
  refine ⟨r, hr, fun p hp hreg => ?_⟩
  rw [h p hp (hreg.mono (fun e he => by simpa [RC.bounds, VRange.bounds, VRange.any, RC.view, RC.min, RC.max] using he))]
  simp [RC.allows, VRange.allows, VRange.allowsLo, VRange.allowsHi, VRange.any]

/-! ## union -/

/-- **the single-range union of two ranges is exact** (`VersionRange.union` when the operands overlap or
touch): the hull admits a regular probe iff one operand does.  `Tidy` = an absent bound is not "included". -/
theorem range_union_single_exact (a b : VRange) (ha : a.WF) (hb : b.WF) (hta : a.Tidy) (htb : b.Tidy)
    (u : RC) (h : rcUnionSingle (.rng a) (.rng b) = .ok (some u)) :
    u = .rng (VRange.hull a b) ∧ (VRange.hull a b).WF ∧
    ∀ p, p.wf = true → Regular (a.bounds ++ b.bounds) p → u.allows p = (a.allows p || b.allows p) :=
  ⟨(VRange.union_single_exact a b ha hb hta htb u h).1, VRange.hull_WF a b ha hb,
   (VRange.union_single_exact a b ha hb hta htb u h).2⟩

example : exA.Tidy ∧ exB.Tidy ∧
    (match rcUnionSingle (.rng exA) (.rng exB) with | .ok (some _) => true | _ => false) = true := by
  refine ⟨⟨fun h => by simp [exA] at h, fun h => by simp [exA] at h⟩,
    ⟨fun h => by simp [exB] at h, fun _ => rfl⟩, by decide⟩

/-- the same for every pair of members (`Version` or range); since repo fix 583640d `1.0 ∪ 1.0+local` is `1.0`
(weak equality), no longer a point range. -/
theorem member_union_single_exact (x y : RC) (hx : x.WF) (hy : y.WF) (htx : x.Tidy) (hty : y.Tidy)
    (u : RC) (h : rcUnionSingle x y = .ok (some u)) :
    u.WF ∧ u.Tidy ∧ (∀ e ∈ u.bounds, e ∈ x.bounds ∨ e ∈ y.bounds) ∧
    ∀ p, p.wf = true → Regular (x.bounds ++ y.bounds) p → u.allows p = (x.allows p || y.allows p) :=
  RC.rcUnionSingle_exact x y hx hy htx hty u h

/-- **`VersionUnion.of` (stable sort + merge) preserves membership**: whenever it returns, every member of
the result is well-formed, mentions only bounds of the inputs, and the result admits a regular probe iff
some input does.  (`Good l`: members well-formed and tidy.)
Totality: `union_of_total_partial`; the sort step: `union_of_sort_sorted`; everything, for range members:
`union_of_ranges`. -/
theorem union_of_preserves_membership_partial (l : List RC) (res : VC) (h : unionOfFlat l = .ok res)
    (hg : Good l) :
    Good res.flatten ∧ (∀ e ∈ res.bounds, e ∈ boundsOf l) ∧
    ∀ p, p.wf = true → Regular (boundsOf l) p → res.allowsPlain p = anyAllows l p :=
  unionOfFlat_sem l res h hg

/-- **`VersionUnion.of` is total** (never `RecursionError`/assertion) and preserves membership, for members
none of whose lower bounds is a local build (`>=1.0+local` is the only way to get one). -/
theorem union_of_total_partial (l : List RC) (hg : Good l) (hn : NoLocalLower l) :
    ∃ res, unionOfFlat l = .ok res ∧
      ∀ p, p.wf = true → Regular (boundsOf l) p → res.allowsPlain p = anyAllows l p :=
  unionOfFlat_total l hg hn

/-- **the sort of `VersionUnion.of` is a sorted permutation**: Python's `<` on members (`VersionRange._cmp`,
`Version.__lt__`) is a strict order — asymmetric and transitive — so the stable insertion sort that models
`list.sort()` returns the same members with no later one smaller than an earlier one. -/
theorem union_of_sort_sorted (l : List RC) :
    SortedLt (sortRCs l) ∧ (∀ c, c ∈ sortRCs l ↔ c ∈ l) ∧
    (∀ x y z : RC, RC.lt x y = true → RC.lt y z = true → RC.lt x z = true) ∧
    (∀ x y : RC, RC.lt x y = true → RC.lt y x = false) :=
  ⟨(sortRCs_sorted l).1, (sortRCs_sorted l).2, fun _ _ _ => RC.lt_trans', fun _ _ => RC.lt_asymm'⟩

/-- when a union does not exclude a single *local* version, `VersionUnion.allows` — whenever it returns — is the
disjunction over the members (the only other path is `not (excluded == v)`) -/
theorem union_allows_eq_plain_of_returns (rs : List RC) (v : Version) (b : Bool)
    (h : VC.allows (.union rs) v = .ok b)
    (hex : ∀ ex, VC.excludedSingleVersion rs = .ok (some ex) → ex.isLocal = false) :
    b = (VC.union rs).allowsPlain v := by
  simp only [VC.allows, bind, Except.bind] at h
  cases he : VC.excludedSingleVersion rs with
  | error e => simp [he] at h
  | ok o =>
    simp only [he] at h
    cases o with
    | none => simpa [pure, Except.pure, VC.allowsPlain, VC.flatten] using h.symm
    | some ex =>
      simp only [hex ex he, Bool.false_eq_true, if_false] at h
      simpa [pure, Except.pure, VC.allowsPlain, VC.flatten] using h.symm

/-- **`VersionUnion.of` on range members is total, exact and yields a well-formed union**: for well-formed,
tidy, inhabited *ranges* (any number, any order, overlapping or not) the result is the empty constraint, a single
range or a union of at least two ranges that are sorted (each strictly below all later ones) with consecutive
ones not adjacent, and it admits a regular probe iff some input does. -/
theorem union_of_ranges (l : List RC) (hm : ∀ c ∈ l, RngMember c) :
    ∃ res, unionOfFlat l = .ok res ∧ res.WF ∧
      ∀ p, p.wf = true → Regular (boundsOf l) p → res.allowsPlain p = anyAllows l p :=
  unionOfFlat_rng l hm

example : RngMember (.rng exA) ∧ RngMember (.rng exB) := by
  refine ⟨⟨⟨?_, ?_⟩, ⟨fun h => by simp [exA] at h, fun h => by simp [exA] at h⟩, by show exA.isStrictlyLower exA = false; decide, _, rfl⟩,
    ⟨⟨?_, ?_⟩, ⟨fun h => by simp [exB] at h, fun _ => rfl⟩, by show exB.isStrictlyLower exB = false; decide, _, rfl⟩⟩
  · intro e he; simp [VRange.bounds, exA] at he; rcases he with rfl | rfl <;> decide
  · intro m M hm hM; simp [exA] at hm hM; subst hm; subst hM; rw [vk_lt_iff]; decide
  · intro e he; simp [VRange.bounds, exB] at he; subst he; decide
  · intro m M hm hM; simp [exB] at hM

/-- **`VersionUnion.of` with `Version` members**, under the explicit hypothesis that the bounds in play are
mutually regular (any two equal or of different releases) and none is a local build (`RegB B`): total; the result
is well-formed (members well-formed, inhabited, sorted, consecutive ones separated) over the same bounds; exact on
regular probes; and `allows` of the result never raises and is the disjunction over its members for every version. -/
theorem union_of_regular {B : List Version} (hB : RegB B) (l : List RC) (hm : ∀ c ∈ l, RegMember B c) :
    ∃ res, unionOfFlat l = .ok res ∧ res.WF ∧ (∀ c ∈ res.flatten, RegMember B c) ∧
      (∀ v, res.allows v = .ok (res.allowsPlain v)) ∧
      ∀ p, p.wf = true → Regular (boundsOf l) p → res.allowsPlain p = anyAllows l p := by
  obtain ⟨res, h1, h2, h3, h4⟩ := unionOfFlat_reg hB l hm
  exact ⟨res, h1, h2, h3, fun v => VC.allows_of_reg hB res h2 h3 v, h4⟩

/-- the same with `Version` members allowed and *no* hypothesis on the bounds … -/
def union_of_full_statement : Prop :=
  ∀ l : List RC, (∀ c ∈ l, c.WF ∧ c.Tidy ∧ c.NE) → ∃ res, unionOfFlat l = .ok res ∧ res.WF ∧
    ∀ p, p.wf = true → Regular (boundsOf l) p → res.allowsPlain p = anyAllows l p

def gapR : RC := .rng ⟨some (Version.mk' 0 [1, 0, 0] none none none none), none, false, false⟩
def gapV : Version := Version.mk' 0 [1, 0, 0] none (some ⟨.post, 1⟩) (some ⟨.dev, 1⟩) (some ["a", "1"])
def gapS : RC := .rng ⟨some (Version.mk' 0 [2, 0, 0] (some ⟨.a, 1⟩) none (some ⟨.dev, 2⟩) none),
  some (Version.mk' 0 [2, 1, 0] none none none none), true, false⟩

/-- … **is false of model and code** (known finding "union-of-leaves-overlapping-members"):
`VersionUnion.of(>1.0.0, ==1.0.0.post1.dev1+a.1, >=2.0.0a1.dev2,<2.1.0)` returns the three members unchanged,
although the first range contains the third.  The merge loop compares each member only with the last one kept; the
`Version` in between sorts after `>1.0.0`, is not admitted by it (it is a post-release-with-local of the exclusive
bound: the PEP 440 gap) and is not adjacent, so it is kept and becomes the new "last"; the third member is then
compared with the `Version` only. -/
theorem counterexample_union_of_not_separated : ¬ union_of_full_statement := by
  intro h
  obtain ⟨res, hres, hwf, _⟩ := h [gapS, gapR, .ver gapV] (by
    intro c hc
    simp only [List.mem_cons, List.mem_nil_iff, or_false] at hc
    rcases hc with rfl | rfl | rfl
    · refine ⟨⟨?_, ?_⟩, ⟨fun h => by simp [gapS] at h, fun h => by simp [gapS] at h⟩, by show VRange.isStrictlyLower _ _ = false; decide⟩
      · intro e he; simp [RC.bounds, RC.view, VRange.bounds, RC.min, RC.max, gapS] at he; rcases he with rfl | rfl <;> decide
      · intro m M hm hM; simp [gapS] at hm hM; subst hm; subst hM; rw [vk_lt_iff]; decide
    · refine ⟨⟨?_, ?_⟩, ⟨fun h => by simp [gapR] at h, fun _ => rfl⟩, by show VRange.isStrictlyLower _ _ = false; decide⟩
      · intro e he; simp [RC.bounds, RC.view, VRange.bounds, RC.min, RC.max, gapR] at he; subst he; decide
      · intro m M hm hM; simp [gapR] at hM
    · exact ⟨by show gapV.wf = true; decide, trivial, trivial⟩)
  have : unionOfFlat [gapS, gapR, .ver gapV] = .ok (.union [gapR, .ver gapV, gapS]) := by decide
  rw [this] at hres
  cases hres
  have hs : SortedRC [gapR, .ver gapV, gapS] := hwf.2.2.1
  have := (List.pairwise_cons.1 hs).1 gapS (by simp)
  revert this
  decide

/-- the hypothesis under which the separation argument goes through with `Version` members: `allows_any` between
any two members is the bound comparison on their (min, max, include_min, include_max) views — i.e. no `Version`
member lies in the PEP 440 gap of a range member's exclusive bound (a post-release or local build of an exclusive
lower bound, a pre-release of an exclusive upper bound), where membership and bound comparison disagree.  `RegB`
(bounds mutually regular, none local) implies it (`RC.allowsAny_view`); under `RegB` the result is proved
(`union_of_regular`).  The statement under exactly this hypothesis is kept as a conjecture: the merge step also
needs the merged member to start where the previous one started, which is proved under `RegB` only. -/
def ViewCoherent (l : List RC) : Prop :=
  ∀ x ∈ l, ∀ y ∈ l, RC.allowsAny x y = .ok (!(y.view.isStrictlyLower x.view || x.view.isStrictlyLower y.view))

def union_of_view_coherent_statement : Prop :=
  ∀ l : List RC, (∀ c ∈ l, c.WF ∧ c.Tidy ∧ c.NE) → ViewCoherent l → ∃ res, unionOfFlat l = .ok res ∧ SortedRC res.flatten

/-- the counterexample violates exactly this hypothesis -/
example : RC.allowsAny gapR (.ver gapV) = .ok false ∧
    (!((RC.ver gapV).view.isStrictlyLower gapR.view || gapR.view.isStrictlyLower (RC.ver gapV).view)) = true := by
  decide

example : Good [.rng exA, .rng exB] ∧
    (match unionOfFlat [.rng exB, .rng exA] with | .ok _ => true | _ => false) = true := by
  refine ⟨?_, by decide⟩
  · intro c hc
    simp only [List.mem_cons, List.mem_nil_iff, or_false] at hc
    rcases hc with rfl | rfl
    · refine ⟨⟨?_, ?_⟩, ⟨fun h => by simp [exA] at h, fun h => by simp [exA] at h⟩⟩
      · intro e he; simp [VRange.bounds, exA] at he; rcases he with rfl | rfl <;> decide
      · intro m M hm hM; simp [exA] at hm hM; subst hm; subst hM; rw [vk_lt_iff]; decide
    · refine ⟨⟨?_, ?_⟩, ⟨fun h => by simp [exB] at h, fun _ => rfl⟩⟩
      · intro e he; simp [VRange.bounds, exB] at he; subst he; decide
      · intro m M hm hM; simp [exB] at hM

/-- **`a.union(b)` for two members is exact whenever it returns**, and commutative up to admitted
versions. -/
theorem member_union_exact (x y : RC) (hx : x.WF) (hy : y.WF) (htx : x.Tidy) (hty : y.Tidy)
    (r r' : VC) (h : RC.union x y = .ok r) (h' : RC.union y x = .ok r') :
    ∀ p, p.wf = true → Regular (x.bounds ++ y.bounds) p →
      r.allowsPlain p = (x.allows p || y.allows p) ∧ r'.allowsPlain p = r.allowsPlain p := by
  intro p hp hreg
  have e1 := RC.union_exact x y hx hy htx hty r h p hp hreg
  have e2 := RC.union_exact y x hy hx hty htx r' h' p hp
    (fun e he => hreg e (by simp at he ⊢; exact he.symm))
  exact ⟨e1, by rw [e1, e2, Bool.or_comm]⟩

/-- **`a.union(b)` for two members is defined and exact** (lower bounds not local builds) -/
theorem member_union_defined_partial (x y : RC) (hx : x.WF) (hy : y.WF) (htx : x.Tidy) (hty : y.Tidy)
    (hn : NoLocalLower [x, y]) :
    ∃ res, RC.union x y = .ok res ∧
      ∀ p, p.wf = true → Regular (x.bounds ++ y.bounds) p → res.allowsPlain p = (x.allows p || y.allows p) :=
  RC.union_total x y hx hy htx hty hn

/-! ## difference -/

/-- **version ∖ member is exact** -/
theorem version_minus_member_exact (a : Version) (c : RC) (ha : a.wf = true) (hc : c.WF)
    (p : Version) (hp : p.wf = true) (hreg : Regular ((RC.ver a).bounds ++ c.bounds) p) :
    ∃ r, RC.difference (.ver a) c = .ok r ∧ r.allowsPlain p = (a.allows p && !c.allows p) :=
  ⟨_, rfl, RC.verDifference_exact a c ha hc p hp hreg⟩

/-- **range ∖ range is exact whenever it returns.**  Extra hypotheses: `hec` — `allows_higher`, which compares
the effective upper ends, agrees with the written ones (it does whenever the two upper bounds are equal or of
different releases). -/
theorem range_difference_exact_partial (a b : VRange) (ha : a.WF) (hb : b.WF) (hta : a.Tidy) (htb : b.Tidy)
    (hec : VRange.EndsConsistent a b)
    (res : VC) (h : RC.difference (.rng a) (.rng b) = .ok res) :
    ∀ p, p.wf = true → Regular (a.bounds ++ b.bounds) p →
      res.allowsPlain p = (a.allows p && !b.allows p) :=
  VRange.difference_exact a b ha hb hta htb hec res h

example : VRange.EndsConsistent exA exB ∧ VRange.EndsConsistent exB exA ∧
    (match RC.difference (.rng exB) (.rng exA) with | .ok _ => true | _ => false) = true := by
  refine ⟨?_, ?_, by decide⟩
  · intro h; exact absurd h (by decide)
  · intro _ x y hx hy; simp [exB] at hy

/-- **range ∖ range is defined and exact** under the same hypotheses when none of `a.min`, `a.max`, `b.max` is a
local build -/
theorem range_difference_defined_partial (a b : VRange) (ha : a.WF) (hb : b.WF) (hta : a.Tidy) (htb : b.Tidy)
    (hec : VRange.EndsConsistent a b)
    (hloc : ∀ m, (a.min = some m ∨ a.max = some m ∨ b.max = some m) → m.isLocal = false) :
    ∃ res, RC.difference (.rng a) (.rng b) = .ok res ∧
      ∀ p, p.wf = true → Regular (a.bounds ++ b.bounds) p → res.allowsPlain p = (a.allows p && !b.allows p) :=
  VRange.difference_total a b ha hb hta htb hec hloc

/-- **range ∖ version is exact whenever it returns**, for a version that is regular for the range's bounds
(then the split point lies strictly inside the range). -/
theorem range_minus_version_exact_partial (r : VRange) (v : Version) (hr : r.WF) (htr : r.Tidy)
    (hv : v.wf = true) (hvreg : Regular r.bounds v) (res : VC)
    (h : RC.difference (.rng r) (.ver v) = .ok res) :
    ∀ p, p.wf = true → Regular (r.bounds ++ (RC.ver v).bounds) p →
      res.allowsPlain p = (r.allows p && !v.allows p) :=
  RC.rngDifferenceVer_exact r v hr htr hv hvreg res h

/-- for operands that are not unions the constraint-level operations *are* the member-level ones proved above
(`Version.union` first asks `other.allows(self)`, covered by `RC.absorb_exact`) -/
theorem single_operands_reduce (a b : RC) (r : VRange) (v : Version) :
    VC.intersect (.single a) (.single b) = RC.intersect a b ∧
    VC.unionWith (.single (.rng r)) (.single b) = RC.union (.rng r) b ∧
    VC.difference (.single (.rng r)) (.single b) = RC.difference (.rng r) b ∧
    VC.difference (.single (.ver v)) (.single b) = RC.difference (.ver v) b ∧
    VC.unionWith (.single (.ver v)) (.single b) =
      (if b.allows v then .ok (.single b) else RC.union (.ver v) b) := by
  refine ⟨rfl, rfl, rfl, ?_, ?_⟩
  · simp only [VC.difference, VC.allows, RC.difference, RC.verDifference, bind, Except.bind, pure, Except.pure]
    cases b.allows v <;> rfl
  · simp only [VC.unionWith, VC.allows, bind, Except.bind, pure, Except.pure]

/-! ## union level: the merge walk of `VersionUnion.intersect` -/

/-- **the merge walk of `VersionUnion.intersect` is total and exact.**  For two lists of well-formed members,
each sorted (every member strictly below the later ones) and without a "version / range starting at a local
build of it" pair, the walk returns with the fuel the model gives it, and the parts it collects admit a regular
probe exactly when a member of each list does. -/
theorem union_intersect_walk_exact (ours theirs : List RC)
    (ho : ∀ c ∈ ours, c.WF) (ht : ∀ c ∈ theirs, c.WF) (hso : SortedRC ours) (hst : SortedRC theirs)
    (hnl : RC.NoLocalMin ours theirs) :
    ∃ parts, VC.unionIntersectLoop (ours.length + theirs.length + 1) ours theirs [] = .ok parts ∧
      ∀ p, p.wf = true → Regular (boundsOf ours ++ boundsOf theirs) p →
        (anyPart parts p ↔ (anyAllows ours p = true ∧ anyAllows theirs p = true)) := by
  obtain ⟨parts, h, hsem⟩ := unionIntersectLoop_sem (ours.length + theirs.length + 1) ours theirs []
    (by omega) ho ht hso hst hnl
  refine ⟨parts, h, fun p hp hreg => ?_⟩
  rw [hsem p hp hreg]
  simp [anyPart]

example : SortedRC [.rng exA, .rng ⟨some (Version.mk' 0 [3] none none none none), none, true, false⟩] := by
  simp only [SortedRC, List.pairwise_cons, List.mem_singleton, forall_eq, List.not_mem_nil, false_implies,
    implies_true, List.Pairwise.nil, and_true]
  decide

/-- **union ∩ constraint is exact whenever `VersionUnion.of` accepts the collected parts.**  `hparts`: the
parts are members `VersionUnion.of` is proved for (`Good`) over bounds of the operands. -/
theorem union_intersect_exact_partial (rs : List RC) (b : VC)
    (ho : ∀ c ∈ rs, c.WF) (ht : ∀ c ∈ b.flatten, c.WF) (hso : SortedRC rs) (hst : SortedRC b.flatten)
    (hnl : RC.NoLocalMin rs b.flatten) (res : VC) (h : VC.intersect (.union rs) b = .ok res)
    (hparts : ∀ parts, VC.unionIntersectLoop (rs.length + b.flatten.length + 1) rs b.flatten [] = .ok parts →
      Good (parts.flatMap VC.flatten) ∧
      ∀ e ∈ boundsOf (parts.flatMap VC.flatten), e ∈ boundsOf rs ++ boundsOf b.flatten) :
    ∀ p, p.wf = true → Regular (boundsOf rs ++ boundsOf b.flatten) p →
      res.allowsPlain p = ((VC.union rs).allowsPlain p && b.allowsPlain p) := by
  intro p hp hreg
  obtain ⟨parts, hl, hsem⟩ := union_intersect_walk_exact rs b.flatten ho ht hso hst hnl
  obtain ⟨hg, hb⟩ := hparts parts hl
  simp only [VC.intersect, hl, bind, Except.bind, VC.unionOf] at h
  obtain ⟨_, _, g3⟩ := unionOfFlat_sem _ res h hg
  rw [g3 p hp (hreg.mono hb)]
  apply bool_eq_of_iff
  have e1 : anyAllows (parts.flatMap VC.flatten) p = true ↔ anyPart parts p := by
    simp only [anyAllows, anyPart, VC.allowsPlain, List.any_eq_true, List.mem_flatMap]
    constructor
    · rintro ⟨c, ⟨q, hq, hc⟩, hcp⟩; exact ⟨q, hq, c, hc, hcp⟩
    · rintro ⟨q, hq, c, hc, hcp⟩; exact ⟨c, ⟨q, hq, hc⟩, hcp⟩
  rw [e1, hsem p hp hreg, Bool.and_eq_true]
  rfl

/-- **union ∩ constraint, unconditionally in the regular setting** (bounds mutually regular, none local): the
intersection is defined, is again a well-formed constraint over regular members (so the theorem chains), and with
the real `allows` on every side: it admits a regular probe iff both operands do. -/
theorem union_intersect_regular {B : List Version} (hB : RegB B) (rs : List RC) (b : VC)
    (hwa : (VC.union rs).WF) (hwb : b.WF)
    (ho : ∀ c ∈ rs, RegMember B c) (ht : ∀ c ∈ b.flatten, RegMember B c) :
    ∃ res, VC.intersect (.union rs) b = .ok res ∧ res.WF ∧ (∀ c ∈ res.flatten, RegMember B c) ∧
      ∀ p, p.wf = true → Regular (boundsOf rs ++ boundsOf b.flatten) p →
        ∃ x y, (VC.union rs).allows p = .ok x ∧ b.allows p = .ok y ∧ res.allows p = .ok (x && y) := by
  have hst : SortedRC b.flatten := by
    cases b with
    | empty => simp [SortedRC, VC.flatten]
    | single c => simp [SortedRC, VC.flatten]
    | union ts => exact hwb.2.2.1
  obtain ⟨res, h1, h2, h3, h4⟩ := union_intersect_reg hB rs b ho ht hwa.2.2.1 hst
  refine ⟨res, h1, h2, h3, fun p hp hreg => ⟨_, _, VC.allows_of_reg hB _ hwa ho p, VC.allows_of_reg hB b hwb ht p, ?_⟩⟩
  rw [VC.allows_of_reg hB res h2 h3 p, h4 p hp hreg]
  rfl

/-- **`a.intersect(b)` for any two constraints, in the regular setting**: defined, closed (the result is a
well-formed constraint over regular members), exact on regular probes with the real `allows`; in particular
commutative up to admitted versions. -/
theorem intersect_regular {B : List Version} (hB : RegB B) (a b : VC) (ha : a.WF) (hb : b.WF)
    (hma : ∀ c ∈ a.flatten, RegMember B c) (hmb : ∀ c ∈ b.flatten, RegMember B c) :
    ∃ res res', VC.intersect a b = .ok res ∧ VC.intersect b a = .ok res' ∧ res.WF ∧
      (∀ c ∈ res.flatten, RegMember B c) ∧
      ∀ p, p.wf = true → Regular (boundsOf a.flatten ++ boundsOf b.flatten) p →
        ∃ x y, a.allows p = .ok x ∧ b.allows p = .ok y ∧ res.allows p = .ok (x && y) ∧ res'.allows p = .ok (x && y) := by
  obtain ⟨res, h1, h2, h3, h4⟩ := VC.intersect_reg hB a b ha hb hma hmb
  obtain ⟨res', g1, g2, g3, g4⟩ := VC.intersect_reg hB b a hb ha hmb hma
  refine ⟨res, res', h1, g1, h2, h3, fun p hp hreg => ⟨_, _, VC.allows_of_reg hB a ha hma p,
    VC.allows_of_reg hB b hb hmb p, ?_, ?_⟩⟩
  · rw [VC.allows_of_reg hB res h2 h3 p, h4 p hp hreg]
  · rw [VC.allows_of_reg hB res' g2 g3 p,
      g4 p hp (hreg.mono (by intro e he; simp only [List.mem_append] at he ⊢; exact he.symm)), Bool.and_comm]

/-! ## union level: `VersionRange.difference(VersionUnion)`, `_inverted`, and `VersionUnion.allows` itself -/

/-- **a member-level difference has the shape the union-level loops rely on**: its members are well-formed and
tidy over the operands' bounds, it is exact, and when it is a union it is `[before, after]` in that order with
`before` entirely below the subtrahend's lower end.  Side conditions: `allows_higher` agrees with the written
ends (range ∖ range), the version is regular for the range's bounds (range ∖ version). -/
theorem member_difference_structure (cur r : RC) (hc : cur.WF) (hct : cur.Tidy) (hr : r.WF) (hrt : r.Tidy)
    (hside : ∀ a, cur = .rng a →
      (∀ b, r = .rng b → VRange.EndsConsistent a b) ∧ (∀ v, r = .ver v → Regular a.bounds v))
    (d : VC) (h : RC.difference cur r = .ok d) : DiffSpec cur r d :=
  difference_spec cur r hc hct hr hrt hside d h

/-- **range ∖ union is exact whenever it returns** (`VersionRange.difference(VersionUnion)`, the loop with the
repo fixes 5180da8): for a union whose members are well-formed, tidy, inhabited and sorted, with all bounds in
play mutually regular (`MutReg`: any two are equal or of different releases). -/
theorem range_minus_union_exact_partial (r : VRange) (rs : List RC) (hr : r.WF) (hrt : r.Tidy)
    (hm : ∀ c ∈ rs, UMember c) (hs : SortedRC rs) (hB : MutReg (boundsOf rs ++ r.bounds))
    (res : VC) (h : VC.difference (.single (.rng r)) (.union rs) = .ok res) :
    ∀ p, p.wf = true → Regular (boundsOf rs ++ r.bounds) p →
      res.allowsPlain p = (r.allows p && !(VC.union rs).allowsPlain p) := by
  intro p hp hreg
  obtain ⟨_, _, g3⟩ := rngDiffUnionLoop_sem _ hB rs (.rng r) [] res h hm hs hr hrt (by simp [Good]) (by
    intro e he
    simp only [List.mem_append]
    rcases he with h' | h' | h'
    · exact Or.inl h'
    · exact Or.inr h'
    · simp [boundsOf] at h')
  rw [g3 p hp hreg]
  simp [anyAllows, VC.allowsPlain, VC.flatten, RC.allows]

/-- **`VersionUnion.allows` is the disjunction over the members** on regular probes, whenever it returns: the
special path for unions excluding a single *local* version (`!=1.0+local`) agrees with it, because
`VersionUnion._inverted` is the complement.  `UnionOK rs`: members well-formed, tidy, inhabited, sorted, bounds
mutually regular. -/
theorem union_allows_eq_plain_partial (rs : List RC) (hok : UnionOK rs) (p : Version) (hp : p.wf = true)
    (hreg : Regular (boundsOf rs) p) (b : Bool) (h : VC.allows (.union rs) p = .ok b) :
    b = (VC.union rs).allowsPlain p ∧
    ∀ inv, VC.inverted rs = .ok inv → inv.allowsPlain p = !(VC.union rs).allowsPlain p :=
  ⟨union_allows_eq_plain rs hok p hp hreg b h, fun inv hinv => (inverted_sem rs hok inv hinv).2.2 p hp hreg⟩

/-- **`VersionUnion.allows` never raises and is the disjunction over the members, for every version**, when no
bound of the union is a local build (then `_inverted` always returns, and an excluded single version — a bound —
is never local, so the special path is not taken). -/
theorem union_allows (rs : List RC) (hok : UnionOK rs) (hN : NoLocal (boundsOf rs)) (v : Version) :
    VC.allows (.union rs) v = .ok ((VC.union rs).allowsPlain v) ∧ ∃ inv, VC.inverted rs = .ok inv :=
  ⟨union_allows_total rs hok hN v, inverted_total rs hok hN⟩

def exU : List RC :=
  [.rng ⟨none, some (Version.mk' 0 [1, 0] none none none (some ["local"])), false, false⟩,
   .rng ⟨some (Version.mk' 0 [1, 0] none none none (some ["local"])), none, false, false⟩]

/-- the hypotheses are met by `!=1.0+local`, the case where the special path is taken -/
example : UnionOK exU ∧ VC.excludedSingleVersion exU = .ok (some (Version.mk' 0 [1, 0] none none none (some ["local"]))) := by
  refine ⟨⟨?_, ?_, ?_⟩, by decide⟩
  · intro c hc
    simp only [exU, List.mem_cons, List.mem_nil_iff, or_false] at hc
    rcases hc with rfl | rfl
    · refine ⟨⟨?_, ?_⟩, ⟨fun _ => rfl, fun h => by simp at h⟩, by show VRange.isStrictlyLower _ _ = false; decide⟩
      · intro e he; simp [RC.bounds, RC.view, VRange.bounds, RC.min, RC.max] at he; subst he; decide
      · intro m M hm; simp at hm
    · refine ⟨⟨?_, ?_⟩, ⟨fun h => by simp at h, fun _ => rfl⟩, by show VRange.isStrictlyLower _ _ = false; decide⟩
      · intro e he; simp [RC.bounds, RC.view, VRange.bounds, RC.min, RC.max] at he; subst he; decide
      · intro m M hm hM; simp at hM
  · simp only [SortedRC, exU, List.pairwise_cons, List.mem_singleton, forall_eq, List.not_mem_nil, false_implies,
      implies_true, List.Pairwise.nil, and_true]
    decide
  · intro x hx y hy
    simp [exU, boundsOf, RC.bounds, RC.view, VRange.bounds, RC.min, RC.max] at hx hy
    subst hx; subst hy; exact Or.inl rfl

/-! ## the property at full strength -/

/-- **C05 for arbitrary constraints (unions included) in the regular setting.**  Extra hypothesis (named):
`RegB B` — the bounds mentioned by the two constraints are mutually regular (any two are equal or of different
releases) and none is a local build (the known finding "local-min-intersect" needs a local lower bound, so no
carve-out is needed here).  Then intersection, union and difference are *defined* (no `AssertionError`,
`RecursionError`, `IndexError`, fuel exhaustion), *closed* (each result is again a well-formed constraint over
regular members, so the theorem applies to it), and *exact* with the real `allows` on every side: a regular probe
is admitted by the result iff (a and b), (a or b), (a and not b) respectively. -/
theorem C05_regular_partial {B : List Version} (hB : RegB B) (a b : VC) (ha : a.WF) (hb : b.WF)
    (hma : ∀ c ∈ a.flatten, RegMember B c) (hmb : ∀ c ∈ b.flatten, RegMember B c) :
    ∃ i u d, VC.intersect a b = .ok i ∧ VC.unionWith a b = .ok u ∧ VC.difference a b = .ok d ∧
      (i.WF ∧ ∀ c ∈ i.flatten, RegMember B c) ∧ (u.WF ∧ ∀ c ∈ u.flatten, RegMember B c) ∧
      (d.WF ∧ ∀ c ∈ d.flatten, RegMember B c) ∧
      ∀ p, p.wf = true → Regular (boundsOf a.flatten ++ boundsOf b.flatten) p →
        ∃ pa pb, a.allows p = .ok pa ∧ b.allows p = .ok pb ∧
          i.allows p = .ok (pa && pb) ∧ u.allows p = .ok (pa || pb) ∧ d.allows p = .ok (pa && !pb) := by
  obtain ⟨i, i1, i2, i3, i4⟩ := VC.intersect_reg hB a b ha hb hma hmb
  obtain ⟨u, u1, u2, u3, u4⟩ := VC.unionWith_reg hB a b ha hb hma hmb
  obtain ⟨d, d1, d2, d3, d4⟩ := VC.difference_reg hB a b ha hb hma hmb
  refine ⟨i, u, d, i1, u1, d1, ⟨i2, i3⟩, ⟨u2, u3⟩, ⟨d2, d3⟩, fun p hp hreg => ?_⟩
  refine ⟨_, _, VC.allows_of_reg hB a ha hma p, VC.allows_of_reg hB b hb hmb p, ?_, ?_, ?_⟩
  · rw [VC.allows_of_reg hB i i2 i3 p, i4 p hp hreg]
  · rw [VC.allows_of_reg hB u u2 u3 p, u4 p hp hreg]
  · rw [VC.allows_of_reg hB d d2 d3 p, d4 p hp hreg]

def rV1 : Version := Version.mk' 0 [1, 0] none none none none
def rV2 : Version := Version.mk' 0 [2] none none (some ⟨.dev, 0⟩) none
def rU : List RC := [.rng ⟨none, some rV1, false, false⟩, .rng ⟨some rV2, none, true, false⟩]

/-- the hypotheses are met, e.g., by `<1.0 || >=2.dev0` over the bounds `[1.0, 2.dev0]` -/
example : RegB [rV1, rV2] ∧ (VC.union rU).WF ∧ ∀ c ∈ (VC.union rU).flatten, RegMember [rV1, rV2] c := by
  have hreg : RegB [rV1, rV2] := by
    refine ⟨?_, ?_⟩
    · intro x hx y hy
      simp only [List.mem_cons, List.mem_nil_iff, or_false] at hx hy
      rcases hx with rfl | rfl <;> rcases hy with rfl | rfl
      · exact Or.inl rfl
      · exact Or.inr (by decide)
      · exact Or.inr (by decide)
      · exact Or.inl rfl
    · intro e he
      simp only [List.mem_cons, List.mem_nil_iff, or_false] at he
      rcases he with rfl | rfl <;> rfl
  have m1 : RegMember [rV1, rV2] (.rng ⟨none, some rV1, false, false⟩) := by
    refine ⟨⟨?_, ?_⟩, ⟨fun _ => rfl, fun h => by simp at h⟩, by show VRange.isStrictlyLower _ _ = false; decide, ?_⟩
    · intro e he; simp [VRange.bounds] at he; subst he; decide
    · intro m M hm; simp at hm
    · intro e he; simp [RC.bounds, RC.view, VRange.bounds, RC.min, RC.max] at he; subst he; simp
  have m2 : RegMember [rV1, rV2] (.rng ⟨some rV2, none, true, false⟩) := by
    refine ⟨⟨?_, ?_⟩, ⟨fun h => by simp at h, fun _ => rfl⟩, by show VRange.isStrictlyLower _ _ = false; decide, ?_⟩
    · intro e he; simp [VRange.bounds] at he; subst he; decide
    · intro m M hm hM; simp at hM
    · intro e he; simp [RC.bounds, RC.view, VRange.bounds, RC.min, RC.max] at he; subst he; simp
  refine ⟨hreg, ⟨by simp [rU], ?_, ?_, ?_⟩, ?_⟩
  · intro c hc
    simp only [rU, List.mem_cons, List.mem_nil_iff, or_false] at hc
    rcases hc with rfl | rfl
    · exact ⟨m1.1, m1.2.2.1⟩
    · exact ⟨m2.1, m2.2.2.1⟩
  · simp only [SortedRC, rU, List.pairwise_cons, List.mem_singleton, forall_eq, List.not_mem_nil, false_implies,
      implies_true, List.Pairwise.nil, and_true]
    decide
  · exact ⟨⟨by decide, by decide⟩, trivial⟩
  · intro c hc
    simp only [VC.flatten, rU, List.mem_cons, List.mem_nil_iff, or_false] at hc
    rcases hc with rfl | rfl
    · exact m1
    · exact m2

/-- in the regular setting intersection and union are commutative up to admitted versions -/
theorem C05_regular_comm {B : List Version} (hB : RegB B) (a b : VC) (ha : a.WF) (hb : b.WF)
    (hma : ∀ c ∈ a.flatten, RegMember B c) (hmb : ∀ c ∈ b.flatten, RegMember B c) :
    ∃ i i' u u', VC.intersect a b = .ok i ∧ VC.intersect b a = .ok i' ∧ VC.unionWith a b = .ok u ∧
      VC.unionWith b a = .ok u' ∧
      ∀ p, p.wf = true → Regular (boundsOf a.flatten ++ boundsOf b.flatten) p →
        i.allows p = i'.allows p ∧ u.allows p = u'.allows p := by
  obtain ⟨i, _, _, i1, u1, _, ⟨i2, i3⟩, ⟨u2, u3⟩, _, hab⟩ := C05_regular_partial hB a b ha hb hma hmb
  obtain ⟨i', _, _, j1, v1, _, ⟨j2, j3⟩, ⟨v2, v3⟩, _, hba⟩ := C05_regular_partial hB b a hb ha hmb hma
  refine ⟨i, i', _, _, i1, j1, u1, v1, fun p hp hreg => ?_⟩
  obtain ⟨pa, pb, e1, e2, e3, e4, _⟩ := hab p hp hreg
  obtain ⟨qb, qa, f1, f2, f3, f4, _⟩ := hba p hp (hreg.mono (by
    intro e he; simp only [List.mem_append] at he ⊢; exact he.symm))
  rw [e1] at f2; rw [e2] at f1
  cases f1; cases f2
  exact ⟨by rw [e3, f3, Bool.and_comm], by rw [e4, f4, Bool.or_comm]⟩

/-! ## intersection on EVERY probe: where the boundary runs

`intersect` of two non-union operands keeps the lower end of one and the upper end of one, chosen by the bound
comparisons.  It is exact at a probe exactly when those comparisons are sound at that probe
(`VRange.intersect_cmp_at`).  An inclusive lower end and an exclusive upper end are plain comparisons on every
version (`VRange.allowsLo_incl`, `VRange.allowsHi_excl`); only an exclusive lower end (PEP 440 gap above it: its
post-releases and local builds) and an inclusive upper end (its local builds) read differently on their siblings. -/

/-- the probe is fine for a member: regular for a `Version` member, and for a range, regular for an exclusive
lower end and for an inclusive upper end (nothing is asked for an inclusive lower / exclusive upper end) -/
theorem intersect_exact_at_fine_probe (m n : RC) (hm : m.WF) (hn : n.WF) (lm : m.RngNoLocal) (ln : n.RngNoLocal)
    (p : Version) (hp : p.wf = true) (om : m.OKat p) (on : n.OKat p) :
    ∃ c, RC.intersect m n = .ok c ∧ c.allows p = .ok (m.allows p && n.allows p) := by
  obtain ⟨c, h1, h2, _, h4⟩ := RC.intersect_exact_at m n hm hn p hp om on lm ln
  exact ⟨c, h1, by rw [VC.allows_of_notUnion c p h2, h4]⟩

/-- **half-open ranges** (`VRange.HalfOpen`: an inclusive lower end if any, an exclusive upper end if any — the shape
of `^V`, `~V`, `~=V`, `==V.*`, `>=V`, `<V`, `>=V,<W`) **are intersected exactly on ALL versions** — no regularity at all: pre-releases,
post-releases, dev-releases and local builds of the bounds included; the result is half-open again (or empty) -/
theorem halfopen_intersect_exact (a b : VRange) (ha : a.WF) (hb : b.WF) (oa : a.HalfOpen) (ob : b.HalfOpen) :
    ∃ c, RC.rngIntersectRng a b = .ok c ∧ (∀ p, p.wf = true → c.allows p = .ok (a.allows p && b.allows p)) ∧
      (c = .empty ∨ ∃ r, c = .single (.rng r) ∧ r.WF ∧ r.HalfOpen) := by
  have fine : ∀ (r : VRange), r.HalfOpen → ∀ p, r.OKat p := fun r hr p =>
    ⟨fun m hm => Or.inl (hr.1 m hm), fun M hM => Or.inl (hr.2 M hM)⟩
  -- totality and shape, once
  have tot : ∃ c, RC.rngIntersectRng a b = .ok c := by
    rcases VRange.intersect_den a b ha hb with ⟨h, _⟩ | ⟨x, h, _⟩ | ⟨r, h, _⟩ <;> exact ⟨_, h⟩
  obtain ⟨c, hc⟩ := tot
  refine ⟨c, hc, fun p hp => ?_, ?_⟩
  · obtain ⟨c', h1, h2, _, _, h5⟩ := VRange.intersect_exact_at a b ha hb p hp (fine a oa p) (fine b ob p)
    rw [hc] at h1; injection h1 with h1; subst h1
    rw [VC.allows_of_notUnion c p h2, h5]
  · have pick : ∀ L : VRange, L = a ∨ L = b → L.HalfOpen := by
      intro L hL; rcases hL with rfl | rfl <;> assumption
    rcases VRange.intersect_den a b ha hb with ⟨h, _⟩ | ⟨x, h, _⟩ | ⟨r, h, hr, _⟩
    · rw [hc] at h; injection h with h; exact Or.inl h
    · -- a single version needs two inclusive ends
      exfalso
      rw [hc] at h; injection h with h; subst h
      rcases VRange.rngIntersectRng_shape a b _ hc with he | ⟨L, H, hL, hH, hf⟩
      · cases he
      · rcases VRange.interFinish_shape _ _ _ _ _ hf with ⟨_, _, hcc⟩ | ⟨x', hmn, hov, _, hj, hcc⟩ | ⟨_, hcc⟩
        · cases hcc
        · cases hM : H.max with
          | none => rw [hmn, hM] at hov; simp [optVerEq] at hov
          | some M => have := (pick H hH).2 M hM; rw [hj] at this; cases this
        · cases hcc
    · rw [hc] at h; injection h with h; subst h
      refine Or.inr ⟨r, rfl, hr, ?_⟩
      rcases VRange.rngIntersectRng_shape a b _ hc with he | ⟨L, H, hL, hH, hf⟩
      · cases he
      · rcases VRange.interFinish_shape _ _ _ _ _ hf with ⟨_, _, hcc⟩ | ⟨x', _, _, _, _, hcc⟩ | ⟨_, hcc⟩
        · injection hcc with hcc; injection hcc with hcc; subst hcc
          exact ⟨by intro m hm; simp [VRange.any] at hm, by intro M hM; simp [VRange.any] at hM⟩
        · cases hcc
        · injection hcc with hcc; injection hcc with hcc; subst hcc
          exact ⟨fun m hm => (pick L hL).1 m hm, fun M hM => (pick H hH).2 M hM⟩

example : VRange.HalfOpen ⟨some (Version.mk' 0 [1, 0] none none none none), some (Version.mk' 0 [2] none none none none), true, false⟩ :=
  ⟨fun _ _ => rfl, fun _ _ => rfl⟩

/-- **members over final versions are intersected exactly on ALL versions** (`RC.FClass`: a `Version` that equals a
final version; a range whose ends are final versions or first dev-releases of final versions, an exclusive lower /
inclusive upper end being final) — the members `parse_constraint` builds for clauses with final literals -/
theorem final_intersect_exact (m n : RC) (hm : m.FClass) (hn : n.FClass) :
    ∃ c, RC.intersect m n = .ok c ∧ (∀ x ∈ c.flatten, x.FClass) ∧
      ∀ p, p.wf = true → c.allows p = .ok (m.allows p && n.allows p) := by
  have hex : ∃ c, RC.intersect m n = .ok c := by
    obtain ⟨c, h, _⟩ := RC.intersect_final m n hm hn (Version.mk' 0 [0] none none none none) (by decide)
    exact ⟨c, h⟩
  obtain ⟨c, hc⟩ := hex
  obtain ⟨c0, h0, _, hcl, _⟩ := RC.intersect_final m n hm hn (Version.mk' 0 [0] none none none none) (by decide)
  rw [hc] at h0; injection h0 with h0; subst h0
  refine ⟨c, hc, hcl, fun p hp => ?_⟩
  obtain ⟨c', h1, h2, _, h4⟩ := RC.intersect_final m n hm hn p hp
  rw [hc] at h1; injection h1 with h1; subst h1
  rw [VC.allows_of_notUnion c p h2, h4]

/-- the complement: an exclusive lower end next to a greater bound of its own release.  `>1.0` ∩ `>=1.0.post1` is
`>=1.0.post1`, which admits `1.0.post1`; `>1.0` rejects it (PEP 440: `>V` excludes the post-releases of `V`).  The
probe is a sibling of the exclusive end `1.0` — not fine for it. -/
theorem counterexample_intersect_sibling_gap :
    let V := Version.mk' 0 [1, 0] none none none none
    let W := Version.mk' 0 [1, 0] none (some ⟨.post, 1⟩) none none
    RC.rngIntersectRng ⟨some V, none, false, false⟩ ⟨some W, none, true, false⟩ =
      .ok (.single (.rng ⟨some W, none, true, false⟩)) ∧
    (⟨some W, none, true, false⟩ : VRange).allows W = true ∧ (⟨some V, none, false, false⟩ : VRange).allows W = false := by
  intro V W
  exact ⟨by decide, by decide, by decide⟩

/-! ## union level without `RegB`: at a probe, and where the boundary runs

`VC.PInv LoI HiI c p`: `c` is well-formed (sorted, separated) and all its members are range members that carry, at
the probe `p`: the probe is regular for an exclusive lower end and for an inclusive upper end; for an INCLUSIVE lower
end it is regular too, or the end is unstable (the hull of `<M` and `>=M`, `M` stable, covers the pre-releases of
`M` that neither admits — `counterexample_union_of_adjacent_gap`).  `NoPoint`: no inclusive lower end equals an
inclusive upper end (no intersection collapses to a `Version`).  Nothing is asked of the bounds among themselves. -/

/-- **`VersionUnion.of` on range members, at a probe**: total, the result is well-formed, keeps the invariant and
admits the probe exactly when a member does -/
theorem union_of_at_probe {LoI HiI : List Version} (p : Version) (hp : p.wf = true) (l : List RC)
    (hm : ∀ c ∈ l, RngMember c ∧ c.PSem LoI HiI p) :
    ∃ res, unionOfFlat l = .ok res ∧ res.PInv LoI HiI p ∧ res.allowsPlain p = anyAllows l p := by
  obtain ⟨res, h1, h2, h3, h4⟩ := unionOfFlat_at p hp l hm
  exact ⟨res, h1, ⟨h2, h3⟩, h4⟩

/-- **`intersect` of two constraints over range members (unions included), at a probe**: total — pairwise
intersections, the merge walk, `VersionUnion.of` on the parts —, keeps the invariant, and admits the probe exactly
when both operands do -/
theorem intersect_at_probe {LoI HiI : List Version} (hnp : NoPoint LoI HiI) (p : Version) (hp : p.wf = true)
    (a b : VC) (ha : a.PInv LoI HiI p) (hb : b.PInv LoI HiI p) :
    ∃ c, VC.intersect a b = .ok c ∧ c.PInv LoI HiI p ∧ c.allowsPlain p = (a.allowsPlain p && b.allowsPlain p) :=
  VC.intersect_at hnp p hp a b ha hb

/-- **`union` of two constraints over range members (unions included), at a probe**: total — `VersionRange.union`'s
hull for two single ranges that overlap or touch, `VersionUnion.of` otherwise —, keeps the invariant (the result is
well-formed: sorted, separated, inhabited members), and admits the probe exactly when one of the operands does -/
theorem union_at_probe {LoI HiI : List Version} (p : Version) (hp : p.wf = true) (a b : VC)
    (ha : a.PInv LoI HiI p) (hb : b.PInv LoI HiI p) :
    ∃ c, VC.unionWith a b = .ok c ∧ c.PInv LoI HiI p ∧ c.allowsPlain p = (a.allowsPlain p || b.allowsPlain p) :=
  VC.unionWith_at p hp a b ha hb

/-- … on ALL versions for the half-open fragment with unstable lower ends -/
theorem halfopen_dev_union_exact (a b : VC) (ha : a.WF) (hb : b.WF)
    (hma : ∀ x ∈ a.flatten, x.HalfOpenDev) (hmb : ∀ x ∈ b.flatten, x.HalfOpenDev) :
    ∃ c, VC.unionWith a b = .ok c ∧ c.WF ∧
      ∀ p, p.wf = true → c.allowsPlain p = (a.allowsPlain p || b.allowsPlain p) := by
  let LoI := a.bounds ++ b.bounds
  have inv : ∀ p, a.PInv LoI [] p ∧ b.PInv LoI [] p := fun p =>
    ⟨⟨ha, fun x hx => (hma x hx).psem LoI (fun e he => List.mem_append_left _ (by
        rw [VC.bounds_eq_flatMap]; exact List.mem_flatMap.2 ⟨x, hx, he⟩)) p⟩,
     ⟨hb, fun x hx => (hmb x hx).psem LoI (fun e he => List.mem_append_right _ (by
        rw [VC.bounds_eq_flatMap]; exact List.mem_flatMap.2 ⟨x, hx, he⟩)) p⟩⟩
  obtain ⟨c, hc, hci, _⟩ := VC.unionWith_at (Version.mk' 0 [0] none none none none) (by decide) a b (inv _).1 (inv _).2
  refine ⟨c, hc, hci.1, fun p hp => ?_⟩
  obtain ⟨c', hc', _, hs⟩ := VC.unionWith_at p hp a b (inv p).1 (inv p).2
  rw [hc] at hc'; injection hc' with hc'; subst hc'
  exact hs

/-- **the half-open fragment with unstable lower ends** (every disjunction of `==V.*` clauses: `[X.dev0, Y.dev0)`
members): `intersect` is exact on ALL versions, with no hypothesis on the bounds among themselves -/
theorem halfopen_dev_intersect_exact (a b : VC) (ha : a.WF) (hb : b.WF)
    (hma : ∀ x ∈ a.flatten, x.HalfOpenDev) (hmb : ∀ x ∈ b.flatten, x.HalfOpenDev) :
    ∃ c, VC.intersect a b = .ok c ∧ c.WF ∧
      ∀ p, p.wf = true → c.allowsPlain p = (a.allowsPlain p && b.allowsPlain p) := by
  let LoI := a.bounds ++ b.bounds
  have hnp : NoPoint LoI [] := fun _ _ M hM => by cases hM
  have inv : ∀ p, a.PInv LoI [] p ∧ b.PInv LoI [] p := fun p =>
    ⟨⟨ha, fun x hx => (hma x hx).psem LoI (fun e he => List.mem_append_left _ (by
        rw [VC.bounds_eq_flatMap]; exact List.mem_flatMap.2 ⟨x, hx, he⟩)) p⟩,
     ⟨hb, fun x hx => (hmb x hx).psem LoI (fun e he => List.mem_append_right _ (by
        rw [VC.bounds_eq_flatMap]; exact List.mem_flatMap.2 ⟨x, hx, he⟩)) p⟩⟩
  obtain ⟨c, hc, hci, _⟩ := VC.intersect_at hnp (Version.mk' 0 [0] none none none none) (by decide) a b
    (inv _).1 (inv _).2
  refine ⟨c, hc, hci.1, fun p hp => ?_⟩
  obtain ⟨c', hc', _, hs⟩ := VC.intersect_at hnp p hp a b (inv p).1 (inv p).2
  rw [hc] at hc'; injection hc' with hc'; subst hc'
  exact hs

/-- … and so is `VersionUnion.of` -/
theorem halfopen_dev_union_of_exact (l : List RC) (hm : ∀ x ∈ l, x.HalfOpenDev) :
    ∃ res, unionOfFlat l = .ok res ∧ res.WF ∧ ∀ p, p.wf = true → res.allowsPlain p = anyAllows l p := by
  have inv : ∀ p, ∀ c ∈ l, RngMember c ∧ c.PSem (boundsOf l) [] p := fun p c hc =>
    (hm c hc).psem (boundsOf l) (fun e he => List.mem_flatMap.2 ⟨c, hc, he⟩) p
  obtain ⟨res, h1, h2, _, _⟩ := unionOfFlat_at (Version.mk' 0 [0] none none none none) (by decide) l (inv _)
  refine ⟨res, h1, h2, fun p hp => ?_⟩
  obtain ⟨res', h1', _, _, h4⟩ := unionOfFlat_at p hp l (inv p)
  rw [h1] at h1'; injection h1' with h1'; subst h1'
  exact h4

/-- **the intersect walk of a union does not depend on the NUMBER of members**: for a sorted union of range members
against any well-formed constraint over range members, of any lengths, `VersionUnion.intersect` is `VersionUnion.of`
applied to exactly the pairwise non-empty member intersections, in order (`pairwiseParts`: ours outer, theirs
inner) — the staircase the merge walk visits loses nothing, the pairs it skips are empty.  (A shortcut that treats
long unions differently — seeded change C05-4, a count threshold — departs from this equation.) -/
theorem intersect_members_eq_pairwise (rs : List RC) (b : VC) (hrs : ∀ c ∈ rs, RngMember c) (hs : SortedRC rs)
    (hb : b.WF) (hbm : ∀ c ∈ b.flatten, RngMember c) :
    VC.intersect (.union rs) b = VC.unionOf (pairwiseParts rs b.flatten) := by
  have h := unionIntersectLoop_eq_pairwise (rs.length + b.flatten.length + 1) rs b.flatten [] (by omega) hrs hbm hs
    (SortedRC_flatten_of_WF b hb)
  simp only [VC.intersect, h, List.nil_append, bind, Except.bind]

/-- nine ranges against nine ranges: the walk returns the nine diagonal intersections -/
example : let R : Nat → Nat → RC := fun a b =>
      .rng ⟨some (Version.mk' 0 [a] none none none none), some (Version.mk' 0 [b] none none none none), true, false⟩
    let ours := [R 0 2, R 10 12, R 20 22, R 30 32, R 40 42, R 50 52, R 60 62, R 70 72, R 80 82]
    let theirs := [R 1 3, R 11 13, R 21 23, R 31 33, R 41 43, R 51 53, R 61 63, R 71 73, R 81 83]
    VC.unionIntersectLoop 19 ours theirs [] =
      .ok [.single (R 1 2), .single (R 11 12), .single (R 21 22), .single (R 31 32), .single (R 41 42),
           .single (R 51 52), .single (R 61 62), .single (R 71 72), .single (R 81 82)] := by
  intro R ours theirs
  decide +kernel

/-- the complement, for half-open ranges with a STABLE inclusive lower end: `VersionUnion.of` merges the adjacent
`>=2,<3` and `>=3,<4` (`^2 || ^3`) into `>=2,<4`, which admits `3.dev0`; neither range admits it (`<3` ends at
`3.dev0`, exclusive).  Known class `adjacent-union-gap`. -/
theorem counterexample_union_of_adjacent_gap :
    let two := Version.mk' 0 [2] none none none none
    let three := Version.mk' 0 [3] none none none none
    let four := Version.mk' 0 [4] none none none none
    let p := Version.mk' 0 [3] none none (some ⟨.dev, 0⟩) none
    unionOfFlat [.rng ⟨some two, some three, true, false⟩, .rng ⟨some three, some four, true, false⟩] =
      .ok (.single (.rng ⟨some two, some four, true, false⟩)) ∧
    (⟨some two, some four, true, false⟩ : VRange).allows p = true ∧
    (⟨some two, some three, true, false⟩ : VRange).allows p = false ∧
    (⟨some three, some four, true, false⟩ : VRange).allows p = false := by
  intro two three four p
  exact ⟨by decide, by decide, by decide, by decide⟩

/-- C05 for arbitrary constraints (unions included), with the carve-out of the known finding.  Proved: this
statement under the extra hypothesis `RegB` (bounds mutually regular, none local): `C05_regular_partial`; without
it: every non-union case of `intersect` (defined + exact), the non-union cases of `union` and `difference` under
the named hypotheses, `VersionUnion.of` membership preservation, the union ∩ walk, the empty/universal laws and
commutativity; on EVERY probe: `intersect` of non-union operands at probes fine for both
(`intersect_exact_at_fine_probe`), of half-open ranges (`halfopen_intersect_exact`) and of members over final versions
(`final_intersect_exact`), with `counterexample_intersect_sibling_gap` for the complement; at the union level without
`RegB`: `VersionUnion.of` and `intersect` at a probe (`union_of_at_probe`, `intersect_at_probe`), on all versions for the
half-open fragment with unstable lower ends (`halfopen_dev_intersect_exact`, `halfopen_dev_union_of_exact`), with
`counterexample_union_of_adjacent_gap` for stable lower ends; `union` at a probe (`union_at_probe`,
`halfopen_dev_union_exact`); the walk returns the pairwise intersections whatever the lengths
(`intersect_members_eq_pairwise`).  Not proved without `RegB`: `difference` at a probe, `Version` members inside unions, and
the union-level results for bounds that are local builds or irregular for each other (e.g. `<2.0 || >=2.0a1`). -/
def C05_full_statement : Prop :=
  ∀ a b : VC, a.WF → b.WF →
    (∀ r x, RC.rng r ∈ a.flatten ++ b.flatten → RC.ver x ∈ a.flatten ++ b.flatten → ¬ RC.LocalMinCase r x) →
    ∃ i u d, VC.intersect a b = .ok i ∧ VC.unionWith a b = .ok u ∧ VC.difference a b = .ok d ∧
      ∀ p, p.wf = true → Regular (a.bounds ++ b.bounds) p →
        ∃ pa pb, a.allows p = .ok pa ∧ b.allows p = .ok pb ∧
          i.allows p = .ok (pa && pb) ∧ u.allows p = .ok (pa || pb) ∧ d.allows p = .ok (pa && !pb)

/-- **`VersionRange.difference(VersionRange)` on every probe, for half-open ranges with unstable ends**
(`RC.DevDev`: `>=m`, `<M` with `m`, `M` unstable — `X.dev0`, `X.rc1`, … — and non-local): the operation returns, the
result is well-formed, it is EXACT at every well-formed probe (no regularity of the probe, none of the bounds among
themselves), and the class is closed: an empty result, or one piece of the class, or `VersionUnion.of` of the two
pieces `[a.min, b.min)` and `[b.max, a.max)` which are both of the class.  With a stable upper end of `b` the
statement is false (the piece above `b` starts at `b.max` while `b` itself ends at `b.max.dev0`: finding
`adjacent-union-gap`). -/
theorem halfopen_dev_difference_exact (a b : VRange) (ha : RC.DevDev (.rng a)) (hb : RC.DevDev (.rng b)) :
    ∃ res, RC.rngDifferenceRng a b = .ok res ∧ res.WF ∧
      (res = .empty ∨ (∃ x, res = .single x ∧ x.DevDev) ∨
        ∃ x y, x.DevDev ∧ y.DevDev ∧ unionOfFlat [x, y] = .ok res) ∧
      ∀ p, p.wf = true → res.allowsPlain p = (a.allows p && !b.allows p) := by
  obtain ⟨awf, atd, aho, ab⟩ := ha.parts
  obtain ⟨bwf, btd, bho, bb⟩ := hb.parts
  have hec := VRange.endsConsistent_devdev ha hb
  have aM : ∀ M, a.max = some M → M.isUnstable = true := fun M hM => (ab M (VRange.mem_bounds_max hM)).2
  have bM : ∀ M, b.max = some M → M.isUnstable = true := fun M hM => (bb M (VRange.mem_bounds_max hM)).2
  have hA : ∀ p, p.wf = true → (a.allows p = true ↔ a.raw p) := fun p hp => ha.allows_iff_sem p hp
  have hB : ∀ p, p.wf = true → (b.allows p = true ↔ b.raw p) := fun p hp => hb.allows_iff_sem p hp
  have target : ∀ p, p.wf = true → ∀ (X : Prop), (X ↔ (a.raw p ∧ ¬ b.raw p)) → ∀ r : Bool, (r = true ↔ X) →
      r = (a.allows p && !b.allows p) := by
    intro p hp X hX r hr
    apply bool_eq_of_iff
    rw [hr, hX, Bool.and_eq_true, Bool.not_eq_true', ← Bool.not_eq_true, hA p hp, hB p hp]
  rw [VRange.rngDifferenceRng_eq]
  obtain ⟨any, hany⟩ := RC.allowsAny_ok (.rng a) (.rng b)
  simp only [hany, bind, Except.bind]
  cases any with
  | false =>
    refine ⟨.single (.rng a), by simp [pure, Except.pure], ha.wf_ne,
      Or.inr (Or.inl ⟨_, rfl, ha⟩), fun p hp => ?_⟩
    have fine : ∀ (t : VRange), t.HalfOpen → t.OKat p := fun t ht =>
      ⟨fun m hm => Or.inl (ht.1 m hm), fun M hM => Or.inl (ht.2 M hM)⟩
    have hno := rng_allowsAny_false_sound_at a b awf bwf hany p hp (fine a aho) (fine b bho)
    simp only [VC.allowsPlain, VC.flatten, List.any_cons, List.any_nil, Bool.or_false, RC.allows]
    cases h1 : a.allows p <;> cases h2 : b.allows p <;> simp_all
  | true =>
    simp only [Bool.not_true, Bool.false_eq_true, if_false]
    simp only [RC.allowsAny, VRange.isStrictlyHigher, Except.ok.injEq, Bool.not_eq_true',
      Bool.or_eq_false_iff] at hany
    have core : ∀ p, (a.raw p ∧ ¬ b.raw p) ↔ ((a.denLo p ∧ ¬ b.denLo p) ∨ (a.rawHi p ∧ ¬ b.rawHi p)) := by
      intro p
      have c1 : a.rawHi p ∨ b.denLo p := by
        rcases VRange.strictlyLower_false_cover hany.2 p with h1 | h1
        · exact Or.inl ((VRange.denHi_iff_rawHi_unstable a aM p).1 h1)
        · exact Or.inr h1
      have c2 : b.rawHi p ∨ a.denLo p := by
        rcases VRange.strictlyLower_false_cover hany.1 p with h1 | h1
        · exact Or.inl ((VRange.denHi_iff_rawHi_unstable b bM p).1 h1)
        · exact Or.inr h1
      exact VRange.diff_core c1 c2
    obtain ⟨o1, e1, s1⟩ := VRange.beforePiece_spec a b awf bwf atd
    obtain ⟨o2, e2, s2⟩ := VRange.afterPiece_spec a b awf bwf atd hec
    simp only [e1, e2]
    have inc2' : (∀ p, a.denHi p → b.denHi p) → ∀ p, a.rawHi p → b.rawHi p := fun h p hp =>
      (VRange.denHi_iff_rawHi_unstable b bM p).1 (h p ((VRange.denHi_iff_rawHi_unstable a aM p).2 hp))
    cases o1 with
    | none =>
      have inc1 : ∀ p, a.denLo p → b.denLo p := s1
      cases o2 with
      | none =>
        have inc2 := inc2' s2
        refine ⟨.empty, rfl, trivial, Or.inl rfl, fun p hp => ?_⟩
        exact target p hp False (by
          rw [core]; constructor; exact False.elim
          rintro (⟨h1, h2⟩ | ⟨h1, h2⟩); exact h2 (inc1 p h1); exact h2 (inc2 p h1))
          _ (by simp [VC.allowsPlain, VC.flatten])
      | some y =>
        have yd := VRange.afterPiece_devdev ha hb e2
        obtain ⟨_, _, _, ysem, _⟩ := s2
        refine ⟨.single y, rfl, yd.wf_ne, Or.inr (Or.inl ⟨_, rfl, yd⟩), fun p hp => ?_⟩
        refine target p hp (y.sem p) ?_ _ (by simpa [VC.allowsPlain, VC.flatten] using yd.allows_iff_sem p hp)
        rw [core, ysem p]
        constructor
        · exact Or.inr
        · rintro (⟨h1, h2⟩ | h1); exact absurd (inc1 p h1) h2; exact h1
    | some x =>
      have xd := VRange.beforePiece_devdev ha hb e1
      obtain ⟨_, _, _, xsem, _⟩ := s1
      cases o2 with
      | none =>
        have inc2 := inc2' s2
        refine ⟨.single x, rfl, xd.wf_ne, Or.inr (Or.inl ⟨_, rfl, xd⟩), fun p hp => ?_⟩
        refine target p hp (x.sem p) ?_ _ (by simpa [VC.allowsPlain, VC.flatten] using xd.allows_iff_sem p hp)
        rw [core, xsem p]
        constructor
        · exact Or.inl
        · rintro (h1 | ⟨h1, h2⟩); exact h1; exact absurd (inc2 p h1) h2
      | some y =>
        have yd := VRange.afterPiece_devdev ha hb e2
        obtain ⟨_, _, _, ysem, _⟩ := s2
        have hm : ∀ c ∈ [x, y], c.HalfOpenDev := by
          intro c hc
          simp only [List.mem_cons, List.mem_nil_iff, or_false] at hc
          rcases hc with rfl | rfl
          · exact xd.1
          · exact yd.1
        obtain ⟨res, h1, h2, h3⟩ := halfopen_dev_union_of_exact [x, y] hm
        refine ⟨res, h1, h2, Or.inr (Or.inr ⟨x, y, xd, yd, h1⟩), fun p hp => ?_⟩
        rw [h3 p hp]
        refine target p hp (x.sem p ∨ y.sem p) ?_ _ ?_
        · rw [core, xsem p, ysem p]
        · simp only [anyAllows, List.any_cons, List.any_nil, Bool.or_false, Bool.or_eq_true]
          rw [xd.allows_iff_sem p hp, yd.allows_iff_sem p hp]

/-- `[X.dev0, Y.dev0)` as a range -/
def devRange (x y : Nat) : VRange :=
  ⟨some (Version.mk' 0 [x] none none (some ⟨.dev, 0⟩) none), some (Version.mk' 0 [y] none none (some ⟨.dev, 0⟩) none),
    true, false⟩

/-- the hypotheses are satisfiable, and the two-piece case occurs: `[1.dev0, 4.dev0) − [2.dev0, 3.dev0)` -/
example : RC.DevDev (.rng (devRange 1 4)) ∧ RC.DevDev (.rng (devRange 2 3)) ∧
    RC.rngDifferenceRng (devRange 1 4) (devRange 2 3) = .ok (.union [.rng (devRange 1 2), .rng (devRange 3 4)]) := by
  refine ⟨?_, ?_, by decide +kernel⟩
  · refine RC.DevDev.mk' _ ⟨?_, ?_⟩ ⟨by simp [devRange], by simp [devRange]⟩ ⟨by simp [devRange], by simp [devRange]⟩ ?_
    · intro e he; simp [VRange.bounds, devRange] at he; rcases he with rfl | rfl <;> decide
    · intro m M hm hM; simp [devRange] at hm hM; subst hm; subst hM; rw [vk_lt_iff]; decide
    · intro e he; simp [VRange.bounds, devRange] at he; rcases he with rfl | rfl <;> decide
  · refine RC.DevDev.mk' _ ⟨?_, ?_⟩ ⟨by simp [devRange], by simp [devRange]⟩ ⟨by simp [devRange], by simp [devRange]⟩ ?_
    · intro e he; simp [VRange.bounds, devRange] at he; rcases he with rfl | rfl <;> decide
    · intro m M hm hM; simp [devRange] at hm hM; subst hm; subst hM; rw [vk_lt_iff]; decide
    · intro e he; simp [VRange.bounds, devRange] at he; rcases he with rfl | rfl <;> decide

/-- **with a stable upper end of the subtrahend the difference loses versions** (same family as
`adjacent-union-gap`; replayed on the real code: `(>=1.dev0,<4.dev0).difference(>=2.dev0,<3)` is
`==1.* || >=3,<4.dev0`, which rejects `3.dev0` although the minuend admits it and the subtrahend does not) -/
theorem counterexample_difference_stable_end :
    let a := devRange 1 4
    let b : VRange := ⟨some (Version.mk' 0 [2] none none (some ⟨.dev, 0⟩) none), some (Version.mk' 0 [3] none none none none), true, false⟩
    let p := Version.mk' 0 [3] none none (some ⟨.dev, 0⟩) none
    let res : VC := .union [.rng (devRange 1 2), .rng ⟨b.max, a.max, true, false⟩]
    RC.rngDifferenceRng a b = .ok res ∧ a.allows p = true ∧ b.allows p = false ∧
      res.allowsPlain p = false := by
  decide +kernel

/-- **`intersect` at a probe when members may be POINTS (`Version` members inside unions), outside `RegB`, without
`NoPoint`**.  `RC.MSem c p`: `c` is a range member carrying the per-probe facts (`VRange.PSem0`: probe regular for
an exclusive-or-stable lower end and for an inclusive upper end, bounds non-local) or a `Version` the probe is
regular for.  For operands sorted as `VersionUnion.of` leaves them, whenever `intersect` returns, every member of the
result is again of the class (two inclusive ends on one key give a point — e.g. `<1.dev0 || ==2.dev0` from
`!=1.*, <=2.dev0`) and the result admits the probe exactly when both operands do. -/
theorem intersect_at_probe_points (p : Version) (hp : p.wf = true) (a b c : VC)
    (hsa : SortedRC a.flatten) (hsb : SortedRC b.flatten)
    (ha : ∀ x ∈ a.flatten, x.MSem p) (hb : ∀ x ∈ b.flatten, x.MSem p) (h : VC.intersect a b = .ok c) :
    (∀ x ∈ c.flatten, x.MSem p) ∧ c.allowsPlain p = (a.allowsPlain p && b.allowsPlain p) :=
  VC.intersect_atM p hp a b c hsa hsb ha hb h

/-- **`VersionUnion.of` at a probe when members may be points, outside `RegB`**: whenever it returns, every member
of the result is of the class (a point touching an excluded end of a range makes that end inclusive; a point inside
a range or equal to another point is absorbed) and the result admits the probe exactly when an input does -/
theorem union_of_at_probe_points (p : Version) (hp : p.wf = true) (l : List RC) (res : VC)
    (hm : ∀ c ∈ l, c.MSem p) (h : unionOfFlat l = .ok res) :
    (∀ c ∈ res.flatten, c.MSem p) ∧ res.allowsPlain p = anyAllows l p :=
  unionOfFlat_atM p hp l res h hm

/-- one merge step, the four member shapes: the member `rcUnionSingle` returns is of the class and exact -/
theorem union_step_at_probe_points (p : Version) (hp : p.wf = true) (x y u : RC) (hx : x.MSem p) (hy : y.MSem p)
    (h : rcUnionSingle x y = .ok (some u)) : u.MSem p ∧ u.allows p = (x.allows p || y.allows p) :=
  rcUnionSingle_at p hp x y u hx hy h

/-- the hypotheses are satisfiable with a point member: `==2.dev0` at the probe `2.dev0` -/
example : let v := Version.mk' 0 [2] none none (some ⟨.dev, 0⟩) none
    (RC.ver v).MSem v := Or.inr ⟨_, rfl, by decide, Or.inl rfl⟩

end Poetry.C05
