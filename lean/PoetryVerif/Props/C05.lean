import PoetryVerif.Model.VRange
namespace Poetry.C05
theorem placeholder : True := trivial
end Poetry.C05
