/-
C05 — Constraint intersection, union and difference are exact set operations.
Property theorems only (helper lemmas live in Proofs/VRange*.lean).  Vocabulary:
`Regular B p` (the probe is equal to, or of a different release than, every bound in `B`),
`RC.WF` / `VRange.WF` (well-formed bounds, strictly ordered ends), `VC.allowsPlain` (membership as the
disjunction over the member ranges; equal to `VC.allows` for every non-union constraint).
-/
import PoetryVerif.Proofs.VRangeOps

set_option linter.unusedSimpArgs false
set_option linter.unusedVariables false

namespace Poetry.C05
open Poetry Version

/-! ## the semantic bridge -/

/-- **Bridge**: on a well-formed probe that is regular for the bounds, the real `VersionRange.allows`
(with its post-release / local-label / `allowed_max` adjustments) is plain interval membership over the
effective endpoints. -/
theorem range_allows_iff_interval (r : VRange) (p : Version) (hr : r.wfB) (hp : p.wf = true)
    (hreg : Regular r.bounds p) : r.allows p = true ↔ r.den p :=
  VRange.allows_iff_den r p hr hp hreg

/-- the same for `Version | VersionRange` members, over the written endpoints -/
theorem member_allows_iff_interval (c : RC) (p : Version) (hc : c.wfB) (hp : p.wf = true)
    (hreg : Regular c.bounds p) : c.allows p = true ↔ c.sem p :=
  RC.allows_iff_sem c p hc hp hreg

/-- for every constraint that is not a union, `allows` never raises and is `allowsPlain` -/
theorem allows_eq_plain_of_not_union (c : VC) (p : Version) (h : ∀ rs, c ≠ .union rs) :
    c.allows p = .ok (c.allowsPlain p) := by
  cases c with
  | empty => rfl
  | single c => simp [VC.allows, VC.allowsPlain, VC.flatten]
  | union rs => exact absurd rfl (h rs)

/-! ## intersection, range level -/

/-- **range ∩ range is defined and exact.**  For well-formed ranges the two `assert`s of
`VersionRange.intersect` never fire, the result is empty, a version or a well-formed range, and it admits a
regular probe exactly when both operands do. -/
theorem range_intersect_exact (a b : VRange) (ha : a.WF) (hb : b.WF) :
    ∃ r, RC.rngIntersectRng a b = .ok r ∧
      ∀ p, p.wf = true → Regular (a.bounds ++ b.bounds) p →
        r.allows p = .ok (a.allows p && b.allows p) :=
  VRange.intersect_exact a b ha hb

def exA : VRange := ⟨some (Version.mk' 0 [1, 2] none none none none), some (Version.mk' 0 [2] none none none none), true, false⟩
def exB : VRange := ⟨some (Version.mk' 0 [1, 5] (some ⟨.rc, 1⟩) none none none), none, false, false⟩
def exP : Version := Version.mk' 0 [1, 7] none (some ⟨.post, 2⟩) none (some ["x"])

example : exA.WF ∧ exB.WF ∧ exP.wf = true ∧ Regular (exA.bounds ++ exB.bounds) exP := by
  refine ⟨⟨?_, ?_⟩, ⟨?_, ?_⟩, by decide, ?_⟩
  · intro e he; simp [VRange.bounds, exA] at he; rcases he with rfl | rfl <;> decide
  · intro m M hm hM; simp [exA] at hm hM; subst hm; subst hM; rw [vk_lt_iff]; decide
  · intro e he; simp [VRange.bounds, exB] at he; subst he; decide
  · intro m M hm hM; simp [exB] at hM
  · intro e he; simp [VRange.bounds, exA, exB] at he; rcases he with rfl | rfl | rfl <;> right <;> decide

/-- **version ∩ version / range ∩ version / range ∩ range** (`a.intersect(b)` for any two non-union
operands): defined, and exact on regular probes — outside the one branch recorded as known finding
"local-min-intersect" (a `Version` met with a range whose lower bound is a local build of it). -/
theorem member_intersect_exact (a b : RC) (ha : a.WF) (hb : b.WF)
    (hcase : ∀ r x, (a = .rng r ∧ b = .ver x) ∨ (a = .ver x ∧ b = .rng r) → ¬ RC.LocalMinCase r x) :
    ∃ r, RC.intersect a b = .ok r ∧
      ∀ p, p.wf = true → Regular (a.bounds ++ b.bounds) p →
        r.allows p = .ok (a.allows p && b.allows p) :=
  RC.intersect_exact a b ha hb hcase

/-- the full statement for this case without the carve-out … -/
def member_intersect_full_statement : Prop :=
  ∀ a b : RC, a.WF → b.WF → ∃ r, RC.intersect a b = .ok r ∧
    ∀ p, p.wf = true → Regular (a.bounds ++ b.bounds) p → r.allows p = .ok (a.allows p && b.allows p)

def cexV : Version := Version.mk' 0 [1, 0, 0] none none none none
def cexR : VRange := ⟨some (Version.mk' 0 [1, 0] none none none (some ["local"])), none, false, false⟩
def cexP : Version := Version.mk' 0 [1, 0, 0, 1] none none none none

/-- … **is false of model and code** (known finding "local-min-intersect"): `1.0.0 ∩ >1.0+local` is
`>1.0+local,<1.0.1`, which admits the regular probe `1.0.0.1` that `1.0.0` rejects. -/
theorem counterexample_local_min_intersect : ¬ member_intersect_full_statement := by
  intro h
  obtain ⟨r, hr, hall⟩ := h (.ver cexV) (.rng cexR) (by show cexV.wf = true; decide)
    ⟨by intro e he; simp [VRange.bounds, cexR] at he; subst he; decide,
     by intro m M hm hM; simp [cexR] at hM⟩
  have hreg : Regular ((RC.ver cexV).bounds ++ (RC.rng cexR).bounds) cexP := by
    intro e he
    simp [RC.bounds, RC.view, VRange.bounds, RC.min, RC.max, cexR] at he
    rcases he with rfl | rfl <;> right <;> decide
  have h1 := hall cexP (by decide) hreg
  have h2 : RC.rngIntersectVer cexR cexV =
      .single (.rng ⟨cexR.min, some cexV.stable.nextPatch, false, false⟩) := by decide
  have h3 : RC.intersect (.ver cexV) (.rng cexR) = .ok (RC.rngIntersectVer cexR cexV) := rfl
  rw [h3, h2] at hr
  cases hr
  simp only [VC.allows, RC.allows, Except.ok.injEq] at h1
  revert h1
  decide

/-! ## commutativity, empty and universal operands -/

/-- **intersection is commutative up to admitted versions** (non-union operands) -/
theorem member_intersect_comm (a b : RC) (ha : a.WF) (hb : b.WF)
    (hcase : ∀ r x, (a = .rng r ∧ b = .ver x) ∨ (a = .ver x ∧ b = .rng r) → ¬ RC.LocalMinCase r x) :
    ∃ r r', RC.intersect a b = .ok r ∧ RC.intersect b a = .ok r' ∧
      ∀ p, p.wf = true → Regular (a.bounds ++ b.bounds) p → r.allows p = r'.allows p := by
  obtain ⟨r, hr, h⟩ := RC.intersect_exact a b ha hb hcase
  obtain ⟨r', hr', h'⟩ := RC.intersect_exact b a hb ha
    (fun r x hx => hcase r x (by rcases hx with hx | hx; exact Or.inr ⟨hx.2, hx.1⟩; exact Or.inl ⟨hx.2, hx.1⟩))
  refine ⟨r, r', hr, hr', fun p hp hreg => ?_⟩
  rw [h p hp hreg, h' p hp (fun e he => hreg e (by simp at he ⊢; exact he.symm)), Bool.and_comm]

/-- the empty constraint is absorbing for ∩, neutral for ∪, and `a − ∅ = a`, `∅ − a = ∅` -/
theorem empty_laws (a : VC) :
    VC.intersect .empty a = .ok .empty ∧ VC.unionWith .empty a = .ok a ∧
    VC.difference .empty a = .ok .empty ∧
    (∀ c, VC.intersect (.single c) .empty = .ok .empty) ∧
    (∀ r, VC.difference (.single (.rng r)) .empty = .ok (.single (.rng r))) ∧
    (∀ rs, VC.difference (.union rs) .empty = .ok (.union rs)) ∧
    (∀ rs, VC.intersect (.union rs) .empty = .ok .empty) := by
  refine ⟨rfl, rfl, rfl, fun c => rfl, fun r => rfl, fun rs => rfl, fun rs => ?_⟩
  simp [VC.intersect, VC.flatten, VC.unionIntersectLoop, VC.unionOf, unionOfFlat]
  cases rs <;> simp [VC.unionIntersectLoop, bind, Except.bind, unionOfFlat]

/-- the universal range is neutral for ∩ on members (up to admitted versions) and admits everything -/
theorem any_laws (c : RC) (hc : c.WF) :
    (∀ p, VRange.any.allows p = true) ∧
    ∃ r, RC.intersect (.rng VRange.any) c = .ok r ∧
      ∀ p, p.wf = true → Regular c.bounds p → r.allows p = .ok (c.allows p) := by
  refine ⟨fun p => by simp [VRange.allows, VRange.allowsLo, VRange.allowsHi, VRange.any], ?_⟩
  have hany : (RC.rng VRange.any).WF :=
    ⟨by intro e he; simp [VRange.bounds, VRange.any] at he, by intro m M hm; simp [VRange.any] at hm⟩
  have hnl : ∀ x, ¬ RC.LocalMinCase VRange.any x := by
    rintro x ⟨_, m, hm, _⟩; simp [VRange.any] at hm
  obtain ⟨r, hr, h⟩ := RC.intersect_exact (.rng VRange.any) c hany hc (by
    intro r x hx
    rcases hx with ⟨h1, _⟩ | ⟨h1, _⟩
    · cases h1; exact hnl x
    · cases h1)
  refine ⟨r, hr, fun p hp hreg => ?_⟩
  rw [h p hp (hreg.mono (fun e he => by simpa [RC.bounds, VRange.bounds, VRange.any, RC.view, RC.min, RC.max] using he))]
  simp [RC.allows, VRange.allows, VRange.allowsLo, VRange.allowsHi, VRange.any]

end Poetry.C05
