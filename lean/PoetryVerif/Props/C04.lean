/- C04 — placeholder theorems (structure of `Spec.contains`); the property theorems replace this file. -/
import PoetryVerif.Spec.Specifier

namespace Poetry.C04
open Poetry Poetry.Spec

/-- the empty specifier set admits every version -/
theorem contains_nil (v : Version) : contains [] v = true := rfl

theorem contains_cons (c : Clause) (s : List Clause) (v : Version) :
    contains (c :: s) v = (c.contains v && contains s v) := by
  simp [contains]

/-- a comma is a conjunction -/
theorem contains_append (s t : List Clause) (v : Version) :
    contains (s ++ t) v = (contains s v && contains t v) := by
  simp [contains, List.all_append]

end Poetry.C04
