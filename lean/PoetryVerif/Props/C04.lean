/-
C04 — Constraint membership agrees with PEP 440 specifier semantics.
Property theorems only (helper lemmas in Proofs/VRangeSpec.lean).

`Spec.contains` (Spec/Specifier.lean) formalises `packaging.specifiers.SpecifierSet.contains(v,
prereleases=True)` over the reference order and is tied to packaging by the check's spec-vs-reference
stream.  `clauseVC op V` is the constraint `parse_single_constraint` builds once the operator and the version
text have been recognised (token level; the recogniser is tied to the code by the parse stream).
Proved: for every operator except `!=V.*`, membership equals the reference on every probe that is *regular*
for the literal (the candidate equals the literal or has a different release — the second and third disjunct of
the property's guard); for `==V.*` on *every* probe.  For final-release literals (first disjunct of the guard) every operator the guard admits — ordered comparisons,
`==`, `~=`, `==V.*`, `!=V.*` — is proved on *every* candidate, including the exclusive-comparison rules.
-/
import PoetryVerif.Proofs.VRangeSpec
import PoetryVerif.Proofs.VRangeSpecFinal
import PoetryVerif.Proofs.VRangeSpecSet
import PoetryVerif.Proofs.VRangeFinalSet
import PoetryVerif.Proofs.VRangeSetAt
import PoetryVerif.Proofs.VRangeDiff

set_option linter.unusedSimpArgs false
set_option linter.unusedVariables false

namespace Poetry.C04
open Poetry Poetry.Spec Version

/-! ## structure of `Spec.contains` -/

/-- the empty specifier set admits every version -/
theorem contains_nil (v : Version) : contains [] v = true := rfl

/-- a comma is a conjunction -/
theorem contains_cons (c : Clause) (s : List Clause) (v : Version) :
    contains (c :: s) v = (c.contains v && contains s v) := by
  simp [contains]

theorem contains_append (s t : List Clause) (v : Version) :
    contains (s ++ t) v = (contains s v && contains t v) := by
  simp [contains, List.all_append]

/-! ## one clause -/

/-- the grammar's side conditions on a clause: a local label only after `==`/`!=`; `~=` needs two release
components -/
def ClauseOk (op : SOp) (V : Version) : Prop :=
  V.wf = true ∧ (op ≠ .eq → op ≠ .ne → V.loc = none) ∧ (op = .compat → 2 ≤ V.precision)

/-- **membership of one clause equals the reference**, for every operator but the wildcards, on every probe
that is regular for the literal (candidate equals the literal, or is of a different release). -/
theorem clause_membership_eq_ref (op : SOp) (V v : Version) (hok : ClauseOk op V)
    (hop : op ≠ .eqStar ∧ op ≠ .neStar) (hv : v.wf = true) (hreg : Reg1 v V) :
    ∃ c, clauseVC op V = .ok c ∧ c.allows v = .ok (Clause.contains ⟨op, V⟩ v) := by
  obtain ⟨hV, hloc, hprec⟩ := hok
  cases op with
  | eq =>
    refine ⟨_, rfl, ?_⟩
    simp only [VC.allows, RC.allows, Clause.contains]
    congr 1; apply bool_eq_of_iff
    rw [RC.ver_allows_iff V v hV hv hreg, spec_eq hV hv hreg]
  | ne =>
    obtain ⟨b, hb, hiff⟩ := ne_allows V v hV hv hreg
    refine ⟨_, rfl, ?_⟩
    rw [hb]; congr 1; apply bool_eq_of_iff
    simp only [Clause.contains]
    rw [hiff, spec_ne hV hv hreg]
  | lt =>
    refine ⟨_, rfl, ?_⟩
    simp only [VC.allows, RC.allows, Clause.contains]
    congr 1; apply bool_eq_of_iff
    rw [upper_allows V v false hV hv hreg, spec_lt hV (hloc (by simp) (by simp)) hv hreg]; simp
  | le =>
    refine ⟨_, rfl, ?_⟩
    simp only [VC.allows, RC.allows, Clause.contains]
    congr 1; apply bool_eq_of_iff
    rw [upper_allows V v true hV hv hreg, spec_le hV hv hreg]; simp
  | gt =>
    refine ⟨_, rfl, ?_⟩
    simp only [VC.allows, RC.allows, Clause.contains]
    congr 1; apply bool_eq_of_iff
    rw [lower_allows V v false hV hv hreg, spec_gt hV hv hreg]; simp
  | ge =>
    refine ⟨_, rfl, ?_⟩
    simp only [VC.allows, RC.allows, Clause.contains]
    congr 1; apply bool_eq_of_iff
    rw [lower_allows V v true hV hv hreg, spec_ge hV hv]; simp
  | compat =>
    refine ⟨_, rfl, ?_⟩
    simp only [VC.allows, RC.allows, Clause.contains]
    congr 1
    exact compat_allows V v hV (hprec rfl) hv hreg
  | eqStar => exact absurd rfl hop.1
  | neStar => exact absurd rfl hop.2

example : ∃ V v, Version.parse "1!2.3.post4" = .ok V ∧ Version.parse "1!2.3.1a1+x" = .ok v ∧
    ClauseOk .gt V ∧ v.wf = true ∧ Reg1 v V :=
  ⟨_, _, rfl, rfl, ⟨by decide, fun _ _ => by decide, fun h => by cases h⟩, by decide, Or.inr (by decide)⟩

/-- **`==V.*` equals the reference on every candidate** (no guard): every pre/post/dev/local form of every
release. -/
theorem wildcard_membership_eq_ref (V v : Version) (hV : V.wf = true) (hfin : V.isFinal = true)
    (hv : v.wf = true) :
    ∃ c, clauseVC .eqStar V = .ok c ∧ c.allows v = .ok (Clause.contains ⟨.eqStar, V⟩ v) := by
  refine ⟨_, (eqStar_range V hfin).1, ?_⟩
  simp only [VC.allows, RC.allows, Clause.contains]
  congr 1
  exact eqStar_allows V v hfin hV hv

example : ∃ V v, Version.parse "1.2" = .ok V ∧ Version.parse "1.3.dev0+l" = .ok v ∧ V.isFinal = true ∧
    Clause.contains ⟨.eqStar, V⟩ v = false := ⟨_, _, rfl, rfl, by decide, by decide⟩

/-- **`!=V.*` equals the reference on every candidate** (no guard): the parser builds the union
`<V.dev0 || >=N.dev0`, and the real `VersionUnion.allows` (through `_inverted`) is evaluated. -/
theorem wildcard_ne_membership_eq_ref (V v : Version) (hV : V.wf = true) (hfin : V.isFinal = true)
    (hv : v.wf = true) :
    ∃ c, clauseVC .neStar V = .ok c ∧ c.allows v = .ok (Clause.contains ⟨.neStar, V⟩ v) :=
  ⟨_, neStar_range V hfin hV, neStar_allows V v hfin hV hv⟩

example : ∃ V v, Version.parse "1.2" = .ok V ∧ Version.parse "1.2.post1.dev0+l" = .ok v ∧ V.isFinal = true ∧
    Clause.contains ⟨.neStar, V⟩ v = false := ⟨_, _, rfl, rfl, by decide, by decide⟩

/-! ## final-release literals: every candidate (first disjunct of the guard) -/

/-- **`<V` rejects the pre-releases of V** (and everything else of V's release), for a final release V, in the
model of the code *and* in the reference. -/
theorem lt_rejects_own_release (V w : Version) (hV : V.wf = true) (hfin : V.isFinal = true) (hw : w.wf = true)
    (hr : relKey w = relKey V) :
    (VC.single (.rng ⟨none, some V, false, false⟩)).allows w = .ok false ∧ Clause.contains ⟨.lt, V⟩ w = false := by
  obtain ⟨h1, h2⟩ := lt_final V w hV hfin hw hr
  exact ⟨by simp [VC.allows, RC.allows, h1], h2⟩

example : ∃ V w, Version.parse "1.0" = .ok V ∧ Version.parse "1.0rc1" = .ok w ∧ V.isFinal = true ∧
    relKey w = relKey V ∧ Version.cmp w V = .lt := ⟨_, _, rfl, rfl, by decide, by decide, by decide⟩

/-- **`>V` rejects the post-releases and local builds of V** (and everything else of V's release) -/
theorem gt_rejects_own_release (V w : Version) (hV : V.wf = true) (hfin : V.isFinal = true) (hw : w.wf = true)
    (hr : relKey w = relKey V) :
    (VC.single (.rng ⟨some V, none, false, false⟩)).allows w = .ok false ∧ Clause.contains ⟨.gt, V⟩ w = false := by
  obtain ⟨h1, h2⟩ := gt_final V w hV hfin hw hr
  exact ⟨by simp [VC.allows, RC.allows, h1], h2⟩

example : ∃ V w, Version.parse "1.0" = .ok V ∧ Version.parse "1.0.post1+local" = .ok w ∧ V.isFinal = true ∧
    relKey w = relKey V ∧ Version.cmp w V = .gt := ⟨_, _, rfl, rfl, by decide, by decide, by decide⟩

/-- **membership of one clause equals the reference on *every* candidate** when the literal is a final release,
for every operator but `!=V` (excluded by the guard): the ordered comparisons, `==`, `~=`, `==V.*`, `!=V.*` —
the first disjunct of the guard, for single clauses. -/
theorem final_literal_membership_eq_ref (op : SOp) (V v : Version) (hV : V.wf = true) (hfin : V.isFinal = true)
    (hop : op ≠ .ne) (hprec : op = .compat → 2 ≤ V.precision) (hv : v.wf = true) :
    ∃ c, clauseVC op V = .ok c ∧ c.allows v = .ok (Clause.contains ⟨op, V⟩ v) := by
  obtain ⟨_, _, _, f4⟩ := final_parts hfin
  cases op with
  | ne => exact absurd rfl hop
  | eqStar => exact wildcard_membership_eq_ref V v hV hfin hv
  | neStar => exact wildcard_ne_membership_eq_ref V v hV hfin hv
  | compat =>
    refine ⟨_, rfl, ?_⟩
    simp only [VC.allows, RC.allows, Clause.contains]; congr 1
    exact compat_final V v hV hfin (hprec rfl) hv
  | ge =>
    refine ⟨_, rfl, ?_⟩
    simp only [VC.allows, RC.allows, Clause.contains]; congr 1
    exact ge_final V v hV hfin hv
  | lt =>
    by_cases hr : relKey v = relKey V
    · exact ⟨_, rfl, by rw [(lt_rejects_own_release V v hV hfin hv hr).1, (lt_rejects_own_release V v hV hfin hv hr).2]⟩
    · exact clause_membership_eq_ref _ V v ⟨hV, fun _ _ => f4, fun h => by cases h⟩ ⟨by simp, by simp⟩ hv (Or.inr hr)
  | gt =>
    by_cases hr : relKey v = relKey V
    · exact ⟨_, rfl, by rw [(gt_rejects_own_release V v hV hfin hv hr).1, (gt_rejects_own_release V v hV hfin hv hr).2]⟩
    · exact clause_membership_eq_ref _ V v ⟨hV, fun _ _ => f4, fun h => by cases h⟩ ⟨by simp, by simp⟩ hv (Or.inr hr)
  | le =>
    by_cases hr : relKey v = relKey V
    · refine ⟨_, rfl, ?_⟩
      simp only [VC.allows, RC.allows, Clause.contains]; congr 1
      exact le_final V v hV hfin hv hr
    · exact clause_membership_eq_ref _ V v ⟨hV, fun _ _ => f4, fun h => by cases h⟩ ⟨by simp, by simp⟩ hv (Or.inr hr)
  | eq =>
    by_cases hr : relKey v = relKey V
    · refine ⟨_, rfl, ?_⟩
      simp only [VC.allows, RC.allows, Clause.contains]; congr 1
      exact eq_final V v hV hfin hv hr
    · exact clause_membership_eq_ref _ V v ⟨hV, fun _ _ => f4, fun h => by cases h⟩ ⟨by simp, by simp⟩ hv (Or.inr hr)

/-! ## two clauses: the comma -/

/-- **a two-clause specifier set** of ordered comparisons / `==` (what `parse_constraint` does with the
comma is `intersect`): defined, and membership equals the reference conjunction on probes regular for both
literals. -/
theorem two_clause_membership_eq_ref (o1 o2 : SOp) (V1 V2 v : Version) (m1 m2 : RC)
    (h1 : memberOf o1 V1 = some m1) (h2 : memberOf o2 V2 = some m2)
    (hok1 : ClauseOk o1 V1) (hok2 : ClauseOk o2 V2) (hne1 : o1 ≠ .eq → V1.loc = none) (hne2 : o2 ≠ .eq → V2.loc = none)
    (hv : v.wf = true) (hr1 : Reg1 v V1) (hr2 : Reg1 v V2) :
    ∃ c, VC.intersect (.single m1) (.single m2) = .ok c ∧
      c.allows v = .ok (contains [⟨o1, V1⟩, ⟨o2, V2⟩] v) := by
  obtain ⟨e1, b1, w1⟩ := memberOf_spec o1 V1 m1 h1
  obtain ⟨e2, b2, w2⟩ := memberOf_spec o2 V2 m2 h2
  have hop1 : o1 ≠ .eqStar ∧ o1 ≠ .neStar := by constructor <;> (intro e; subst e; simp [memberOf] at h1)
  have hop2 : o2 ≠ .eqStar ∧ o2 ≠ .neStar := by constructor <;> (intro e; subst e; simp [memberOf] at h2)
  obtain ⟨c1, hc1, a1⟩ := clause_membership_eq_ref o1 V1 v hok1 hop1 hv hr1
  obtain ⟨c2, hc2, a2⟩ := clause_membership_eq_ref o2 V2 v hok2 hop2 hv hr2
  rw [e1] at hc1; rw [e2] at hc2
  cases hc1; cases hc2
  simp only [VC.allows, Except.ok.injEq] at a1 a2
  have hnl : ∀ r x, (m1 = .rng r ∧ m2 = .ver x) ∨ (m1 = .ver x ∧ m2 = .rng r) → ¬ RC.LocalMinCase r x := by
    rintro r x hx ⟨_, m, hm, hml, _⟩
    rcases hx with ⟨hr, _⟩ | ⟨_, hr⟩
    · subst hr
      have hmem : m = V1 := b1 m (by simp [RC.bounds, RC.view, VRange.bounds, RC.min, hm])
      have : o1 ≠ .eq := by intro e; subst e; simp [memberOf] at h1
      simp [isLocal, hmem, hne1 this] at hml
    · subst hr
      have hmem : m = V2 := b2 m (by simp [RC.bounds, RC.view, VRange.bounds, RC.min, hm])
      have : o2 ≠ .eq := by intro e; subst e; simp [memberOf] at h2
      simp [isLocal, hmem, hne2 this] at hml
  obtain ⟨c, hc, hex⟩ := RC.intersect_exact m1 m2 (w1 hok1.1) (w2 hok2.1) hnl
  refine ⟨c, hc, ?_⟩
  have hreg : Regular (m1.bounds ++ m2.bounds) v := by
    intro e he
    simp only [List.mem_append] at he
    rcases he with he | he
    · rw [b1 e he]
      rcases hr1 with h | h
      · exact Or.inl ((vk_eq_iff _ _).1 h)
      · exact Or.inr h
    · rw [b2 e he]
      rcases hr2 with h | h
      · exact Or.inl ((vk_eq_iff _ _).1 h)
      · exact Or.inr h
  rw [hex v hv hreg, a1, a2]
  simp [contains]

/-- **a comma-joined specifier set of any length** of ordered comparisons / `==` over literals without local
label: `parse_constraint` folds `intersect` over the clauses' constraints (`groupVC`); the fold is defined and its
membership equals the reference conjunction on candidates regular for every literal. -/
theorem set_membership_eq_ref (first : Clause) (rest : List Clause) (mem : Clause → RC)
    (hmem : ∀ c ∈ first :: rest, memberOf c.op c.lit = some (mem c))
    (hok : ∀ c ∈ first :: rest, ClauseOk c.op c.lit ∧ c.lit.loc = none)
    (v : Version) (hv : v.wf = true) (hreg : ∀ c ∈ first :: rest, Reg1 v c.lit) :
    ∃ r, groupVC (mem first) (rest.map mem) = .ok r ∧ r.allows v = .ok (contains (first :: rest) v) := by
  -- each member: well-formed, its only bound is the literal, its membership is the clause's
  have one : ∀ c ∈ first :: rest, (mem c).WF ∧ (∀ e ∈ (mem c).bounds, e = c.lit) ∧
      (mem c).allows v = Clause.contains c v := by
    intro c hc
    obtain ⟨e1, b1, w1⟩ := memberOf_spec c.op c.lit (mem c) (hmem c hc)
    have hop : c.op ≠ .eqStar ∧ c.op ≠ .neStar := by
      constructor <;> (intro e; have := hmem c hc; rw [e] at this; simp [memberOf] at this)
    obtain ⟨x, hx, ax⟩ := clause_membership_eq_ref c.op c.lit v (hok c hc).1 hop hv (hreg c hc)
    rw [e1] at hx; cases hx
    refine ⟨w1 (hok c hc).1.1, b1, ?_⟩
    simpa [VC.allows] using ax
  let L := (first :: rest).map (fun c => c.lit)
  have hL : ∀ e ∈ L, e.loc = none := by
    intro e he
    obtain ⟨c, hc, rfl⟩ := List.mem_map.1 he
    exact (hok c hc).2
  have hregL : ∀ e ∈ L, Reg1 v e := by
    intro e he
    obtain ⟨c, hc, rfl⟩ := List.mem_map.1 he
    exact hreg c hc
  have hf := one first (by simp)
  obtain ⟨r, hr1, hr2⟩ := foldIntersect_exact L hL v hv hregL (rest.map mem) (.single (mem first))
    ((mem first).allows v) trivial
    (by intro c hc; simp [VC.flatten] at hc; subst hc; exact hf.1)
    (by intro e he
        have : e = first.lit := hf.2.1 e (by simpa [VC.bounds] using he)
        exact List.mem_map.2 ⟨first, by simp, this.symm⟩)
    rfl
    (by intro n hn
        obtain ⟨c, hc, rfl⟩ := List.mem_map.1 hn
        have hc' := one c (by simp [hc])
        exact ⟨hc'.1, fun e he => List.mem_map.2 ⟨c, by simp [hc], (hc'.2.1 e he).symm⟩⟩)
  refine ⟨r, hr1, ?_⟩
  rw [hr2, hf.2.2]
  congr 1
  simp only [contains, List.all_cons, List.all_map]
  congr 1
  apply bool_eq_of_iff
  simp only [List.all_eq_true, Function.comp]
  constructor
  · intro h c hc; rw [← (one c (by simp [hc])).2.2]; exact h c hc
  · intro h c hc; rw [(one c (by simp [hc])).2.2]; exact h c hc

/-! ## Poetry's own operators -/

/-- **a bare version means equality**: `parse_single_constraint("V")` and `"==V"` build the same constraint
(token level: `C15.parse_bare_version`), whose membership is the reference `==V` on regular probes. -/
theorem bare_is_eq (V v : Version) (hV : V.wf = true) (hv : v.wf = true) (hreg : Reg1 v V) :
    (VC.single (.ver V)).allows v = .ok (Clause.contains ⟨.eq, V⟩ v) := by
  obtain ⟨c, hc, h⟩ := clause_membership_eq_ref .eq V v ⟨hV, fun h => absurd rfl h, fun h => by cases h⟩
    ⟨by simp, by simp⟩ hv hreg
  cases hc; exact h

/-- **`^V` is `[V, next breaking)`** (the range `parse_single_constraint` builds, `C15.parse_caret`): a probe
regular for `V` is admitted iff it is at least `V` and below every version of the next breaking release. -/
theorem caret_range (V v : Version) (hV : V.wf = true) (hNwf : V.nextBreaking.wf = true) (hv : v.wf = true)
    (hreg : Reg1 v V) :
    (VRange.halfOpen V V.nextBreaking).allows v = true ↔
      vk V ≤ vk v ∧ vk v < vk V.nextBreaking.firstDevrelease :=
  halfOpen_allows_iff V V.nextBreaking v hV hNwf (nextBreaking_isFinal V)
    ((vk_lt_iff _ _).2 (nextBreaking_gt V hV)) hv hreg

/-- **`~V` is `[V, next minor)`** (next major when V has one release component) -/
theorem tilde_range (V v : Version) (hV : V.wf = true) (hv : v.wf = true) (hreg : Reg1 v V)
    (H : Version) (hH : H = if V.precision == 1 then V.stable.nextMajor else V.stable.nextMinor)
    (hHwf : H.wf = true) :
    (VRange.halfOpen V H).allows v = true ↔ vk V ≤ vk v ∧ vk v < vk H.firstDevrelease := by
  have hfin : H.isFinal = true := by rw [hH]; split <;> rfl
  have hlt : vk V < vk H := by
    rw [hH, vk_lt_iff]; split
    · exact stable_nextMajor_gt V hV
    · exact stable_nextMinor_gt V hV
  exact halfOpen_allows_iff V H v hV hHwf hfin hlt hv hreg

/-- **`a || b` is the union**: whenever `VersionUnion.of` returns, the result admits a regular probe iff one
of the alternatives' members does (C05 `union_of_preserves_membership_partial`). -/
theorem union_is_or (a b : VC) (res : VC) (h : VC.unionOf [a, b] = .ok res) (hg : Good (a.flatten ++ b.flatten))
    (p : Version) (hp : p.wf = true) (hreg : Regular (a.bounds ++ b.bounds) p) :
    res.allowsPlain p = (a.allowsPlain p || b.allowsPlain p) := by
  have hflat : [a, b].flatMap VC.flatten = a.flatten ++ b.flatten := by simp
  unfold VC.unionOf at h
  rw [hflat] at h
  obtain ⟨_, _, g3⟩ := unionOfFlat_sem _ res h hg
  rw [g3 p hp (by
    intro e he
    apply hreg e
    simp only [boundsOf, List.flatMap_append, List.mem_append] at he
    simp only [List.mem_append, VC.bounds_eq_flatMap]
    exact he)]
  simp [anyAllows, VC.allowsPlain, List.any_append]

/-! ## the property at full strength -/

/-- the property's guard, literally -/
def InDomain (s : List Clause) (v : Version) : Prop :=
  (∀ c ∈ s, c.lit.isFinal = true ∧ c.op ≠ .ne ∧ c.op ≠ .neStar) ∨
  (∀ c ∈ s, relKey v ≠ relKey c.lit) ∨
  (∃ c ∈ s, Version.cmp v c.lit = .eq)

/-- what `parse_constraint` computes for a comma-joined set: the clauses' constraints intersected left to
right -/
def setVC : List Clause → PyM VC
  | [] => .ok VC.any
  | c :: cs => do
    let first ← clauseVC c.op c.lit
    cs.foldlM (fun acc d => do VC.intersect acc (← clauseVC d.op d.lit)) first

/-- the ends of the ranges the parser builds for the clauses of a set: the literals, `~=`'s upper end, and the
two `.dev0` ends of a wildcard -/
def setBounds (s : List Clause) : List Version := s.flatMap (fun c => clauseBounds c.op c.lit)

/-- **a comma-joined specifier set of any length with any operators** — `~=`, `!=`, `==V.*`, `!=V.*` included
— in the regular setting: the ends of the clauses' ranges (`setBounds`) are mutually regular and carry no local
label, the wildcard literals are final, and the candidate is regular for those ends.  `parse_constraint`'s
left-to-right `intersect` (`setVC`) is defined and its membership (the real `allows`) equals the reference
conjunction. -/
theorem regular_set_membership_eq_ref (s : List Clause)
    (hok : ∀ c ∈ s, ClauseOk c.op c.lit ∧ ((c.op = .eqStar ∨ c.op = .neStar) → c.lit.isFinal = true))
    (hB : RegB (setBounds s)) (v : Version) (hv : v.wf = true) (hreg : Regular (setBounds s) v) :
    ∃ r, setVC s = .ok r ∧ r.allows v = .ok (contains s v) := by
  have hok' : ∀ c ∈ s, ClauseOk' c.op c.lit := fun c hc =>
    ⟨(hok c hc).1.1, (hok c hc).1.2.1, (hok c hc).1.2.2, (hok c hc).2⟩
  have hbs : ∀ c ∈ s, ∀ e ∈ clauseBounds c.op c.lit, e ∈ setBounds s := fun c hc e he =>
    List.mem_flatMap.2 ⟨c, hc, he⟩
  have sem : ∀ d ∈ s, ∀ x, clauseVC d.op d.lit = .ok x → x.allows v = .ok (d.contains v) := by
    intro d hd x hx
    by_cases h1 : d.op = .eqStar
    · obtain ⟨y, hy, ay⟩ := wildcard_membership_eq_ref d.lit v (hok d hd).1.1 ((hok d hd).2 (Or.inl h1)) hv
      rw [h1] at hx; rw [hy] at hx; cases hx
      cases d; simp only at h1; subst h1; exact ay
    · by_cases h2 : d.op = .neStar
      · obtain ⟨y, hy, ay⟩ := wildcard_ne_membership_eq_ref d.lit v (hok d hd).1.1 ((hok d hd).2 (Or.inr h2)) hv
        rw [h2] at hx; rw [hy] at hx; cases hx
        cases d; simp only at h2; subst h2; exact ay
      · have hlit : d.lit ∈ setBounds s := hbs d hd d.lit (by
          cases hop : d.op <;> simp_all [clauseBounds])
        obtain ⟨y, hy, ay⟩ := clause_membership_eq_ref d.op d.lit v (hok d hd).1 ⟨h1, h2⟩ hv
          (hreg.reg1 hlit)
        rw [hy] at hx; cases hx; exact ay
  cases s with
  | nil =>
    refine ⟨VC.any, rfl, ?_⟩
    simp [VC.any, VC.allows, RC.allows, VRange.allows, VRange.any, contains, VRange.allowsLo, VRange.allowsHi]
  | cons c cs =>
    obtain ⟨first, hf, fwf, fm⟩ := clauseVC_reg hB c.op c.lit (hok' c (by simp)) (hbs c (by simp))
    obtain ⟨res, h1, h2, h3, h4⟩ := foldClauses_reg hB v hv hreg cs first fwf fm (fun d hd =>
      ⟨hok' d (by simp [hd]), hbs d (by simp [hd]), sem d (by simp [hd])⟩)
    have hfp : first.allowsPlain v = c.contains v := by
      have a := VC.allows_of_reg hB first fwf fm v
      rw [sem c (by simp) first hf] at a
      injection a with a; exact a.symm
    refine ⟨res, by simp only [setVC, bind, Except.bind, hf]; exact h1, ?_⟩
    rw [VC.allows_of_reg hB res h2 h3 v, h4, hfp]
    simp [contains]

/-- **a comma-joined specifier set of any length of single-range clauses** — every operator but `!=` and `!=V.*`:
ordered comparisons, `==` (local labels included), `~=`, `==V.*` (wildcard literals final) — **on every candidate
that is regular for each literal** (equal to it, or of another release: the "exact-literal" / "other-release"
disjuncts of the guard).  Nothing is asked of the literals among themselves, nor of the candidate against the
derived range ends (`~=`'s upper end, the wildcard's `.dev0` ends): an inclusive lower end and an exclusive upper end
are plain comparisons on every candidate (`VRange.allowsLo_incl`, `VRange.allowsHi_excl`).  `parse_constraint`'s
left-to-right `intersect` is defined and its membership equals the reference conjunction.  The complement — a
candidate that is a pre/post/dev/local sibling of some literal — is the known class `sibling-of-another-literal`
(`counterexample_sibling_of_another_literal`). -/
theorem range_set_membership_eq_ref (first : Clause) (rest : List Clause)
    (hok : ∀ c ∈ first :: rest, ClauseOk c.op c.lit ∧ (c.op = .eqStar → c.lit.isFinal = true) ∧
      c.op ≠ .ne ∧ c.op ≠ .neStar)
    (v : Version) (hv : v.wf = true) (hreg : ∀ c ∈ first :: rest, Reg1 v c.lit) :
    ∃ r, setVC (first :: rest) = .ok r ∧ r.allows v = .ok (contains (first :: rest) v) := by
  let mem : Clause → RC := fun d => clauseMember d.op d.lit
  have hok' : ∀ c ∈ first :: rest, ClauseOk' c.op c.lit := fun c hc =>
    ⟨(hok c hc).1.1, (hok c hc).1.2.1, (hok c hc).1.2.2, fun h => by
      rcases h with h | h
      · exact (hok c hc).2.1 h
      · exact absurd h (hok c hc).2.2.2⟩
  have spec : ∀ c ∈ first :: rest, clauseVC c.op c.lit = .ok (.single (mem c)) ∧ (mem c).WF ∧ (mem c).OKat v ∧
      (mem c).RngNoLocal := fun c hc =>
    clauseMember_at c.op c.lit (hok' c hc) ⟨(hok c hc).2.2.1, (hok c hc).2.2.2⟩ v (hreg c hc)
  have sem : ∀ d ∈ first :: rest, (mem d).allows v = d.contains v := by
    intro d hd
    have hx := (spec d hd).1
    by_cases h1 : d.op = .eqStar
    · obtain ⟨y, hy, ay⟩ := wildcard_membership_eq_ref d.lit v (hok d hd).1.1 ((hok d hd).2.1 h1) hv
      rw [h1] at hx; rw [hx] at hy; cases hy
      cases d; simp only at h1; subst h1
      simpa [VC.allows] using ay
    · obtain ⟨y, hy, ay⟩ := clause_membership_eq_ref d.op d.lit v (hok d hd).1 ⟨h1, (hok d hd).2.2.2⟩ hv
        (hreg d hd)
      rw [hx] at hy; cases hy
      simpa [VC.allows] using ay
  have hf := spec first (by simp)
  obtain ⟨r, hr1, hr2, hr3⟩ := foldIntersect_at v hv (rest.map mem) (.single (mem first)) ((mem first).allows v) trivial
    (by intro c hc; simp [VC.flatten] at hc; subst hc; exact hf.2)
    (by simp [VC.allowsPlain, VC.flatten])
    (by intro n hn
        obtain ⟨c, hc, rfl⟩ := List.mem_map.1 hn
        exact (spec c (by simp [hc])).2)
  refine ⟨r, ?_, ?_⟩
  · have e1 : setVC (first :: rest) =
        rest.foldlM (fun acc d => do VC.intersect acc (← clauseVC d.op d.lit)) (.single (mem first)) := by
      simp only [setVC, hf.1]; rfl
    rw [e1, foldClauses_members rest _ (fun d hd => (spec d (by simp [hd])).1)]
    exact hr1
  · rw [VC.allows_of_notUnion r v hr2, hr3, sem first (by simp)]
    congr 1
    simp only [contains, List.all_cons, List.all_map]
    congr 1
    apply bool_eq_of_iff
    simp only [List.all_eq_true, Function.comp]
    constructor
    · intro h c hc; rw [← sem c (by simp [hc])]; exact h c hc
    · intro h c hc; rw [sem c (by simp [hc])]; exact h c hc

/-- the hypotheses are satisfiable: `>=1.2, ==1.2.*, ~=1.2.3, ==1.3rc1` on the candidate `1.3rc1` — equal to one
literal, of another release than the others, and a pre-release sibling of the derived end `1.3` of `~=1.2.3` -/
example : let s : List Clause := [⟨.ge, mk' 0 [1, 2] none none none none⟩, ⟨.eqStar, mk' 0 [1, 2] none none none none⟩,
      ⟨.compat, mk' 0 [1, 2, 3] none none none none⟩, ⟨.eq, mk' 0 [1, 3] (some ⟨.rc, 1⟩) none none none⟩]
    (∀ c ∈ s, Reg1 (mk' 0 [1, 3] (some ⟨.rc, 1⟩) none none none) c.lit) ∧
    contains s (mk' 0 [1, 3] (some ⟨.rc, 1⟩) none none none) = false := by
  intro s
  refine ⟨?_, by decide⟩
  intro c hc
  simp only [s, List.mem_cons, List.mem_nil_iff, or_false] at hc
  rcases hc with rfl | rfl | rfl | rfl
  · exact Or.inr (by decide)
  · exact Or.inr (by decide)
  · exact Or.inr (by decide)
  · exact Or.inl rfl

/-- the complement of the hypothesis, known class `sibling-of-another-literal`: `>1.0, >=1.0.post1` at the
candidate `1.0.post1` (equal to the second literal, a post-release sibling of the first).  `intersect` keeps the
greater lower bound `>=1.0.post1` and loses the PEP 440 rule that `>1.0` excludes the post-releases of `1.0`: the
model (like poetry-core) admits the candidate, the reference rejects it. -/
theorem counterexample_sibling_of_another_literal :
    let V := mk' 0 [1, 0] none none none none
    let W := mk' 0 [1, 0] none (some ⟨.post, 1⟩) none none
    setVC [⟨.gt, V⟩, ⟨.ge, W⟩] = .ok (.single (.rng ⟨some W, none, true, false⟩)) ∧
    (VC.single (.rng ⟨some W, none, true, false⟩)).allows W = .ok true ∧
    contains [⟨.gt, V⟩, ⟨.ge, W⟩] W = false ∧ Reg1 W W ∧ ¬ Reg1 W V := by
  intro V W
  refine ⟨by decide, by decide, by decide, Or.inl rfl, ?_⟩
  rintro (h | h)
  · exact absurd ((vk_eq_iff _ _).1 h) (by decide)
  · exact h (by decide)

/-- **a comma-joined specifier set of any length whose literals are all final releases, on EVERY candidate** —
the first disjunct of the guard (no `!=`, `!=V.*`), with nothing asked of the candidate: pre-releases, post-releases,
dev-releases and local builds of the literals included, any number of clauses on the same release
(`>1.0, <=1.0` — empty; `>=1.0, ==1.0.*, ~=1.0.0`).  Over final versions the two halves of `allows` have an explicit
reading on every probe (`VRange.allowsLo_final`: an exclusive lower end excludes its whole release;
`VRange.allowsHi_final`: an inclusive upper end admits its local builds) and the three bound comparisons of
`intersect` are sound for it (`VRange.cmpOK_final`); so the left-to-right `intersect` is defined, stays over final
versions, and its membership equals the reference conjunction. -/
theorem final_set_membership_eq_ref (first : Clause) (rest : List Clause)
    (hok : ∀ c ∈ first :: rest, ClauseOk c.op c.lit ∧ c.lit.isFinal = true ∧ c.op ≠ .ne ∧ c.op ≠ .neStar)
    (v : Version) (hv : v.wf = true) :
    ∃ r, setVC (first :: rest) = .ok r ∧ r.allows v = .ok (contains (first :: rest) v) := by
  let mem : Clause → RC := fun d => clauseMember d.op d.lit
  have spec : ∀ c ∈ first :: rest, clauseVC c.op c.lit = .ok (.single (mem c)) ∧ (mem c).FClass := fun c hc =>
    clauseMember_final c.op c.lit ⟨(hok c hc).1.1, (hok c hc).1.2.1, (hok c hc).1.2.2, fun _ => (hok c hc).2.1⟩
      ⟨(hok c hc).2.2.1, (hok c hc).2.2.2⟩ (hok c hc).2.1
  have sem : ∀ d ∈ first :: rest, (mem d).allows v = d.contains v := by
    intro d hd
    obtain ⟨y, hy, ay⟩ := final_literal_membership_eq_ref d.op d.lit v (hok d hd).1.1 (hok d hd).2.1 (hok d hd).2.2.1
      (hok d hd).1.2.2 hv
    rw [(spec d hd).1] at hy; cases hy
    simpa [VC.allows] using ay
  have hf := spec first (by simp)
  obtain ⟨r, hr1, hr2, hr3⟩ := foldIntersect_final v hv (rest.map mem) (.single (mem first)) ((mem first).allows v)
    trivial (by intro c hc; simp [VC.flatten] at hc; subst hc; exact hf.2) (by simp [VC.allowsPlain, VC.flatten])
    (by intro n hn
        obtain ⟨c, hc, rfl⟩ := List.mem_map.1 hn
        exact (spec c (by simp [hc])).2)
  refine ⟨r, ?_, ?_⟩
  · have e1 : setVC (first :: rest) =
        rest.foldlM (fun acc d => do VC.intersect acc (← clauseVC d.op d.lit)) (.single (mem first)) := by
      simp only [setVC, hf.1]; rfl
    rw [e1, foldClauses_members rest _ (fun d hd => (spec d (by simp [hd])).1)]
    exact hr1
  · rw [VC.allows_of_notUnion r v hr2, hr3, sem first (by simp)]
    congr 1
    simp only [contains, List.all_cons, List.all_map]
    congr 1
    apply bool_eq_of_iff
    simp only [List.all_eq_true, Function.comp]
    constructor
    · intro h c hc; rw [← sem c (by simp [hc])]; exact h c hc
    · intro h c hc; rw [sem c (by simp [hc])]; exact h c hc

/-- candidates the other set theorems exclude: `>1.0, <=1.0.0, ==1.0.*` at `1.0.post1` and at `1.0+local`, siblings
of every literal — answered as the reference does (rejected) -/
example : let s : List Clause := [⟨.gt, mk' 0 [1, 0] none none none none⟩, ⟨.le, mk' 0 [1, 0, 0] none none none none⟩,
      ⟨.eqStar, mk' 0 [1, 0] none none none none⟩]
    (∀ c ∈ s, c.lit.isFinal = true) ∧ contains s (mk' 0 [1, 0] none (some ⟨.post, 1⟩) none none) = false ∧
    contains s (mk' 0 [1, 0] none none none (some ["local"])) = false := by
  intro s
  refine ⟨?_, by decide, by decide⟩
  intro c hc
  simp only [s, List.mem_cons, List.mem_nil_iff, or_false] at hc
  rcases hc with rfl | rfl | rfl <;> decide

/-- `~=1.2, !=1.3.*, !=1.2.5, >=1.2` -/
private def exSet : List Clause :=
  [⟨.compat, mk' 0 [1, 2] none none none none⟩, ⟨.neStar, mk' 0 [1, 3] none none none none⟩,
   ⟨.ne, mk' 0 [1, 2, 5] none none none none⟩, ⟨.ge, mk' 0 [1, 2] none none none none⟩]

/-- the hypotheses are satisfiable: `~=1.2, !=1.3.*, !=1.2.5, >=1.2` on the candidate `1.2.5` (equal to one end,
of a different release from the others), which the set excludes -/
example : (∀ c ∈ exSet, ClauseOk c.op c.lit ∧ ((c.op = .eqStar ∨ c.op = .neStar) → c.lit.isFinal = true)) ∧
    RegB (setBounds exSet) ∧ Regular (setBounds exSet) (mk' 0 [1, 2, 5] none none none none) ∧
    contains exSet (mk' 0 [1, 2, 5] none none none none) = false := by
  refine ⟨?_, RegB.of_check (by decide), Regular.of_check (by decide), by decide⟩
  intro c hc
  simp only [exSet, List.mem_cons, List.mem_nil_iff, or_false] at hc
  rcases hc with rfl | rfl | rfl | rfl <;>
    exact ⟨⟨by decide, fun _ _ => by decide, fun _ => by decide⟩, fun _ => by decide⟩

/-- the inclusive lower ends / inclusive upper ends of the ranges a set's clauses build -/
def setLoI (s : List Clause) : List Version := s.flatMap (fun c => clauseLoI c.op c.lit)
def setHiI (s : List Clause) : List Version := s.flatMap (fun c => clauseHiI c.op c.lit)

/-- **comma-joined sets WITH `!=` / `!=V.*` clauses, without any regularity of the ends among themselves**: ordered
comparisons, `~=`, `==V.*`, `!=V`, `!=V.*` (no `==` clause, no local label, wildcard literals final), on every
candidate that is regular for each literal — the "exact-literal" / "other-release" guard.  The literals may be
siblings of each other (`>1.0, !=1.0.post1, <2`; `>=1.2, !=1.2.*`).  One static side condition: no inclusive lower
end equals an inclusive upper end (`NoPoint`: `>=V, <=V` would collapse a range to a `Version` member; every other
intersection of ranges is a range).  `parse_constraint`'s left-to-right `intersect` — pairwise intersections, the
merge walk of `VersionUnion.intersect`, `VersionUnion.of` on the collected parts — is defined at every step, keeps a
well-formed (sorted, separated) union of range members, and its member-by-member membership (what
`VersionUnion.allows` computes but for its `excludes_single_version` shortcut; the real `allows` when the result is
not a union) equals the reference conjunction. -/
theorem neq_set_membership_eq_ref (first : Clause) (rest : List Clause)
    (hok : ∀ c ∈ first :: rest, ClauseOk c.op c.lit ∧ ((c.op = .eqStar ∨ c.op = .neStar) → c.lit.isFinal = true) ∧
      c.op ≠ .eq ∧ c.lit.loc = none)
    (hnp : NoPoint (setLoI (first :: rest)) (setHiI (first :: rest)))
    (v : Version) (hv : v.wf = true) (hreg : ∀ c ∈ first :: rest, Reg1 v c.lit) :
    ∃ r, setVC (first :: rest) = .ok r ∧ r.allowsPlain v = contains (first :: rest) v ∧
      (r.notUnion → r.allows v = .ok (contains (first :: rest) v)) := by
  have hok' : ∀ c ∈ first :: rest, ClauseOk' c.op c.lit := fun c hc =>
    ⟨(hok c hc).1.1, (hok c hc).1.2.1, (hok c hc).1.2.2, (hok c hc).2.1⟩
  have one : ∀ d ∈ first :: rest, ∃ c, clauseVC d.op d.lit = .ok c ∧
      c.PInv (setLoI (first :: rest)) (setHiI (first :: rest)) v ∧ c.allowsPlain v = d.contains v := by
    intro d hd
    obtain ⟨c, hc, hinv⟩ := clauseVC_at (setLoI (first :: rest)) (setHiI (first :: rest)) d.op d.lit (hok' d hd)
      (hok d hd).2.2.1 (hok d hd).2.2.2 v (hreg d hd)
      (fun e he => List.mem_flatMap.2 ⟨d, hd, he⟩) (fun e he => List.mem_flatMap.2 ⟨d, hd, he⟩)
    refine ⟨c, hc, hinv, ?_⟩
    -- the single-clause theorems give the real `allows`; it is the member-by-member answer
    have hplain := clause_allows_plain d.op d.lit (hok d hd).1.1 (hok d hd).2.2.2 (hok d hd).2.1 c hc v
    have href : c.allows v = .ok (d.contains v) := by
      by_cases h1 : d.op = .eqStar
      · obtain ⟨y, hy, ay⟩ := wildcard_membership_eq_ref d.lit v (hok d hd).1.1 ((hok d hd).2.1 (Or.inl h1)) hv
        rw [h1] at hc; rw [hc] at hy; cases hy
        cases d; simp only at h1; subst h1; exact ay
      · by_cases h2 : d.op = .neStar
        · obtain ⟨y, hy, ay⟩ := wildcard_ne_membership_eq_ref d.lit v (hok d hd).1.1 ((hok d hd).2.1 (Or.inr h2)) hv
          rw [h2] at hc; rw [hc] at hy; cases hy
          cases d; simp only at h2; subst h2; exact ay
        · obtain ⟨y, hy, ay⟩ := clause_membership_eq_ref d.op d.lit v (hok d hd).1 ⟨h1, h2⟩ hv (hreg d hd)
          rw [hc] at hy; cases hy; exact ay
    rw [hplain] at href
    injection href
  obtain ⟨cf, hcf, hfi, hfs⟩ := one first (by simp)
  obtain ⟨res, h1, h2, h3⟩ := foldClauses_at hnp v hv rest cf hfi (fun d hd => one d (by simp [hd]))
  have hsem : res.allowsPlain v = contains (first :: rest) v := by
    rw [h3, hfs]; simp [contains]
  refine ⟨res, by simp only [setVC, hcf, bind, Except.bind]; exact h1, hsem, fun hnu => ?_⟩
  rw [VC.allows_of_notUnion res v hnu, hsem]

/-- the hypotheses are satisfiable: `>1.0, !=1.0.post1, <2` — literals that are siblings of each other, so no
`RegB` — on the candidate `1.5`, regular for each literal (another release) and admitted -/
example : let s : List Clause := [⟨.gt, mk' 0 [1, 0] none none none none⟩,
      ⟨.ne, mk' 0 [1, 0] none (some ⟨.post, 1⟩) none none⟩, ⟨.lt, mk' 0 [2] none none none none⟩]
    NoPoint (setLoI s) (setHiI s) ∧ (∀ c ∈ s, Reg1 (mk' 0 [1, 5] none none none none) c.lit) ∧
    contains s (mk' 0 [1, 5] none none none none) = true ∧
    ¬ Reg1 (mk' 0 [1, 0] none (some ⟨.post, 1⟩) none none) (mk' 0 [1, 0] none none none none) := by
  intro s
  refine ⟨?_, ?_, by decide, ?_⟩
  · intro m hm M hM
    simp [s, setHiI, clauseHiI] at hM
  · intro c hc
    simp only [s, List.mem_cons, List.mem_nil_iff, or_false] at hc
    rcases hc with rfl | rfl | rfl <;> exact Or.inr (by decide)
  · rintro (h | h)
    · exact absurd ((vk_eq_iff _ _).1 h) (by decide)
    · exact h (by decide)

/-- **every comma-joined set — `==` mixed with `!=`, `!=V.*` and all the range operators — without any regularity
of the ends among themselves**, on every candidate regular for each literal (the "exact-literal" / "other-release"
guard).  `==` literals may carry a local label; the literals of the other clauses carry none (`ClauseOk` for the
ordered comparisons; asked for `!=`).  One static side condition, decidable on the set: `NoPoint` — no inclusive
lower end equals an inclusive upper end (`>=V, <=V` inside a set with a `!=` clause would put a `Version` member
into a union).  `parse_constraint`'s left-to-right `intersect` is defined at every step; the running constraint is a
single `Version`, or a well-formed union of range members; its member-by-member membership (the real `allows` when
the result is not a union) equals the reference conjunction. -/
theorem guarded_set_membership_eq_ref (first : Clause) (rest : List Clause)
    (hok : ∀ c ∈ first :: rest, ClauseOk c.op c.lit ∧ ((c.op = .eqStar ∨ c.op = .neStar) → c.lit.isFinal = true) ∧
      (c.op = .ne → c.lit.loc = none))
    (hnp : NoPoint (setLoI (first :: rest)) (setHiI (first :: rest)))
    (v : Version) (hv : v.wf = true) (hreg : ∀ c ∈ first :: rest, Reg1 v c.lit) :
    ∃ r, setVC (first :: rest) = .ok r ∧ r.allowsPlain v = contains (first :: rest) v ∧
      (r.notUnion → r.allows v = .ok (contains (first :: rest) v)) := by
  have one : ∀ d ∈ first :: rest, ∃ c, clauseVC d.op d.lit = .ok c ∧
      c.QInv (setLoI (first :: rest)) (setHiI (first :: rest)) v ∧ c.allowsPlain v = d.contains v := by
    intro d hd
    by_cases heq : d.op = .eq
    · obtain ⟨y, hy, ay⟩ := clause_membership_eq_ref d.op d.lit v (hok d hd).1 (by rw [heq]; exact ⟨by simp, by simp⟩) hv
        (hreg d hd)
      have hc : clauseVC d.op d.lit = .ok (.single (.ver d.lit)) := by rw [heq]; rfl
      rw [hc] at hy; cases hy
      refine ⟨_, hc, Or.inl ⟨d.lit, rfl, (hok d hd).1.1, hreg d hd⟩, ?_⟩
      simpa [VC.allows, VC.allowsPlain, VC.flatten] using ay
    · have hloc : d.lit.loc = none := by
        by_cases hne : d.op = .ne
        · exact (hok d hd).2.2 hne
        · exact (hok d hd).1.2.1 heq hne
      have hok' : ClauseOk' d.op d.lit := ⟨(hok d hd).1.1, (hok d hd).1.2.1, (hok d hd).1.2.2, (hok d hd).2.1⟩
      obtain ⟨c, hc, hinv⟩ := clauseVC_at (setLoI (first :: rest)) (setHiI (first :: rest)) d.op d.lit hok' heq hloc v
        (hreg d hd) (fun e he => List.mem_flatMap.2 ⟨d, hd, he⟩) (fun e he => List.mem_flatMap.2 ⟨d, hd, he⟩)
      refine ⟨c, hc, Or.inr hinv, ?_⟩
      have hplain := clause_allows_plain d.op d.lit (hok d hd).1.1 hloc (hok d hd).2.1 c hc v
      have href : c.allows v = .ok (d.contains v) := by
        by_cases h1 : d.op = .eqStar
        · obtain ⟨y, hy, ay⟩ := wildcard_membership_eq_ref d.lit v (hok d hd).1.1 ((hok d hd).2.1 (Or.inl h1)) hv
          rw [h1] at hc; rw [hc] at hy; cases hy
          cases d; simp only at h1; subst h1; exact ay
        · by_cases h2 : d.op = .neStar
          · obtain ⟨y, hy, ay⟩ := wildcard_ne_membership_eq_ref d.lit v (hok d hd).1.1 ((hok d hd).2.1 (Or.inr h2)) hv
            rw [h2] at hc; rw [hc] at hy; cases hy
            cases d; simp only at h2; subst h2; exact ay
          · obtain ⟨y, hy, ay⟩ := clause_membership_eq_ref d.op d.lit v (hok d hd).1 ⟨h1, h2⟩ hv (hreg d hd)
            rw [hc] at hy; cases hy; exact ay
      rw [hplain] at href
      injection href
  obtain ⟨cf, hcf, hfi, hfs⟩ := one first (by simp)
  obtain ⟨res, h1, h2, h3⟩ := foldClauses_atQ hnp v hv rest cf hfi (fun d hd => one d (by simp [hd]))
  have hsem : res.allowsPlain v = contains (first :: rest) v := by
    rw [h3, hfs]; simp [contains]
  refine ⟨res, by simp only [setVC, hcf, bind, Except.bind]; exact h1, hsem, fun hnu => ?_⟩
  rw [VC.allows_of_notUnion res v hnu, hsem]

/-- **`NoPoint` is only asked of sets with a `!=` / `!=V.*` clause**: without one the running constraint is never a
union (`range_set_membership_eq_ref`), and `>=V, <=V` simply collapses to the `Version` `V`.  So for every comma set:
the guard (candidate regular for each literal) suffices, plus — only when some clause is `!=` / `!=V.*` — that no
inclusive lower end equals an inclusive upper end and that the `!=` literals carry no local label. -/
theorem guarded_set_membership_eq_ref_neq_nopoint (first : Clause) (rest : List Clause)
    (hok : ∀ c ∈ first :: rest, ClauseOk c.op c.lit ∧ ((c.op = .eqStar ∨ c.op = .neStar) → c.lit.isFinal = true) ∧
      (c.op = .ne → c.lit.loc = none))
    (hnp : (∃ c ∈ first :: rest, c.op = .ne ∨ c.op = .neStar) →
      NoPoint (setLoI (first :: rest)) (setHiI (first :: rest)))
    (v : Version) (hv : v.wf = true) (hreg : ∀ c ∈ first :: rest, Reg1 v c.lit) :
    ∃ r, setVC (first :: rest) = .ok r ∧ r.allowsPlain v = contains (first :: rest) v ∧
      (r.notUnion → r.allows v = .ok (contains (first :: rest) v)) := by
  by_cases hne : ∃ c ∈ first :: rest, c.op = .ne ∨ c.op = .neStar
  · exact guarded_set_membership_eq_ref first rest hok (hnp hne) v hv hreg
  · have hno : ∀ c ∈ first :: rest, c.op ≠ .ne ∧ c.op ≠ .neStar := fun c hc =>
      ⟨fun e => hne ⟨c, hc, Or.inl e⟩, fun e => hne ⟨c, hc, Or.inr e⟩⟩
    obtain ⟨r, h1, h2⟩ := range_set_membership_eq_ref first rest (fun c hc =>
      ⟨(hok c hc).1, fun e => (hok c hc).2.1 (Or.inl e), (hno c hc).1, (hno c hc).2⟩) v hv hreg
    -- without `!=` the result is never a union
    have hnu : r.notUnion := by
      have spec : ∀ c ∈ first :: rest, clauseVC c.op c.lit = .ok (.single (clauseMember c.op c.lit)) := fun c hc =>
        (clauseMember_at c.op c.lit ⟨(hok c hc).1.1, (hok c hc).1.2.1, (hok c hc).1.2.2, (hok c hc).2.1⟩ (hno c hc) v
          (hreg c hc)).1
      have e1 : setVC (first :: rest) = rest.foldlM (fun acc d => do VC.intersect acc (← clauseVC d.op d.lit))
          (.single (clauseMember first.op first.lit)) := by
        simp only [setVC, spec first (by simp)]; rfl
      rw [e1, foldClauses_members rest _ (fun d hd => spec d (by simp [hd]))] at h1
      exact fold_single_notUnion _ (.single (clauseMember first.op first.lit)) r trivial h1
    refine ⟨r, h1, ?_, fun _ => h2⟩
    rw [VC.allows_of_notUnion r v hnu] at h2
    injection h2

/-- `NoPoint` is a restriction of the PROOF, not a boundary of the model: `!=1.*, <=2.dev0` violates it (the
inclusive lower end `2.dev0` of `!=1.*` equals the inclusive upper end), the model puts the `Version` `2.dev0` into a
union — `<1.dev0 || ==2.dev0` — and still answers like the reference, at the point itself and around it.  (On the
real code 17 615 probing pairs violating `NoPoint` inside the guard show no deviation either.) -/
example : let s : List Clause := [⟨.neStar, mk' 0 [1] none none none none⟩,
      ⟨.le, mk' 0 [2] none none (some ⟨.dev, 0⟩) none⟩]
    ¬ NoPoint (setLoI s) (setHiI s) ∧
    setVC s = .ok (.union [.rng ⟨none, some (mk' 0 [1] none none (some ⟨.dev, 0⟩) none), false, false⟩,
      .ver (mk' 0 [2] none none (some ⟨.dev, 0⟩) none)]) ∧
    (∀ v ∈ [mk' 0 [2] none none (some ⟨.dev, 0⟩) none, mk' 0 [0, 5] none none none none,
        mk' 0 [1, 5] none none none none, mk' 0 [3] none none none none],
      (setVC s >>= fun r => r.allows v) = .ok (contains s v)) := by
  intro s
  refine ⟨?_, by decide, by decide⟩
  intro h
  exact h (mk' 0 [2] none none (some ⟨.dev, 0⟩) none) (by simp [s, setLoI, clauseLoI, nextStable, firstDevrelease, mk', isStable, isUnstable, isPrerelease, isDevrelease, relNext, relNextMajor, relMajor, zeros])
    (mk' 0 [2] none none (some ⟨.dev, 0⟩) none) (by simp [s, setHiI, clauseHiI]) rfl

/-- the hypotheses are satisfiable: `==2.0, !=1.0.post1, >1.0rc1` (literals `1.0.post1` and `1.0rc1` are siblings
of each other) on the candidate `2.0`, equal to the first literal and of another release than the others -/
example : let s : List Clause := [⟨.eq, mk' 0 [2, 0] none none none none⟩,
      ⟨.ne, mk' 0 [1, 0] none (some ⟨.post, 1⟩) none none⟩, ⟨.gt, mk' 0 [1, 0] (some ⟨.rc, 1⟩) none none none⟩]
    NoPoint (setLoI s) (setHiI s) ∧ (∀ c ∈ s, Reg1 (mk' 0 [2, 0] none none none none) c.lit) ∧
    contains s (mk' 0 [2, 0] none none none none) = true := by
  intro s
  refine ⟨?_, ?_, by decide⟩
  · intro m hm M hM
    simp [s, setHiI, clauseHiI] at hM
  · intro c hc
    simp only [s, List.mem_cons, List.mem_nil_iff, or_false] at hc
    rcases hc with rfl | rfl | rfl
    · exact Or.inl rfl
    · exact Or.inr (by decide)
    · exact Or.inr (by decide)

/-- **the guard, for sets without `!=` / `!=V.*`, with no residual hypothesis**: every literal is a final release
(any candidate), or the candidate is regular for every literal (equal to it or of another release).  The complement
is the class `sibling-of-another-literal` (`counterexample_sibling_of_another_literal`). -/
theorem guarded_range_set_membership_eq_ref (first : Clause) (rest : List Clause)
    (hok : ∀ c ∈ first :: rest, ClauseOk c.op c.lit ∧ (c.op = .eqStar → c.lit.isFinal = true) ∧
      c.op ≠ .ne ∧ c.op ≠ .neStar)
    (v : Version) (hv : v.wf = true)
    (hg : (∀ c ∈ first :: rest, c.lit.isFinal = true) ∨ (∀ c ∈ first :: rest, Reg1 v c.lit)) :
    ∃ r, setVC (first :: rest) = .ok r ∧ r.allows v = .ok (contains (first :: rest) v) := by
  rcases hg with hf | hr
  · exact final_set_membership_eq_ref first rest
      (fun c hc => ⟨(hok c hc).1, hf c hc, (hok c hc).2.2.1, (hok c hc).2.2.2⟩) v hv
  · exact range_set_membership_eq_ref first rest hok v hv hr

/-- C04 at full strength: membership equals the reference for every specifier set and candidate in the
guard.  Proved with no residual hypothesis: sets of any length without `!=` / `!=V.*` (ordered comparisons, `==`,
`~=`, `==V.*`) — all literals final on EVERY candidate (`final_set_membership_eq_ref`), or any literals on
candidates regular for each literal (`range_set_membership_eq_ref`); together
`guarded_range_set_membership_eq_ref`.  Sets WITH `!=` / `!=V.*`: on candidates regular for each literal, no `==` clause, no local label, no
inclusive lower end equal to an inclusive upper end, member-by-member membership (`neq_set_membership_eq_ref` — no
regularity between the literals); against the real `allows` under `RegB` (`regular_set_membership_eq_ref`).  Single clauses: `clause_membership_eq_ref`,
`final_literal_membership_eq_ref`, wildcards.  False as stated (the third disjunct of `InDomain` admits a candidate
equal to one literal and sibling of another): `counterexample_sibling_of_another_literal`; the check's known classes
"sibling-of-another-literal", "local-min-intersect".  Not proved: for sets with `!=` outside `RegB`, that
`VersionUnion.allows`'s `excludes_single_version` shortcut does not raise on the resulting union (the member-by-member
answer is proved: `guarded_set_membership_eq_ref` for every comma set under the guard and `NoPoint`). -/
def membership_eq_ref_full_statement : Prop :=
  ∀ (s : List Clause) (v : Version), (∀ c ∈ s, ClauseOk c.op c.lit) → v.wf = true → InDomain s v →
    ∃ c, setVC s = .ok c ∧ c.allows v = .ok (contains s v)

end Poetry.C04
