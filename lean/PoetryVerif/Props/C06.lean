import PoetryVerif.Model.Marker
import PoetryVerif.Spec.Pep508
namespace Poetry.C06
theorem placeholder_to_be_replaced : True := trivial
end Poetry.C06
