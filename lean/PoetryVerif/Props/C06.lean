/-
C06 — Marker evaluation agrees with the PEP 508 reference.
Property theorems only (helper lemmas in Proofs/MarkerEval.lean, Proofs/MarkerLeaf.lean).

Model side: `parseText` (hand recogniser of markers.lark) → `compactRaw` (`_compact_markers(top_level=False)`:
`SingleMarker.__init__` per item, `MultiMarker`/`MarkerUnion` with `_flatten_markers`) → `M.validate`.
Reference side: `Spec.Pep508.evalSyn` (formalised from `packaging.markers`, tied to packaging by the check's
spec-vs-reference stream).  That the public `parse_marker` additionally *simplifies* the union
(`_compact_markers(top_level=True)` = `union(*sub_markers)`) without changing `validate` is C07's `union_sound`;
the composition here stops at the un-simplified marker and depends on C07 for the last step.

Proved for all strings and all numbers (no bounds):
* the and/or/parenthesis structure with Python's laziness, exceptions included (`compact_agree`);
* leaf agreement on EVERY leaf shape of the domain (`leaf_agree` over `DomainLeaf`, `leaf_agree_full`): string
  variables with `==`, `!=`, `in`/`not in` lists (by token), reversed `"lit" in name` / `"lit" not in name`
  (substring); `extra == / !=`; `python_version` / `python_full_version` with `==,!=,<,<=,>,>=,~=` on literal
  TEXTS `X.Y…` (string → digits → version round trip through `Nat.toDigits`, the `python_full_version` padding
  included) and `in`/`not in` lists (`VersionUnion.of` of ranges / versions, folds of `VersionUnion ∩
  VersionUnion`, through C05's `union_allows_total`, `unionOfFlat_reg`, `VC.intersect_reg`), environment values the
  texts `X'.Y'…`; plus token-level statements for finals of any length;
* their composition for every marker text (`parse_eval_agree`, `parse_eval_agree_full`).
Open: coherence of `_compact_markers` for every PARSED text (`marker_coherent_full_statement`; proved on the
domain; false for operators outside the grammar: `counterexample_coherence_arbitrary_op`).
Where the agreement is FALSE of model and code (outside the domain): concrete witnesses (`counterexample_*`).
-/
import PoetryVerif.Proofs.MarkerEval
import PoetryVerif.Proofs.MarkerLeaf
import PoetryVerif.Proofs.MarkerLeafVersion
import PoetryVerif.Proofs.MarkerLeafVersionText
import PoetryVerif.Proofs.MarkerLeafCompat
import PoetryVerif.Proofs.MarkerLeafString
import PoetryVerif.Proofs.MarkerLeafVersionList
import PoetryVerif.Proofs.MarkerLeafVersionNotIn
import PoetryVerif.Proofs.VersionParse

set_option linter.unusedSimpArgs false
set_option linter.unusedVariables false

namespace Poetry.C06
open Poetry Poetry.Marker Poetry.Spec.Pep508

deriving instance DecidableEq for Poetry.Marker.Atom, Poetry.Marker.Syn

theorem toOption_some {α : Type} {x : PyM α} {a : α} (h : x.toOption = some a) : x = .ok a := by
  cases x with
  | error e => cases h
  | ok b => simp [Except.toOption] at h; rw [h]

/-! ## 1. and / or / parentheses -/

/-- **`_compact_markers` realises the grammar's structure** — for every syntax tree whose leaves can be built
and are coherent (`Syn.coh`: equal-looking leaves hold equal constraints, the hypothesis under which
`_flatten_markers`' de-duplication by `__eq__` is harmless): the un-simplified marker is coherent and validates,
*exceptions and evaluation order included*, to the lazy evaluation `synV` of the tree, which has the recursion of
`Spec.Pep508.evalSynAcc`: `and` binds tighter than `or`, parentheses are respected. -/
theorem compact_agree (E : Env) (syn : Syn) (m : M) (h : compactRaw syn = .ok m) (hc : syn.coh = true) :
    m.Coherent = true ∧ M.validate E m = synV E (.ok true) syn :=
  compactRaw_sem E syn m h hc

/-- … and when every leaf has a value that the reference shares, the lazy evaluation is the reference's strict
one: `M.validate` commutes with `evalSyn`. -/
theorem compact_agree_spec (E : Env) (syn : Syn) (m : M) (h : compactRaw syn = .ok m) (hc : syn.coh = true)
    (hl : syn.agree E) : ∃ b, M.validate E m = .ok b ∧ evalSyn E syn = some b := by
  obtain ⟨b, h1, h2⟩ := synV_spec E syn hl true
  exact ⟨b, by rw [(compactRaw_sem E syn m h hc).2, h1], by simpa [evalSyn] using h2⟩

/-- `__eq__`-equal coherent markers validate alike (the lemma behind the de-duplication) -/
theorem eq_markers_validate_alike (E : Env) (a b : M) (ha : a.Coherent = true) (hb : b.Coherent = true)
    (h : M.beq a b = true) : M.validate E a = M.validate E b := beq_validate E a b ha hb h

/-- the tree used in the examples: `os_name == "nt" and (extra == 'a' or os.name != "x")` -/
def exSyn : Syn :=
  .more (.item "os_name" "==" "nt" false) false
    (.one (.paren (.more (.item "extra" "==" "a" false) true (.one (.item "os.name" "!=" "x" false)))))

def exEnv : Env := ⟨[("os_name", "nt"), ("sys_platform", "win32")], some ["A"]⟩

theorem exSyn_parsed : parseText "os_name == \"nt\" and (extra == 'a' or os.name != \"x\")" = .ok exSyn :=
  toOption_some (by decide +kernel)

/-! ## 2. leaves -/

/-- a literal in the examples -/
theorem plainTok_nt : PlainTok "nt" := by
  refine ⟨by decide, ?_⟩
  intro c hc
  have : c = 'n' ∨ c = 't' := by simpa using hc
  rcases this with rfl | rfl <;> (unfold tokChar; decide)

/-- **string variables, `==`**: for every string variable (aliases included), every literal without white
space, quotes, `,`, `|` (not starting with `=`), every environment that defines the variable: the leaf
`SingleMarker.__init__` builds validates to `env value == literal`, and so does the reference. -/
theorem leaf_agree_string_eq (E : Env) (n v ev : String) (hn : n ∈ stringVarNames) (hv : PlainTok v)
    (h0 : v.toList.head? ≠ some '=') (hev : E.get? (canonVar n) = some ev) :
    itemV E n "==" v false = .ok (ev == v) ∧ evalItem n "==" v false E = some (ev == v) :=
  ⟨(agree_string_eq E n v ev hn hv h0 hev).1, (agree_string_eq E n v ev hn hv h0 hev).2.1⟩

example : "os.name" ∈ stringVarNames ∧ PlainTok "nt" ∧ "nt".toList.head? ≠ some '=' ∧
    exEnv.get? (canonVar "os.name") = some "nt" := ⟨by decide, plainTok_nt, by decide, by decide⟩

/-- **string variables, `!=`** -/
theorem leaf_agree_string_ne (E : Env) (n v ev : String) (hn : n ∈ stringVarNames) (hv : PlainTok v)
    (hev : E.get? (canonVar n) = some ev) :
    itemV E n "!=" v false = .ok (ev != v) ∧ evalItem n "!=" v false E = some (ev != v) :=
  ⟨(agree_string_ne E n v ev hn hv hev).1, (agree_string_ne E n v ev hn hv hev).2.1⟩

example : "sys_platform" ∈ stringVarNames ∧ PlainTok "nt" ∧ exEnv.get? (canonVar "sys_platform") = some "win32" :=
  ⟨by decide, plainTok_nt, by decide⟩

/-- **`extra == "x"`**: membership of the PEP 503-normalised name in the normalised set of active extras -/
theorem leaf_agree_extra_eq (E : Env) (v : String) (ex : List String) (hv : PlainTok v)
    (h0 : v.toList.head? ≠ some '=') (hex : E.extras = some ex) :
    itemV E "extra" "==" v false = .ok ((ex.map canonName).contains (canonName v)) ∧
    evalItem "extra" "==" v false E = some ((ex.map canonName).contains (canonName v)) :=
  ⟨(agree_extra_eq E v ex hv h0 hex).1, (agree_extra_eq E v ex hv h0 hex).2.1⟩

/-- **`extra != "x"`** -/
theorem leaf_agree_extra_ne (E : Env) (v : String) (ex : List String) (hv : PlainTok v)
    (hex : E.extras = some ex) :
    itemV E "extra" "!=" v false = .ok (!(ex.map canonName).contains (canonName v)) ∧
    evalItem "extra" "!=" v false E = some (!(ex.map canonName).contains (canonName v)) :=
  ⟨(agree_extra_ne E v ex hv hex).1, (agree_extra_ne E v ex hv hex).2.1⟩

example : PlainTok "nt" ∧ exEnv.extras = some ["A"] ∧ (["A"].map canonName).contains (canonName "a") = true :=
  ⟨plainTok_nt, rfl, by decide⟩

/-- environment of the version examples -/
def cxEnvV : Env := ⟨[("python_full_version", "3.10.1"), ("python_version", "3.10")], some []⟩

/-! ### version variables, token level -/

theorem parseFinal_some {s : String} {V : Version} (h : parseFinal s = some V) :
    Version.parse s = .ok V ∧ isFinal V = true := by
  unfold parseFinal at h
  cases hp : Version.parse s with
  | error e => rw [hp] at h; cases h
  | ok v =>
    rw [hp] at h
    simp only at h
    by_cases hf : isFinal v = true
    · simp only [hf, if_true, Option.some.injEq] at h; subst h; exact ⟨rfl, hf⟩
    · simp [hf] at h

/-- **version variables compare as PEP 440 versions** (token level): for a literal and an environment value
that parse to final releases `V`, `v` — any number of release components, any numbers — the constraint
`parse_single_constraint` builds for `op V` (`clauseVC`, the object `SingleMarker` stores and
`SingleMarkerLike.validate` asks `allows(v)`) admits `v` exactly when the reference comparison holds, for
`==, !=, <, <=, >, >=`.  NOT covered here: that `SingleMarker.__init__`/`parse_marker_version_constraint` turn
the *text* `op ++ "X.Y"` into `clauseVC op V` (string ↔ token round trip: correspondence only), and `~=`. -/
theorem leaf_agree_version_token (sop : Spec.SOp) (ops : String) (hop : (sop, ops) ∈ orderedOps)
    (lit ev : String) (V v : Version) (hl : parseFinal lit = some V) (he : parseFinal ev = some v) :
    ∃ c b, clauseVC sop V = .ok c ∧ c.allows v = .ok b ∧ versionOp ops V v = some b := by
  obtain ⟨p1, f1⟩ := parseFinal_some hl
  obtain ⟨p2, f2⟩ := parseFinal_some he
  exact version_token_agree sop ops hop V v f1 f2 (Version.parse_wf lit V p1) (Version.parse_wf ev v p2)

example : (Spec.SOp.ge, ">=") ∈ orderedOps ∧
    parseFinal "3.8" = some ⟨0, [3, 8], none, none, none, none, "3.8"⟩ ∧
    parseFinal "3.10.1" = some ⟨0, [3, 10, 1], none, none, none, none, "3.10.1"⟩ :=
  ⟨by decide, by decide +kernel, by decide +kernel⟩

/-- **version variables, text level**: `python_version op "X.Y…"` for all numbers and any number of components,
`op ∈ ==,!=,<,<=,>,>=`, environment value the text `"X'.Y'…"`: the leaf `SingleMarker.__init__` builds from the
TEXT validates to the reference's PEP 440 comparison (string → number → `clauseVC` round trip proved in
Proofs/MarkerLeafVersionText.lean through `Nat.toDigits`). -/
theorem leaf_agree_python_version (E : Env) (sop : Spec.SOp) (ops : String) (hop : (sop, ops) ∈ orderedOps)
    (x : Nat) (r : List Nat) (x' : Nat) (r' : List Nat)
    (hev : E.get? "python_version" = some (Version.relText (x' :: r'))) :
    ∃ b, itemV E "python_version" ops (Version.relText (x :: r)) false = .ok b ∧
      evalItem "python_version" ops (Version.relText (x :: r)) false E = some b := by
  obtain ⟨b, h1, h2, _⟩ := agree_pv E sop ops hop x r x' r' hev
  exact ⟨b, h1, h2⟩

example : (Spec.SOp.ge, ">=") ∈ orderedOps ∧
    cxEnvV.get? "python_version" = some (Version.relText [3, 10]) := ⟨by decide, by decide +kernel⟩

/-- **`python_full_version op "X.Y"`**: value and constraint are padded to `X.Y.0`, which the ordered
comparisons do not see -/
theorem leaf_agree_python_full_version_two (E : Env) (sop : Spec.SOp) (ops : String)
    (hop : (sop, ops) ∈ orderedOps) (x y : Nat) (x' : Nat) (r' : List Nat)
    (hev : E.get? "python_full_version" = some (Version.relText (x' :: r'))) :
    ∃ b, itemV E "python_full_version" ops (Version.relText [x, y]) false = .ok b ∧
      evalItem "python_full_version" ops (Version.relText [x, y]) false E = some b := by
  obtain ⟨b, h1, h2, _⟩ := agree_pfv2 E sop ops hop x y x' r' hev
  exact ⟨b, h1, h2⟩

/-- **`python_full_version op "X.Y.Z…"`** -/
theorem leaf_agree_python_full_version_three (E : Env) (sop : Spec.SOp) (ops : String)
    (hop : (sop, ops) ∈ orderedOps) (x : Nat) (r : List Nat) (hr : 2 ≤ r.length) (x' : Nat) (r' : List Nat)
    (hev : E.get? "python_full_version" = some (Version.relText (x' :: r'))) :
    ∃ b, itemV E "python_full_version" ops (Version.relText (x :: r)) false = .ok b ∧
      evalItem "python_full_version" ops (Version.relText (x :: r)) false E = some b := by
  obtain ⟨b, h1, h2, _⟩ := agree_pfv3 E sop ops hop x r hr x' r' hev
  exact ⟨b, h1, h2⟩

example : (Spec.SOp.lt, "<") ∈ orderedOps ∧ 2 ≤ [8, 1].length ∧
    cxEnvV.get? "python_full_version" = some (Version.relText [3, 10, 1]) := ⟨by decide, by decide, by decide +kernel⟩

/-- **`~=` at token level**: final literal with at least two release components (any length), final candidate:
the range `[V, compatHigh V)` the parser builds admits the candidate exactly when the reference's
`>= V` and prefix match `== V[:-1].*` hold -/
theorem leaf_agree_compat_token (lit ev : String) (V v : Version) (hl : parseFinal lit = some V)
    (he : parseFinal ev = some v) (hp : 2 ≤ V.release.length) :
    ∃ c b, clauseVC .compat V = .ok c ∧ c.allows v = .ok b ∧ versionOp "~=" V v = some b := by
  obtain ⟨p1, f1⟩ := parseFinal_some hl
  obtain ⟨p2, f2⟩ := parseFinal_some he
  exact compat_token_agree V v f1 f2 (Version.parse_wf lit V p1) (Version.parse_wf ev v p2) hp

example : parseFinal "3.8.1" = some ⟨0, [3, 8, 1], none, none, none, none, "3.8.1"⟩ ∧
    2 ≤ ([3, 8, 1] : List Nat).length := ⟨by decide +kernel, by decide⟩

/-- **`python_version ~= "X.Y…"`, text level** -/
theorem leaf_agree_python_version_compat (E : Env) (x : Nat) (r : List Nat) (hr : 1 ≤ r.length) (x' : Nat)
    (r' : List Nat) (hev : E.get? "python_version" = some (Version.relText (x' :: r'))) :
    ∃ b, itemV E "python_version" "~=" (Version.relText (x :: r)) false = .ok b ∧
      evalItem "python_version" "~=" (Version.relText (x :: r)) false E = some b := by
  obtain ⟨b, h1, h2, _⟩ := agree_pv_compat E x r hr x' r' hev
  exact ⟨b, h1, h2⟩

/-- **`python_full_version ~= "X.Y.Z…"`, text level** -/
theorem leaf_agree_python_full_version_compat (E : Env) (x : Nat) (r : List Nat) (hr : 2 ≤ r.length) (x' : Nat)
    (r' : List Nat) (hev : E.get? "python_full_version" = some (Version.relText (x' :: r'))) :
    ∃ b, itemV E "python_full_version" "~=" (Version.relText (x :: r)) false = .ok b ∧
      evalItem "python_full_version" "~=" (Version.relText (x :: r)) false E = some b := by
  obtain ⟨b, h1, h2, _⟩ := agree_pfv3_compat E x r hr x' r' hev
  exact ⟨b, h1, h2⟩

example : 2 ≤ ([10, 0] : List Nat).length ∧
    cxEnvV.get? "python_full_version" = some (Version.relText [3, 10, 1]) := ⟨by decide, by decide +kernel⟩

/-- **`name in "t0 t1 …"` / `name not in …`: membership by token** — for every string variable and every list
literal made of plain tokens joined by non-empty runs of ` `, `,`, `|` -/
theorem leaf_agree_string_in (E : Env) (n ev : String) (hn : n ∈ stringVarNames) (t0 : String)
    (rest : List (String × String)) (h : ListLitOk t0 rest) (hev : E.get? (canonVar n) = some ev) :
    itemV E n "in" (listLit t0 rest) false = .ok ((listToks t0 rest).contains ev) ∧
    evalItem n "in" (listLit t0 rest) false E = some ((listToks t0 rest).contains ev) := by
  obtain ⟨b, h1, h2, _⟩ := agree_in_list E n ev hn t0 rest h hev
  have f := stringVar_facts n hn
  have f6' : canonVar n ∉ versionVars := by simpa using f.2.2.2.2.2.1
  have : evalItem n "in" (listLit t0 rest) false E = some ((listToks t0 rest).contains ev) := by
    simp [evalItem, f.2.2.2.2.1, hev, f6', tokens_listLit t0 rest h, listToks]
  rw [this] at h2
  cases h2
  exact ⟨h1, this⟩

theorem leaf_agree_string_not_in (E : Env) (n ev : String) (hn : n ∈ stringVarNames) (t0 : String)
    (rest : List (String × String)) (h : ListLitOk t0 rest) (hev : E.get? (canonVar n) = some ev) :
    itemV E n "not in" (listLit t0 rest) false = .ok (!(listToks t0 rest).contains ev) ∧
    evalItem n "not in" (listLit t0 rest) false E = some (!(listToks t0 rest).contains ev) := by
  obtain ⟨b, h1, h2, _⟩ := agree_notin_list E n ev hn t0 rest h hev
  have f := stringVar_facts n hn
  have f6' : canonVar n ∉ versionVars := by simpa using f.2.2.2.2.2.1
  have : evalItem n "not in" (listLit t0 rest) false E = some (!(listToks t0 rest).contains ev) := by
    simp [evalItem, f.2.2.2.2.1, hev, f6', tokens_listLit t0 rest h, listToks]
  rw [this] at h2
  cases h2
  exact ⟨h1, this⟩

theorem listLitOk_ex : ListLitOk "nt" [(", ", "nt"), ("|", "nt")] := by
  refine ⟨plainTok_nt, ?_⟩
  intro p hp
  simp at hp
  rcases hp with rfl | rfl
  · exact ⟨⟨by decide, by intro c hc; simp at hc; rcases hc with rfl | rfl <;> decide⟩, plainTok_nt⟩
  · exact ⟨⟨by decide, by intro c hc; simp at hc; subst hc; decide⟩, plainTok_nt⟩

example : listLit "nt" [(", ", "nt"), ("|", "nt")] = "nt, nt|nt" := by decide

/-- **reversed operands** `"lit" in name` / `"lit" not in name`: the substring test on the environment value -/
theorem leaf_agree_reversed (E : Env) (n v ev : String) (hn : n ∈ stringVarNames) (hv : PlainTok v) (ops : String)
    (gop : Generic.Op) (hop : (ops, gop) ∈ inOps) (hev : E.get? (canonVar n) = some ev) :
    ∃ b, itemV E n ops v true = .ok b ∧ evalItem n ops v true E = some b := by
  obtain ⟨b, h1, h2, _⟩ := agree_rev E n v ev hn hv ops gop hop hev
  exact ⟨b, h1, h2⟩

example : ("not in", Generic.Op.nc) ∈ inOps ∧ PlainTok "nt" ∧ "sys.platform" ∈ stringVarNames :=
  ⟨by decide, plainTok_nt, by decide⟩

/-- **`python_version in "X0.Y0 X1.Y1 …"`**: the list is rewritten to `X0.Y0.* || X1.Y1.* || …`, a `VersionUnion`
of half-open ranges; on the environment value `X'.Y'` it is token equality, as the reference says (any number of
tokens, all numbers; uses C05's `unionOfFlat_rng` and `union_allows_total`) -/
theorem leaf_agree_python_version_in (E : Env) (p0 : Nat × Nat) (rest : List (String × (Nat × Nat)))
    (hs : ∀ q ∈ rest, SepRun q.1) (x' y' : Nat)
    (hev : E.get? "python_version" = some (Version.relText [x', y'])) :
    ∃ b, itemV E "python_version" "in" (verList2 p0 rest) false = .ok b ∧
      evalItem "python_version" "in" (verList2 p0 rest) false E = some b := by
  obtain ⟨b, h1, h2, _⟩ := agree_pv_in E p0 rest hs x' y' hev
  exact ⟨b, h1, h2⟩

example : verList2 (3, 8) [(" ", (3, 9)), (", ", (3, 10))] = "3.8 3.9, 3.10" := by decide +kernel

/-- **`python_full_version in "X0.Y0.Z0 …"`** (tokens of three or more components; two-component tokens are read
as wildcards by the code: `counterexample_pfv_list_two_component`): `==X0.Y0.Z0 || …`, a `VersionUnion.of` of
versions; on every final environment value it is equality with one of the tokens (C05's `unionOfFlat_reg`,
`VC.allows_of_reg`) -/
theorem leaf_agree_python_full_version_in (E : Env) (t0 : VTok) (rest : List (String × VTok))
    (hs : ∀ q ∈ rest, SepRun q.1) (h3 : ∀ t ∈ t0 :: rest.map (·.2), 2 ≤ t.2.length) (x' : Nat) (r' : List Nat)
    (hev : E.get? "python_full_version" = some (Version.relText (x' :: r'))) :
    ∃ b, itemV E "python_full_version" "in" (verListN t0 rest) false = .ok b ∧
      evalItem "python_full_version" "in" (verListN t0 rest) false E = some b := by
  obtain ⟨b, h1, h2, _⟩ := agree_pfv_in E t0 rest hs h3 x' r' hev
  exact ⟨b, h1, h2⟩

example : verListN (3, [8, 1]) [("|", (3, [9, 0]))] = "3.8.1|3.9.0" ∧
    ∀ t ∈ [((3 : Nat), [8, 1]), (3, [9, 0])], 2 ≤ t.2.length := ⟨by decide +kernel, by decide⟩

/-- **`python_version not in "X0.Y0 X1.Y1 …"`**: `!=X0.Y0.*, !=X1.Y1.*, …`, a fold of `VersionUnion ∩ VersionUnion`
(C05's `VC.intersect_reg`); on the environment value `X'.Y'`: none of the tokens -/
theorem leaf_agree_python_version_not_in (E : Env) (p0 : Nat × Nat) (rest : List (String × (Nat × Nat)))
    (hs : ∀ q ∈ rest, SepRun q.1) (x' y' : Nat)
    (hev : E.get? "python_version" = some (Version.relText [x', y'])) :
    ∃ b, itemV E "python_version" "not in" (verList2 p0 rest) false = .ok b ∧
      evalItem "python_version" "not in" (verList2 p0 rest) false E = some b := by
  obtain ⟨b, h1, h2, _⟩ := agree_pv_notin E p0 rest hs x' y' hev
  exact ⟨b, h1, h2⟩

/-- **`python_full_version not in "X0.Y0.Z0 …"`** (tokens of three or more components), every final environment
value -/
theorem leaf_agree_python_full_version_not_in (E : Env) (t0 : VTok) (rest : List (String × VTok))
    (hs : ∀ q ∈ rest, SepRun q.1) (h3 : ∀ t ∈ t0 :: rest.map (·.2), 2 ≤ t.2.length) (x' : Nat) (r' : List Nat)
    (hev : E.get? "python_full_version" = some (Version.relText (x' :: r'))) :
    ∃ b, itemV E "python_full_version" "not in" (verListN t0 rest) false = .ok b ∧
      evalItem "python_full_version" "not in" (verListN t0 rest) false E = some b := by
  obtain ⟨b, h1, h2, _⟩ := agree_pfv_notin E t0 rest hs h3 x' r' hev
  exact ⟨b, h1, h2⟩

example : (∀ q ∈ [(", ", ((3 : Nat), (9 : Nat)))], SepRun q.1) ∧
    cxEnvV.get? "python_version" = some (Version.relText [3, 10]) := by
  refine ⟨?_, by decide +kernel⟩
  intro q hq
  simp at hq
  subst hq
  exact ⟨by decide, by intro c hc; simp at hc; rcases hc with rfl | rfl <;> decide⟩

/-! ### the domain -/

/-- the text of a release `X.Y` / `X.Y.Z` -/
def relLit (r : List Nat) : String := Version.relText r

/-- **the leaf shapes of the property's domain** (variable kind × operator × literal shape), on an environment that
defines the variable — for the version variables with the text `X'.Y'…` of a final release -/
inductive DomainLeaf (E : Env) : String → String → String → Bool → Prop
  | strEq (n v ev : String) : n ∈ stringVarNames → PlainTok v → v.toList.head? ≠ some '=' →
      E.get? (canonVar n) = some ev → DomainLeaf E n "==" v false
  | strNe (n v ev : String) : n ∈ stringVarNames → PlainTok v → E.get? (canonVar n) = some ev →
      DomainLeaf E n "!=" v false
  | extraEq (v : String) (ex : List String) : PlainTok v → v.toList.head? ≠ some '=' → E.extras = some ex →
      DomainLeaf E "extra" "==" v false
  | extraNe (v : String) (ex : List String) : PlainTok v → E.extras = some ex → DomainLeaf E "extra" "!=" v false
  /-- `name in "a b,c"`: membership by token (`listLit`: plain tokens joined by non-empty separator runs) -/
  | strIn (n t0 : String) (rest : List (String × String)) (ev : String) : n ∈ stringVarNames →
      ListLitOk t0 rest → E.get? (canonVar n) = some ev → DomainLeaf E n "in" (listLit t0 rest) false
  /-- `name not in "a b,c"` -/
  | strNotIn (n t0 : String) (rest : List (String × String)) (ev : String) : n ∈ stringVarNames →
      ListLitOk t0 rest → E.get? (canonVar n) = some ev → DomainLeaf E n "not in" (listLit t0 rest) false
  /-- `"lit" in name` / `"lit" not in name`: substring -/
  | reversed (n v ev ops : String) (gop : Generic.Op) : n ∈ stringVarNames → (ops, gop) ∈ inOps → PlainTok v →
      E.get? (canonVar n) = some ev → DomainLeaf E n ops v true
  /-- `python_version op "X.Y…"`, `op ∈ ==,!=,<,<=,>,>=`, environment value `"X'.Y'…"` -/
  | pv (sop : Spec.SOp) (ops : String) (x : Nat) (r : List Nat) (x' : Nat) (r' : List Nat) :
      (sop, ops) ∈ orderedOps → E.get? "python_version" = some (relLit (x' :: r')) →
      DomainLeaf E "python_version" ops (relLit (x :: r)) false
  /-- `python_full_version op "X.Y"` (padded to `X.Y.0` by `SingleMarker.__init__`) -/
  | pfv2 (sop : Spec.SOp) (ops : String) (x y : Nat) (x' : Nat) (r' : List Nat) :
      (sop, ops) ∈ orderedOps → E.get? "python_full_version" = some (relLit (x' :: r')) →
      DomainLeaf E "python_full_version" ops (relLit [x, y]) false
  /-- `python_full_version op "X.Y.Z…"` -/
  | pfv3 (sop : Spec.SOp) (ops : String) (x : Nat) (r : List Nat) (x' : Nat) (r' : List Nat) :
      (sop, ops) ∈ orderedOps → 2 ≤ r.length → E.get? "python_full_version" = some (relLit (x' :: r')) →
      DomainLeaf E "python_full_version" ops (relLit (x :: r)) false
  /-- `python_version in "X0.Y0 X1.Y1 …"` (two-component tokens), environment value `X'.Y'` -/
  | pvIn (p0 : Nat × Nat) (rest : List (String × (Nat × Nat))) (x' y' : Nat) : (∀ q ∈ rest, SepRun q.1) →
      E.get? "python_version" = some (relLit [x', y']) →
      DomainLeaf E "python_version" "in" (verList2 p0 rest) false
  /-- `python_full_version in "X0.Y0.Z0 …"` (tokens of three or more components) -/
  | pfvIn (t0 : VTok) (rest : List (String × VTok)) (x' : Nat) (r' : List Nat) : (∀ q ∈ rest, SepRun q.1) →
      (∀ t ∈ t0 :: rest.map (·.2), 2 ≤ t.2.length) →
      E.get? "python_full_version" = some (relLit (x' :: r')) →
      DomainLeaf E "python_full_version" "in" (verListN t0 rest) false
  /-- `python_version not in "X0.Y0 X1.Y1 …"`, environment value `X'.Y'` (with a third component the wildcard
  reading `X.Y.*` of the code differs from token equality) -/
  | pvNotIn (p0 : Nat × Nat) (rest : List (String × (Nat × Nat))) (x' y' : Nat) : (∀ q ∈ rest, SepRun q.1) →
      E.get? "python_version" = some (relLit [x', y']) →
      DomainLeaf E "python_version" "not in" (verList2 p0 rest) false
  /-- `python_full_version not in "X0.Y0.Z0 …"` (tokens of three or more components) -/
  | pfvNotIn (t0 : VTok) (rest : List (String × VTok)) (x' : Nat) (r' : List Nat) : (∀ q ∈ rest, SepRun q.1) →
      (∀ t ∈ t0 :: rest.map (·.2), 2 ≤ t.2.length) →
      E.get? "python_full_version" = some (relLit (x' :: r')) →
      DomainLeaf E "python_full_version" "not in" (verListN t0 rest) false
  /-- `python_version ~= "X.Y…"` (two or more components) -/
  | pvCompat (x : Nat) (r : List Nat) (x' : Nat) (r' : List Nat) : 1 ≤ r.length →
      E.get? "python_version" = some (relLit (x' :: r')) →
      DomainLeaf E "python_version" "~=" (relLit (x :: r)) false
  /-- `python_full_version ~= "X.Y.Z…"` (three or more components; with two the padding changes the meaning:
  `counterexample_compat_two_component`) -/
  | pfvCompat (x : Nat) (r : List Nat) (x' : Nat) (r' : List Nat) : 2 ≤ r.length →
      E.get? "python_full_version" = some (relLit (x' :: r')) →
      DomainLeaf E "python_full_version" "~=" (relLit (x :: r)) false

/-- C06's leaf statement at full strength: on every leaf of the domain the model has a value and the reference
has the same -/
def leaf_agree_full_statement : Prop :=
  ∀ (E : Env) (n op v : String) (sw : Bool), DomainLeaf E n op v sw →
    ∃ b, itemV E n op v sw = .ok b ∧ evalItem n op v sw E = some b

/-- **leaf agreement on every shape of the domain**, with the coherence of the leaf built -/
theorem leaf_agree (E : Env) (n op v : String) (sw : Bool) (h : DomainLeaf E n op v sw) :
    ∃ b, itemV E n op v sw = .ok b ∧ evalItem n op v sw E = some b ∧ itemCoherent n op v sw = true := by
  match h with
  | .strEq n v ev hn hv h0 hev => exact ⟨_, agree_string_eq E n v ev hn hv h0 hev⟩
  | .strNe n v ev hn hv hev => exact ⟨_, agree_string_ne E n v ev hn hv hev⟩
  | .extraEq v ex hv h0 hex => exact ⟨_, agree_extra_eq E v ex hv h0 hex⟩
  | .extraNe v ex hv hex => exact ⟨_, agree_extra_ne E v ex hv hex⟩
  | .strIn n t0 rest ev hn hl hev => exact agree_in_list E n ev hn t0 rest hl hev
  | .strNotIn n t0 rest ev hn hl hev => exact agree_notin_list E n ev hn t0 rest hl hev
  | .reversed n v ev ops gop hn hop hv hev => exact agree_rev E n v ev hn hv ops gop hop hev
  | .pv sop ops x r x' r' hop hev => exact agree_pv E sop ops hop x r x' r' hev
  | .pfv2 sop ops x y x' r' hop hev => exact agree_pfv2 E sop ops hop x y x' r' hev
  | .pfv3 sop ops x r x' r' hop hr hev => exact agree_pfv3 E sop ops hop x r hr x' r' hev
  | .pvIn p0 rest x' y' hs hev => exact agree_pv_in E p0 rest hs x' y' hev
  | .pfvIn t0 rest x' r' hs h3 hev => exact agree_pfv_in E t0 rest hs h3 x' r' hev
  | .pvNotIn p0 rest x' y' hs hev => exact agree_pv_notin E p0 rest hs x' y' hev
  | .pfvNotIn t0 rest x' r' hs h3 hev => exact agree_pfv_notin E t0 rest hs h3 x' r' hev
  | .pvCompat x r x' r' hr hev => exact agree_pv_compat E x r hr x' r' hev
  | .pfvCompat x r x' r' hr hev => exact agree_pfv3_compat E x r hr x' r' hev

/-- the full statement is a theorem -/
theorem leaf_agree_full : leaf_agree_full_statement := by
  intro E n op v sw h
  obtain ⟨b, h1, h2, _⟩ := leaf_agree E n op v sw h
  exact ⟨b, h1, h2⟩

example : DomainLeaf cxEnvV "python_version" "not in" (verList2 (3, 8) [(", ", (3, 9))]) false :=
  .pvNotIn (3, 8) [(", ", (3, 9))] 3 10 (by
    intro q hq
    simp at hq
    subst hq
    exact ⟨by decide, by intro c hc; simp at hc; rcases hc with rfl | rfl <;> decide⟩) (by decide +kernel)

example : DomainLeaf exEnv "os.name" "!=" "nt" false :=
  .strNe "os.name" "nt" "nt" (by decide) plainTok_nt (by decide)

/-! ## 3. composition: every marker text of the domain -/

mutual
/-- every item of the tree is a leaf shape of the domain -/
def AtomInDomain (E : Env) : Atom → Prop
  | .item n op v sw => DomainLeaf E n op v sw
  | .paren m => SynInDomain E m
def SynInDomain (E : Env) : Syn → Prop
  | .one a => AtomInDomain E a
  | .more a _ rest => AtomInDomain E a ∧ SynInDomain E rest
end

mutual
theorem atom_inDomain (E : Env) : ∀ (a : Atom), AtomInDomain E a → a.agree E ∧ a.coh = true
  | .item n op v sw, h => by
    obtain ⟨b, h1, h2, h3⟩ := leaf_agree E n op v sw h
    exact ⟨⟨b, h1, h2⟩, h3⟩
  | .paren m, h => by
    have := syn_inDomain E m h
    exact ⟨by simpa [Atom.agree] using this.1, by simpa [Atom.coh] using this.2⟩
theorem syn_inDomain (E : Env) : ∀ (s : Syn), SynInDomain E s → s.agree E ∧ s.coh = true
  | .one a, h => by
    have := atom_inDomain E a h
    exact ⟨by simpa [Syn.agree] using this.1, by simpa [Syn.coh] using this.2⟩
  | .more a isOr rest, h => by
    have h1 := atom_inDomain E a h.1
    have h2 := syn_inDomain E rest h.2
    exact ⟨by simp only [Syn.agree]; exact ⟨h1.1, h2.1⟩, by simp [Syn.coh, h1.2, h2.2]⟩
end

/-- **Parsing, compacting and validating a marker text agrees with the reference** — for every text whose
leaves are shapes of the domain (any nesting depth, any number of `and`/`or`): the un-simplified marker exists, is
coherent, validates without exception, and to the reference's value.  (`parse_marker`'s final `union(*…)` is
C07's `union_sound`.) -/
theorem parse_eval_agree (E : Env) (t : String) (syn : Syn) (hp : parseText t = .ok syn)
    (hd : SynInDomain E syn) :
    ∃ m b, compactRaw syn = .ok m ∧ m.Coherent = true ∧ M.validate E m = .ok b ∧ evalSyn E syn = some b := by
  obtain ⟨ha, hc⟩ := syn_inDomain E syn hd
  obtain ⟨m, hm⟩ := compactRaw_ok E syn ha
  obtain ⟨b, h1, h2⟩ := compact_agree_spec E syn m hm hc ha
  exact ⟨m, b, hm, (compact_agree E syn m hm hc).1, h1, h2⟩

/-- **coherence at full strength** (also wanted by C18): every marker `_compact_markers` builds from a PARSED text
is coherent — each `SingleMarker` holds the constraint its own name/operator/value/operand order denote, so
that `__eq__` (which ignores the constraint object) never identifies leaves that validate differently.  Open in
general: it needs the parsers' insensitivity to the white space `_CONSTRAINT_RE_PATTERN_1` drops between operator
and value (`"== x"` vs `"==x"`); no incoherent item was found among 6300 operator × name × odd-literal
combinations evaluated with the model.  Proved for every tree over the domain's leaf shapes
(`marker_coherent_partial`).  The restriction to parsed texts matters: `counterexample_coherence_arbitrary_op`. -/
def marker_coherent_full_statement : Prop :=
  ∀ (t : String) (syn : Syn) (m : M), parseText t = .ok syn → compactRaw syn = .ok m → m.Coherent = true

theorem marker_coherent_partial (E : Env) (syn : Syn) (m : M) (h : compactRaw syn = .ok m)
    (hd : SynInDomain E syn) : m.Coherent = true :=
  (compact_agree E syn m h (syn_inDomain E syn hd).2).1

/-- **over arbitrary syntax trees coherence is FALSE**: an item whose operator is not one of the grammar's, e.g.
`python_version ~ "3.8"` (the constructor call `SingleMarker("python_version", "~3.8")`), is stored with the
default operator `==` and the value `~3.8`, holding the tilde range `>=3.8,<3.9`; its own operator/value text
`==~3.8` does not parse.  (Not reachable through `parse_marker`: `~` is no MARKER_OP.) -/
theorem counterexample_coherence_arbitrary_op :
    ∃ m, compactRaw (.one (.item "python_version" "~" "3.8" false)) = .ok m ∧ m.Coherent = false := by
  have hc : itemCoherent "python_version" "~" "3.8" false = false := by decide +kernel
  cases hs : mkSingle "python_version" (itemConstraintString "~" "3.8" false) false with
  | error e => simp [itemCoherent, hs] at hc
  | ok s =>
    refine ⟨.union [.leaf (.single s)], ?_, ?_⟩
    · simp [compactRaw, compactSubMarkers, compactGroups, compactAtom, hs, bind, Except.bind, pure, Except.pure,
        mkUnion, flattenMarkers, flattenAux, groupMarker, M.mem]
    · simp only [itemCoherent, hs] at hc
      simp [M.Coherent, M.CoherentL, hc]

/-- the composition at full strength -/
def parse_eval_agree_full_statement : Prop :=
  ∀ (E : Env) (t : String) (syn : Syn), parseText t = .ok syn → SynInDomain E syn →
    ∃ m b, compactRaw syn = .ok m ∧ M.validate E m = .ok b ∧ evalSyn E syn = some b

/-- the full statement is a theorem -/
theorem parse_eval_agree_full : parse_eval_agree_full_statement := by
  intro E t syn hp hd
  obtain ⟨m, b, h1, _, h2, h3⟩ := parse_eval_agree E t syn hp hd
  exact ⟨m, b, h1, h2, h3⟩

theorem exSyn_inDomain : SynInDomain exEnv exSyn := by
  refine ⟨.strEq "os_name" "nt" "nt" (by decide) plainTok_nt (by decide) (by decide), ?_⟩
  refine ⟨?_, ?_⟩
  · exact .extraEq "a" ["A"] (by
      refine ⟨by decide, ?_⟩
      intro c hc
      have : c = 'a' := by simpa using hc
      subst this; unfold tokChar; decide) (by decide) rfl
  · exact .strNe "os.name" "x" "nt" (by decide) (by
      refine ⟨by decide, ?_⟩
      intro c hc
      have : c = 'x' := by simpa using hc
      subst this; unfold tokChar; decide) (by decide)

example : ∃ m b, compactRaw exSyn = .ok m ∧ m.Coherent = true ∧ M.validate exEnv m = .ok b ∧
    evalSyn exEnv exSyn = some b :=
  parse_eval_agree exEnv _ exSyn exSyn_parsed exSyn_inDomain

example : ∃ m, compactRaw exSyn = .ok m ∧ SynInDomain exEnv exSyn :=
  let ⟨m, _, h, _⟩ := parse_eval_agree exEnv _ exSyn exSyn_parsed exSyn_inDomain
  ⟨m, h, exSyn_inDomain⟩

example : exSyn.coh = true ∧ exSyn.agree exEnv := ⟨(syn_inDomain _ _ exSyn_inDomain).2, (syn_inDomain _ _ exSyn_inDomain).1⟩

/-! ## 4. where the statement is false of model and code: concrete witnesses (replayed by the check) -/

def cxEnv38 : Env := ⟨[("python_full_version", "3.8.10"), ("python_version", "3.8")], some []⟩
def cxEnv311 : Env := ⟨[("python_full_version", "3.11.0"), ("python_version", "3.11")], some []⟩

/-- a one-item tree: its marker validates to the item's value -/
theorem single_item_marker (E : Env) (n op v : String) (sw : Bool) (b : Bool)
    (hcoh : itemCoherent n op v sw = true) (hv : (itemV E n op v sw).toOption = some b) :
    ∃ m, compactRaw (.one (.item n op v sw)) = .ok m ∧ M.validate E m = .ok b := by
  have hv' := toOption_some hv
  cases hs : mkSingle n (itemConstraintString op v sw) sw with
  | error e => simp [itemV, hs] at hv'
  | ok s =>
    have hm : compactRaw (.one (.item n op v sw)) =
        .ok (mkUnion [groupMarker [.leaf (.single s)]]) := by
      simp [compactRaw, compactSubMarkers, compactGroups, compactAtom, hs, bind, Except.bind, pure, Except.pure]
    refine ⟨_, hm, ?_⟩
    rw [(compactRaw_sem E _ _ hm (by simpa [Syn.coh, Atom.coh] using hcoh)).2]
    simp [synV, atomV, hv', conn]

/-- **Known finding `pfv-list-two-component`**: `python_full_version in "3.8 3.9"` — a two-component token on
`python_full_version` is rewritten to the wildcard `3.8.*`, so the marker is TRUE on 3.8.10, where the reference
(token equality, `3.8.10 == 3.8` false) says FALSE.  Hence `DomainLeaf.pfvIn` / `DomainLeaf.pfvNotIn` demand three components. -/
theorem counterexample_pfv_list_two_component :
    ∃ syn m, parseText "python_full_version in \"3.8 3.9\"" = .ok syn ∧ compactRaw syn = .ok m ∧
      M.validate cxEnv38 m = .ok true ∧ evalSyn cxEnv38 syn = some false := by
  obtain ⟨m, h1, h2⟩ := single_item_marker cxEnv38 "python_full_version" "in" "3.8 3.9" false true
    (by decide +kernel) (by decide +kernel)
  have he : evalItem "python_full_version" "in" "3.8 3.9" false cxEnv38 = some false := by decide +kernel
  exact ⟨.one (.item "python_full_version" "in" "3.8 3.9" false), m, toOption_some (by decide +kernel), h1, h2,
    by simp [evalSyn, evalSynAcc, evalAtom, he, and?]⟩

/-- **D4, the padding**: `SingleMarker("python_full_version", "~=3.10")` is stored as `~= "3.10.0"` — the same
object as for the text `~=3.10.0` … -/
theorem counterexample_compat_padding :
    (leafPrepare "python_full_version" "~=3.10" false).toOption =
      some ⟨"python_full_version", "~=", "3.10.0", false, "~=3.10.0", .version true⟩ ∧
    (mkSingle "python_full_version" "~=3.10" false).toOption =
      (mkSingle "python_full_version" "~=3.10.0" false).toOption := by
  constructor <;> decide +kernel

/-- … which changes the meaning: `python_full_version ~= "3.10"` (reference: `>= 3.10, == 3.*`) is TRUE on
3.11.0, the padded marker (`>= 3.10.0, == 3.10.*`) is FALSE.  Hence `~=` is in the domain only with three
components on `python_full_version` (`DomainLeaf.pfv2` excludes it). -/
theorem counterexample_compat_two_component :
    ∃ syn m, parseText "python_full_version ~= \"3.10\"" = .ok syn ∧ compactRaw syn = .ok m ∧
      M.validate cxEnv311 m = .ok false ∧ evalSyn cxEnv311 syn = some true := by
  obtain ⟨m, h1, h2⟩ := single_item_marker cxEnv311 "python_full_version" "~=" "3.10" false false
    (by decide +kernel) (by decide +kernel)
  have he : evalItem "python_full_version" "~=" "3.10" false cxEnv311 = some true := by decide +kernel
  exact ⟨.one (.item "python_full_version" "~=" "3.10" false), m, toOption_some (by decide +kernel), h1, h2,
    by simp [evalSyn, evalSynAcc, evalAtom, he, and?]⟩

/-! ## 5. ties to the source constants (regenerated from /repo on every run) -/

/-- the regex `matchPattern1` / `pattern1Ops` implement by hand -/
theorem tie_pattern1 :
    Gen.singleMarkerPattern1 = "(?i)^(?P<op>~=|!=|>=?|<=?|==?=?|not in|in)?\\s*(?P<value>.+)$" := rfl

/-- the separator `splitListValue` and `Spec.Pep508.isListSep` implement -/
theorem tie_list_separator : Gen.markerValueSeparatorRe = "[ ,|]+" := rfl

/-- `ALIASES` is the reference's alias table (as sets), and both resolve every name alike -/
theorem tie_aliases :
    (∀ p, p ∈ Gen.markerAliases ↔ p ∈ refAliases) ∧ Gen.markerAliases.length = refAliases.length := by
  constructor
  · intro p
    constructor <;> intro h
    · have : Gen.markerAliases.all (fun q => refAliases.contains q) = true := by decide
      exact List.contains_iff_mem.1 (List.all_eq_true.1 this p h)
    · have : refAliases.all (fun q => Gen.markerAliases.contains q) = true := by decide
      exact List.contains_iff_mem.1 (List.all_eq_true.1 this p h)
  · decide

/-- … for every name, not only the table's keys -/
theorem tie_alias_resolution (n : String) : aliasName n = canonVar n := alias_eq_canon n

/-- the lists `SingleMarker.__init__` branches on, as the leaf proofs case-split on them -/
theorem tie_version_like_names :
    Gen.versionLikeMarkerNames = ["platform_release", "python_full_version", "python_version"] := rfl

theorem tie_python_version_markers :
    Gen.pythonVersionMarkers = ["python_full_version", "python_version"] := rfl

/-- no string variable of the domain is version-like, none is `extra`, and the model's alias resolution is the
reference's on each of them -/
theorem tie_string_vars (n : String) (h : n ∈ stringVarNames) :
    Gen.versionLikeMarkerNames.contains n = false ∧ aliasName n = canonVar n ∧
    versionVars.contains (canonVar n) = false :=
  ⟨(stringVar_facts n h).2.1, (stringVar_facts n h).2.2.2.1, (stringVar_facts n h).2.2.2.2.2.1⟩

example : "platform.python_implementation" ∈ stringVarNames := by decide

end Poetry.C06
