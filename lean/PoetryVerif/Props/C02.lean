/-
C02 — Requirements written into built metadata mean what pyproject declared.
Property theorems only (model: Model/Dep02.lean over Model/Dep.lean; helper lemmas: Proofs/Dep02.lean).

The chain  table entry → `Factory.create_dependency` → `Dependency.marker` → `Metadata.from_package` → `to_pep_508`
is proved by composition: the marker of the dependency object holds in an environment exactly when the declared
`markers`, `python` and `platform` conditions do (`dependency_marker_faithful`), from C11 (`createNested_syn`,
`createNested_poetry_of_agree`, `parseMarker_sem` in Proofs/PyConvPoetry.lean) and C07 (`mIntersect_sound`), relative
to the leaf specification `LeafSpec` and the compaction agreement `CompactAgree` (for the python clause the latter is
proved in C11, `compactSub_agree`; it stays a hypothesis here because the declared `markers` text and the
`sys_platform` clause are arbitrary texts) and to the reference value of the `sys_platform` text.  The printed line is the base
requirement followed by ` ; ` and the marker's text (`requires_dist_line_shape`); that this text has the marker's truth
for the reference is C13's print/parse theorem and enters `requiresDist_faithful_partial` as the named hypothesis
`PrintFaithful`; ON C13's FULL COMPARISON-OPERATOR DOMAIN that hypothesis is discharged (`printFaithful_domain`:
C13 `print_parse_full` composed with C06 `parse_eval_agree`), giving `requiresDist_faithful_domain` with no hypothesis
about printing or parsing — what remains there is the leaf specification for `CompLeaf E` (C07's obligation on
`_merge_single_markers`) and domain conditions on the declared texts and on the printed tree (`SynInDomain`).
ON `FullLeafLLs E`, where C07's leaf specification is proved (`leafSpec_fullLLs`), that last hypothesis is discharged too:
`dependency_marker_faithful_domain` and `requiresDist_faithful_domain_only` carry domain conditions only.  The
version part is C15's (used as proved in C10's `dep_roundtrip_registry_identical`).  Selection (`no_nonoptional_dropped`, `empty_marker_never_unconditional`),
Provides-Extra and the structure of Requires-Python are proved outright.
-/
import PoetryVerif.Proofs.Dep02
import PoetryVerif.Proofs.Proj621
import PoetryVerif.Proofs.Dep02LL
import PoetryVerif.Props.C06
import PoetryVerif.Props.C13

set_option linter.unusedSimpArgs false
set_option linter.unusedVariables false

namespace Poetry.C02
open Poetry Poetry.Marker Poetry.Dep Poetry.Dep02 Poetry.C11

variable {E : Env} {ev : Leaf → Bool} {G : Leaf → Prop}

/-! ## the dependency object means what the table declared -/

/-- **the marker of the dependency built from a table entry holds exactly when the declared conditions hold**:
`markers` (reference value `bM`), `python` (the range admits the interpreter `X.Y.Z`: `bPy`) and `platform`
(reference value of the `sys_platform` clause: `bPl`) -/
theorem dependency_marker_faithful (S : LeafSpec ev G) (hC : CompactAgree E ev G) (D : Decl) (X Y Z : Nat)
    (hE : EnvPy E X Y Z) (bM bPy bPl : Bool) (d : Dep) (hM : declRef E D.markers = some bM)
    (hPy : PyDecl D.python X Y Z bPy) (hPl : PlatformDecl E D.platform bPl) (h : packageDependency D = .ok d) :
    M.Good G d.marker ∧ M.sem ev d.marker = (bM && bPy && bPl) := by
  unfold packageDependency at h
  cases hc : createDependency D with
  | error e => simp [hc, bind, Except.bind] at h
  | ok d0 =>
    simp only [hc, bind, Except.bind, pure, Except.pure] at h
    cases h
    obtain ⟨m, hm, hd⟩ := createDependency_marker D d0 hc
    rw [wireExtras_marker, hd]
    exact declMarker_sem S hC D X Y Z hE bM bPy bPl m hM hPy hPl hm

/-- **the same against poetry's own `validate`, with fewer hypotheses**: C11 now proves the compaction agreement for
the python clause and C06 provides it per text, so the universal `CompactAgree` is replaced by two domain
conditions on the declared texts (`MarkersAgree`, `PlatformAgree`: the `markers` text and the printed `sys_platform`
clause parse to trees of C06's proved domain on `E`); what remains besides them is the leaf specification for the
invariant `CompLeaf E`.  The dependency's marker then validates on the environment of `X.Y.Z` to exactly the
conjunction of the declared conditions. -/
theorem dependency_marker_faithful_validate (S : LeafSpec (leafEval E) (CompLeaf E)) (D : Decl) (X Y Z : Nat)
    (hE : EnvPy E X Y Z) (bM bPy bPl : Bool) (d : Dep) (hM : declRef E D.markers = some bM)
    (hMa : MarkersAgree E D.markers) (hPy : PyDecl D.python X Y Z bPy)
    (hPl : PlatformDecl E D.platform bPl) (hPa : PlatformAgree E D.platform) (h : packageDependency D = .ok d) :
    M.validate E d.marker = .ok (bM && bPy && bPl) := by
  unfold packageDependency at h
  cases hc : createDependency D with
  | error e => simp [hc, bind, Except.bind] at h
  | ok d0 =>
    simp only [hc, bind, Except.bind, pure, Except.pure] at h
    cases h
    obtain ⟨m, hm, hd⟩ := createDependency_marker D d0 hc
    rw [wireExtras_marker, hd]
    have := declMarker_sem_validate S D X Y Z hE bM bPy bPl m hM hMa hPy hPl hPa hm
    rw [M.validate_eq_sem E m (M.good_mono (fun l hl => by obtain ⟨s, _, _, hb, _⟩ := hl; exact hb) m this.1),
      this.2]

example (E : Env) : MarkersAgree E none ∧ PlatformAgree E none :=
  ⟨fun h => absurd h (by decide), fun h => absurd h (by decide)⟩

/-- declarations inside the hypotheses' domain: a python range of C11's domain on interpreter 3.9.1; absent conditions -/
example : PyDecl (some ">=3.8,<3.11") 3 9 1 true := ⟨_, rfl, by decide +kernel, by decide +kernel⟩
example (E : Env) : declRef E none = some true ∧ PlatformDecl E none true ∧ PyDecl none 3 9 1 true := ⟨rfl, rfl, rfl⟩

/-! ## what is written -/

/-- **shape of a Requires-Dist line** of a dependency that is not a member of an extra: the base requirement, and —
exactly when the marker is not `AnyMarker` — ` ; ` followed by the marker's text -/
theorem requires_dist_line_shape (d : Dep) (base : String) (hb : d.basePep508Name = .ok base) (hi : d.inExtras = [])
    (he : d.marker.isEmpty = false) :
    (d.marker.isAny = true → d.pythonVersions = "*" → d.toPep508 = .ok base) ∧
    (d.marker.isAny = false → ∀ t ex, d.marker.toStr = .ok t → convertMarkersFor "extra" d.marker = .ok ex →
      d.toPep508 = .ok (base ++ " ; " ++ t)) := by
  constructor
  · intro ha hp
    simp [Dep.toPep508, hb, ha, hp, hi, joinWith, bind, Except.bind, pure, Except.pure]
  · intro ha t ex ht hx
    simp [Dep.toPep508, hb, ha, he, ht, hx, hi, joinWith, bind, Except.bind, pure, Except.pure]

/-- C13's print/parse theorem for one marker, as a named hypothesis: the text `str(marker)` has, for the reference
evaluator, the truth of the marker -/
def PrintFaithful (E : Env) (ev : Leaf → Bool) (m : M) : Prop :=
  ∀ t, m.toStr = .ok t → refEval E t = some (M.sem ev m)

/-- **C02, full statement** for a table declaration: the Requires-Dist line exists unless the declaration can never be
selected, is accepted by the requirement recogniser, and its marker part has, for the PEP 508 reference, the value of the
declared conditions (and of membership in the active extras for optional dependencies); its specifier part admits the
versions the declared constraint admits -/
def requiresDist_faithful_full_statement : Prop :=
  ∀ (D : Decl) (E : Env) (X Y Z : Nat) (bM bPy bPl : Bool) (c : VC), EnvPy E X Y Z →
    declRef E D.markers = some bM → PyDecl D.python X Y Z bPy → PlatformDecl E D.platform bPl →
    VParser.parseConstraint D.version = .ok c →
    ∃ line, requiresDistLine D = .ok line ∧
      match line with
      | none => (D.optional = true ∧ D.inExtras = []) ∨ (bM && bPy && bPl) = false
      | some t => ∃ raw, Req.parseRaw t.toList = some raw ∧
          (∃ c', VParser.parseConstraint (Req.constraintTextOf raw.specs) = .ok c' ∧ ∀ v, c'.allows v = c.allows v) ∧
          (match raw.marker with
           | none => (bM && bPy && bPl) = true ∧ D.optional = false
           | some syn => Spec.Pep508.evalSyn E syn =
               some (bM && bPy && bPl && (!D.optional || (D.inExtras.map canonName).any (fun x => (E.extras.getD []).contains x))))

/-- **proved part** (non-optional declarations): the line is `base ; marker-text`, and the marker text has for the
reference exactly the value of the declared conditions — given C13's print/parse fact for this marker
(`PrintFaithful`) and the two leaf-level hypotheses of C07/C11 -/
theorem requiresDist_faithful_partial (S : LeafSpec ev G) (hC : CompactAgree E ev G) (D : Decl) (X Y Z : Nat)
    (hE : EnvPy E X Y Z) (bM bPy bPl : Bool) (d : Dep) (hM : declRef E D.markers = some bM)
    (hPy : PyDecl D.python X Y Z bPy) (hPl : PlatformDecl E D.platform bPl) (h : packageDependency D = .ok d)
    (hP : PrintFaithful E ev d.marker) (base : String) (hb : d.basePep508Name = .ok base) (hi : d.inExtras = [])
    (hne : d.marker.isEmpty = false) (hany : d.marker.isAny = false) (t : String) (ex : Option (List (List (String × String))))
    (ht : d.marker.toStr = .ok t) (hx : convertMarkersFor "extra" d.marker = .ok ex) :
    d.toPep508 = .ok (base ++ " ; " ++ t) ∧ refEval E t = some (bM && bPy && bPl) := by
  refine ⟨(requires_dist_line_shape d base hb hi hne).2 hany t ex ht hx, ?_⟩
  rw [hP t ht, (dependency_marker_faithful S hC D X Y Z hE bM bPy bPl d hM hPy hPl h).2]

/-- **C13's print/parse fact, discharged on its domain**: for a marker of the full comparison-operator domain
(`FullInvLeaf E`) whose printed tree lies in C06's proved domain on `E` (`SynInDomain`), `str(marker)` has for the
PEP 508 reference exactly the value `validate` gives the marker — C13 `print_parse_full` composed with C06
`parse_eval_agree`; no hypothesis about printing or parsing remains -/
theorem printFaithful_domain {ex : List String} (hX : E.extras = some ex) {X Y Z : Nat} (hE : EnvPy E X Y Z)
    {m : M} {syn : Syn} (hg : M.Good (FullInvLeaf E) m) (hsyn : M.toSyn m = some syn) (hdom : C06.SynInDomain E syn) :
    PrintFaithful E (leafEval E) m := by
  intro t ht
  obtain ⟨s, h1, h2, m', h3, _, h5⟩ := C13.print_parse_full hX hE hg hsyn
  rw [ht] at h1
  injection h1 with h1
  subst h1
  obtain ⟨m'', b, k1, _, k3, k4⟩ := C06.parse_eval_agree E t syn h2 hdom
  rw [h3] at k1
  injection k1 with k1
  subst k1
  rw [h5] at k3
  injection k3 with k3
  have hne : t.isEmpty = false := by
    cases hh : t.isEmpty with
    | false => rfl
    | true =>
      have : t = "" := by simpa [String.isEmpty_iff] using hh
      rw [this, parseText_empty] at h2; cases h2
  simp [refEval, hne, h2, k4, k3]

/-- non-vacuity: `python_version >= "3.8"` on CPython 3.8.1 is a marker of C13's domain whose printed tree is in C06's -/
private def envPy : Env := ⟨[("python_version", "3.8"), ("python_full_version", "3.8.1")], some []⟩
private def mPy : M := .leaf (.single (pvLeafOf .ge ">=" 3 8))

example : envPy.extras = some [] ∧ EnvPy envPy 3 8 1 ∧ M.Good (FullInvLeaf envPy) mPy ∧
    ∃ syn, M.toSyn mPy = some syn ∧ C06.SynInDomain envPy syn := by
  refine ⟨rfl, ⟨by decide +kernel, by decide +kernel⟩, ?_, _, rfl, ?_⟩
  · show FullInvLeaf envPy _
    exact Or.inr (Or.inl ⟨.ge, ">=", 3, 8, by decide, rfl⟩)
  · show C06.DomainLeaf envPy "python_version" ">=" _ false
    have e : Version.relText [3, 8] = C06.relLit (3 :: [8]) := by decide +kernel
    rw [show (pvLeafOf .ge ">=" 3 8).value = Version.relText [3, 8] from rfl, e]
    exact C06.DomainLeaf.pv (E := envPy) .ge ">=" 3 [8] 3 [8] (by decide) (by decide +kernel)

/-- **Requires-Dist is faithful on the domain, C13's hypothesis discharged**: for a non-optional table declaration
whose resulting marker lies in C13's domain and prints to a tree of C06's domain, the line is `base ; str(marker)` and
the PEP 508 reference gives that marker text exactly the value of the declared `markers`, `python` and `platform`
conditions.  Remaining hypotheses: the leaf specification for `CompLeaf E` (C07's obligation on `_merge_single_markers`,
as in `dependency_marker_faithful_validate`) and the domain conditions on the declared texts. -/
theorem requiresDist_faithful_domain (S : LeafSpec (leafEval E) (CompLeaf E)) (D : Decl) (X Y Z : Nat)
    (hE : EnvPy E X Y Z) {ex : List String} (hX : E.extras = some ex) (bM bPy bPl : Bool) (d : Dep)
    (hM : declRef E D.markers = some bM) (hMa : MarkersAgree E D.markers) (hPy : PyDecl D.python X Y Z bPy)
    (hPl : PlatformDecl E D.platform bPl) (hPa : PlatformAgree E D.platform) (h : packageDependency D = .ok d)
    (hg : M.Good (FullInvLeaf E) d.marker) (syn : Syn) (hsyn : M.toSyn d.marker = some syn)
    (hdom : C06.SynInDomain E syn) (base : String) (hb : d.basePep508Name = .ok base) (hi : d.inExtras = [])
    (hne : d.marker.isEmpty = false) (hany : d.marker.isAny = false) (xs : Option (List (List (String × String))))
    (hx : convertMarkersFor "extra" d.marker = .ok xs) :
    ∃ t, d.marker.toStr = .ok t ∧ d.toPep508 = .ok (base ++ " ; " ++ t) ∧ refEval E t = some (bM && bPy && bPl) := by
  obtain ⟨t, ht, _⟩ := C13.print_parse_full hX hE hg hsyn
  refine ⟨t, ht, (requires_dist_line_shape d base hb hi hne).2 hany t xs ht hx, ?_⟩
  rw [printFaithful_domain hX hE hg hsyn hdom t ht]
  have hv := dependency_marker_faithful_validate S D X Y Z hE bM bPy bPl d hM hMa hPy hPl hPa h
  rw [M.validate_eq_sem E d.marker (M.good_mono (fun l hl => fullInvLeaf_evaluable hX hE hl) d.marker hg)] at hv
  injection hv with hv
  rw [hv]

/-- **the dependency's marker means the declared conditions — domain conditions only.**  On `FullLeafLLs E` (plain string
variables, `extra`, the python variables with a comparison operator, `~=` or a list) C07's leaf specification is proved
(`leafSpec_fullLLs`), C11's python clause is proved (`createNested_full`) and C06's compaction agreement is proved
(`compactSub_agree_gen`); what remains are conditions ON THE DECLARED TEXTS: the `markers` text and the printed
`sys_platform` clause parse to trees of that domain (`MarkersDomLL`, `PlatformDomLL`), the python range lies in C11's
domain with two- or three-component bounds (`PyDecl2`). -/
theorem dependency_marker_faithful_domain {ex : List String} (hX : E.extras = some ex) {X Y Z : Nat}
    (hE : EnvPy E X Y Z) (D : Decl) (bM bPy bPl : Bool) (d : Dep) (hM : declRef E D.markers = some bM)
    (hMa : MarkersDomLL E D.markers) (hPy : PyDecl2 D.python X Y Z bPy) (hPl : PlatformDecl E D.platform bPl)
    (hPa : PlatformDomLL E D.platform) (h : packageDependency D = .ok d) :
    M.Good (FullLeafLLs E) d.marker ∧ M.sem (leafEval E) d.marker = (bM && bPy && bPl) ∧
      M.validate E d.marker = .ok (bM && bPy && bPl) := by
  unfold packageDependency at h
  cases hc : createDependency D with
  | error e => simp [hc, bind, Except.bind] at h
  | ok d0 =>
    simp only [hc, bind, Except.bind, pure, Except.pure] at h
    cases h
    obtain ⟨m, hm, hd⟩ := createDependency_marker D d0 hc
    rw [wireExtras_marker, hd]
    have := declMarker_sem_LL hX hE D bM bPy bPl m hM hMa hPy hPl hPa hm
    refine ⟨this.1, this.2, ?_⟩
    rw [M.validate_eq_sem E m (M.good_mono (fun l hl => fullLeafLLs_evaluable hX hE hl) m this.1), this.2]

/-- **Requires-Dist is faithful — no hypothesis about the code left**: the line is `base ; str(marker)` and the PEP 508
reference gives that text exactly the value of the declared conditions.  All hypotheses are domain conditions: on the
environment (`EnvPy`, extras defined), on the declared texts (`MarkersDomLL`, `PyDecl2`, `PlatformDomLL`), and on the
resulting marker for the printing step (C13's domain `FullInvLeaf E`, printed tree in C06's `SynInDomain`). -/
theorem requiresDist_faithful_domain_only {ex : List String} (hX : E.extras = some ex) {X Y Z : Nat}
    (hE : EnvPy E X Y Z) (D : Decl) (bM bPy bPl : Bool) (d : Dep) (hM : declRef E D.markers = some bM)
    (hMa : MarkersDomLL E D.markers) (hPy : PyDecl2 D.python X Y Z bPy) (hPl : PlatformDecl E D.platform bPl)
    (hPa : PlatformDomLL E D.platform) (h : packageDependency D = .ok d)
    (hg : M.Good (FullInvLeaf E) d.marker) (syn : Syn) (hsyn : M.toSyn d.marker = some syn)
    (hdom : C06.SynInDomain E syn) (base : String) (hb : d.basePep508Name = .ok base) (hi : d.inExtras = [])
    (hne : d.marker.isEmpty = false) (hany : d.marker.isAny = false) (xs : Option (List (List (String × String))))
    (hx : convertMarkersFor "extra" d.marker = .ok xs) :
    ∃ t, d.marker.toStr = .ok t ∧ d.toPep508 = .ok (base ++ " ; " ++ t) ∧ refEval E t = some (bM && bPy && bPl) := by
  obtain ⟨t, ht, _⟩ := C13.print_parse_full hX hE hg hsyn
  refine ⟨t, ht, (requires_dist_line_shape d base hb hi hne).2 hany t xs ht hx, ?_⟩
  rw [printFaithful_domain hX hE hg hsyn hdom t ht,
    (dependency_marker_faithful_domain hX hE D bM bPy bPl d hM hMa hPy hPl hPa h).2.1]

/-- non-vacuity of the conditions on the declared texts: absent `markers` / `platform`, `python = ">=3.8,<3.11"` -/
example (E : Env) : MarkersDomLL E none ∧ PlatformDomLL E none ∧ PyDecl2 (some ">=3.8,<3.11") 3 9 1 true := by
  refine ⟨fun h => absurd h (by decide), fun h => absurd h (by decide), _, rfl, by decide +kernel, ?_, by decide +kernel⟩
  intro rc hrc e he
  simp [VC.flatten] at hrc
  subst hrc
  simp [RC.bounds, RC.view, VRange.bounds, RC.min, RC.max] at he
  rcases he with rfl | rfl <;> decide

/-! ## selection -/

/-- **no declared non-optional dependency is dropped** unless it can never be selected: a non-optional declaration whose
marker has no `extra` clause (so that the `marker` setter leaves it mandatory) and is not the empty marker is selected by
`Metadata.from_package` -/
theorem no_nonoptional_dropped (D : Decl) (d : Dep) (h : packageDependency D = .ok d) (ho : d.optional = false)
    (hne : d.marker.isEmpty = false) : selected d = true := by
  simp [selected, ho, hne]

/-- the `marker` setter keeps a mandatory dependency mandatory when the marker has no `extra` clause -/
theorem setMarker_keeps_mandatory (d d' : Dep) (m : M) (h : d.setMarker m = .ok d')
    (hx : convertMarkersFor "extra" m = .ok none) : d'.optional = d.optional := by
  unfold Dep.setMarker at h
  simp only [bind, Except.bind, pure, Except.pure, hx] at h
  cases h2 : convertMarkersFor "python_version" m with
  | error e => simp [h2] at h
  | ok py =>
    simp only [h2] at h
    cases py <;> simp only [] at h <;> (repeat' split at h) <;> first | (cases h; rfl) | (cases h)

/-- **a dependency whose conditions contradict each other is never written as unconditional** (regression of
poetry-core 3213fc9): an empty marker means no Requires-Dist line at all -/
theorem empty_marker_never_unconditional (d : Dep) (h : d.marker.isEmpty = true) : selected d = false := by
  simp [selected, h]

/-- … and every line that IS written for a conditional dependency carries its condition -/
theorem conditional_line_has_marker (d : Dep) (base t : String) (ex : Option (List (List (String × String))))
    (hs : selected d = true) (hany : d.marker.isAny = false) (hb : d.basePep508Name = .ok base) (hi : d.inExtras = [])
    (ht : d.marker.toStr = .ok t) (hx : convertMarkersFor "extra" d.marker = .ok ex) :
    d.toPep508 = .ok (base ++ " ; " ++ t) := by
  have hne : d.marker.isEmpty = false := by
    simp only [selected, Bool.and_eq_true, Bool.not_eq_true'] at hs
    exact hs.2
  exact (requires_dist_line_shape d base hb hi hne).2 hany t ex ht hx

/-- an optional dependency that no extra lists is not written; one that an extra lists carries the `extra` clause
(the witness of 3213fc9 — `python = ">=3.8"` with `markers = "python_version < '3.8'"` gives no line — is in the
check's corpus: the marker algebra is too large for kernel evaluation) -/
example : (requiresDistLine { name := "foo", optional := true }).toOption = some none := by decide +kernel
example : (requiresDistLine { name := "foo", optional := true, inExtras := ["Test_X"] }).toOption =
    some (some "foo ; extra == \"test-x\"") := by decide +kernel

/-! ## `[project] dependencies` and `[project.optional-dependencies]` (PEP 621) -/

open Poetry.Proj621 in
/-- **no PEP 621 entry is dropped because of another entry**: every string of `[project] dependencies` /
`[project.optional-dependencies]` that has a line of its own has that line in Requires-Dist, whatever else the table
contains — in particular two entries for one distribution with different markers are both written -/
theorem pep621_entry_kept (es : List Entry) (ls : List String) (h : Proj621.requiresDist es = .ok ls)
    (e : Entry) (he : e ∈ es) (t : String) (ht : entryLine e = .ok (some t)) : t ∈ ls :=
  Proj621.entry_kept es ls h e he t ht

open Poetry.Proj621 in
/-- **the lines are the entries' own lines, in table order and with multiplicity** -/
theorem pep621_lines_eq (es : List Entry) (ls : List String) (h : Proj621.requiresDist es = .ok ls) :
    ∃ os : List (Option String), es.mapM entryLine = .ok os ∧ ls = os.filterMap id :=
  Proj621.requiresDist_eq es ls h

open Poetry.Proj621 in
/-- one answer per entry, one line per entry that has one: a repeated entry is repeated -/
theorem pep621_lines_length (es : List Entry) (ls : List String) (h : Proj621.requiresDist es = .ok ls) :
    ∃ os : List (Option String), es.mapM entryLine = .ok os ∧ os.length = es.length ∧
      ls.length = (os.filter Option.isSome).length :=
  Proj621.requiresDist_length es ls h

open Poetry.Proj621 in
/-- **an entry of `[project.optional-dependencies].x` is written iff its own marker is not empty**, as a member of the
normalised extra `x` and with its own marker -/
theorem pep621_optional_entry_line (text x : String) (d : Dep) (h : createFromPep508Top text = .ok d) :
    ∃ d', entryDependency ⟨text, some x⟩ = .ok d' ∧ d'.marker = d.marker ∧ d'.inExtras = [canonName x] ∧
      selected d' = !d.marker.isEmpty :=
  Proj621.optional_entry_line text x d h

open Poetry.Proj621 in
/-- non-vacuity on abstract entries: two entries for one distribution with different lines keep both lines, in order
(the parser is too large for kernel evaluation of concrete texts; the correspondence stream `gen621` runs them) -/
example (e1 e2 : Entry) (t1 t2 : String) (h1 : entryLine e1 = .ok (some t1)) (h2 : entryLine e2 = .ok (some t2)) :
    Proj621.requiresDist [e1, e2] = .ok [t1, t2] := by
  simp [Proj621.requiresDist, h1, h2, bind, Except.bind, pure, Except.pure]

/-- **an entry of `[project] dependencies` whose marker has no `extra` clause is mandatory and not a member of an
extra**, hence written iff its marker is not empty (the general statement: `pep621_entry_selected_iff`) -/
theorem pep621_plain_entry_selected (text : String) (d : Dep) (h : createFromPep508Top text = .ok d)
    (hx : convertMarkersFor "extra" d.marker = .ok none) (hreq : ∀ req, Req.parseL (stripComment text.toList) = .ok req →
      req.url = none) :
    d.optional = false ∧ d.inExtras = [] ∧ selected d = !d.marker.isEmpty := by
  have h' := (createFromPep508Top_ok_iff text d).mp h
  unfold createFromPep508 createFromPep508L at h'
  cases hp : Req.parseL (stripComment text.toList) with
  | error e => simp [hp, bind, Except.bind] at h'
  | ok req =>
    have hurl := hreq req hp
    simp only [hp, bind, Except.bind] at h'
    unfold fromReq at h'
    simp only [hurl, bind, Except.bind, pure, Except.pure] at h'
    split at h'
    · cases h'
    · cases hm : mkRegistry req.name req.constraint req.extras with
      | error e => simp [hm] at h'
      | ok d0 =>
        simp only [hm] at h'
        have hd0 : d0.optional = false ∧ d0.inExtras = [] := by
          simp only [mkRegistry, Spec.make, normalizeSourceUrl, truthy, mkDep, bind, Except.bind, pure, Except.pure,
            Bool.false_and, Bool.false_eq_true, if_false] at hm
          cases hs : req.constraint.toStr with
          | error e => simp [hs] at hm
          | ok s => simp only [hs] at hm; cases hm; exact ⟨rfl, rfl⟩
        cases hmk : req.marker with
        | none =>
          simp only [hmk] at h'
          cases h'
          exact ⟨hd0.1, hd0.2, by simp [selected, hd0.1]⟩
        | some m =>
          simp only [hmk] at h'
          have hmm := setMarker_marker d0 d m h'
          rw [hmm] at hx
          have hopt := setMarker_keeps_mandatory d0 d m h' hx
          have hin : d.inExtras = d0.inExtras := by
            unfold Dep.setMarker at h'
            simp only [bind, Except.bind, pure, Except.pure, hx] at h'
            cases h2 : convertMarkersFor "python_version" m with
            | error e => simp [h2] at h'
            | ok py =>
              simp only [h2] at h'
              cases py <;> simp only [] at h' <;> (repeat' split at h') <;> first | (cases h'; rfl) | (cases h')
          refine ⟨by rw [hopt, hd0.1], by rw [hin, hd0.2], ?_⟩
          simp [selected, hopt, hd0.1]

/-- **regression (poetry-core ad4e259): a marker that only EXCLUDES extras leaves the dependency mandatory** — the
`marker` setter used to make a dependency optional as soon as its marker mentioned `extra`, while recording membership
only for `==` clauses; `[project] dependencies = ["colorama>=0.4 ; extra != 'x'"]` then had no Requires-Dist line -/
theorem extra_exclusion_keeps_mandatory (d d' : Dep) (m : M) (groups : List (List (String × String)))
    (h : d.setMarker m = .ok d') (hx : convertMarkersFor "extra" m = .ok (some groups))
    (hnone : inExtrasOf groups = []) :
    d'.optional = d.optional ∧ d'.inExtras = d.inExtras := by
  unfold Dep.setMarker at h
  simp only [bind, Except.bind, pure, Except.pure, hx, hnone, List.isEmpty_nil, if_true, List.append_nil] at h
  cases h2 : convertMarkersFor "python_version" m with
  | error e => simp [h2] at h
  | ok py =>
    simp only [h2] at h
    cases py <;> simp only [] at h <;> (repeat' split at h) <;> first | (cases h; exact ⟨rfl, rfl⟩) | (cases h)

/-- **after the `marker` setter, a dependency that was mandatory is written iff its marker is not empty** — whatever
the marker says about extras: either it puts the dependency into no extra and leaves it mandatory, or it makes it an
optional member of at least one extra -/
theorem setMarker_selected (d d' : Dep) (m : M) (h : d.setMarker m = .ok d') (ho : d.optional = false) :
    selected d' = !m.isEmpty := by
  unfold Dep.setMarker at h
  simp only [bind, Except.bind, pure, Except.pure] at h
  cases h1 : convertMarkersFor "extra" m with
  | error e => simp [h1] at h
  | ok ex =>
    simp only [h1] at h
    cases h2 : convertMarkersFor "python_version" m with
    | error e => simp [h2] at h
    | ok py =>
      simp only [h2] at h
      cases ex with
      | none =>
        cases py <;> simp only [] at h <;> (repeat' split at h) <;>
          first | (cases h; simp [selected, ho]) | (cases h)
      | some groups =>
        by_cases hg : (inExtrasOf groups).isEmpty = true
        · simp only [hg, if_true] at h
          cases py <;> simp only [] at h <;> (repeat' split at h) <;>
            first | (cases h; simp [selected, ho]) | (cases h)
        · have hg' : (inExtrasOf groups).isEmpty = false := by simpa using hg
          have hne : (d.inExtras ++ inExtrasOf groups).isEmpty = false := by
            cases hx : inExtrasOf groups with
            | nil => simp [hx] at hg'
            | cons a r => simp
          simp only [hg', Bool.false_eq_true, if_false] at h
          cases py <;> simp only [] at h <;> (repeat' split at h) <;>
            first | (cases h; simp [selected, hne]) | (cases h)

/-- **an entry of `[project] dependencies` (a registry requirement) is written iff its marker is not empty** — no
restriction on the marker (holds since poetry-core ad4e259; before, an `extra != …` clause dropped the line) -/
theorem pep621_entry_selected_iff (text : String) (d : Dep) (h : createFromPep508Top text = .ok d)
    (hreq : ∀ req, Req.parseL (stripComment text.toList) = .ok req → req.url = none) :
    selected d = !d.marker.isEmpty := by
  have h' := (createFromPep508Top_ok_iff text d).mp h
  unfold createFromPep508 createFromPep508L at h'
  cases hp : Req.parseL (stripComment text.toList) with
  | error e => simp [hp, bind, Except.bind] at h'
  | ok req =>
    have hurl := hreq req hp
    simp only [hp, bind, Except.bind] at h'
    unfold fromReq at h'
    simp only [hurl, bind, Except.bind, pure, Except.pure] at h'
    split at h'
    · cases h'
    · cases hm : mkRegistry req.name req.constraint req.extras with
      | error e => simp [hm] at h'
      | ok d0 =>
        simp only [hm] at h'
        have hd0 : d0.optional = false ∧ d0.marker = .any := by
          simp only [mkRegistry, Spec.make, normalizeSourceUrl, truthy, mkDep, bind, Except.bind, pure, Except.pure,
            Bool.false_and, Bool.false_eq_true, if_false] at hm
          cases hs : req.constraint.toStr with
          | error e => simp [hs] at hm
          | ok s => simp only [hs] at hm; cases hm; exact ⟨rfl, rfl⟩
        cases hmk : req.marker with
        | none =>
          simp only [hmk] at h'
          cases h'
          simp [selected, hd0.1, hd0.2, M.isEmpty]
        | some m =>
          simp only [hmk] at h'
          rw [setMarker_marker d0 d m h']
          exact setMarker_selected d0 d m h' hd0.1

/-- the groups `convert_markers` reports for `extra != "x"` record no membership (the witness of ad4e259) -/
example : inExtrasOf [[("!=", "x")]] = [] := by decide

/-! ## two seeded classes, named -/

/-- **whether `to_pep_508` appends the membership clause depends on the marker's VARIABLES, not on its text**
(`convert_markers(marker)` has no `extra` entry ⇒ the clause `extra == …` of `in_extras` is appended, whatever letters
the marker's text contains).  Seed C02-4 replaced the test by a substring test on the text: a marker whose VALUE holds
the letters `extra` then lost the clause. -/
theorem toPep508_membership_not_by_text (d : Dep) (base mt clause : String) (gc : Generic.GC)
    (hb : d.basePep508Name = .ok base) (hany : d.marker.isAny = false) (hne : d.marker.isEmpty = false)
    (ht : d.marker.toStr = .ok mt) (hx : convertMarkersFor "extra" d.marker = .ok none)
    (hin : (joinWith " || " d.inExtras != "") = true)
    (hgc : Generic.parseConstraint (joinWith " || " d.inExtras) = .ok gc) (hcl : nestedGC "extra" gc = .ok clause) :
    d.toPep508 = .ok (base ++ " ; " ++ ("(" ++ mt ++ ")" ++ " and " ++ ("(" ++ clause ++ ")"))) := by
  simp [Dep.toPep508, hb, hany, hne, ht, hx, hin, hgc, hcl, joinWith, bind, Except.bind, pure, Except.pure]

/-- … and a marker that does have an `extra` variable never gets a second clause -/
theorem toPep508_no_second_extra_clause (d : Dep) (base mt : String) (groups : List (List (String × String)))
    (hb : d.basePep508Name = .ok base) (hany : d.marker.isAny = false) (hne : d.marker.isEmpty = false)
    (ht : d.marker.toStr = .ok mt) (hx : convertMarkersFor "extra" d.marker = .ok (some groups)) :
    d.toPep508 = .ok (base ++ " ; " ++ mt) := by
  simp [Dep.toPep508, hb, hany, hne, ht, hx, joinWith, bind, Except.bind, pure, Except.pure]

/-- the instance of seed C02-4: `implementation_name == "extrapy"` mentions no variable `extra` -/
private def mExtrapy : M :=
  .leaf (.single ⟨"implementation_name", "==", "extrapy", false, .gen (.atom ⟨"extrapy", .eq, false⟩)⟩)

theorem extrapy_marker_has_no_extra_variable :
    convertMarkersFor "extra" mExtrapy = .ok none ∧ (M.toStr mExtrapy).toOption = some "implementation_name == \"extrapy\"" ∧
    Generic.strIn "extra" "implementation_name == \"extrapy\"" = true := by
  refine ⟨?_, by decide +kernel, by decide +kernel⟩
  have hd : dnf defaultFuel [] mExtrapy = .ok mExtrapy := by
    unfold defaultFuel mExtrapy
    rw [dnf]
    all_goals (intro ms h; cases h)
  unfold convertMarkersFor
  rw [hd]
  simp [bind, Except.bind, pure, Except.pure, membersIfUnion, mExtrapy, conjPairs, convKey, Leaf.name]

private theorem ok_of_toOption {α : Type} {x : PyM α} {a : α} (h : x.toOption = some a) : x = .ok a := by
  cases x with
  | error e => cases h
  | ok b => simp [Except.toOption] at h; rw [h]

private def dExtrapy : Dep :=
  { spec := { prettyName := "foo", name := "foo", sourceType := none, sourceUrl := none, sourceReference := none,
              sourceResolvedReference := none, sourceSubdirectory := none, features := [] },
    constraint := VC.any, prettyConstraint := "*", marker := mExtrapy, pythonVersions := "*",
    pythonConstraint := VC.any, inExtras := ["x"], optional := true, activated := false, kind := .registry }

/-- **the `decide`d instance**: a member of extra `x` whose marker is `implementation_name == "extrapy"` — the text
contains the letters `extra`, the marker has no such variable — is printed WITH its membership clause -/
theorem extrapy_keeps_membership_clause :
    dExtrapy.toPep508 = .ok "foo ; (implementation_name == \"extrapy\") and (extra == \"x\")" := by
  have hb : dExtrapy.basePep508Name = .ok "foo" := ok_of_toOption (by decide +kernel)
  have ht : dExtrapy.marker.toStr = .ok "implementation_name == \"extrapy\"" :=
    ok_of_toOption extrapy_marker_has_no_extra_variable.2.1
  have hgc : Generic.parseConstraint (joinWith " || " dExtrapy.inExtras) = .ok (.atom ⟨"x", .eq, false⟩) :=
    ok_of_toOption (by decide +kernel)
  have hcl : nestedGC "extra" (.atom ⟨"x", .eq, false⟩) = .ok "extra == \"x\"" := ok_of_toOption (by decide +kernel)
  have := toPep508_membership_not_by_text dExtrapy "foo" _ _ _ hb rfl rfl ht extrapy_marker_has_no_extra_variable.1
    (by decide +kernel) hgc hcl
  rw [this]
  congr 1

/-- **two declarations of one distribution are both written** (`[tool.poetry.dependencies] foo = [{…}, {…}]`, the
"multiple constraints" form: same name, same version, different `python`): `Metadata.from_package` prints every
selected dependency object, and `requiresDist` keeps each declaration's own line, in order — nothing is merged or
de-duplicated by name (seed C14-4 dropped the second) -/
theorem multiple_constraints_both_kept (D1 D2 : Decl) (t1 t2 : String)
    (h1 : requiresDistLine D1 = .ok (some t1)) (h2 : requiresDistLine D2 = .ok (some t2)) :
    Dep02.requiresDist [D1, D2] = .ok [t1, t2] := by
  simp [Dep02.requiresDist, h1, h2, bind, Except.bind, pure, Except.pure]

/-- in general: every declaration that has a line of its own has it in Requires-Dist, whatever else is declared -/
theorem legacy_declaration_kept (ds : List Decl) (ls : List String) (h : Dep02.requiresDist ds = .ok ls)
    (D : Decl) (hD : D ∈ ds) (t : String) (ht : requiresDistLine D = .ok (some t)) : t ∈ ls := by
  unfold Dep02.requiresDist at h
  cases hm : ds.mapM requiresDistLine with
  | error e => simp [hm, bind, Except.bind] at h
  | ok os =>
    simp only [hm, bind, Except.bind, pure, Except.pure, Except.ok.injEq] at h
    subst h
    obtain ⟨o, ho, hf⟩ := Proj621.mapM_ok_mem requiresDistLine ds os hm D hD
    rw [ht] at hf
    cases hf
    exact List.mem_filterMap.mpr ⟨some t, ho, rfl⟩

/-- non-vacuity: two declarations of `foo` that differ only in `python` (evaluated on the selection level; the lines
themselves run through the marker algebra, which the correspondence stream `gen` evaluates) -/
example : (⟨"foo", ">=1", some ">=3.8,<3.10", none, none, [], false, []⟩ : Decl).name =
    (⟨"foo", ">=1", some ">=3.10", none, none, [], false, []⟩ : Decl).name := rfl

/-! ## Provides-Extra -/

/-- **Provides-Extra lists exactly the declared extras, normalised, once each** -/
theorem provides_extra_normalised (keys : List String) :
    (∀ x ∈ providesExtra keys, ∃ k ∈ keys, x = canonName k ∧ canonName x = x) ∧
    (∀ k ∈ keys, canonName k ∈ providesExtra keys) ∧ (providesExtra keys).Nodup := by
  refine ⟨?_, ?_, dedupKeep_nodup _⟩
  · intro x hx
    have := (mem_dedupKeep _ x).mp hx
    obtain ⟨k, hk, rfl⟩ := List.mem_map.mp this
    exact ⟨k, hk, rfl, canonName_idem k⟩
  · intro k hk
    exact (mem_dedupKeep _ _).mpr (List.mem_map.mpr ⟨k, hk, rfl⟩)

example : providesExtra ["Test_X", "docs", "test.x"] = ["test-x", "docs"] := by decide

/-! ## Requires-Python -/

/-- the header for a range that is not a disjunction is the constraint's own text; for a full-precision single version
`==V` -/
theorem requires_python_range (r : VRange) : formatPythonConstraint (.single (.rng r)) = (VC.single (.rng r)).toStr := rfl

theorem requires_python_version3 (v : Version) (h : v.precision ≥ 3) :
    formatPythonConstraint (.single (.ver v)) = .ok ("==" ++ v.text) := by
  simp [formatPythonConstraint, h, bind, Except.bind, pure, Except.pure]

/-- **structure of Requires-Python for a disjunction**: `>=X.Y` for the first `PYTHON_VERSION` entry the declared
constraint intersects, followed by `!=V` exactly for the entries it does not intersect -/
theorem requires_python_format_partial (rs : List RC) (t : String) (h : formatPythonConstraint (.union rs) = .ok t) :
    ∃ low f a, formatUnion (.union rs) Gen.pythonVersionList = .ok (f, low :: a) ∧
      t = joinWith ", " ((">=" ++ firstTwo low) :: f) ∧
      (∀ x ∈ f, ∃ v ∈ Gen.pythonVersionList, x = "!=" ++ v ∧ ∃ vc, VParser.parseConstraint v = .ok vc ∧
        (VC.union rs).allowsAny vc = .ok false) ∧
      (∀ v ∈ low :: a, v ∈ Gen.pythonVersionList ∧ ∃ vc, VParser.parseConstraint v = .ok vc ∧
        (VC.union rs).allowsAny vc = .ok true) := by
  simp only [formatPythonConstraint, bind, Except.bind, pure, Except.pure] at h
  cases hf : formatUnion (.union rs) Gen.pythonVersionList with
  | error e => simp [hf] at h
  | ok p =>
    obtain ⟨f, a⟩ := p
    simp only [hf] at h
    cases a with
    | nil => simp at h
    | cons low a =>
      simp only [Except.ok.injEq] at h
      have := formatUnion_items (.union rs) Gen.pythonVersionList f (low :: a) hf
      exact ⟨low, f, a, rfl, h.symm, this.1, this.2⟩

/-- the headers of three declared interpreter ranges -/
example : (requiresPython "~2.7 || ^3.6").toOption =
    some (some ">=2.7, !=3.0.*, !=3.1.*, !=3.2.*, !=3.3.*, !=3.4.*, !=3.5.*") := by decide +kernel
example : (requiresPython ">=3.8,<4.0").toOption = some (some ">=3.8,<4.0") ∧ (requiresPython "*").toOption = some none :=
  ⟨by decide +kernel, by decide +kernel⟩

/-- what remains: the header denotes the declared set of interpreters (on the releases of `PYTHON_VERSION`) -/
def requires_python_faithful_full_statement : Prop :=
  ∀ (pv : String) (c : VC) (t : String), VParser.parseConstraint pv = .ok c → requiresPython pv = .ok (some t) →
    ∃ c', VParser.parseConstraint t = .ok c' ∧
      ∀ X Y Z, (toString X ++ "." ++ toString Y ++ ".*") ∈ Gen.pythonVersionList →
        c'.allowsPlain (pyV X Y Z) = c.allowsPlain (pyV X Y Z)

end Poetry.C02
