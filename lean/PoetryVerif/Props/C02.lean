import PoetryVerif.Model.MarkerOps
namespace Poetry.C02
theorem placeholder_to_be_replaced : True := trivial
end Poetry.C02
