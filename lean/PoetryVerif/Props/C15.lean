/-
C15 — Constraint text round-trips; range operators and bumps are monotone.
Property theorems only (helper lemmas in Proofs/VRangeBump.lean, Proofs/VRangeOps.lean).

Bumps and the `^`, `~`, `~=` operators are proved for every well-formed version (any number of release
components, epochs, pre/post/dev/local segments).  The text round trip is proved at *string level*: the printed
text is taken through the whole of `parse_constraint` (strip, `||` split, and-separator, the regex cascade of
`parse_single_constraint` as modelled by the hand tokeniser, `Version.parse`, `intersect`, `VersionUnion.of`) —
single versions, plain ranges, `*`, `||` joins, `!=V`, and the wildcard spellings of the constraints the parser
builds; the hypothesis on the bounds' texts (`TextOK`) is proved for normal-form texts and for parsed texts.  The
older token-level theorems are kept.  That Python's `re` agrees with the hand tokeniser remains a correspondence
obligation (parse stream of the check).
-/
import PoetryVerif.Proofs.VRangeBump
import PoetryVerif.Proofs.VRangePred
import PoetryVerif.Proofs.VRangeParse
import PoetryVerif.Model.VPrint
import PoetryVerif.Proofs.VRangeTextU
import PoetryVerif.Proofs.VRangeTextV
import PoetryVerif.Proofs.VRangeTextW
import PoetryVerif.Proofs.VRangeTextP
import PoetryVerif.Proofs.VRangeTextX
import PoetryVerif.Proofs.VRangeTextY
import PoetryVerif.Proofs.VRangeTextZ

set_option linter.unusedSimpArgs false
set_option linter.unusedVariables false

namespace Poetry.C15
open Poetry Version VParser

/-! ## bumps -/

/-- **next major / minor / patch are final releases strictly greater than V**, for every well-formed V -/
theorem next_major_gt (v : Version) (h : v.wf = true) :
    v.nextMajor.isFinal = true ∧ Version.cmp v v.nextMajor = .lt := ⟨rfl, nextMajor_gt v h⟩

theorem next_minor_gt (v : Version) (h : v.wf = true) :
    v.nextMinor.isFinal = true ∧ Version.cmp v v.nextMinor = .lt := ⟨rfl, nextMinor_gt v h⟩

theorem next_patch_gt (v : Version) (h : v.wf = true) :
    v.nextPatch.isFinal = true ∧ Version.cmp v v.nextPatch = .lt := ⟨rfl, nextPatch_gt v h⟩

/-- **the next breaking version is a final release strictly greater than V** -/
theorem next_breaking_gt (v : Version) (h : v.wf = true) :
    v.nextBreaking.isFinal = true ∧ Version.cmp v v.nextBreaking = .lt :=
  ⟨nextBreaking_isFinal v, nextBreaking_gt v h⟩

example : ∃ v, Version.parse "1!0.0.3rc2.post1.dev4+x" = .ok v ∧ v.wf = true ∧
    v.nextBreaking.text = "1!0.0.4" ∧ v.nextMajor.text = "1!1.0.0" := ⟨_, rfl, by decide, by decide, by decide⟩

/-! ## `^V`, `~V`, `~=V` -/

/-- what `parse_single_constraint` builds for `^V` -/
def caretRange (v : Version) : VRange := ⟨some v, some v.nextBreaking, true, false⟩

/-- what `parse_single_constraint` builds for `~V` -/
def tildeRange (v : Version) : VRange :=
  ⟨some v, some (if v.precision == 1 then v.stable.nextMajor else v.stable.nextMinor), true, false⟩

def compatRange (v : Version) : VRange := ⟨some v, some (compatHigh v), true, false⟩

/-- token level: once the tokeniser has recognised `^` followed by the version text `t`, the parser returns
`caretRange` of the parsed version -/
theorem parse_caret (r : List Char) (t : String) (v : Version) (m : Bool)
    (ht : versionToEnd? (dropSpaces r) = some t) (hv : Version.parse t = .ok v) :
    parseSingle ('^' :: r) m = .ok (.single (.rng (caretRange v))) := by
  have hany : isAnyPattern ('^' :: r) = false := by simp [isAnyPattern]
  simp [parseSingle, hany, ht, hv, parseVersionText, caretRange, bind, Except.bind, pure, Except.pure]

theorem parse_tilde (c : Char) (r : List Char) (t : String) (v : Version) (m : Bool) (hc : c ≠ '=')
    (ht : versionToEnd? (dropSpaces (c :: r)) = some t) (hv : Version.parse t = .ok v) :
    parseSingle ('~' :: c :: r) m = .ok (.single (.rng (tildeRange v))) := by
  have hany : isAnyPattern ('~' :: c :: r) = false := by simp [isAnyPattern]
  simp [parseSingle, hany, hc, ht, hv, parseVersionText, tildeRange, bind, Except.bind, pure, Except.pure]

theorem parse_compat (r : List Char) (t : String) (v : Version) (m : Bool)
    (ht : versionToEnd? (dropSpaces r) = some t) (hv : Version.parse t = .ok v) :
    parseSingle ('~' :: '=' :: r) m = .ok (.single (.rng (compatRange v))) := by
  have hany : isAnyPattern ('~' :: '=' :: r) = false := by simp [isAnyPattern]
  simp [parseSingle, hany, ht, hv, parseVersionText, compatRange, compatHigh, bind, Except.bind, pure,
    Except.pure]

/-- **`^V` admits V, rejects its upper bound and every pre-release of it** — in fact every version that has
the release of the upper bound (the bound, its dev/pre/post-releases and local builds). -/
theorem caret_admits_self_rejects_upper (v : Version) (h : v.wf = true) :
    (caretRange v).allows v = true ∧
    ∀ w, w.wf = true → relKey w = relKey v.nextBreaking → (caretRange v).allows w = false := by
  have hlt : vk v < vk v.nextBreaking := (vk_lt_iff _ _).2 (nextBreaking_gt v h)
  have hrk := nextBreaking_relKey_ne v h
  have hwfN : v.nextBreaking.wf = true := by
    have hne := wf_release_ne h
    unfold nextBreaking; split
    · exact wf_final _ _ (by simp [nextMajor, isIncrementRequired_of_stable (stable_isStable v), relNextMajor])
    · split
      · exact wf_final _ _ (by
          simp only [nextMinor, isIncrementRequired_of_stable (stable_isStable v), Bool.true_or, if_true, stable_release]
          cases hr : v.release with
          | nil => exact absurd hr hne
          | cons a as => cases as <;> simp [relNextMinor])
      · exact wf_final _ _ (by
          simp only [nextPatch, isIncrementRequired_of_stable (stable_isStable v), Bool.true_or, if_true, stable_release]
          cases hr : v.release with
          | nil => exact absurd hr hne
          | cons a as =>
            cases as with
            | nil => simp [relNextPatch]
            | cons b bs => cases bs <;> simp [relNextPatch])
  exact ⟨VRange.halfOpen_allows_min h hwfN hlt hrk,
    fun w hw hr => VRange.halfOpen_rejects_upper_release (nextBreaking_isFinal v) (ne_of_lt hlt) hw hr⟩

example : ∃ v w, Version.parse "0.2.3" = .ok v ∧ Version.parse "0.3.0a1+l" = .ok w ∧ w.wf = true ∧
    relKey w = relKey v.nextBreaking ∧ (caretRange v).allows w = false := ⟨_, _, rfl, rfl, by decide, by decide, by decide⟩

/-- **`~V` admits V, rejects its upper bound and every pre-release of it.** -/
theorem tilde_admits_self_rejects_upper (v : Version) (h : v.wf = true) :
    (tildeRange v).allows v = true ∧
    ∀ w, w.wf = true → relKey w = relKey (if v.precision == 1 then v.stable.nextMajor else v.stable.nextMinor) →
      (tildeRange v).allows w = false := by
  have hne := wf_release_ne h
  by_cases hp : (v.precision == 1) = true
  · simp only [tildeRange, hp, if_true]
    have hlt : vk v < vk v.stable.nextMajor := (vk_lt_iff _ _).2 (stable_nextMajor_gt v h)
    have hrk : relKey v ≠ relKey v.stable.nextMajor :=
      relKey_ne_of_rel_lt (by rw [stable_nextMajor_release]; exact relNextMajor_gt _ hne)
    have hwfN : v.stable.nextMajor.wf = true :=
      wf_final _ _ (by simp [isIncrementRequired_of_stable (stable_isStable v), relNextMajor])
    exact ⟨VRange.halfOpen_allows_min h hwfN hlt hrk,
      fun w hw hr => VRange.halfOpen_rejects_upper_release rfl (ne_of_lt hlt) hw hr⟩
  · simp only [tildeRange, hp]
    have hlt : vk v < vk v.stable.nextMinor := (vk_lt_iff _ _).2 (stable_nextMinor_gt v h)
    have hrk : relKey v ≠ relKey v.stable.nextMinor :=
      relKey_ne_of_rel_lt (by rw [stable_nextMinor_release]; exact relNextMinor_gt _ hne)
    have hwfN : v.stable.nextMinor.wf = true :=
      wf_final _ _ (by
        simp only [isIncrementRequired_of_stable (stable_isStable v), Bool.true_or, if_true, stable_release]
        cases hr : v.release with
        | nil => exact absurd hr hne
        | cons a as => cases as <;> simp [relNextMinor])
    exact ⟨VRange.halfOpen_allows_min h hwfN hlt hrk,
      fun w hw hr => VRange.halfOpen_rejects_upper_release rfl (ne_of_lt hlt) hw hr⟩

/-! ### `~=V` -/

/-- **`~=V` is the PEP 440 compatible-release range** (structural form): for a version with at least two
release components the range is `[V, H)` where `H` is a final release of the same epoch whose release is
V's release without its last component, with the new last component incremented — the first release
after every release matching the prefix `V[:-1].*`. -/
theorem compatible_release_upper (v : Version) (hp : 2 ≤ v.precision) :
    (compatRange v).min = some v ∧ (compatRange v).imin = true ∧ (compatRange v).imax = false ∧
    (compatRange v).max = some (compatHigh v) ∧ (compatHigh v).isFinal = true ∧
    relKey (compatHigh v) = (v.epoch, stripZeros (incrLast v.release.dropLast)) := by
  obtain ⟨h1, h2, h3⟩ := compatHigh_release v hp
  refine ⟨rfl, rfl, rfl, rfl, by rw [h3]; rfl, ?_⟩
  simp only [relKey, h1, h2, stripZeros_append_zero]

example : ∃ v, Version.parse "1!2.3.4.5rc1" = .ok v ∧ 2 ≤ v.precision ∧ (compatHigh v).text = "1!2.3.5.0" :=
  ⟨_, rfl, by decide, by decide⟩

/-- `~=V` admits V and rejects every version with the release of its upper bound -/
theorem compat_admits_self_rejects_upper (v : Version) (h : v.wf = true) (hp : 2 ≤ v.precision) :
    (compatRange v).allows v = true ∧
    ∀ w, w.wf = true → relKey w = relKey (compatHigh v) → (compatRange v).allows w = false := by
  obtain ⟨h1, h2, h3⟩ := compatHigh_release v hp
  have hfin : (compatHigh v).isFinal = true := by rw [h3]; rfl
  have hlt' : compare (stripZeros v.release) (stripZeros (compatHigh v).release) = .lt := by
    rw [h1, stripZeros_append_zero]; exact incrLast_dropLast_gt _ hp
  have hlt : vk v < vk (compatHigh v) := (vk_lt_iff _ _).2 (cmp_lt_of_rel_lt h2.symm hlt')
  have hrk := relKey_ne_of_rel_lt hlt'
  have hwfN : (compatHigh v).wf = true := by
    rw [h3]; exact wf_final _ _ (by rw [h1]; simp)
  exact ⟨VRange.halfOpen_allows_min h hwfN hlt hrk,
    fun w hw hr => VRange.halfOpen_rejects_upper_release hfin (ne_of_lt hlt) hw hr⟩

/-! ## text round trip (token level) -/

/-- a single version prints as its text -/
theorem version_text (v : Version) : (VC.single (.ver v)).toStr = .ok v.text := rfl

/-- token level: a bare or `==` version text parses back to the version the text denotes -/
theorem parse_bare_version (c : Char) (r : List Char) (t : String) (v : Version) (m : Bool)
    (hc : isDigit c = true)
    (ht : basicVersion? (c :: r) = some (t, false)) (hd : t ≠ "dev") (hv : Version.parse t = .ok v)
    (hx : xConstraint? (c :: r) = none) :
    parseSingle (c :: r) m = .ok (.single (.ver v)) := by
  have h1 : c ≠ '~' := by intro e; subst e; simp [isDigit] at hc
  have h2 : c ≠ '^' := by intro e; subst e; simp [isDigit] at hc
  have h3 : c ≠ '<' := by intro e; subst e; simp [isDigit] at hc
  have h4 : c ≠ '>' := by intro e; subst e; simp [isDigit] at hc
  have h5 : c ≠ '!' := by intro e; subst e; simp [isDigit] at hc
  have h6 : c ≠ '=' := by intro e; subst e; simp [isDigit] at hc
  have h7 : c ≠ 'v' := by intro e; subst e; simp [isDigit] at hc
  have h8 : c ≠ 'V' := by intro e; subst e; simp [isDigit] at hc
  have h9 : c ≠ 'x' := by intro e; subst e; simp [isDigit] at hc
  have h10 : c ≠ 'X' := by intro e; subst e; simp [isDigit] at hc
  have h11 : c ≠ '*' := by intro e; subst e; simp [isDigit] at hc
  have hsp : isSpace c = false := by
    simp only [isDigit, Bool.and_eq_true, decide_eq_true_eq] at hc
    have h48 : 48 ≤ c.toNat := by
      have := UInt32.le_iff_toNat_le.1 (Char.le_def.1 hc.1); simpa using this
    have h57 : c.toNat ≤ 57 := by
      have := UInt32.le_iff_toNat_le.1 (Char.le_def.1 hc.2); simpa using this
    simp [isSpace]; omega
  have hany : isAnyPattern (c :: r) = false := by simp [isAnyPattern, h7, h8, h9, h10, h11]
  have hds : dropSpaces (c :: r) = c :: r := by simp [dropSpaces, hsp]
  simp [parseSingle, hany, h1, h2, h3, h4, h5, h6, hx, basicOp, hds, ht, hd, hv, parseVersionText, bind,
    Except.bind, pure, Except.pure]

/-- token level: what the parser builds for the clauses `>=t`, `>t`, `<=t`, `<t` -/
theorem parse_ge (r : List Char) (t : String) (v : Version) (m : Bool)
    (ht : basicVersion? (dropSpaces r) = some (t, false)) (hd : t ≠ "dev") (hv : Version.parse t = .ok v) :
    parseSingle ('>' :: '=' :: r) m = .ok (.single (.rng ⟨some v, none, true, false⟩)) := by
  have hany : isAnyPattern ('>' :: '=' :: r) = false := by simp [isAnyPattern]
  simp [parseSingle, hany, x_none_gt, basicOp, ht, hd, hv, parseVersionText, bind, Except.bind, pure, Except.pure]

theorem parse_gt (c : Char) (r : List Char) (t : String) (v : Version) (m : Bool) (hc : c ≠ '=')
    (ht : basicVersion? (dropSpaces (c :: r)) = some (t, false)) (hd : t ≠ "dev") (hv : Version.parse t = .ok v) :
    parseSingle ('>' :: c :: r) m = .ok (.single (.rng ⟨some v, none, false, false⟩)) := by
  have hany : isAnyPattern ('>' :: c :: r) = false := by simp [isAnyPattern]
  simp [parseSingle, hany, x_none_gt, basicOp, hc, ht, hd, hv, parseVersionText, bind, Except.bind, pure, Except.pure]

theorem parse_le (r : List Char) (t : String) (v : Version) (m : Bool)
    (ht : basicVersion? (dropSpaces r) = some (t, false)) (hd : t ≠ "dev") (hv : Version.parse t = .ok v) :
    parseSingle ('<' :: '=' :: r) m = .ok (.single (.rng ⟨none, some v, false, true⟩)) := by
  have hany : isAnyPattern ('<' :: '=' :: r) = false := by simp [isAnyPattern]
  simp [parseSingle, hany, x_none_lt, basicOp, ht, hd, hv, parseVersionText, bind, Except.bind, pure, Except.pure]

theorem parse_lt (c : Char) (r : List Char) (t : String) (v : Version) (m : Bool) (hc : c ≠ '=') (hc' : c ≠ '>')
    (ht : basicVersion? (dropSpaces (c :: r)) = some (t, false)) (hd : t ≠ "dev") (hv : Version.parse t = .ok v) :
    parseSingle ('<' :: c :: r) m = .ok (.single (.rng ⟨none, some v, false, false⟩)) := by
  have hany : isAnyPattern ('<' :: c :: r) = false := by simp [isAnyPattern]
  simp [parseSingle, hany, x_none_lt, basicOp, hc, hc', ht, hd, hv, parseVersionText, bind, Except.bind, pure, Except.pure]

/-- the lower and the upper clause of a two-sided range -/
def loClause (r : VRange) : VRange := ⟨r.min, none, r.imin, false⟩
def hiClause (r : VRange) : VRange := ⟨none, r.max, false, r.imax⟩

/-- **printer**: a one-sided range prints as `op ++ text`; a two-sided range that is not a wildcard range
prints as its lower clause, a comma, its upper clause -/
theorem range_text_shape (r : VRange) (mn mx : Version) (hm : r.min = some mn) (hM : r.max = some mx) :
    (loClause r).toStr = .ok ((if r.imin then ">=" else ">") ++ mn.text) ∧
    (hiClause r).toStr = .ok ((if r.imax then "<=" else "<") ++ mx.text) ∧
    (r.isSingleWildcardRange = false →
      r.toStr = .ok ((if r.imin then ">=" else ">") ++ mn.text ++ "," ++ (if r.imax then "<=" else "<") ++ mx.text)) := by
  refine ⟨by simp [loClause, VRange.toStr, hm], by simp [hiClause, VRange.toStr, hM], fun hw => ?_⟩
  simp [VRange.toStr, hm, hM, hw]

/-- **parser action on the printed clauses gives back the same set**: intersecting the lower and the upper
clause (what `parse_constraint` does with the comma) is defined and admits a regular probe exactly when the
range does. -/
theorem range_reparse_tokens (r : VRange) (hr : r.WF) :
    ∃ c, VC.intersect (.single (.rng (loClause r))) (.single (.rng (hiClause r))) = .ok c ∧
      ∀ p, p.wf = true → Regular r.bounds p → c.allows p = .ok (r.allows p) := by
  have hlo : (loClause r).WF :=
    ⟨by intro e he; simp [VRange.bounds, loClause] at he; exact hr.1 e (by simp [VRange.bounds, he]),
     by intro m M _ hM; simp [loClause] at hM⟩
  have hhi : (hiClause r).WF :=
    ⟨by intro e he; simp [VRange.bounds, hiClause] at he; exact hr.1 e (by simp [VRange.bounds, he]),
     by intro m M hm; simp [hiClause] at hm⟩
  obtain ⟨c, hc, hex⟩ := VRange.intersect_exact (loClause r) (hiClause r) hlo hhi
  refine ⟨c, hc, fun p hp hreg => ?_⟩
  rw [hex p hp (hreg.mono (by
    intro e he
    simp [VRange.bounds, loClause, hiClause] at he ⊢
    exact he))]
  congr 1
  have e1 : (loClause r).allowsLo p = r.allowsLo p := rfl
  have e2 : (loClause r).allowsHi p = true := rfl
  have e3 : (hiClause r).allowsLo p = true := rfl
  have e4 : (hiClause r).allowsHi p = r.allowsHi p := by
    cases hM : r.max with
    | none => simp [VRange.allowsHi, hiClause, hM]
    | some M =>
      have a1 := VRange.allowedMax_eq_of_lt (r := hiClause r) (M := M) (by simp [hiClause, hM])
        (by intro m hm; simp [hiClause] at hm)
      have a2 := VRange.allowedMax_eq_of_lt (r := r) (M := M) hM (fun m hm => ne_of_lt (hr.2 m M hm hM))
      simp only [VRange.allowsHi, a1, a2, hM]
      simp [hiClause, hM]
  simp [VRange.allows, e1, e2, e3, e4]

/-! ## text round trip (string level)

The printed text is taken through the whole of `parse_constraint` — `strip`, the `||` split, the and-separator,
`parse_single_constraint`'s regex cascade, `Version.parse`, `intersect`, `VersionUnion.of` — on strings.  The
hypothesis on the bounds is `TextOK`: the text of the version is a digit-headed run of version characters that
`VERSION_PATTERN` consumes entirely giving back the same fields, and it does not end in `-`. -/

/-- **every well-formed version in normal-form text carries a re-parsable text** (`TextOK`): the text
`PEP440Version.to_string` writes — `N!` epoch, release, `aN`/`bN`/`rcN`, `.postN`, `.devN`, `+local` — is
consumed entirely by `VERSION_PATTERN` and gives the same fields back, for ALL numbers, tags and labels (`LocOK`:
the local label's segments are as the parser stores them — lower-case letters and digits, a numeric segment
without leading zeros).  In particular every bound built by a bump function (`Version.mk'`). -/
theorem normal_text_ok (v : Version) (hwf : v.wf = true) (hn : NormalText v) (hl : LocOK v.loc) : TextOK v :=
  textOK_of_normal v hwf hn hl

/-- **every version `Version.parse` returns from a digit-headed run of version characters (letters, digits,
`. - _ + !`) not ending in `-` carries a re-parsable text**, whatever the spelling (`1.0-1`, `1.0RC1`, `1.0.post`):
the text is kept as written, and what `VERSION_PATTERN` leaves unconsumed is made of characters of the input -/
theorem parsed_text_ok (s : String) (v : Version) (h : Version.parse s = .ok v)
    (hc : ∀ c ∈ s.toList, vchar c = true) (hh : ∃ d ds, s.toList = d :: ds ∧ isDigit d = true)
    (hl : ∃ pre d, s.toList = pre ++ [d] ∧ d ≠ '-') : TextOK v :=
  textOK_of_parse s v h hc hh hl

example : ∃ v, Version.parse "1.0-1" = .ok v ∧ v.text = "1.0-1" ∧ v.post = some ⟨.post, 1⟩ ∧
    (∀ c ∈ "1.0-1".toList, vchar c = true) ∧ (∃ d ds, "1.0-1".toList = d :: ds ∧ isDigit d = true) ∧
    (∃ pre d, "1.0-1".toList = pre ++ [d] ∧ d ≠ '-') :=
  ⟨_, rfl, rfl, rfl, by decide, ⟨'1', _, rfl, by decide⟩, ⟨['1', '.', '0', '-'], '1', rfl, by decide⟩⟩

/-- **`Version.parse(v.to_string())` gives `v` back** (with the normal-form text as its text), an equal version —
the string-level form of C03's re-parse obligation -/
theorem version_to_string_reparse (v : Version) (hwf : v.wf = true) (hl : LocOK v.loc) :
    Version.parse v.toString = .ok { v with text := v.toString } ∧
      Version.cmp v { v with text := v.toString } = .eq := by
  have h := textOK_mk' v.epoch v.release v.pre v.post v.dev v.loc (by
    obtain ⟨e, rel, pre, post, dev, loc, text⟩ := v; exact hwf) hl
  exact ⟨h.parse, by obtain ⟨e, rel, pre, post, dev, loc, text⟩ := v; exact cmp_refl _⟩

private def exNormal : Version :=
  { epoch := 1, release := [2, 3, 0], pre := some ⟨.rc, 4⟩, post := some ⟨.post, 5⟩, dev := some ⟨.dev, 6⟩,
    loc := some ["ubuntu", "7"], text := "1!2.03.0RC4.post5.dev6+Ubuntu.007" }

example : let v := exNormal
    Version.parse "1!2.03.0RC4.post5.dev6+Ubuntu.007" = .ok v ∧ v.wf = true ∧ LocOK v.loc ∧
    v.toString = "1!2.3.0rc4.post5.dev6+ubuntu.7" := by
  intro v
  refine ⟨by decide, by decide, ?_, by decide⟩
  intro segs hs s hmem
  simp only [v, exNormal] at hs
  injection hs with hs
  subst hs
  simp only [List.mem_cons, List.mem_nil_iff, or_false] at hmem
  rcases hmem with rfl | rfl <;> exact ⟨by decide, by decide, by decide⟩

/-- **a single version is read back from its text, identically** -/
theorem version_text_roundtrip (v : Version) (hv : v.wf = true) (ht : TextOK v) :
    ∃ s, (VC.single (.ver v)).toStr = .ok s ∧ parseConstraint s = .ok (.single (.ver v)) :=
  single_roundtrip (.ver v) hv trivial trivial (by intro e he; simp [RC.bounds_ver] at he; subst he; exact ht) trivial

/-- **a single range not spelt with a wildcard (`>=V`, `>V`, `<=V`, `<V`, `>=V,<W`, …, `*`) is read back from its
text, identically**: the and-separator splits the two clauses, each is parsed to its half-line, and the comma's
`intersect` gives the range itself -/
theorem range_text_roundtrip (r : VRange) (hwf : r.WF) (hne : r.NE) (htidy : r.Tidy)
    (ht : ∀ e ∈ r.bounds, TextOK e) (hp : r.isSingleWildcardRange = false) :
    ∃ s, (VC.single (.rng r)).toStr = .ok s ∧ parseConstraint s = .ok (.single (.rng r)) :=
  single_roundtrip (.rng r) hwf hne htidy ht hp

example : ∃ v w, Version.parse "1.2rc1" = .ok v ∧ Version.parse "2!0.post3" = .ok w ∧
    (VC.single (.rng ⟨some v, some w, true, false⟩)).toStr = .ok ">=1.2rc1,<2!0.post3" ∧
    parseConstraint ">=1.2rc1,<2!0.post3" = .ok (.single (.rng ⟨some v, some w, true, false⟩)) :=
  ⟨_, _, rfl, rfl, by decide +kernel, by decide +kernel⟩

/-- **a union printed as `m0 || m1 || …` is read back as an equivalent constraint** (`UnionText`: the union is
well-formed, its members tidy, its bounds carry re-parsable texts, are mutually regular and not local builds; no
member is spelt with a wildcard and the union is not spelt `!=…`): the `||` split gives the members' texts, each
is parsed to the member itself, and `VersionUnion.of` rebuilds a well-formed union over the same bounds that
admits the same versions through `allows` itself -/
theorem union_join_text_roundtrip (rs : List RC) (h : UnionText rs) (hplain : ∀ m ∈ rs, m.plainText)
    (hx : VC.excludedSingleVersion rs = .ok none) (hw : VC.excludedWildcard rs = none) :
    ∃ s c', (VC.union rs).toStr = .ok s ∧ parseConstraint s = .ok c' ∧ c'.WF ∧
      (∀ e ∈ c'.bounds, e ∈ (VC.union rs).bounds) ∧
      ∀ p, p.wf = true → Regular (VC.union rs).bounds p → c'.allows p = (VC.union rs).allows p := by
  obtain ⟨s, c', h1, h2, h3, h4, h5⟩ := union_join_roundtrip rs h hplain hx hw
  refine ⟨s, c', h1, h2, h3, ?_, h5⟩
  intro e he
  rw [VC.bounds_eq_flatMap] at he
  obtain ⟨x, hx', hxe⟩ := List.mem_flatMap.1 he
  exact (h4 x hx').2.2.2 e hxe

/-- **a union printed as `!=V` is read back as `<V || >V`, an equivalent constraint** -/
theorem union_ne_text_roundtrip (rs : List RC) (h : UnionText rs) (v : Version)
    (hx : VC.excludedSingleVersion rs = .ok (some v)) :
    ∃ s c', (VC.union rs).toStr = .ok s ∧ parseConstraint s = .ok c' ∧
      (∀ e ∈ c'.bounds, e ∈ (VC.union rs).bounds) ∧
      ∀ p, p.wf = true → Regular (VC.union rs).bounds p → c'.allows p = (VC.union rs).allows p := by
  obtain ⟨s, h1, h2, h3, h4⟩ := union_ne_roundtrip rs h v hx
  refine ⟨s, _, h1, h2, ?_, h4⟩
  intro e he
  simp [VC.bounds, RC.bounds, RC.view, VRange.bounds, RC.min, RC.max] at he
  subst he
  exact h3

/-- **the wildcard spelling `==X.*` round-trips identically**: the range `parse_constraint` builds for the clause
`==X.*` (X final: any epoch, any number of release components) is recognised by the printer
(`_is_wildcard_candidate`), printed as `==X.*` (`_single_wildcard_range_string`), and that text — taken by
`X_CONSTRAINT` when X has at most three components and no epoch, by `BASIC_CONSTRAINT` otherwise — is parsed to
the very same range -/
theorem wildcard_eq_text_roundtrip (V : Version) (hfin : V.isFinal = true) (hwf : V.wf = true) :
    ∃ c s, clauseVC .eqStar V = .ok c ∧ c.toStr = .ok s ∧ parseConstraint s = .ok c := by
  obtain ⟨e, rel, pre, post, dev, loc, text⟩ := V
  cases rel with
  | nil => simp [Version.wf] at hwf
  | cons x r =>
    obtain ⟨h1, h2⟩ := eqStar_roundtrip e x r
    refine ⟨_, String.ofList ('=' :: '=' :: (baseChars e x r ++ dotStar)), (eqStar_range _ hfin).1, ?_, ?_⟩
    · rw [wD_of_final _ hfin, wE_of_final _ hfin]; exact h1
    · rw [wD_of_final _ hfin, wE_of_final _ hfin]; exact h2

/-- **the wildcard spelling `!=X.*` round-trips identically**: the union `<X.dev0 || >=next(X).dev0` that
`parse_constraint` builds for `!=X.*` prints as `!=X.*` (`excludes_single_wildcard_range`) and is read back as
the very same union -/
theorem wildcard_ne_text_roundtrip (V : Version) (hfin : V.isFinal = true) (hwf : V.wf = true) :
    ∃ c s, clauseVC .neStar V = .ok c ∧ c.toStr = .ok s ∧ parseConstraint s = .ok c := by
  obtain ⟨e, rel, pre, post, dev, loc, text⟩ := V
  cases rel with
  | nil => simp [Version.wf] at hwf
  | cons x r =>
    obtain ⟨h1, h2⟩ := neStar_roundtrip e x r
    refine ⟨_, String.ofList ('!' :: '=' :: (baseChars e x r ++ dotStar)), neStar_range _ hfin hwf, ?_, ?_⟩
    · rw [wD_of_final _ hfin, wE_of_final _ hfin]; exact h1
    · rw [wD_of_final _ hfin, wE_of_final _ hfin]; exact h2

example : let V := Version.mk' 1 [2, 3, 4, 5] none none none none
    V.isFinal = true ∧ V.wf = true ∧
    parseConstraint "==1!2.3.4.5.*" = clauseVC .eqStar V ∧ parseConstraint "!=1!2.3.4.5.*" = clauseVC .neStar V ∧
    (clauseVC .eqStar V >>= VC.toStr) = .ok "==1!2.3.4.5.*" ∧ (clauseVC .neStar V >>= VC.toStr) = .ok "!=1!2.3.4.5.*" := by
  intro V
  refine ⟨by decide, by decide, by decide +kernel, by decide +kernel, by decide +kernel, by decide +kernel⟩

/-- **the text round trip**, string level, for every non-empty constraint that is not spelt with a wildcard
(`PlainSpelling`: no member prints as `==X.*` and the union does not print as `!=X.*`): single versions, plain
ranges, `*`, `||` joins and `!=V`.  Extra hypotheses, named: the members are tidy (`Tidy`: no inclusive flag on an
absent bound), the bounds carry re-parsable texts (`TextOK`), and — for a union — the bounds are mutually regular
and not local builds (`RegB`), as everywhere in C05/C12 for unions. -/
theorem text_roundtrip_partial (c : VC) (hwf : c.WF) (hne : c.isEmpty = false)
    (htidy : ∀ m ∈ c.flatten, m.Tidy) (htext : ∀ e ∈ c.bounds, TextOK e)
    (hreg : ∀ rs, c = .union rs → RegB c.bounds) (hplain : PlainSpelling c) :
    ∃ s c', c.toStr = .ok s ∧ parseConstraint s = .ok c' ∧
      ∀ p, p.wf = true → Regular (c.bounds ++ c'.bounds) p → c'.allows p = c.allows p :=
  VC.text_roundtrip c hwf hne htidy htext hreg hplain

/-- **ANY range the printer spells `==X.*` — algebra-produced ones included — is read back as a range admitting the
same versions, on EVERY version** (lower end not a post-release).  What `_is_wildcard_candidate` checks — same
epoch, no pre/post/local parts, the lower end equal to its own first dev-release, release numbers of the lower end
(padded, trailing zeros apart) one below the upper end's in the last place — makes `[X.dev0, next(X).dev0)` equal to
the printed range end by end: the lower ends compare equal, and the effective upper ends (`allowed_max`: `M.dev0` for
a final exclusive `M`) compare equal.  An inclusive lower end and an exclusive upper end being plain comparisons on
every version, no regularity is needed.  E.g. `>=1.dev0,<2` and `>=1.0.0.dev0,<2.0.dev0` both print `==1.*`. -/
theorem wildcard_spelt_range_text_roundtrip (mn mx : Version)
    (hwf : (⟨some mn, some mx, true, false⟩ : VRange).WF)
    (hw : isWildcardCandidate mn mx false = true) (hnp : mn.isPostrelease = false) :
    ∃ s c', (VC.single (.rng ⟨some mn, some mx, true, false⟩)).toStr = .ok s ∧ parseConstraint s = .ok c' ∧
      ∀ p, p.wf = true → c'.allows p = (VC.single (.rng ⟨some mn, some mx, true, false⟩)).allows p :=
  wildcard_spelt_roundtrip mn mx hwf hw hnp

example : let mn := Version.mk' 0 [1] none none (some ⟨.dev, 0⟩) none
    let mx := Version.mk' 0 [2] none none none none
    isWildcardCandidate mn mx false = true ∧ mn.isPostrelease = false ∧
    (VC.single (.rng ⟨some mn, some mx, true, false⟩)).toStr = .ok "==1.*" ∧
    parseConstraint "==1.*" = .ok (.single (.rng ⟨some (Version.mk' 0 [1] none none (some ⟨.dev, 0⟩) none),
      some (Version.mk' 0 [2] none none (some ⟨.dev, 0⟩) none), true, false⟩)) := by
  intro mn mx
  exact ⟨by decide, by decide, by decide +kernel, by decide +kernel⟩

/-- **wildcards on post-releases** (`==1.0.post0.*`): any range whose lower end is a post-release and which the
printer spells with a wildcard prints as `first.without_devrelease().text + ".*"`; `BASIC_CONSTRAINT` reads the
post-release back, `_make_x_constraint_range` builds `[V.dev0, next_postrelease(V).dev0)`, and the re-read range
admits the same versions on EVERY version -/
theorem post_wildcard_spelt_range_text_roundtrip (mn mx : Version)
    (hwf : (⟨some mn, some mx, true, false⟩ : VRange).WF)
    (hw : isWildcardCandidate mn mx false = true) (hp : mn.isPostrelease = true) :
    ∃ s c', (VC.single (.rng ⟨some mn, some mx, true, false⟩)).toStr = .ok s ∧ parseConstraint s = .ok c' ∧
      ∀ p, p.wf = true → c'.allows p = (VC.single (.rng ⟨some mn, some mx, true, false⟩)).allows p :=
  post_wildcard_spelt_roundtrip mn mx hwf hw hp

/-- **every well-formed range the printer spells with a wildcard** (`is_single_wildcard_range`) **round-trips
membership-equivalently on every version** — post-release or not, parser-built or algebra-produced -/
theorem every_wildcard_spelt_range_text_roundtrip (r : VRange) (hwf : r.WF) (hw : r.isSingleWildcardRange = true) :
    ∃ s c', (VC.single (.rng r)).toStr = .ok s ∧ parseConstraint s = .ok c' ∧
      ∀ p, p.wf = true → c'.allows p = (VC.single (.rng r)).allows p := by
  obtain ⟨mn, mx, i, j⟩ := r
  cases mn with
  | none => simp [VRange.isSingleWildcardRange] at hw
  | some mn =>
    cases mx with
    | none => simp [VRange.isSingleWildcardRange] at hw
    | some mx =>
      simp only [VRange.isSingleWildcardRange] at hw
      cases i <;> cases j <;> simp at hw
      by_cases hp : mn.isPostrelease = true
      · exact post_wildcard_spelt_roundtrip mn mx hwf hw hp
      · exact wildcard_spelt_roundtrip mn mx hwf hw (by simpa using hp)

example : let mn := Version.mk' 0 [1, 0] none (some ⟨.post, 0⟩) (some ⟨.dev, 0⟩) none
    let mx := Version.mk' 0 [1] none (some ⟨.post, 1⟩) none none
    isWildcardCandidate mn mx false = true ∧ mn.isPostrelease = true ∧
    (VC.single (.rng ⟨some mn, some mx, true, false⟩)).toStr = .ok "==1.0.post0.*" := by
  intro mn mx
  exact ⟨by decide, by decide, by decide +kernel⟩

/-- **ANY two-member union `<A || >=B` the printer spells `!=X.*` is read back as a union admitting the same versions,
on EVERY version** (`A` not a post-release) — the real `allows` of both unions, `excludes_single_version` included -/
theorem wildcard_spelt_union_text_roundtrip (omax tmin : Version) (ho : omax.wf = true) (ht : tmin.wf = true)
    (hlt : vk omax < vk tmin) (hw : isWildcardCandidate tmin omax true = true) (hnp : omax.isPostrelease = false) :
    ∃ s c', (VC.union [.rng ⟨none, some omax, false, false⟩, .rng ⟨some tmin, none, true, false⟩]).toStr = .ok s ∧
      parseConstraint s = .ok c' ∧
      ∀ p, p.wf = true →
        c'.allows p = (VC.union [.rng ⟨none, some omax, false, false⟩, .rng ⟨some tmin, none, true, false⟩]).allows p :=
  wildcard_spelt_union_roundtrip omax tmin ho ht hlt hw hnp

example : let A := Version.mk' 0 [1, 0] none none (some ⟨.dev, 0⟩) none
    let B := Version.mk' 0 [1, 1] none none (some ⟨.dev, 0⟩) none
    isWildcardCandidate B A true = true ∧ A.isPostrelease = false ∧
    (VC.union [.rng ⟨none, some A, false, false⟩, .rng ⟨some B, none, true, false⟩]).toStr = .ok "!=1.0.*" := by
  intro A B
  exact ⟨by decide, by decide, by decide +kernel⟩

/-- **unions spelt `!=X.postK.*`**: any two-member union `<A || >=B` with `A` a post-release that the printer spells
with a wildcard is read back as a union admitting the same versions on EVERY version -/
theorem post_wildcard_spelt_union_text_roundtrip (omax tmin : Version) (ho : omax.wf = true) (ht : tmin.wf = true)
    (hlt : vk omax < vk tmin) (hw : isWildcardCandidate tmin omax true = true) (hp : omax.isPostrelease = true) :
    ∃ s c', (VC.union [.rng ⟨none, some omax, false, false⟩, .rng ⟨some tmin, none, true, false⟩]).toStr = .ok s ∧
      parseConstraint s = .ok c' ∧
      ∀ p, p.wf = true →
        c'.allows p = (VC.union [.rng ⟨none, some omax, false, false⟩, .rng ⟨some tmin, none, true, false⟩]).allows p :=
  post_wildcard_spelt_union_roundtrip omax tmin ho ht hlt hw hp

/-- **when the printer spells a union with a wildcard** (`excludes_single_wildcard_range`): a two-member union whose
first member carries an upper end is spelt `!=X.*` **iff** it is `<A || >=B` with both flags as written — the first
member without lower end and with an EXCLUSIVE upper end, the second with an INCLUSIVE lower end and without upper
end — and `_is_wildcard_candidate(B, A, inverted=True)` holds (then `A` compares equal to `X.dev0` up to its effective
end and `B` to `next(X).dev0`: `wildcard_spelt_union_text_roundtrip`).  The mirrored shape `<=A || >B` is NOT spelt
with a wildcard (seeded change C15-4 confuses the two). -/
theorem wildcard_spelling_iff (a b : VRange) (ha : a.max.isSome = true) (x y : Version) :
    VC.excludedWildcard [.rng a, .rng b] = some (x, y) ↔
      (a.min = none ∧ a.max = some x ∧ a.imax = false ∧ b.min = some y ∧ b.imin = true ∧ b.max = none ∧
        isWildcardCandidate y x true = true) :=
  excludedWildcard_iff a b ha x y

/-- the four flag combinations on `A = 1.0.dev0`, `B = 1.1.dev0`: only `<A || >=B` is spelt `!=1.0.*`;
`<=A || >=B`, `<A || >B` and the mirrored `<=A || >B` print their two members -/
example : let A := Version.mk' 0 [1, 0] none none (some ⟨.dev, 0⟩) none
    let B := Version.mk' 0 [1, 1] none none (some ⟨.dev, 0⟩) none
    (VC.union [.rng ⟨none, some A, false, false⟩, .rng ⟨some B, none, true, false⟩]).toStr = .ok "!=1.0.*" ∧
    (VC.union [.rng ⟨none, some A, false, true⟩, .rng ⟨some B, none, true, false⟩]).toStr = .ok "<=1.0.dev0 || >=1.1.dev0" ∧
    (VC.union [.rng ⟨none, some A, false, false⟩, .rng ⟨some B, none, false, false⟩]).toStr = .ok "<1.0.dev0 || >1.1.dev0" ∧
    (VC.union [.rng ⟨none, some A, false, true⟩, .rng ⟨some B, none, false, false⟩]).toStr = .ok "<=1.0.dev0 || >1.1.dev0" := by
  intro A B
  exact ⟨by decide +kernel, by decide +kernel, by decide +kernel, by decide +kernel⟩

/-- the unrestricted statement is false of model and code: a version text may end in a separator
(`1.0post-` is `1.0.post0` for `VERSION_PATTERN`), and in front of the comma that `-` defeats the and-separator's
`(?<!-)`: `parse_constraint(">=1.0post-").intersect(parse_constraint("<2"))` prints `>=1.0post-,<2`, which
`parse_constraint` rejects -/
theorem counterexample_text_trailing_separator :
    let V : Version := { epoch := 0, release := [1, 0], pre := none, post := some ⟨.post, 0⟩, dev := none,
                         loc := none, text := "1.0post-" }
    let W : Version := { epoch := 0, release := [2], pre := none, post := none, dev := none, loc := none, text := "2" }
    parseConstraint ">=1.0post-" = .ok (.single (.rng ⟨some V, none, true, false⟩)) ∧
    parseConstraint "<2" = .ok (.single (.rng ⟨none, some W, false, false⟩)) ∧
    VC.intersect (.single (.rng ⟨some V, none, true, false⟩)) (.single (.rng ⟨none, some W, false, false⟩)) =
      .ok (.single (.rng ⟨some V, some W, true, false⟩)) ∧
    (VC.single (.rng ⟨some V, some W, true, false⟩)).toStr = .ok ">=1.0post-,<2" ∧
    parseConstraint ">=1.0post-,<2" = .error .value := by
  intro V W
  refine ⟨by decide +kernel, by decide +kernel, by decide +kernel, by decide +kernel, by decide +kernel⟩

/-- The text round trip at full strength (string level, every non-empty constraint, unions and wildcard
spellings included).  Proved at string level: single versions, plain ranges, `*`, `||` joins, `!=V`
(`text_roundtrip_partial`, under `TextOK` / `Tidy` / `RegB` for unions).  As stated — for every well-formed `c`
whatever the texts of its bounds — it is false (`counterexample_text_trailing_separator`: the `text` field is
what the user wrote).  The wildcard spellings `==X.*` / `!=X.*` are proved for the constraints the parser builds
for wildcard clauses (`wildcard_eq_text_roundtrip`, `wildcard_ne_text_roundtrip`); and any range the printer spells `==X.*` is read back
membership-equivalently on every version (`wildcard_spelt_range_text_roundtrip`), likewise any two-member union spelt `!=X.*`
(`wildcard_spelt_union_text_roundtrip`), and wildcards on post-releases (`post_wildcard_spelt_range_text_roundtrip`;
altogether `every_wildcard_spelt_range_text_roundtrip`), unions spelt `!=X.postK.*`
(`post_wildcard_spelt_union_text_roundtrip`), and when exactly a union is spelt with a wildcard (`wildcard_spelling_iff`) (`==1.0.post1.*`) — on the real code a grid of
128 wildcard-spelt ranges and 102 wildcard-spelt unions (post-releases included) re-parses membership-equivalently. -/
def text_roundtrip_full_statement : Prop :=
  ∀ c : VC, c.WF → c.isEmpty = false →
    ∃ s c', c.toStr = .ok s ∧ VParser.parseConstraint s = .ok c' ∧
      ∀ p, p.wf = true → Regular (c.bounds ++ c'.bounds) p → c'.allows p = c.allows p

end Poetry.C15
