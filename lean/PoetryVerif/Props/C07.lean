/-
C07 — Marker intersection, union and inversion preserve truth in every environment.
Property theorems only (helper lemmas: Proofs/MarkerSem.lean, Proofs/MarkerAlgSound.lean,
Proofs/MarkerAlgSoundOps.lean).

`holds E m` is the truth value of `m` in `E` (`M.sem` over `leafEval E`); it IS `M.validate E m` wherever
every leaf evaluates (`holds_is_validate`).  The simplifier is proved sound for EVERY fuel value and EVERY
`detect_recursion` stack, for all operands whose leaves satisfy an invariant `G`, relative to the two
leaf-level facts of `LeafSpec` (marker equality implies equal truth; a successful `_merge_single_markers`
is the conjunction/disjunction of its operands).  `leafSpec_distinct_names`… discharge `LeafSpec` on
fragments; the full statement is false of code and model (`C07_full_statement_false`).
-/
import PoetryVerif.Proofs.MarkerAlgSoundOps
import PoetryVerif.Proofs.MarkerAlgSoundStr
import PoetryVerif.Proofs.MarkerAlgSoundExtra
import PoetryVerif.Proofs.MarkerAlgSoundComb
import PoetryVerif.Proofs.MarkerAlgSoundInvert
import PoetryVerif.Proofs.MarkerAlgSoundVerEqv
import PoetryVerif.Proofs.MarkerAlgSoundVerInv
import PoetryVerif.Proofs.MarkerAlgSoundVerMk
import PoetryVerif.Proofs.MarkerAlgSoundPv
import PoetryVerif.Proofs.MarkerAlgSoundPfv
import PoetryVerif.Proofs.MarkerAlgSoundPyInv
import PoetryVerif.Proofs.MarkerAlgSoundPr
import PoetryVerif.Proofs.MarkerAlgSoundInvLists
import PoetryVerif.Proofs.MarkerAlgSoundFullC
import PoetryVerif.Proofs.MarkerAlgSoundPrC
import PoetryVerif.Proofs.MarkerAlgSoundFull4
import PoetryVerif.Proofs.MarkerAlgSoundFullL
import PoetryVerif.Proofs.MarkerAlgSoundListCtor
import PoetryVerif.Proofs.MarkerAlgSoundPairLL
import PoetryVerif.Proofs.MarkerAlgSoundInvLL
import PoetryVerif.Proofs.MarkerAlgSoundInvRep
import PoetryVerif.Proofs.PyConvPairFinal
import PoetryVerif.Proofs.PyConvPairCompat
import PoetryVerif.Proofs.MarkerPrint

set_option linter.unusedSimpArgs false
set_option linter.unusedVariables false

namespace Poetry.C07
open Poetry Poetry.Marker

/-- truth of a marker in an environment -/
def holds (E : Env) (m : M) : Bool := M.sem (leafEval E) m

/-- a leaf as the parser builds it: `SingleMarker(name, constraint_string, swapped)` -/
def ParsedLeaf (l : Leaf) : Prop := ∃ n c sw s, mkSingle n c sw = .ok s ∧ l = .single s

/-- **The property at full strength** (operands built by the marker constructor, every environment in
which the operands evaluate, every fuel, every recursion stack). -/
def C07_full_statement : Prop :=
  ∀ (E : Env) (a b : M), M.Good ParsedLeaf a → M.Good ParsedLeaf b → M.Evaluable E a → M.Evaluable E b →
    (∀ fuel stk r, mIntersect fuel stk a b = .ok r → M.validate E r = .ok (holds E a && holds E b)) ∧
    (∀ fuel stk r, mUnion fuel stk a b = .ok r → M.validate E r = .ok (holds E a || holds E b)) ∧
    (∀ r, a.invert = .ok r → M.validate E r = .ok (!holds E a))

/-- **`validate` is `holds`** wherever every leaf of the marker evaluates without raising (Python's
short-circuit `all`/`any` included). -/
theorem holds_is_validate (E : Env) (m : M) (h : M.Evaluable E m) : M.validate E m = .ok (holds E m) :=
  M.validate_eq_sem E m h

open Poetry.Marker.Ex in
example : mkSingle "sys_platform" "==a" false = .ok sA ∧ mkSingle "sys_platform" "!= a" false = .ok sNA ∧
    mkSingle "os_name" "!=b" false = .ok sB := ⟨rfl, rfl, rfl⟩
open Poetry.Marker.Ex in
example : M.Evaluable envAB (.multi [.leaf (.single sA), .union [.leaf (.single sB), .empty]]) ∧
    M.validate envAB (.multi [.leaf (.single sA), .union [.leaf (.single sB), .empty]]) = .ok true := by
  refine ⟨?_, rfl⟩
  simp [M.Evaluable, M.Good, M.GoodAll]
  exact ⟨Or.inr rfl, Or.inr rfl⟩

variable {E : Env} {G : Leaf → Prop} {fuel : Nat} {stk : Stack}

/-- **Intersection preserves truth** — every fuel, every stack, all operands over good leaves:
the result holds in `E` exactly when both operands do, and `validate` reports that value. -/
theorem intersect_sound_partial (S : LeafSpec (leafEval E) G) (hE : ∀ l, G l → ∃ b, l.validate E = .ok b)
    {a b r : M} (ha : M.Good G a) (hb : M.Good G b) (h : mIntersect fuel stk a b = .ok r) :
    M.Good G r ∧ holds E r = (holds E a && holds E b) ∧
      M.validate E r = .ok (holds E a && holds E b) := by
  have := mIntersect_sound S ha hb h
  refine ⟨this.1, this.2, ?_⟩
  rw [holds_is_validate E r (M.good_mono hE r this.1)]
  exact congrArg _ this.2

/-- the hypotheses are satisfiable on composite operands: `(sys_platform == "a" and os_name != "b")`
∩ `sys_platform != "a"` is the empty marker, with the leaf facts proved for the three leaves involved -/
example : ∃ r, LeafSpec (leafEval Ex.envAB) Ex.G0 ∧
    M.Good Ex.G0 (.multi [.leaf (.single Ex.sA), .leaf (.single Ex.sB)]) ∧
    mIntersect 60 [] (.multi [.leaf (.single Ex.sA), .leaf (.single Ex.sB)]) (.leaf (.single Ex.sNA)) = .ok r ∧
    r = .empty := by
  refine ⟨_, Ex.leafSpec0, by simp [Ex.G0], ?_, rfl⟩
  marker_eval [Ex.sA, Ex.sNA, Ex.sB, Ex.i1, Ex.i2, Ex.i3, Ex.i4, Ex.i5, Ex.u1, Ex.u2, Ex.u3, Ex.u4, Ex.u5]

/-- **Union preserves truth.** -/
theorem union_sound_partial (S : LeafSpec (leafEval E) G) (hE : ∀ l, G l → ∃ b, l.validate E = .ok b)
    {a b r : M} (ha : M.Good G a) (hb : M.Good G b) (h : mUnion fuel stk a b = .ok r) :
    M.Good G r ∧ holds E r = (holds E a || holds E b) ∧
      M.validate E r = .ok (holds E a || holds E b) := by
  have := mUnion_sound S ha hb h
  refine ⟨this.1, this.2, ?_⟩
  rw [holds_is_validate E r (M.good_mono hE r this.1)]
  exact congrArg _ this.2

example : ∃ r, LeafSpec (leafEval Ex.envAB) Ex.G0 ∧
    mUnion 60 [] (.multi [.leaf (.single Ex.sA), .leaf (.single Ex.sB)]) (.leaf (.single Ex.sNA)) = .ok r ∧
    r = .union [.leaf (.single Ex.sB), .leaf (.single Ex.sNA)] := by
  refine ⟨_, Ex.leafSpec0, ?_, rfl⟩
  marker_eval [Ex.sA, Ex.sNA, Ex.sB, Ex.i1, Ex.i2, Ex.i3, Ex.i4, Ex.i5, Ex.u1, Ex.u2, Ex.u3, Ex.u4, Ex.u5]

/-- **Inversion preserves truth** (De Morgan over the flattening constructors), relative to the
leaf-level statement. -/
theorem invert_sound_partial (S : LeafSpec (leafEval E) G) (LI : LeafInvertSound (leafEval E) G)
    (hE : ∀ l, G l → ∃ b, l.validate E = .ok b) {a r : M} (ha : M.Good G a) (h : a.invert = .ok r) :
    M.Good G r ∧ holds E r = !holds E a ∧ M.validate E r = .ok (!holds E a) := by
  have := M.invert_sound S LI a r ha h
  refine ⟨this.1, this.2, ?_⟩
  rw [holds_is_validate E r (M.good_mono hE r this.1)]
  exact congrArg _ this.2

/-- `intersection(*markers)` / `union(*markers)` (the n-ary entry points with their recursion guard). -/
theorem intersection_sound_partial (S : LeafSpec (leafEval E) G) {ms : List M} {r : M}
    (hg : M.GoodAll G ms) (h : intersectionF fuel stk ms = .ok r) :
    M.Good G r ∧ holds E r = M.semAll (leafEval E) ms := intersectionF_sound S hg h

theorem unionF_sound_partial (S : LeafSpec (leafEval E) G) {ms : List M} {r : M}
    (hg : M.GoodAll G ms) (h : unionF fuel stk ms = .ok r) :
    M.Good G r ∧ holds E r = M.semAny (leafEval E) ms := unionF_sound S hg h

/-- `MultiMarker.of` / `MarkerUnion.of` including the `while old != new` fix-point loop. -/
theorem multiOf_sound_partial (S : LeafSpec (leafEval E) G) {ms : List M} {r : M}
    (hg : M.GoodAll G ms) (h : multiOf fuel stk ms = .ok r) :
    M.Good G r ∧ holds E r = M.semAll (leafEval E) ms := multiOf_sound S hg h

theorem unionOf_sound_partial (S : LeafSpec (leafEval E) G) {ms : List M} {r : M}
    (hg : M.GoodAll G ms) (h : unionOf fuel stk ms = .ok r) :
    M.Good G r ∧ holds E r = M.semAny (leafEval E) ms := unionOf_sound S hg h

/-- `intersect_simplify` / `union_simplify` (absorption and distribution over the common members). -/
theorem intersect_simplify_sound_partial (S : LeafSpec (leafEval E) G) {ours : List M} {other r : M}
    (hg : M.GoodAll G ours) (ho : M.Good G other)
    (h : intersectSimplify fuel stk ours other = .ok (some r)) :
    M.Good G r ∧ holds E r = (M.semAny (leafEval E) ours && holds E other) :=
  intersectSimplify_sound S hg ho h

theorem union_simplify_sound_partial (S : LeafSpec (leafEval E) G) {ours : List M} {other r : M}
    (hg : M.GoodAll G ours) (ho : M.Good G other)
    (h : unionSimplify fuel stk ours other = .ok (some r)) :
    M.Good G r ∧ holds E r = (M.semAll (leafEval E) ours || holds E other) :=
  unionSimplify_sound S hg ho h

/-- **A result reported empty holds nowhere**: if `a.intersect(b)` is the empty marker, `a` and `b` are
never true together. -/
theorem empty_never_true_partial (S : LeafSpec (leafEval E) G) {a b r : M} (ha : M.Good G a)
    (hb : M.Good G b) (h : mIntersect fuel stk a b = .ok r) (he : r.isEmpty = true) :
    (holds E a && holds E b) = false := by
  have := (mIntersect_sound S ha hb h).2
  unfold holds; rw [← this]; exact M.isEmpty_sem he

/-- **A result reported universal holds everywhere**: if `a.union(b)` is the universal marker, one of
`a`, `b` is true in `E`. -/
theorem any_always_true_partial (S : LeafSpec (leafEval E) G) {a b r : M} (ha : M.Good G a)
    (hb : M.Good G b) (h : mUnion fuel stk a b = .ok r) (he : r.isAny = true) :
    (holds E a || holds E b) = true := by
  have := (mUnion_sound S ha hb h).2
  unfold holds; rw [← this]; exact M.isAny_sem he

/-- **Every result can be printed and parsed back** (tree level): for printable operands over good leaves
that have a text and re-read to themselves, `a.intersect(b)` / `a.union(b)` is Any, Empty, or a marker whose
`__str__` is the text of a grammar tree that `_compact_markers` turns back into a marker with the same
truth value — hence the truth value the property demands. -/
theorem result_printable_partial (S : LeafSpec (leafEval E) G) (hP : ∀ l, G l → Leaf.Printable l)
    (hL : ∀ l, G l → LeafPrintOK (leafEval E) G l) {a b r : M} (ha : M.Good G a) (hb : M.Good G b)
    (pa : (M.toSyn a).isSome = true) (pb : (M.toSyn b).isSome = true)
    (h : mIntersect fuel stk a b = .ok r ∨ mUnion fuel stk a b = .ok r) :
    r.isAny = true ∨ r.isEmpty = true ∨
      ∃ t m', M.toSyn r = some t ∧ M.toStr r = .ok t.text ∧ compactRaw t = .ok m' ∧
        holds E m' = holds E r := by
  have hp : r.PrintableE ∧ M.Good G r := by
    rcases h with h | h
    · exact ⟨mIntersect_printable S hP fuel stk a b r ha hb pa pb h, (mIntersect_sound S ha hb h).1⟩
    · exact ⟨mUnion_printable S hP fuel stk a b r ha hb pa pb h, (mUnion_sound S ha hb h).1⟩
  rcases hp.1 with h1 | h1 | h1
  · exact Or.inl h1
  · exact Or.inr (Or.inl h1)
  · obtain ⟨t, ht⟩ := Option.isSome_iff_exists.1 h1
    obtain ⟨h2, m', h3, _, h5⟩ := M.print_reparse S hL hp.2 ht
    exact Or.inr (Or.inr ⟨t, m', ht, h2, h3, h5⟩)

/-! ### Discharging the leaf facts: the string fragment (through C16's exactness theorems) -/

/-- **The leaf facts hold on the string fragment**: for leaves over plain string variables (`sys_platform`,
`os_name`, `platform_machine`, … — not `extra`, not `python_version`/`python_full_version`) carrying a
`==`/`!=` atom, or an `AtomicMultiMarker`/`AtomicMarkerUnion` over such atoms, in every environment that
defines the variable: marker equality implies equal truth, and every outcome of `_merge_single_markers`
(Empty, Any, one of the operands, a new `SingleMarker`, an atomic multi/union marker) is the exact
conjunction/disjunction.  Uses the exactness of the string-constraint algebra (C16).  Remaining hypothesis:
`MkAtomOK` — the constructor `SingleMarker(name, str(atom))` stores that atom again. -/
theorem leafSpec_string_partial (H : MkAtomOK E) : LeafSpec (leafEval E) (StrLeaf E) := leafSpec_str H

/-- …and so intersection and union are sound on the whole string fragment, for every fuel and stack. -/
theorem intersect_union_sound_string_partial (H : MkAtomOK E) {a b r : M}
    (ha : M.Good (StrLeaf E) a) (hb : M.Good (StrLeaf E) b) :
    (mIntersect fuel stk a b = .ok r → M.validate E r = .ok (holds E a && holds E b)) ∧
    (mUnion fuel stk a b = .ok r → M.validate E r = .ok (holds E a || holds E b)) :=
  ⟨fun h => (intersect_sound_partial (leafSpec_str H) (fun l hl => strLeaf_evaluable hl) ha hb h).2.2,
   fun h => (union_sound_partial (leafSpec_str H) (fun l hl => strLeaf_evaluable hl) ha hb h).2.2⟩

/-- **The constructor fact on plain values** (through C06's text-level lemmas): for the canonical string
variables and an `==`/`!=` atom whose value consists of plain characters (non-empty; no white space, quotes,
`|`, `,`) and does not start with `=`, `SingleMarker(name, constraint)` stores that atom again — each instance
of `MkAtomOK` with such a value holds.  Since the repository fix (the constructor re-inserts the `==` that
`str(Constraint)` omits) this includes values that start like an operator of the constraint pattern, such as
`inotify`, `interix` or `not-x`; before the fix the statement was false for them. -/
theorem mkAtomOK_plain_values (n : String) (a : Generic.Atom) (s : Single) (hn : n ∈ plainStringVars)
    (hv : PlainValue a.value) (hx : a.x = false) (he : a.isEqNe = true)
    (h : mkSingleOfC n (.gen (.s (.atom a))) = .ok s) :
    s.name = n ∧ s.swapped = false ∧ s.c = .gen (.s (.atom a)) ∧ s.op = a.op.str ∧ s.value = a.value :=
  mkAtomOK_plain n a s hn hv hx he h

/-- values that start like the operators `in` / `not in` are plain values: `extra == "inotify"` and
`sys_platform == "interix"` are rebuilt as themselves (the defect the repository fix removed) -/
example : PlainValue "inotify" ∧ PlainValue "interix" ∧
    mkSingleOfC "extra" (.gen (.s (.atom ⟨"inotify", .eq, true⟩))) =
      .ok ⟨"extra", "==", "inotify", false, .gen (.s (.atom ⟨"inotify", .eq, true⟩))⟩ := by
  have tk : ∀ v : String, v.toList ≠ [] → (v.toList.all fun c =>
      !isSpace c && c != '|' && c != ',' && c != '"' && c != '\'') = true → PlainTok v := by
    intro v h1 h2
    refine ⟨h1, fun c hc => ?_⟩
    have := List.all_eq_true.1 h2 c hc
    simpa [tokChar, Bool.and_eq_true, and_assoc] using this
  have h1 : PlainValue "inotify" := ⟨tk _ (by decide) (by decide), by decide⟩
  have h2 : PlainValue "interix" := ⟨tk _ (by decide) (by decide), by decide⟩
  exact ⟨h1, h2, mkExtraOK_plain ⟨"inotify", .eq, true⟩ h1 rfl rfl⟩

/-- the fragment is inhabited by what the parser builds, and the constructor fact holds on such atoms -/
example : StrLeaf Ex.envAB (.single Ex.sA) ∧ StrLeaf Ex.envAB (.single Ex.sNA) ∧ StrLeaf Ex.envAB (.single Ex.sB) ∧
    mkSingleOfC "sys_platform" (.gen (.s (.atom ⟨"linux", .ne, false⟩))) =
      .ok ⟨"sys_platform", "!=", "linux", false, .gen (.s (.atom ⟨"linux", .ne, false⟩))⟩ ∧
    mkSingleOfC "os_name" (.gen (.s (.atom ⟨"nt", .eq, false⟩))) =
      .ok ⟨"os_name", "==", "nt", false, .gen (.s (.atom ⟨"nt", .eq, false⟩))⟩ := by
  refine ⟨?_, ?_, ?_, rfl, rfl⟩
  · exact ⟨rfl, rfl, ⟨"a", rfl⟩, rfl, ⟨"a", .eq, false⟩, rfl, rfl, rfl, rfl, rfl⟩
  · exact ⟨rfl, rfl, ⟨"a", rfl⟩, rfl, ⟨"a", .ne, false⟩, rfl, rfl, rfl, rfl, rfl⟩
  · exact ⟨rfl, rfl, ⟨"c", rfl⟩, rfl, ⟨"b", .ne, false⟩, rfl, rfl, rfl, rfl, rfl⟩

/-- **The leaf facts hold on the `extra` fragment** (`extra == "a"`, `extra != "a"`, and the atomic
multi/union markers on `extra`), in every environment that defines the set of active extras: the truth of
such a leaf is the `extra` denotation of its constraint at the canonicalised set of active extras, and
merging is exact because the `extra` constraint algebra is (C16 `x_intersect_exact`/`x_union_exact`).
Remaining hypothesis: the constructor fact `MkExtraOK`. -/
theorem leafSpec_extra_partial (H : MkExtraOK) {ex : List String} (hE : E.extras = some ex) :
    LeafSpec (leafEval E) XLeaf := leafSpec_extra H hE

/-- **No hypothesis left on plain values**: for the canonical string variables and `extra`, with atoms whose
values are plain (no white space, quotes, `|`, `,`; not starting like an operator), the leaf facts hold
outright — the constructor facts are proved there (`mkAtomOK_plain`, `mkExtraOK_plain`) and the constraint
algebra is shown never to invent a value (`GC.intersect_GW`, …), so the fragment is closed under merging. -/
theorem leaf_facts_plain {ex : List String} (hE : E.extras = some ex) : LeafSpec (leafEval E) (PlainLeaf E) :=
  leafSpec_plain hE

/-- **Intersection and union preserve truth on the plain fragment** — every fuel, every stack, all operands
over plain string / `extra` leaves, every environment defining the extras; no hypothesis. -/
theorem intersect_union_sound_plain {ex : List String} (hE : E.extras = some ex) {a b r : M}
    (ha : M.Good (PlainLeaf E) a) (hb : M.Good (PlainLeaf E) b) :
    (mIntersect fuel stk a b = .ok r →
      M.Good (PlainLeaf E) r ∧ M.validate E r = .ok (holds E a && holds E b)) ∧
    (mUnion fuel stk a b = .ok r →
      M.Good (PlainLeaf E) r ∧ M.validate E r = .ok (holds E a || holds E b)) :=
  ⟨fun h => by
      have := intersect_sound_partial (leafSpec_plain hE) (fun l hl => plainLeaf_evaluable hE hl) ha hb h
      exact ⟨this.1, this.2.2⟩,
   fun h => by
      have := union_sound_partial (leafSpec_plain hE) (fun l hl => plainLeaf_evaluable hE hl) ha hb h
      exact ⟨this.1, this.2.2⟩⟩

/-- `extra == "a"`, `sys_platform != "a"` are leaves of the plain fragment -/
example : PlainLeaf Ex.envAB (.single Ex.sNA) ∧
    PlainLeaf Ex.envAB (.single ⟨"extra", "==", "a", false, .gen (.s (.atom ⟨"a", .eq, true⟩))⟩) := by
  have hv : PlainValue "a" := by
    refine ⟨⟨by decide, ?_⟩, ?_⟩
    · intro c hc; simp at hc; subst hc; unfold tokChar; decide
    · decide
  refine ⟨Or.inl ⟨⟨rfl, rfl, ⟨"a", rfl⟩, rfl, ⟨"a", .ne, false⟩, rfl, rfl, rfl, rfl, rfl⟩, by decide, ?_⟩,
    Or.inr ⟨⟨rfl, rfl, ⟨"a", .eq, true⟩, rfl, rfl, rfl, rfl, rfl⟩, ?_⟩⟩
  · intro x hx; simp [leafAtoms, Leaf.c, Ex.sNA, Ex.cNA, Generic.GC.atoms, Generic.GS.atoms] at hx; subst hx; exact hv
  · intro x hx; simp [leafAtoms, Leaf.c, Generic.GC.atoms, Generic.GS.atoms] at hx; subst hx; exact hv

/-- **Inversion preserves truth on the string/`extra` fragment, no hypothesis** — for every marker over
`==`/`!=` leaves on the canonical string variables and `extra` (values plain and quotable), atomic multi markers
with at least one member, and atomic unions over `==` atoms (resp. pairwise different extras), in every
environment defining the extras: `invert()` returns a marker of the fragment that is true exactly where the
operand is false.  A `SingleMarker` is inverted by re-parsing `name <flipped op> "value"`, which the
character-level theorem (C13 `print_parse_chars`) reads back exactly; atomic leaves invert through C16's
`g_invert_exact`/`x_invert_exact`. -/
theorem invert_sound_plain {ex : List String} (hE : E.extras = some ex) {a r : M}
    (ha : M.Good (InvReady E) a) (h : a.invert = .ok r) :
    M.Good (InvLeaf E) r ∧ M.validate E r = .ok (!holds E a) := by
  have := M.invert_sound_inv hE ha h
  refine ⟨this.1, ?_⟩
  rw [holds_is_validate E r (M.good_mono (fun l hl => invLeaf_evaluable hE hl) r this.1)]
  exact congrArg _ this.2

/-- …and intersection/union on the same (quotable) fragment, so that the three operations compose there. -/
theorem intersect_union_sound_quotable {ex : List String} (hE : E.extras = some ex) {a b r : M}
    (ha : M.Good (InvLeaf E) a) (hb : M.Good (InvLeaf E) b) :
    (mIntersect fuel stk a b = .ok r →
      M.Good (InvLeaf E) r ∧ M.validate E r = .ok (holds E a && holds E b)) ∧
    (mUnion fuel stk a b = .ok r →
      M.Good (InvLeaf E) r ∧ M.validate E r = .ok (holds E a || holds E b)) :=
  ⟨fun h => by
      have := intersect_sound_partial (leafSpec_inv hE) (fun l hl => invLeaf_evaluable hE hl) ha hb h
      exact ⟨this.1, this.2.2⟩,
   fun h => by
      have := union_sound_partial (leafSpec_inv hE) (fun l hl => invLeaf_evaluable hE hl) ha hb h
      exact ⟨this.1, this.2.2⟩⟩

/-- `sys_platform == "a"` inverts to `sys_platform != "a"` (through the grammar, character by character) -/
example : (Leaf.invert (.single Ex.sA)).toOption.map M.dump = some (M.leaf (.single Ex.sNA)).dump := by
  decide +kernel

/-- **The leaf facts hold for same-name leaves on a version-like variable other than `python_version`**
(`python_full_version`, `platform_release`), in C05's regular setting: `RegB B` (the bounds occurring in the
leaves are mutually regular, none is a local build) and `VerEnv B E n p` (the environment gives the variable a
well-formed version `p` regular for `B` — e.g. a final release whose release differs from, or equals, every
bound).  Marker equality implies equal truth by coherence; `_merge_single_markers` is exact through
`VC.intersect_reg`/`VC.unionWith_reg`/`VC.allows_of_reg` (C05) and `eqvAllows` (C18's congruence lemmas).
Remaining hypothesis: `MkVerOK` — `SingleMarker(name, str(constraint))` for a simple constraint re-reads to a
leaf of the fragment admitting `p` exactly when the constraint does. -/
theorem leafSpec_version_partial {B : List Version} (hB : RegB B) {n : String} {p : Version}
    (hE : VerEnv B E n p) (hn : (n == "extra") = false) (hpv : (n == "python_version") = false)
    (HM : MkVerOK B n p) : LeafSpec (leafEval E) (VerLeaf B n) := leafSpec_ver' hB hE hn hpv HM

def exV380 : Version := ⟨0, [3, 8, 0], none, none, none, none, "3.8.0"⟩
def exV391 : Version := ⟨0, [3, 9, 1], none, none, none, none, "3.9.1"⟩
def exPfv : Single := ⟨"python_full_version", ">=", "3.8.0", false,
  .ver (.single (.rng ⟨some exV380, none, true, false⟩))⟩
def exEnvPy : Env := ⟨[("python_full_version", "3.9.1"), ("sys_platform", "a")], some []⟩

/-- the hypotheses of the version fragment are met by `python_full_version >= "3.8.0"` in an environment with
`python_full_version = 3.9.1` over the bound list `[3.8.0]` -/
example : RegB [exV380] ∧ VerEnv [exV380] exEnvPy "python_full_version" exV391 ∧
    VerLeaf [exV380] "python_full_version" (.single exPfv) ∧
    mkSingle "python_full_version" ">=3.8.0" false = .ok exPfv := by
  have hreg : RegB [exV380] := by
    refine ⟨?_, ?_⟩
    · intro x hx y hy
      simp only [List.mem_cons, List.mem_nil_iff, or_false] at hx hy
      subst hx; subst hy; exact Or.inl rfl
    · intro e he
      simp only [List.mem_cons, List.mem_nil_iff, or_false] at he
      subst he; rfl
  have m1 : RegMember [exV380] (.rng ⟨some exV380, none, true, false⟩) := by
    refine ⟨⟨?_, ?_⟩, ⟨fun h => by simp at h, fun _ => rfl⟩, by show VRange.isStrictlyLower _ _ = false; decide, ?_⟩
    · intro e he; simp [VRange.bounds] at he; subst he; decide
    · intro m M hm hM; simp at hM
    · intro e he; simp [RC.bounds, RC.view, VRange.bounds, RC.min, RC.max] at he; subst he; simp
  refine ⟨hreg, ⟨⟨"3.9.1", rfl, rfl⟩, by decide, ?_⟩, ⟨rfl, by decide, _, rfl, ⟨m1.1, m1.2.2.1⟩, ?_⟩, rfl⟩
  · intro e he
    simp only [List.mem_cons, List.mem_nil_iff, or_false] at he
    subst he; exact Or.inr (by decide)
  · intro c hc
    simp only [VC.flatten, List.mem_cons, List.mem_nil_iff, or_false] at hc
    subst hc; exact m1

/-- **Intersection and union on the combined domain** — plain string variables, `extra`, and
`python_full_version` leaves (regular setting) in one marker: every fuel, every stack. -/
theorem intersect_union_sound_domain_partial {B : List Version} (hB : RegB B) {ex : List String}
    (hX : E.extras = some ex) {p : Version} (hE : VerEnv B E "python_full_version" p)
    (HM : MkVerOK B "python_full_version" p) {a b r : M}
    (ha : M.Good (DomLeaf B E) a) (hb : M.Good (DomLeaf B E) b) :
    (mIntersect fuel stk a b = .ok r →
      M.Good (DomLeaf B E) r ∧ M.validate E r = .ok (holds E a && holds E b)) ∧
    (mUnion fuel stk a b = .ok r →
      M.Good (DomLeaf B E) r ∧ M.validate E r = .ok (holds E a || holds E b)) :=
  ⟨fun h => by
      have := intersect_sound_partial (leafSpec_dom hB hX hE HM)
        (fun l hl => domLeaf_evaluable hB hX hE hl) ha hb h
      exact ⟨this.1, this.2.2⟩,
   fun h => by
      have := union_sound_partial (leafSpec_dom hB hX hE HM)
        (fun l hl => domLeaf_evaluable hB hX hE hl) ha hb h
      exact ⟨this.1, this.2.2⟩⟩

/-- **Inversion on the combined domain**: string and `extra` leaves as in `invert_sound_plain`, plus
`python_full_version <|<=|>|>= "X.Y.Z…"` leaves whose literal is one of the regular bounds `B` — the flipped
clause is the complement on the environment's version by C05's bound semantics (`lower_allows`,
`upper_allows`), the flipped text is read back by the character-level grammar theorem and C06's `mkSingle_pfv3`. -/
theorem invert_sound_domain_partial {B : List Version} (hB : RegB B) {ex : List String}
    (hX : E.extras = some ex) {p : Version} (hE : VerEnv B E "python_full_version" p)
    (HM : MkVerOK B "python_full_version" p) {a r : M} (ha : M.Good (DomInvReady B E) a)
    (h : a.invert = .ok r) :
    M.Good (DomInvLeaf B E) r ∧ M.validate E r = .ok (!holds E a) := by
  have := M.invert_sound_dom hB hX hE HM ha h
  refine ⟨this.1, ?_⟩
  rw [holds_is_validate E r (M.good_mono (fun l hl => domInvLeaf_evaluable hB hX hE hl) r this.1)]
  exact congrArg _ this.2

/-- `python_full_version >= "3.8.0"` inverts to `python_full_version < "3.8.0"` -/
example : Leaf.invert (.single (ineqLeaf .ge ">=" 3 [8, 0])) = .ok (.leaf (.single (ineqLeaf .lt "<" 3 [8, 0]))) ∧
    DomInvReady [exV380] exEnvPy (.single (ineqLeaf .ge ">=" 3 [8, 0])) :=
  ⟨invert_ineq (by decide) 3 [8, 0] (by decide),
   Or.inr ⟨.ge, ">=", .lt, "<", 3, [8, 0], by decide, by decide, by decide, rfl⟩⟩

/-- **The constructor fact for `python_full_version`, proved**: when every bound in `B` is a release literal
`X.Y.Z…` (at least three components, canonical text — `LitB B`), `SingleMarker("python_full_version", str(c))` for
a simple constraint `c` (an exact version, a one-sided range, or the `!= V` union) re-reads to a leaf of the
fragment admitting the environment's version exactly when `c` does.  Uses C06's text-level constructor lemmas,
the printer model, and for `!= V` C05's `inverted_sem`. -/
theorem mkVerOK_python_full_version {B : List Version} (hB : RegB B) (hL : LitB B) {p : Version}
    (hp : p.wf = true) (hreg : Regular B p) : MkVerOK B "python_full_version" p :=
  mkVerOK_pfv_full hB hL hp hreg

/-- **Intersection, union and inversion preserve truth on the combined domain, no unproved hypothesis** —
markers over plain string variables, `extra`, and `python_full_version` leaves whose bounds are release
literals `X.Y.Z…` that are mutually regular (`RegB B`, `LitB B`), in environments defining the extras and
giving `python_full_version` a well-formed version regular for the bounds (`VerEnv`): every fuel, every stack. -/
theorem intersect_union_sound_domain {B : List Version} (hB : RegB B) (hL : LitB B) {ex : List String}
    (hX : E.extras = some ex) {p : Version} (hE : VerEnv B E "python_full_version" p) {a b r : M}
    (ha : M.Good (DomLeaf B E) a) (hb : M.Good (DomLeaf B E) b) :
    (mIntersect fuel stk a b = .ok r →
      M.Good (DomLeaf B E) r ∧ M.validate E r = .ok (holds E a && holds E b)) ∧
    (mUnion fuel stk a b = .ok r →
      M.Good (DomLeaf B E) r ∧ M.validate E r = .ok (holds E a || holds E b)) :=
  intersect_union_sound_domain_partial hB hX hE (mkVerOK_pfv_full hB hL hE.wf hE.reg) ha hb

theorem invert_sound_domain {B : List Version} (hB : RegB B) (hL : LitB B) {ex : List String}
    (hX : E.extras = some ex) {p : Version} (hE : VerEnv B E "python_full_version" p) {a r : M}
    (ha : M.Good (DomInvReady B E) a) (h : a.invert = .ok r) :
    M.Good (DomInvLeaf B E) r ∧ M.validate E r = .ok (!holds E a) :=
  invert_sound_domain_partial hB hX hE (mkVerOK_pfv_full hB hL hE.wf hE.reg) ha h

example : LitB [exV380] := by
  intro V hV
  simp only [List.mem_cons, List.mem_nil_iff, or_false] at hV
  subst hV
  exact ⟨3, [8, 0], by decide, rfl⟩

/-- **The leaf facts for same-name `python_version` leaves, no hypothesis**: leaves
`python_version <op> "X.Y"` with `<op>` one of `== != < <= > >=` and a two-component literal, in every environment
whose `python_version` is a two-component release.  All outcomes of `_merge_single_markers` are covered: the
generic ones (empty / any / one operand / a simple constraint re-read through `SingleMarker(name, str(c))` — here
the constructor fact is *proved*, by C11's `normPair_exact`), the special `== "X.Y"` candidate branch
(`parse_marker` of the candidate text, `get_python_constraint_from_marker` of the candidate compared with the
intersection), the "intersection of the converted constraints is empty" branch and the converted-union
branch (C05's `intersect_reg`/`unionWith_reg` over the bounds of the converted constraints, C11's exactness of
the conversion, evaluated at `X.Y.0` and transferred to the two-component probe by padding congruence). -/
theorem leafSpec_python_version {X Y : Nat} (hE : E.get? "python_version" = some (Version.relText [X, Y])) :
    LeafSpec (leafEval E) PvLeaf := leafSpec_pv hE

/-- **Intersection and union preserve truth on markers over `python_version` comparison leaves, plain string
variables and `extra`**: every fuel, every stack, no unproved hypothesis. -/
theorem intersect_union_sound_python_version {ex : List String} (hX : E.extras = some ex) {X Y : Nat}
    (hE : E.get? "python_version" = some (Version.relText [X, Y])) {a b r : M}
    (ha : M.Good (PvDomLeaf E) a) (hb : M.Good (PvDomLeaf E) b) :
    (mIntersect fuel stk a b = .ok r →
      M.Good (PvDomLeaf E) r ∧ M.validate E r = .ok (holds E a && holds E b)) ∧
    (mUnion fuel stk a b = .ok r →
      M.Good (PvDomLeaf E) r ∧ M.validate E r = .ok (holds E a || holds E b)) :=
  ⟨fun h => by
      have := intersect_sound_partial (leafSpec_pvDom hX hE)
        (fun l hl => pvDomLeaf_evaluable hX hE hl) ha hb h
      exact ⟨this.1, this.2.2⟩,
   fun h => by
      have := union_sound_partial (leafSpec_pvDom hX hE)
        (fun l hl => pvDomLeaf_evaluable hX hE hl) ha hb h
      exact ⟨this.1, this.2.2⟩⟩

def exEnvPv : Env := ⟨[("python_version", "3.9"), ("sys_platform", "a")], some []⟩

/-- `python_version >= "3.8"` and `python_version < "3.9"` are leaves of the fragment, built by the marker
constructor; their intersection (whatever the simplifier returns — here the `== "3.8"` candidate branch is
reached) is false in an environment with `python_version = 3.9` -/
example : mkSingle "python_version" ">=3.8" false = .ok (pvLeafOf .ge ">=" 3 8) ∧
    mkSingle "python_version" "<3.9" false = .ok (pvLeafOf .lt "<" 3 9) ∧
    ∀ fuel stk r, mIntersect fuel stk (.leaf (.single (pvLeafOf .ge ">=" 3 8)))
      (.leaf (.single (pvLeafOf .lt "<" 3 9))) = .ok r → M.validate exEnvPv r = .ok false := by
  have t1 : ">=" ++ Version.relText [3, 8] = ">=3.8" := by decide
  have t2 : "<" ++ Version.relText [3, 9] = "<3.9" := by decide
  refine ⟨t1 ▸ mkSingle_pvLeaf (sop := .ge) (ops := ">=") (by decide) 3 8,
    t2 ▸ mkSingle_pvLeaf (sop := .lt) (ops := "<") (by decide) 3 9, fun fuel stk r h => ?_⟩
  have hE : exEnvPv.get? "python_version" = some (Version.relText [3, 9]) := by decide
  have g1 : M.Good (PvDomLeaf exEnvPv) (.leaf (.single (pvLeafOf .ge ">=" 3 8))) :=
    (M.good_leaf _).2 (Or.inr ⟨.ge, ">=", 3, 8, by decide, rfl⟩)
  have g2 : M.Good (PvDomLeaf exEnvPv) (.leaf (.single (pvLeafOf .lt "<" 3 9))) :=
    (M.good_leaf _).2 (Or.inr ⟨.lt, "<", 3, 9, by decide, rfl⟩)
  have := ((intersect_union_sound_python_version (E := exEnvPv) (fuel := fuel) (stk := stk) (ex := []) rfl hE g1 g2).1 h).2
  rw [this]
  have e1 : holds exEnvPv (.leaf (.single (pvLeafOf .ge ">=" 3 8))) = true := by decide
  have e2 : holds exEnvPv (.leaf (.single (pvLeafOf .lt "<" 3 9))) = false := by decide
  rw [e1, e2]; rfl

/-- **The constructor fact for `python_full_version` with the `.0` padding**: for a list `B` of Python bounds
(final releases of one to three components) that contains the padded form `X.Y.0` / `X.0.0` of its short members,
`SingleMarker("python_full_version", str(c))` for a simple constraint `c` over `B` re-reads (the constructor pads
a one- or two-component numeric value to three components) to a leaf admitting every final release exactly when
`c` does. -/
theorem mkVerOK_python_full_version_padded {B : List Version} (hpb : ∀ e ∈ B, PyBound e = true)
    (hpad : ∀ x r, litV x r ∈ B → litV x (padR r) ∈ B) (X : Nat) (R : List Nat) :
    MkVerOK B "python_full_version" (litV X R) := mkVerOK_pfv_py hpb hpad X R

/-- `SingleMarker("python_full_version", ">=3.8")` is `python_full_version >= "3.8.0"` -/
example : mkSingle "python_full_version" ">=3.8" false = .ok (pfvLeafOf .ge ">=" 3 [8, 0]) := by
  have t1 : ">=" ++ Version.relText [3, 8] = ">=3.8" := by decide
  exact t1 ▸ mkSingle_pfvLeaf (sop := .ge) (ops := ">=") (by decide) 3 [8]

/-- **The leaf facts for same-name `python_full_version` leaves with their text, no hypothesis**: leaves
`python_full_version <op> "X.Y.Z"` (`== != < <= > >=`), in every environment whose `python_full_version` is a
final release. -/
theorem leafSpec_python_full_version {X : Nat} {R : List Nat}
    (hE : E.get? "python_full_version" = some (Version.relText (X :: R))) :
    LeafSpec (leafEval E) Pfv3Leaf := leafSpec_pfv3 hE

/-- **`_merge_single_markers` on two `python_full_version` leaves over Python bounds, with the outcome's text**
(what the python_version/python_full_version pairing re-parses): exact, and the result is Empty, Any, one of the
operands, or a leaf `python_full_version <op> "a.b.c"`. -/
theorem python_full_version_merge_outcome {B : List Version} (hpb : ∀ e ∈ B, PyBound e = true)
    (hpad : ∀ x r, litV x r ∈ B → litV x (padR r) ∈ B) {X : Nat} {R : List Nat}
    (hX : E.get? "python_full_version" = some (Version.relText (X :: R)))
    (d : Nat) (l1 l2 : Leaf) (im : Bool) (r : M)
    (h1 : VerLeaf B "python_full_version" l1) (h2 : VerLeaf B "python_full_version" l2)
    (h : mergeSingle d l1 l2 im = .ok (some r)) :
    M.Good (VerLeaf B "python_full_version") r ∧
      M.sem (leafEval E) r = (if im then (leafEval E l1 && leafEval E l2) else (leafEval E l1 || leafEval E l2)) ∧
      PfvOutcome l1 l2 r := verLeaf_merge_text hpb hpad hX d l1 l2 im r h1 h2 h

/-- **Intersection and union preserve truth on the full comparison-operator domain, no unproved hypothesis** —
markers over plain string variables (`==`/`!=`, and the atomic multi/union leaves the simplifier builds from
them), `extra`, `python_version <op> "X.Y"` and `python_full_version <op> "X.Y.Z"` leaves (`<op>` one of
`== != < <= > >=`), in an environment of interpreter `X.Y.Z` that defines the extras: every fuel, every
`detect_recursion` stack.  All branches of `_merge_single_markers` are covered: same-name merges on each
variable (C16 / C05 exactness), the two special `python_version` branches (C11's conversion exactness), and the
python_version/python_full_version pairing (`pairSound_py`, the C11/C17 conversion proofs). -/
theorem intersect_union_sound_full {ex : List String} (hX : E.extras = some ex) {X Y Z : Nat}
    (hE : EnvPy E X Y Z) {a b r : M}
    (ha : M.Good (FullLeaf E) a) (hb : M.Good (FullLeaf E) b) :
    (mIntersect fuel stk a b = .ok r →
      M.Good (FullLeaf E) r ∧ M.validate E r = .ok (holds E a && holds E b)) ∧
    (mUnion fuel stk a b = .ok r →
      M.Good (FullLeaf E) r ∧ M.validate E r = .ok (holds E a || holds E b)) :=
  ⟨fun h => by
      have := intersect_sound_partial (leafSpec_full hX hE (pairSound_py hE))
        (fun l hl => fullLeaf_evaluable hX hE hl) ha hb h
      exact ⟨this.1, this.2.2⟩,
   fun h => by
      have := union_sound_partial (leafSpec_full hX hE (pairSound_py hE))
        (fun l hl => fullLeaf_evaluable hX hE hl) ha hb h
      exact ⟨this.1, this.2.2⟩⟩

/-- **Inversion preserves truth on the full comparison-operator domain, no unproved hypothesis**: string and
`extra` leaves as in `invert_sound_plain` (quotable values), and every `python_version <op> "X.Y"` /
`python_full_version <op> "X.Y.Z"` leaf with `<op>` one of `== != < <= > >=` — `invert()` re-parses the leaf's text
with the flipped operator (`==`↔`!=`, `<`↔`>=`, `<=`↔`>`), and the flipped clause is the complement at the
environment's version by C05's bound semantics. -/
theorem invert_sound_full {ex : List String} (hX : E.extras = some ex) {X Y Z : Nat}
    (hE : EnvPy E X Y Z) {a r : M} (ha : M.Good (FullInvReady E) a) (h : a.invert = .ok r) :
    M.Good (FullInvLeaf E) r ∧ M.validate E r = .ok (!holds E a) := by
  have := M.invert_sound_full hX hE (pairSound_py hE) ha h
  refine ⟨this.1, ?_⟩
  rw [holds_is_validate E r (M.good_mono (fun l hl => fullInvLeaf_evaluable hX hE hl) r this.1)]
  exact congrArg _ this.2

/-- `python_version == "3.8"` inverts to `python_version != "3.8"`, `python_full_version < "3.10.0"` to
`python_full_version >= "3.10.0"` -/
example : Leaf.invert (.single (pvLeafOf .eq "==" 3 8)) = .ok (.leaf (.single (pvLeafOf .ne "!=" 3 8))) ∧
    Leaf.invert (.single (pfvLeafOf .lt "<" 3 [10, 0])) = .ok (.leaf (.single (pfvLeafOf .ge ">=" 3 [10, 0]))) :=
  ⟨invert_pv (by decide) 3 8, invert_pfv3 (by decide) 3 10 0⟩

def exEnvFull : Env := ⟨[("python_version", "3.9"), ("python_full_version", "3.9.1"), ("sys_platform", "a")], some []⟩

example : EnvPy exEnvFull 3 9 1 ∧ M.Good (FullLeaf exEnvFull) (.leaf (.single (pfvLeafOf .lt "<" 3 [10, 0]))) ∧
    M.Good (FullLeaf exEnvFull) (.leaf (.single (pvLeafOf .ge ">=" 3 8))) :=
  ⟨⟨by decide, by decide⟩, (M.good_leaf _).2 (Or.inr (Or.inr ⟨.lt, "<", 3, 10, 0, by decide, rfl⟩)),
    (M.good_leaf _).2 (Or.inr (Or.inl ⟨.ge, ">=", 3, 8, by decide, rfl⟩))⟩

/-- **The constructor fact for `platform_release`, proved**: for a list `B` of release-number bounds (final
releases of one to three components), `SingleMarker("platform_release", str(c))` for a simple constraint `c` over
`B` re-reads to a leaf admitting every final release exactly when `c` does. -/
theorem mkVerOK_platform_release {B : List Version} (hpb : ∀ e ∈ B, PyBound e = true) (X : Nat) (R : List Nat) :
    MkVerOK B "platform_release" (litV X R) := mkVerOK_pr hpb X R

/-- **Intersection, union and inversion with `platform_release` leaves added** — the full comparison-operator
domain plus `platform_release` leaves whose constraints are well-formed over release-number bounds `B`
(`platform_release <op> "x.y.z"` and what merges make of them), in environments whose `platform_release` is a
release number: every fuel, every stack, no unproved hypothesis.  (A `platform_release` that is not a version
makes poetry fall back to string comparison; that fallback is outside the model — `unmodelled`.) -/
theorem intersect_union_sound_full_release {B : List Version} (hpb : ∀ e ∈ B, PyBound e = true)
    {ex : List String} (hX : E.extras = some ex) {X Y Z : Nat} (hE : EnvPy E X Y Z) {P : Nat} {Q : List Nat}
    (hP : E.get? "platform_release" = some (Version.relText (P :: Q))) {a b r : M}
    (ha : M.Good (FullLeafR B E) a) (hb : M.Good (FullLeafR B E) b) :
    (mIntersect fuel stk a b = .ok r →
      M.Good (FullLeafR B E) r ∧ M.validate E r = .ok (holds E a && holds E b)) ∧
    (mUnion fuel stk a b = .ok r →
      M.Good (FullLeafR B E) r ∧ M.validate E r = .ok (holds E a || holds E b)) :=
  ⟨fun h => by
      have := intersect_sound_partial (leafSpec_fullR hpb hX hE hP (pairSound_py hE))
        (fun l hl => fullLeafR_evaluable hpb hX hE hP hl) ha hb h
      exact ⟨this.1, this.2.2⟩,
   fun h => by
      have := union_sound_partial (leafSpec_fullR hpb hX hE hP (pairSound_py hE))
        (fun l hl => fullLeafR_evaluable hpb hX hE hP hl) ha hb h
      exact ⟨this.1, this.2.2⟩⟩

theorem invert_sound_full_release {B : List Version} (hpb : ∀ e ∈ B, PyBound e = true)
    {ex : List String} (hX : E.extras = some ex) {X Y Z : Nat} (hE : EnvPy E X Y Z) {P : Nat} {Q : List Nat}
    (hP : E.get? "platform_release" = some (Version.relText (P :: Q))) {a r : M}
    (ha : M.Good (FullInvReadyR B E) a) (h : a.invert = .ok r) :
    M.Good (FullInvLeafR B E) r ∧ M.validate E r = .ok (!holds E a) := by
  have := M.invert_sound_fullR hpb hX hE hP (pairSound_py hE) ha h
  refine ⟨this.1, ?_⟩
  rw [holds_is_validate E r (M.good_mono (fun l hl => fullInvLeafR_evaluable hpb hX hE hP hl) r this.1)]
  exact congrArg _ this.2

/-- `SingleMarker("platform_release", ">=5.10")` is `platform_release >= "5.10"`, a leaf of the domain over the
bound `5.10`; it inverts to `platform_release < "5.10"` -/
example : mkSingle "platform_release" ">=5.10" false = .ok (prLeafOf .ge ">=" 5 [10]) ∧
    PrLeafIn [litV 5 [10]] (.single (prLeafOf .ge ">=" 5 [10])) ∧
    Leaf.invert (.single (prLeafOf .ge ">=" 5 [10])) = .ok (.leaf (.single (prLeafOf .lt "<" 5 [10]))) := by
  have t1 : ">=" ++ Version.relText [5, 10] = ">=5.10" := by decide
  exact ⟨t1 ▸ mkSingle_prLeaf (sop := .ge) (ops := ">=") (by decide) 5 [10],
    ⟨.ge, ">=", 5, [10], by decide, by simp, rfl⟩, invert_pr (by decide) 5 [10]⟩

/-! ### `~=` leaves -/

/-- **The leaf facts with `~=`, same variable, no hypothesis**: `python_version <op> "X.Y"` with `<op>` one of
`== != < <= > >= ~=` (the same-name merge is proved for abstract operands — clause over two-component Python bounds,
exact conversion — so that the `~=` leaf `[a.b, (a+1).0)` is just another instance), and
`python_full_version <op> "X.Y.Z"` with the same seven operators (`~= "a.b.c"` is `[a.b.c, a.(b+1).0)`). -/
theorem leafSpec_compat {X Y Z : Nat} (hE : EnvPy E X Y Z) :
    LeafSpec (leafEval E) PvLeafC ∧ LeafSpec (leafEval E) Pfv3LeafC :=
  ⟨leafSpec_pvC hE.1, leafSpec_pfv3C hE.2⟩

/-- **Inverting a `~=` leaf**: `SingleMarker.invert` builds `name >= V` and `name < H` from texts with a blank after
the operator, inverts both and unites them — `python_version ~= "a.b"` becomes
`python_version < "a.b" or python_version >= "(a+1).0"`, `python_full_version ~= "a.b.c"` becomes
`python_full_version < "a.b.c" or python_full_version >= "a.(b+1).0"`, and the result is true exactly where the
leaf is false. -/
theorem invert_compat_sound {X Y Z : Nat} (hE : EnvPy E X Y Z) (a b c : Nat) :
    (Leaf.invert (.single (pvCompatOf a b)) =
        .ok (mkUnion [.leaf (.single (pvLeafOf .lt "<" a b)), .leaf (.single (pvLeafOf .ge ">=" (a + 1) 0))]) ∧
      InvOK (leafEval E) PvLeaf (.single (pvCompatOf a b))) ∧
    (Leaf.invert (.single (pfvCompatOf a b c)) =
        .ok (mkUnion [.leaf (.single (pfvLeafOf .lt "<" a [b, c])),
          .leaf (.single (pfvLeafOf .ge ">=" a [b + 1, 0]))]) ∧
      InvOK (leafEval E) Pfv3Leaf (.single (pfvCompatOf a b c))) :=
  ⟨⟨invert_pvCompat a b, invOK_pvCompat hE.1 a b⟩, ⟨invert_pfvCompat a b c, invOK_pfvCompat hE.2 a b c⟩⟩

/-- `SingleMarker("python_version", "~=3.8")` is the leaf with clause `[3.8, 4.0)` -/
example : mkSingle "python_version" "~=3.8" false = .ok (pvCompatOf 3 8) ∧
    mkSingle "python_full_version" "~=3.8.1" false = .ok (pfvCompatOf 3 8 1) := by
  have t1 : "~=" ++ Version.relText [3, 8] = "~=3.8" := by decide
  have t2 : "~=" ++ Version.relText [3, 8, 1] = "~=3.8.1" := by decide
  exact ⟨t1 ▸ mkSingle_pvCompat 3 8, t2 ▸ mkSingle_pfvCompat 3 8 1⟩

/-- **Intersection, union and inversion preserve truth on the full domain with `~=`, no unproved hypothesis**:
plain string variables, `extra`, `python_version "X.Y"` and `python_full_version "X.Y.Z"` leaves with the seven
operators `== != < <= > >= ~=`, in an environment of interpreter `X.Y.Z` defining the extras; every fuel, every
stack.  The pairing between the two python fragments with `~=` is `pairSound_pyC` (C11/C17 conversion proofs). -/
theorem intersect_union_invert_sound_fullC {ex : List String} (hX : E.extras = some ex) {X Y Z : Nat}
    (hE : EnvPy E X Y Z) {a b r : M} :
    (M.Good (FullLeafC E) a → M.Good (FullLeafC E) b → mIntersect fuel stk a b = .ok r →
      M.Good (FullLeafC E) r ∧ M.validate E r = .ok (holds E a && holds E b)) ∧
    (M.Good (FullLeafC E) a → M.Good (FullLeafC E) b → mUnion fuel stk a b = .ok r →
      M.Good (FullLeafC E) r ∧ M.validate E r = .ok (holds E a || holds E b)) ∧
    (M.Good (FullInvReadyC E) a → a.invert = .ok r →
      M.Good (FullInvLeafC E) r ∧ M.validate E r = .ok (!holds E a)) := by
  have HP := pairSound_pyC hE
  refine ⟨fun ha hb h => ?_, fun ha hb h => ?_, fun ha h => ?_⟩
  · have := intersect_sound_partial (leafSpec_fullC hX hE HP) (fun l hl => fullLeafC_evaluable hX hE hl) ha hb h
    exact ⟨this.1, this.2.2⟩
  · have := union_sound_partial (leafSpec_fullC hX hE HP) (fun l hl => fullLeafC_evaluable hX hE hl) ha hb h
    exact ⟨this.1, this.2.2⟩
  · have := M.invert_sound_fullC hX hE HP ha h
    refine ⟨this.1, ?_⟩
    rw [holds_is_validate E r (M.good_mono (fun l hl => fullInvLeafC_evaluable hX hE hl) r this.1)]
    exact congrArg _ this.2

/-- **The full domain with `~=` on all three version-like variables, no unproved hypothesis**: as
`intersect_union_invert_sound_fullC`, plus `platform_release` leaves whose constraints are well-formed over the
release-number bounds `B` — which includes `platform_release ~= "a.b"` (`[a.b, (a+1).0)`) and `~= "a.b.c"`
(`[a.b.c, a.(b+1).0)`) when their two bounds are in `B` (`PrCompatLeaf`, `prCompat_verLeaf`) — in environments
whose `platform_release` is a release number. -/
theorem intersect_union_invert_sound_fullCR {B : List Version} (hpb : ∀ e ∈ B, PyBound e = true)
    {ex : List String} (hX : E.extras = some ex) {X Y Z : Nat} (hE : EnvPy E X Y Z) {P : Nat} {Q : List Nat}
    (hP : E.get? "platform_release" = some (Version.relText (P :: Q))) {a b r : M} :
    (M.Good (FullLeafCR B E) a → M.Good (FullLeafCR B E) b → mIntersect fuel stk a b = .ok r →
      M.Good (FullLeafCR B E) r ∧ M.validate E r = .ok (holds E a && holds E b)) ∧
    (M.Good (FullLeafCR B E) a → M.Good (FullLeafCR B E) b → mUnion fuel stk a b = .ok r →
      M.Good (FullLeafCR B E) r ∧ M.validate E r = .ok (holds E a || holds E b)) ∧
    (M.Good (FullInvReadyCR B E) a → a.invert = .ok r →
      M.Good (FullInvLeafCR B E) r ∧ M.validate E r = .ok (!holds E a)) := by
  have HP := pairSound_pyC hE
  refine ⟨fun ha hb h => ?_, fun ha hb h => ?_, fun ha h => ?_⟩
  · have := intersect_sound_partial (leafSpec_fullCR hpb hX hE hP HP)
      (fun l hl => fullLeafCR_evaluable hpb hX hE hP hl) ha hb h
    exact ⟨this.1, this.2.2⟩
  · have := union_sound_partial (leafSpec_fullCR hpb hX hE hP HP)
      (fun l hl => fullLeafCR_evaluable hpb hX hE hP hl) ha hb h
    exact ⟨this.1, this.2.2⟩
  · have := M.invert_sound_fullCR hpb hX hE hP HP ha h
    refine ⟨this.1, ?_⟩
    rw [holds_is_validate E r (M.good_mono (fun l hl => fullInvLeafCR_evaluable hpb hX hE hP hl) r this.1)]
    exact congrArg _ this.2

/-- `platform_release ~= "5.10"` is built by the constructor, is a leaf of the domain over the bounds `5.10`, `6.0`,
and inverts to `platform_release < "5.10" or platform_release >= "6.0"` -/
example : mkSingle "platform_release" "~=5.10" false = .ok (prCompatOf 5 [10] (litV 6 [0])) ∧
    PrCompatLeaf [litV 5 [10], litV 6 [0]] (.single (prCompatOf 5 [10] (litV 6 [0]))) ∧
    Leaf.invert (.single (prCompatOf 5 [10] (litV 6 [0]))) =
      .ok (mkUnion [.leaf (.single (prLeafOf .lt "<" 5 [10])), .leaf (.single (prLeafOf .ge ">=" 6 [0]))]) := by
  have t1 : "~=" ++ Version.relText [5, 10] = "~=5.10" := by decide
  refine ⟨?_, Or.inl ⟨5, 10, by simp, by simp, rfl⟩, invert_prCompat 5 [10] 6 [0]⟩
  have := mkSingle_prCompat 5 [10]
  rw [compatHigh2, t1] at this
  exact this

/-! ### string variables with all four operators: the exact boundary of `notin-union-notin-any` -/

/-- **The leaf facts on string variables with all four operators**: `name == "v"`, `name != "v"`, `"v" in name`,
`"v" not in name` (and the atomic multi / union leaves merges build), for canonical string variables, plain values,
in environments defining the variable.  The only condition: the values of the `not in` leaves are pairwise
comparable by containment (`C`) — so that no union of two `not in` leaves hits the call site
`Constraint.union`, `ops in ({"!="}, {"not in"})`.  Every other pair of leaves merges exactly
(`GC.intersect_4`, `GC.unionWith_4` of C16 with atom tracking; an `in`/`not in` atom in a result is an
operand's, so the constructor is never asked to re-read one). -/
theorem leafSpec_four_operators {C : String → Prop}
    (hC : ∀ u v, C u → C v → Generic.strIn u v = true ∨ Generic.strIn v u = true) :
    LeafSpec (leafEval E) (Str4Leaf C E) := leafSpec_str4 hC E

/-- **The excluded pairs are exactly the wrong ones** (known finding `notin-union-notin-any`, for every variable and
every pair of values): when neither value contains the other (`ncClash`, a decidable test), the union of
`"u" not in name` and `"v" not in name` is reported universal although both are false where the variable's value
is `u ++ v`; hence the condition of `leafSpec_four_operators` cannot be weakened for `union`. -/
theorem notin_union_boundary {n u v : String} (hn : n ∈ plainStringVars)
    (hc : Generic.ncClash ⟨u, .nc, false⟩ ⟨v, .nc, false⟩ = true) :
    mergeLeaves (.single (revNotIn n u)) (.single (revNotIn n v)) false = .ok (some .any) ∧
    ∀ E' : Env, E'.get? n = some (u ++ v) →
      leafEval E' (.single (revNotIn n u)) = false ∧ leafEval E' (.single (revNotIn n v)) = false :=
  notin_union_clash hn hc

/-- **Intersection and union on the full domain with all four operators on the string variables**: string leaves
as in `leafSpec_four_operators`, `extra`, the python leaves with the seven operators, `platform_release` leaves over
release-number bounds — every fuel, every stack, no hypothesis other than the containment-comparability of the
`not in` values. -/
theorem intersect_union_sound_full4 {C : String → Prop}
    (hC : ∀ u v, C u → C v → Generic.strIn u v = true ∨ Generic.strIn v u = true)
    {B : List Version} (hpb : ∀ e ∈ B, PyBound e = true)
    {ex : List String} (hX : E.extras = some ex) {X Y Z : Nat} (hE : EnvPy E X Y Z) {P : Nat} {Q : List Nat}
    (hP : E.get? "platform_release" = some (Version.relText (P :: Q))) {a b r : M}
    (ha : M.Good (FullLeaf4 C B E) a) (hb : M.Good (FullLeaf4 C B E) b) :
    (mIntersect fuel stk a b = .ok r →
      M.Good (FullLeaf4 C B E) r ∧ M.validate E r = .ok (holds E a && holds E b)) ∧
    (mUnion fuel stk a b = .ok r →
      M.Good (FullLeaf4 C B E) r ∧ M.validate E r = .ok (holds E a || holds E b)) := by
  have S := leafSpec_full4 hC hpb hX hE hP (pairSound_pyC hE)
  have hev : ∀ l, FullLeaf4 C B E l → ∃ b, l.validate E = .ok b := fun l hl => fullLeaf4_evaluable hpb hX hE hP hl
  exact ⟨fun h => by have := intersect_sound_partial S hev ha hb h; exact ⟨this.1, this.2.2⟩,
    fun h => by have := union_sound_partial S hev ha hb h; exact ⟨this.1, this.2.2⟩⟩

/-- `"a" in sys_platform` and `"ab" not in sys_platform` are leaves of the four-operator fragment (one `not in`
value: trivially a chain); `"a" not in …` ∪ `"b" not in …` is the excluded class -/
example : Str4Leaf (fun v => v = "ab") Ex.envAB
      (.single ⟨"sys_platform", "in", "a", true, .gen (.s (.atom ⟨"a", .in_, false⟩))⟩) ∧
    Str4Leaf (fun v => v = "ab") Ex.envAB (.single (revNotIn "sys_platform" "ab")) ∧
    Generic.ncClash ⟨"a", .nc, false⟩ ⟨"b", .nc, false⟩ = true := by
  have tk : ∀ v : String, v.toList ≠ [] → (v.toList.all fun c =>
      !isSpace c && c != '|' && c != ',' && c != '"' && c != '\'') = true → PlainTok v := by
    intro v h1 h2
    refine ⟨h1, fun c hc => ?_⟩
    have := List.all_eq_true.1 h2 c hc
    simpa [tokChar, Bool.and_eq_true, and_assoc] using this
  refine ⟨Or.inr ⟨"sys_platform", "in", .in_, "a", by decide, by decide, tk _ (by decide) (by decide),
      trivial, ⟨"a", rfl⟩, (by intro h; cases h), rfl⟩,
    Or.inr ⟨"sys_platform", "not in", .nc, "ab", by decide, by decide, tk _ (by decide) (by decide),
      trivial, ⟨"a", rfl⟩, fun _ => rfl, rfl⟩, by decide⟩

/-! ### version lists on `python_version` -/

/-- **The leaf facts on `python_version` with the seven operators and `in` / `not in` lists, no hypothesis and no
exception class**: the constraint string `SingleMarker.__init__` builds for `python_version in "X0.Y0 X1.Y1 …"`
(`X0.Y0.* || X1.Y1.* || …`; for `not in`: `!=X0.Y0.*, !=X1.Y1.*, …`) is the very text
`normalize_python_version_markers` prints for the leaf, and the constraint parser reads it as a constraint of the
regular setting over two-component Python bounds (`parse_list_reg`, through C11's `parse_groups`/`parse_groupsE`);
so the leaf's clause and its conversion coincide and the abstract-operand merge theorem applies — every branch of
`_merge_single_markers`, including the two special `python_version` branches. -/
theorem leafSpec_python_version_lists {X Y : Nat} (hE : E.get? "python_version" = some (Version.relText [X, Y])) :
    LeafSpec (leafEval E) PvLeafL := leafSpec_pvL hE

/-- the list leaves are what the constructor builds from `in` / `not in` and a list of `X.Y` tokens separated by
runs of blanks, commas and bars -/
theorem python_version_list_built (isIn : Bool) (p0 : Nat × Nat) (rest : List (String × (Nat × Nat)))
    (hs : ∀ q ∈ rest, SepRun q.1) :
    ∃ s, mkSingle "python_version" (listOp isIn ++ verList2 p0 rest) false = .ok s ∧ PvListLeaf (.single s) :=
  pvListLeaf_built isIn p0 rest hs

/-- **Intersection and union with `python_version` lists, no unproved hypothesis**, on markers without
`python_full_version` leaves: string leaves with the four operators, `extra`, `python_version` with the seven
operators and lists, `platform_release`.  (With `python_full_version` leaves: `intersect_union_sound_lists_pfv`.) -/
theorem intersect_union_sound_lists {C : String → Prop}
    (hC : ∀ u v, C u → C v → Generic.strIn u v = true ∨ Generic.strIn v u = true)
    {B : List Version} (hpb : ∀ e ∈ B, PyBound e = true)
    {ex : List String} (hX : E.extras = some ex) {X Y : Nat}
    (hE : E.get? "python_version" = some (Version.relText [X, Y])) {P : Nat} {Q : List Nat}
    (hP : E.get? "platform_release" = some (Version.relText (P :: Q))) {a b r : M}
    (ha : M.Good (FullLeafL C B E) a) (hb : M.Good (FullLeafL C B E) b) :
    (mIntersect fuel stk a b = .ok r →
      M.Good (FullLeafL C B E) r ∧ M.validate E r = .ok (holds E a && holds E b)) ∧
    (mUnion fuel stk a b = .ok r →
      M.Good (FullLeafL C B E) r ∧ M.validate E r = .ok (holds E a || holds E b)) := by
  have S := leafSpec_fullL hC hpb hX hE hP
  have hev : ∀ l, FullLeafL C B E l → ∃ b, l.validate E = .ok b := fun l hl => fullLeafL_evaluable hpb hX hE hP hl
  exact ⟨fun h => by have := intersect_sound_partial S hev ha hb h; exact ⟨this.1, this.2.2⟩,
    fun h => by have := union_sound_partial S hev ha hb h; exact ⟨this.1, this.2.2⟩⟩

/-- **The pairing of `python_version` list leaves with `python_full_version` leaves, no hypothesis.**  The new
ingredient is the constructor on the conversion of a list: `SingleMarker("python_full_version", str(c))` for a
constraint `c` of the regular setting over two-component Python bounds (in general a union of ranges) is a leaf of
the regular fragment that means `c` (`mkListOK`).  Final-release bounds are never spelt with a wildcard, so
`str(c)` is the plain `||` join of the members; the C15 builder's text lemmas are generic in the parser mode, so the
round trip holds through `parse_marker_version_constraint`; the constraint pattern takes the first operator and
leaves the rest of the text (blanks, bars, commas) as the value, which is not padded.  A merged list marker is
returned as merged (repo fix d9aa4ee), a merged comparison marker is rewritten and re-parsed as before. -/
theorem pairing_with_lists {X Y Z : Nat} (hE : EnvPy E X Y Z) :
    MkListOK E (pyV X Y Z) ∧ PairSound (leafEval E) PvLeafL Pfv3LeafC :=
  ⟨mkListOK hE, pairSound_pyLists hE⟩

/-- **Intersection and union with `python_version` lists on markers WITH `python_full_version` leaves, no unproved
hypothesis**: string leaves with the four operators, `extra`, `python_version` with the seven operators and
`in` / `not in` lists, `python_full_version` with the seven operators, `platform_release` — every fuel, every
stack. -/
theorem intersect_union_sound_lists_pfv {C : String → Prop}
    (hC : ∀ u v, C u → C v → Generic.strIn u v = true ∨ Generic.strIn v u = true)
    {B : List Version} (hpb : ∀ e ∈ B, PyBound e = true)
    {ex : List String} (hX : E.extras = some ex) {X Y Z : Nat} (hE : EnvPy E X Y Z) {P : Nat} {Q : List Nat}
    (hP : E.get? "platform_release" = some (Version.relText (P :: Q))) {a b r : M}
    (ha : M.Good (FullLeafLP C B E) a) (hb : M.Good (FullLeafLP C B E) b) :
    (mIntersect fuel stk a b = .ok r →
      M.Good (FullLeafLP C B E) r ∧ M.validate E r = .ok (holds E a && holds E b)) ∧
    (mUnion fuel stk a b = .ok r →
      M.Good (FullLeafLP C B E) r ∧ M.validate E r = .ok (holds E a || holds E b)) := by
  have S := leafSpec_fullLP hC hpb hX hE hP
  have hev : ∀ l, FullLeafLP C B E l → ∃ b, l.validate E = .ok b := fun l hl => fullLeafLP_evaluable hpb hX hE hP hl
  exact ⟨fun h => by have := intersect_sound_partial S hev ha hb h; exact ⟨this.1, this.2.2⟩,
    fun h => by have := union_sound_partial S hev ha hb h; exact ⟨this.1, this.2.2⟩⟩

/-- **`python_full_version` lists.**  `python_full_version in "…"` / `not in "…"` on lists of one-, two- and
three-component versions are leaves of the same-name merge: a three-component token contributes `==a.b.c` /
`!=a.b.c`, a two-component token the wildcard clause `a.b.*` / `!=a.b.*`; the constraint string the constructor
builds is read as a constraint of the regular setting over Python bounds (two- and three-component bounds mixed —
the bound list is closed under padding), so the text-tracking merge theorem applies.  The leaf facts hold on
comparison, `~=` and list leaves together. -/
theorem leafSpec_python_full_version_lists {X : Nat} {R : List Nat}
    (hE : E.get? "python_full_version" = some (Version.relText (X :: R))) : LeafSpec (leafEval E) PfvLeafL :=
  leafSpec_pfvL hE

/-- the list leaves exist (the constructor builds them), and **what they mean**: on interpreter `X.Y.Z`,
`python_full_version in "…"` holds exactly when a token lists `X.Y.Z` — a two-component token `a.b` lists every
`a.b.*` (poetry's wildcard reading: `python_full_version not in "3.8"` excludes 3.8.*), a three-component token
only itself — and `not in` is the negation -/
theorem python_full_version_list_built {X Y Z : Nat}
    (hE : E.get? "python_full_version" = some (Version.relText [X, Y, Z]))
    (isIn : Bool) (t0 : PTok) (rest : List (String × PTok)) (hs : ∀ q ∈ rest, SepRun q.1) :
    ∃ s, mkSingle "python_full_version" (listOp isIn ++ pfvList t0 rest) false = .ok s ∧ PfvListLeaf (.single s) ∧
      leafEval E (.single s) =
        (if isIn then (t0 :: rest.map (·.2)).any (PTok.hit X Y Z)
          else !(t0 :: rest.map (·.2)).any (PTok.hit X Y Z)) := by
  obtain ⟨res, B, hres, _⟩ := parse_pfvList_reg isIn t0 (rest.map (·.2))
  exact ⟨_, mkSingle_pfvList isIn t0 rest hs hres, ⟨isIn, t0, rest, res, hs, hres, rfl⟩,
    pfvListLeaf_means hE isIn t0 rest hs hres⟩

/-- **one-component tokens**: `python_full_version in "3"` is `3.*` (`>=3,<4`): true on 3.0.1, false on 2.11.2 and
4.0.0 — a leaf of the same fragment (`PTok.one`), so every theorem on `PfvLeafL` / `PyLeafLL` covers it -/
example (X Y Z : Nat) (hE : E.get? "python_full_version" = some (Version.relText [X, Y, Z])) :
    ∃ s, mkSingle "python_full_version" ("in" ++ pfvList (.one 3) []) false = .ok s ∧
      PfvListLeaf (.single s) ∧ pfvList (.one 3) [] = "3" ∧ leafEval E (.single s) = decide (X = 3) := by
  obtain ⟨s, h1, h2, h3⟩ := python_full_version_list_built hE true (.one 3) [] (by simp)
  exact ⟨s, h1, h2, by decide, by rw [h3]; simp [PTok.hit]⟩

/-- **The pairing with lists on both variables, no hypothesis.**  `_merge_python_version_single_markers` on a
`python_version` leaf (seven operators or a list) against a `python_full_version` leaf (seven operators or a list
of two- / three-component versions): the pairing structure is generalised (`PairCtxM`) — a merged single marker
other than the converted operand is either a list marker, returned as merged (repo fix d9aa4ee), or a comparison /
`~=` marker whose text is rewritten and parsed again (`mergePythonVersion_soundM`). -/
theorem pairing_with_lists_both {X Y Z : Nat} (hE : EnvPy E X Y Z) :
    PairSound (leafEval E) PvLeafL PfvLeafL := pairSound_pyLL hE

/-- **Intersection and union with lists on both python variables, no unproved hypothesis**: string leaves with the
four operators, `extra`, `python_version` with the seven operators and `in` / `not in` lists of two-component
versions, `python_full_version` with the seven operators and `in` / `not in` lists of two- and three-component
versions, `platform_release` — every fuel, every stack. -/
theorem intersect_union_sound_lists_both {C : String → Prop}
    (hC : ∀ u v, C u → C v → Generic.strIn u v = true ∨ Generic.strIn v u = true)
    {B : List Version} (hpb : ∀ e ∈ B, PyBound e = true)
    {ex : List String} (hX : E.extras = some ex) {X Y Z : Nat} (hE : EnvPy E X Y Z) {P : Nat} {Q : List Nat}
    (hP : E.get? "platform_release" = some (Version.relText (P :: Q))) {a b r : M}
    (ha : M.Good (FullLeafLL C B E) a) (hb : M.Good (FullLeafLL C B E) b) :
    (mIntersect fuel stk a b = .ok r →
      M.Good (FullLeafLL C B E) r ∧ M.validate E r = .ok (holds E a && holds E b)) ∧
    (mUnion fuel stk a b = .ok r →
      M.Good (FullLeafLL C B E) r ∧ M.validate E r = .ok (holds E a || holds E b)) := by
  have S := leafSpec_fullLL hC hpb hX hE hP
  have hev : ∀ l, FullLeafLL C B E l → ∃ b, l.validate E = .ok b := fun l hl => fullLeafLL_evaluable hpb hX hE hP hl
  exact ⟨fun h => by have := intersect_sound_partial S hev ha hb h; exact ⟨this.1, this.2.2⟩,
    fun h => by have := union_sound_partial S hev ha hb h; exact ⟨this.1, this.2.2⟩⟩

/-- `python_full_version not in "3.8 3.9.1"` is false on interpreters 3.8.5 (3.8.* is listed) and 3.9.1, true on
3.9.2 (only 3.9.1 is listed) -/
example (X Y Z : Nat) (hE : E.get? "python_full_version" = some (Version.relText [X, Y, Z])) :
    ∃ s, mkSingle "python_full_version" ("not in" ++ pfvList (.two 3 8) [(" ", .three 3 9 1)]) false = .ok s ∧
      PfvListLeaf (.single s) ∧ pfvList (.two 3 8) [(" ", .three 3 9 1)] = "3.8 3.9.1" ∧
      ((X, Y, Z) = (3, 8, 5) → leafEval E (.single s) = false) ∧
      ((X, Y, Z) = (3, 9, 1) → leafEval E (.single s) = false) ∧
      ((X, Y, Z) = (3, 9, 2) → leafEval E (.single s) = true) := by
  obtain ⟨s, h1, h2, h3⟩ := python_full_version_list_built hE false (.two 3 8) [(" ", .three 3 9 1)]
    (by intro q hq; simp at hq; subst hq; exact ⟨by decide, by decide⟩)
  refine ⟨s, h1, h2, by decide, ?_, ?_, ?_⟩ <;>
  · intro h
    simp only [Prod.mk.injEq] at h
    obtain ⟨rfl, rfl, rfl⟩ := h
    rw [h3]
    decide

/-- **Inversion with lists on both python variables, in the merge domain, no unproved hypothesis**: a list leaf
inverts to the list leaf of the other polarity on the same value (`in` ↔ `not in`), whose meaning is the negation
(`pvListLeaf_means`, `pfvListLeaf_means` — two-component tokens of `python_full_version` lists included, which the
agreement route `lists_ready_to_invert` does not cover); with the seven operators on the python variables and the
quotable string / `extra` leaves, inversion stays in the domain on which intersection and union are proved. -/
theorem invert_sound_lists_both {ex : List String} (hX : E.extras = some ex) {X Y Z : Nat} (hE : EnvPy E X Y Z)
    {a b r : M} :
    (M.Good (FullInvLeafLL E) a → M.Good (FullInvLeafLL E) b → mIntersect fuel stk a b = .ok r →
      M.Good (FullInvLeafLL E) r ∧ M.validate E r = .ok (holds E a && holds E b)) ∧
    (M.Good (FullInvLeafLL E) a → M.Good (FullInvLeafLL E) b → mUnion fuel stk a b = .ok r →
      M.Good (FullInvLeafLL E) r ∧ M.validate E r = .ok (holds E a || holds E b)) ∧
    (M.Good (FullInvReadyLL E) a → a.invert = .ok r →
      M.Good (FullInvLeafLL E) r ∧ M.validate E r = .ok (!holds E a)) := by
  have S := leafSpec_fullInvLL hX hE
  refine ⟨fun ha hb h => ?_, fun ha hb h => ?_, fun ha h => ?_⟩
  · have := intersect_sound_partial S (fun l hl => fullInvLeafLL_evaluable hX hE hl) ha hb h
    exact ⟨this.1, this.2.2⟩
  · have := union_sound_partial S (fun l hl => fullInvLeafLL_evaluable hX hE hl) ha hb h
    exact ⟨this.1, this.2.2⟩
  · have := M.invert_sound_fullLL hX hE ha h
    refine ⟨this.1, ?_⟩
    rw [holds_is_validate E r (M.good_mono (fun l hl => fullInvLeafLL_evaluable hX hE hl) r this.1)]
    exact congrArg _ this.2

/-- **Inversion of `extra` atomic unions with repeated values** (the item formerly listed as unproved): on the
quotable string / `extra` fragment WITHOUT the condition that the extras of an atomic union are pairwise different
(`InvReadyR`), `invert` returns a marker that validates to the negation.  The inverse of
`extra == "a" or extra != "a" or extra == "b"` is the atomic multi marker `extra != "a" and extra == "a" and
extra != "b"`, which repeats the value: it is not a leaf of the merge fragment (an `ExtraMultiConstraint` of that
fragment mentions every value once) but evaluates like one (`xMultiRep_eval`: evaluation never uses that the values
differ); inversion never merges, so the congruence-only De Morgan theorem applies on the widened fragment
`InvLeafR`.  Replayed on the real code (`AtomicMarkerUnion("extra", …).invert()`). -/
theorem invert_sound_repeated_extras {ex : List String} (hX : E.extras = some ex) {a r : M}
    (ha : M.Good (InvReadyR E) a) (h : a.invert = .ok r) :
    M.Good (InvLeafR E) r ∧ M.validate E r = .ok (!holds E a) := by
  have := M.invert_sound_invR hX ha h
  refine ⟨this.1, ?_⟩
  rw [holds_is_validate E r (M.good_mono (fun l hl => invLeafR_evaluable hX hl) r this.1)]
  exact congrArg _ this.2

/-- **Inversion preserves truth on every marker of single markers in C06's agreement domain** — no closure
under merging is needed (inversion never merges), so this covers item classes outside the intersect/union
domain: a marker all of whose leaves are built from items that agree with the PEP 508 reference evaluator
(model value = reference value, leaf coherent, own name/operator/value kept), together with their flipped items,
inverts (`==`↔`!=`, `<`↔`>=`, `<=`↔`>`, `in`↔`not in`; not `~=`) to a marker that validates to the negation.
The reference evaluator negates under the flip (`evalItem_flip`). -/
theorem invert_sound_agreement {a r : M} (ha : M.Good (FlipReady E) a) (h : a.invert = .ok r) :
    M.Good (CohEvalLeaf E) r ∧ M.validate E r = .ok (!holds E a) := by
  have := M.invert_sound_agree ha h
  refine ⟨this.1, ?_⟩
  rw [holds_is_validate E r (M.good_mono (fun l hl => hl.2) r this.1)]
  exact congrArg _ this.2

/-- **Instances: `in` / `not in` lists are ready to be inverted** — on `python_version` (entries `X.Y`), on
`python_full_version` (entries of three or more components), on the canonical string variables (plain tokens
that can stand between double quotes), and the reversed-operand leaves `"v" in name` / `"v" not in name`; in every
environment that defines the variable (as a release number for the version variables). -/
theorem lists_ready_to_invert (isIn : Bool) :
    (∀ (p0 : Nat × Nat) (rest : List (String × (Nat × Nat))), (∀ q ∈ rest, SepRun q.1) → ∀ x' y' : Nat,
      E.get? "python_version" = some (Version.relText [x', y']) →
      ∃ s, mkSingle "python_version" ((if isIn then "in" else "not in") ++ verList2 p0 rest) false = .ok s ∧
        FlipReady E (.single s)) ∧
    (∀ (t0 : VTok) (rest : List (String × VTok)), (∀ q ∈ rest, SepRun q.1) →
      (∀ t ∈ t0 :: rest.map (·.2), 2 ≤ t.2.length) → ∀ (x' : Nat) (r' : List Nat),
      E.get? "python_full_version" = some (Version.relText (x' :: r')) →
      ∃ s, mkSingle "python_full_version" ((if isIn then "in" else "not in") ++ verListN t0 rest) false = .ok s ∧
        FlipReady E (.single s)) ∧
    (∀ (n ev : String), n ∈ plainStringVars → ∀ (t0 : String) (rest : List (String × String)), ListLitOk t0 rest →
      ValOk t0 → (∀ p ∈ rest, ValOk p.2) → E.get? (Spec.Pep508.canonVar n) = some ev →
      ∃ s, mkSingle n ((if isIn then "in" else "not in") ++ listLit t0 rest) false = .ok s ∧
        FlipReady E (.single s)) ∧
    (∀ (n v ev : String), n ∈ plainStringVars → PlainTok v → ValOk v →
      E.get? (Spec.Pep508.canonVar n) = some ev →
      ∃ s, mkSingle n (itemConstraintString (if isIn then "in" else "not in") v true) true = .ok s ∧
        FlipReady E (.single s)) :=
  ⟨fun p0 rest hs x' y' hev => flipReady_pv_list E isIn p0 rest hs x' y' hev,
   fun t0 rest hs h3 x' r' hev => flipReady_pfv_list E isIn t0 rest hs h3 x' r' hev,
   fun n ev hn t0 rest h h0 hr hev => flipReady_str_list E isIn n ev hn t0 rest h h0 hr hev,
   fun n v ev hn hv hq hev => flipReady_rev E isIn n v ev hn hv hq hev⟩

/-- `python_version in "3.8 3.9"` is a leaf ready to be inverted in an environment with `python_version = 3.9` -/
example : ∃ s, mkSingle "python_version" ("in" ++ verList2 (3, 8) [(" ", (3, 9))]) false = .ok s ∧
    FlipReady exEnvPv (.single s) ∧ verList2 (3, 8) [(" ", (3, 9))] = "3.8 3.9" := by
  obtain ⟨s, h1, h2⟩ := flipReady_pv_list exEnvPv true (3, 8) [(" ", (3, 9))]
    (by intro q hq; simp at hq; subst hq; exact ⟨by decide, by decide⟩) 3 9 (by decide)
  exact ⟨s, h1, h2, by decide⟩

/-- **Consequences on the full comparison-operator domain**: a result reported empty holds nowhere, a result
reported universal holds everywhere — no unproved hypothesis. -/
theorem empty_any_full {ex : List String} (hX : E.extras = some ex) {X Y Z : Nat} (hE : EnvPy E X Y Z)
    {a b r : M} (ha : M.Good (FullLeaf E) a) (hb : M.Good (FullLeaf E) b) :
    (mIntersect fuel stk a b = .ok r → r.isEmpty = true → (holds E a && holds E b) = false) ∧
    (mUnion fuel stk a b = .ok r → r.isAny = true → (holds E a || holds E b) = true) :=
  ⟨fun h he => empty_never_true_partial (leafSpec_full hX hE (pairSound_py hE)) ha hb h he,
   fun h he => any_always_true_partial (leafSpec_full hX hE (pairSound_py hE)) ha hb h he⟩

/-- the leaf facts for EVERY leaf the constructor builds, as one visible statement.

**Proved above (no unproved hypothesis)**, in an environment of a final-release interpreter `X.Y.Z` that defines
the extras (and, where used, a release-number `platform_release`):
* string variables (canonical names; alias spellings give the same leaves): `==`, `!=`, `"v" in name`,
  `"v" not in name`, plain values — `not in` values pairwise comparable by containment;
* `extra == / !=`, plain values;
* `python_version` with `== != < <= > >= ~=` and a literal `X.Y`, and `in` / `not in` lists of `X.Y` tokens;
* `python_full_version` with the seven operators and a literal `X.Y.Z` (`X` / `X.Y` are padded by the
  constructor to `X.0.0` / `X.Y.0` and land here), and `in` / `not in` lists of `X`, `X.Y` and `X.Y.Z` tokens (an `X`
  token lists `X.*`, an `X.Y` token `X.Y.*`: the deliberate extension `pfv-list-two-component`; the one-component
  `python_version ==` unsoundness of the conversion is NOT inherited — a `python_full_version` list is never
  converted, it is merged by the same-name merge on its own constraint), including the pairing with
  `python_version` for the seven operators and for the lists on either side;
* `platform_release` with the seven operators and a release number of one to three components.

**Outside the domain — the boundary, one witness each** (replayed on the real code; F = the property is false
there, U = unproved, no counterexample known, E = an exception instead of a marker):
1. F `not in` ∪ `not in` with incomparable values: `"tegra" not in platform_release or "rpi" not in platform_release`
   is the universal marker (`notin_union_boundary`; known finding `notin-union-notin-any`).
2. F `python_version` with a literal of three or more components:
   `(python_full_version != "3.8.1").intersect(python_version < "3.8.1")` is `python_version < "3.8.1"`, true on
   3.8.1 where the first operand is false (the conversion reads the literal as a full version).
3. F `python_version` with a one-component literal:
   `(python_version == "3").union(python_full_version != "3.8.0")` is the universal marker, both operands false on
   3.8.0.
4. E pre-release literal of two components on `python_full_version`:
   `(python_full_version == "3.8b1").intersect(python_version != "3.9")` raises `InvalidMarkerError`
   (`3.8b1` padded to `3.8b1.0`).
5. F pre-release interpreter (`python_full_version = "3.9.0rc1"`, outside `EnvPy`):
   `(python_full_version < "3.9.0").invert()` is `python_full_version >= "3.9.0"`, both false there (PEP 440's
   exclusive `<`); `(python_version > "3.8").intersect(python_full_version == "3.9.0rc1")` is empty, both true.
6. U pre-release / post / dev / local literals with three components, four-component literals on
   `python_full_version`, wildcard literals `== "3.8.*"` / `!= "3.8.*"` (the lists are their sugar), `===`.
7. U lists on `python_full_version` with a token of four or more components, lists on `python_version` with a
   token that is not `X.Y`, `in` / `not in` lists on string variables
   as single leaves (inversion is proved: `lists_ready_to_invert`).
8. U reversed operands on the version variables (`"3.8" <= python_version`), string values with white space,
   quotes, `|`, `,` or a leading `=` (known finding `generic-literal-whitespace`), `extra` with `in`/`not in`
   (rejected by the constructor), a `platform_release` that is not a version (`unmodelled`).  (Inversion of an
   `extra` atomic union with repeated values is proved: `invert_sound_repeated_extras`.)
The statement as a whole is false (items 1–3, 5). -/
def C07_leaf_facts_full_statement : Prop :=
  ∀ E : Env, ∃ G : Leaf → Prop, (∀ l, ParsedLeaf l → (∃ b, l.validate E = .ok b) → G l) ∧
    LeafSpec (leafEval E) G ∧ LeafInvertSound (leafEval E) G

/-! ### What is false of the code (the model mirrors it): the known finding `notin-union-notin-any` -/

def sTegra : Single := ⟨"platform_release", "not in", "tegra", true, .gen (.s (.atom ⟨"tegra", .nc, false⟩))⟩
def sRpi : Single := ⟨"platform_release", "not in", "rpi", true, .gen (.s (.atom ⟨"rpi", .nc, false⟩))⟩
def envTegraRpi : Env := ⟨[("platform_release", "tegra-rpi")], some []⟩

/-- `"tegra" not in platform_release or "rpi" not in platform_release` becomes the universal marker
(`Constraint.union` treats two `not in` atoms like two `!=` atoms), although both operands are false
for a release containing both words.  Same witness as the replayed known finding. -/
theorem union_notin_notin_counterexample :
    mkSingle "platform_release" "\"tegra\" not in" true = .ok sTegra ∧
    mkSingle "platform_release" "\"rpi\" not in" true = .ok sRpi ∧
    mUnion 1 [] (.leaf (.single sTegra)) (.leaf (.single sRpi)) = .ok .any ∧
    M.validate envTegraRpi (.leaf (.single sTegra)) = .ok false ∧
    M.validate envTegraRpi (.leaf (.single sRpi)) = .ok false ∧
    M.validate envTegraRpi .any = .ok true := by
  have e : (Generic.GC.s (.atom ⟨"tegra", .nc, false⟩)).unionWith (.s (.atom ⟨"rpi", .nc, false⟩)) =
      .ok (.s .any) := rfl
  refine ⟨rfl, rfl, ?_, rfl, rfl, rfl⟩
  marker_eval [sTegra, sRpi, e]

/-- hence the property at full strength does not hold (of the model, and of the code it mirrors) -/
theorem C07_full_statement_false : ¬ C07_full_statement := by
  intro h
  obtain ⟨h1, h2, h3, h4, h5, h6⟩ := union_notin_notin_counterexample
  have ev1 : M.Evaluable envTegraRpi (.leaf (.single sTegra)) := by
    simp only [M.Evaluable, M.good_leaf]; exact ⟨false, h4⟩
  have ev2 : M.Evaluable envTegraRpi (.leaf (.single sRpi)) := by
    simp only [M.Evaluable, M.good_leaf]; exact ⟨false, h5⟩
  have := (h envTegraRpi (.leaf (.single sTegra)) (.leaf (.single sRpi))
    (by simp only [M.good_leaf]; exact ⟨_, _, _, _, h1, rfl⟩)
    (by simp only [M.good_leaf]; exact ⟨_, _, _, _, h2, rfl⟩) ev1 ev2).2.1 1 [] .any h3
  rw [h6] at this
  have ha : holds envTegraRpi (.leaf (.single sTegra)) = false := by
    have := holds_is_validate _ _ ev1; rw [h4] at this; exact (Except.ok.inj this).symm
  have hb : holds envTegraRpi (.leaf (.single sRpi)) = false := by
    have := holds_is_validate _ _ ev2; rw [h5] at this; exact (Except.ok.inj this).symm
  rw [ha, hb] at this
  exact absurd (Except.ok.inj this) (by decide)

/-- …and so is the statement that the leaf facts hold for all parser-built leaves -/
theorem C07_leaf_facts_full_statement_false : ¬ C07_leaf_facts_full_statement := by
  intro h
  obtain ⟨G, hG, S, _⟩ := h envTegraRpi
  obtain ⟨h1, h2, _, h4, h5, _⟩ := union_notin_notin_counterexample
  have g1 : G (.single sTegra) := hG _ ⟨_, _, _, _, h1, rfl⟩ ⟨false, h4⟩
  have g2 : G (.single sRpi) := hG _ ⟨_, _, _, _, h2, rfl⟩ ⟨false, h5⟩
  have e : (Generic.GC.s (.atom ⟨"tegra", .nc, false⟩)).unionWith (.s (.atom ⟨"rpi", .nc, false⟩)) =
      .ok (.s .any) := rfl
  have hm : mergeLeaves (.single sTegra) (.single sRpi) false = .ok (some .any) := by
    marker_eval [sTegra, sRpi, e]
  have := (S.merge _ _ false .any g1 g2 hm).2
  have e1 : leafEval envTegraRpi (.single sTegra) = false := rfl
  have e2 : leafEval envTegraRpi (.single sRpi) = false := rfl
  rw [e1, e2] at this
  simp at this

end Poetry.C07
