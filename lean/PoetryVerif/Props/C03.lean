import PoetryVerif.Model.Version
import PoetryVerif.Spec.Pep440
namespace Poetry.C03
theorem placeholder : True := trivial
end Poetry.C03
