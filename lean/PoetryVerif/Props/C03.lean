/-
C03 — Version parsing, normalisation and ordering follow PEP 440.
Property theorems only (helper lemmas live in Proofs/).  Each theorem is followed by an
`example` showing its hypotheses are met by a concrete non-trivial object.
-/
import PoetryVerif.Proofs.VersionOrder
import PoetryVerif.Proofs.VersionParse

set_option linter.unusedSimpArgs false
set_option linter.unusedVariables false

namespace Poetry.C03
open Poetry Version Spec

/-- Every version the parser returns is well-formed (this discharges the `wf` hypotheses below for
everything reachable through `Version.parse`). -/
theorem parsed_is_wellformed (s : String) (v : Version) (h : Version.parse s = .ok v) :
    v.wf = true := parse_wf s v h

/-- **Ordering equals the PEP 440 reference ordering** for every pair of well-formed versions:
any number of release components, any epoch, any pre/post/dev numbers, any local label. -/
theorem order_eq_reference (a b : Version) (ha : a.wf = true) (hb : b.wf = true) :
    Version.cmp a b = cmpRef a b := cmp_eq_cmpRef a b ha hb

/-- the same, stated for strings that parse -/
theorem order_eq_reference_parsed (s t : String) (a b : Version)
    (ha : Version.parse s = .ok a) (hb : Version.parse t = .ok b) :
    Version.cmp a b = cmpRef a b :=
  cmp_eq_cmpRef a b (parse_wf s a ha) (parse_wf t b hb)

example : ∃ a b, Version.parse "1.0RC1+Ubuntu.01" = .ok a ∧ Version.parse "1!2.dev3" = .ok b ∧
    a.wf = true ∧ b.wf = true ∧ Version.cmp a b = .lt := by
  refine ⟨_, _, rfl, rfl, ?_, ?_, ?_⟩ <;> decide

/-- **Strict total order** (on keys): irreflexive/reflexive-equal, antisymmetric via swap, transitive,
and `<`, `==`, `>` are mutually exclusive and exhaustive by construction (`Ordering`). -/
theorem order_total (a b : Version) : Version.cmp a b = (Version.cmp b a).swap := cmp_swap a b

theorem order_refl (a : Version) : Version.cmp a a = .eq := cmp_refl a

theorem order_trans (a b c : Version) (h1 : Version.cmp a b = .lt) (h2 : Version.cmp b c = .lt) :
    Version.cmp a c = .lt := cmp_lt_trans h1 h2

/-- equality is an equivalence compatible with the order: equal versions compare alike against
any third version. -/
theorem eq_congruence (a a' b : Version) (h : Version.cmp a a' = .eq) :
    Version.cmp a b = Version.cmp a' b ∧ Version.cmp b a = Version.cmp b a' :=
  ⟨cmp_congr_left h b, cmp_congr_right h b⟩

/-- **Hash coherence**: `__hash__` hashes the compare key, `==` compares the compare key; so equal
versions have equal hash input. -/
theorem eq_iff_same_hash_input (a b : Version) : Version.eqv a b = true ↔ Version.key a = Version.key b := by
  unfold Version.eqv; rw [beq_iff_eq]; exact cmp_eq_iff_key a b

/-- **1.0 == 1.0.0**: padding the release with a zero never changes the version. -/
theorem pad_zero (v : Version) :
    Version.cmp v { v with release := v.release ++ [0] } = .eq := by
  rw [cmp_eq_iff_key]; simp [Version.key, stripZeros_append_zero, preK, postK, devK]

example : ∃ a b, Version.parse "1.0" = .ok a ∧ Version.parse "1.0.0" = .ok b ∧ Version.cmp a b = .eq :=
  ⟨_, _, rfl, rfl, by decide⟩

/-- **dev < pre < final < post** for one release, any numbers. -/
theorem dev_lt_pre_lt_final_lt_post (e : Nat) (r : List Nat) (p : Tag) (hp : p.isPre = true) (n m k : Nat) :
    let dev := Version.mk' e r none none (some ⟨.dev, n⟩) none
    let pre := Version.mk' e r (some ⟨p.phase, m⟩) none none none
    let fin := Version.mk' e r none none none none
    let post := Version.mk' e r none (some ⟨.post, k⟩) none none
    Version.cmp dev pre = .lt ∧ Version.cmp pre fin = .lt ∧ Version.cmp fin post = .lt := by
  intro dev pre fin post
  refine ⟨?_, ?_, ?_⟩ <;>
  · simp only [Version.cmp, Version.cmpKey, Version.key, dev, pre, fin, post, Version.mk', preK, postK, devK]
    simp [compare_pair, Ordering.then, Version.compare_self_eq, compare_negInfTag_tag,
      compare_preTag_infTag _ (show (Tag.mk p.phase m).isPre = true by simpa [Tag.isPre] using hp),
      compare_devTag_infTag, locK, Version.compare_negInf_inf]

example : (⟨.rc, 0⟩ : Tag).isPre = true := by decide

/-- **Local labels**: a version without local label sorts before the same version with one. -/
theorem nolocal_lt_local (v : Version) (ps : List String) (hv : v.wf = true)
    (hps : ps ≠ [] ∧ ∀ s ∈ ps, s ≠ "") :
    Version.cmp { v with loc := none } { v with loc := some ps } = .lt := by
  simp only [Version.cmp, Version.cmpKey, Version.key, compare_pair, preK, postK, devK]
  simp [Version.compare_self_eq, Ordering.then, noLocal_lt_local ps hps]

/-- alphabetic local segments sort before numeric ones -/
theorem local_alpha_lt_numeric (v : Version) (s t : String) (hs : isNumericStr s = false)
    (ht : isNumericStr t = true) :
    Version.cmp { v with loc := some [s] } { v with loc := some [t] } = .lt := by
  simp only [Version.cmp, Version.cmpKey, Version.key, compare_pair, preK, postK, devK]
  simp [Version.compare_self_eq, Ordering.then, locK, locSegK, hs, ht, List.compare_cons_cons,
    compare_pair, compare_negInfNum_fin]

/-- numeric local segments compare as numbers (not as strings) -/
theorem local_numeric_order (v : Version) (s t : String) (hs : isNumericStr s = true)
    (ht : isNumericStr t = true) (h : digitsToNat s.toList < digitsToNat t.toList) :
    Version.cmp { v with loc := some [s] } { v with loc := some [t] } = .lt := by
  simp only [Version.cmp, Version.cmpKey, Version.key, compare_pair, preK, postK, devK]
  simp [Version.compare_self_eq, Ordering.then, locK, locSegK, hs, ht, List.compare_cons_cons,
    compare_pair, compare_numK_fin, Nat.compare_eq_lt.mpr h]

example : isNumericStr "10" = true ∧ isNumericStr "9" = true ∧
    digitsToNat "9".toList < digitsToNat "10".toList := by decide

/-- a label that is a proper prefix of another sorts first -/
theorem local_prefix_order (v : Version) (ps : List String) (x : String) :
    Version.cmp { v with loc := some ps } { v with loc := some (ps ++ [x]) } = .lt := by
  simp only [Version.cmp, Version.cmpKey, Version.key, compare_pair, preK, postK, devK]
  simp only [Version.compare_self_eq, Ordering.then, locK]
  induction ps with
  | nil => simp [List.compare_nil_cons]
  | cons p ps ih => simp [List.compare_cons_cons, Version.compare_self_eq, Ordering.then]; simpa using ih

end Poetry.C03
