/-
C14 — Core metadata (METADATA / PKG-INFO) is well-formed and faithful to every declared field.
Property theorems only; helper lemmas live in Proofs/Meta*.lean.  Model: Model/Meta.lean
(`get_metadata_content`, `Metadata.from_package`, `all_classifiers`, both table styles);
reference parser: Spec/Rfc822.lean (CPython `email.parser`, compat32).
-/
import PoetryVerif.Proofs.Meta
import PoetryVerif.Proofs.MetaClassifiers
import PoetryVerif.Proofs.MetaStyles
import PoetryVerif.Proofs.MetaIff
import PoetryVerif.Proofs.MetaStylesRange
import PoetryVerif.Proofs.MetaStylesUnion
import PoetryVerif.Proofs.MetaValidateExt
import PoetryVerif.Proofs.MetaPrintersPy
import PoetryVerif.Proofs.MetaPrinters2
import PoetryVerif.Proofs.MetaHistory

set_option linter.unusedSimpArgs false
set_option linter.unusedVariables false

namespace Poetry.C14
open Poetry Poetry.Meta Poetry.Spec Poetry.Spec.Rfc822

/-- The full property, rendering/parsing part: for EVERY metadata record, the rendered document parses into
exactly the declared fields and the description.  It is FALSE of model and code without a guard on line
breaks (`full_statement_fails_without_guard`); `render_parse` proves it under the guard validation has to
enforce, and the licence — the one multi-line header — needs no guard at all (`license_never_leaves_its_header`). -/
def C14_full_statement : Prop :=
  ∀ m : Meta.Meta, Rfc822.parse (render m) =
    { unixFrom := none, headers := expectedFields m, body := bodyOf (m.description.map String.toList), defects := [] }

/-- **Rendered metadata parses into exactly the declared fields.**  For all field values (arbitrary strings and
lists, any licence text, any description — header-like lines, `From ` lines, blank lines, anything): if no
single-line field contains `\n` or `\r`, then `email.parser` sees no envelope line, no defect, exactly the
written headers in order (each value without its leading blanks/tabs, which RFC 822 unfolding drops), and
the description verbatim followed by the final newline. -/
theorem render_parse (m : Meta.Meta) (hm : NoLineBreakInSingleLineFields m) :
    Rfc822.parse (render m) =
      { unixFrom := none, headers := expectedFields m,
        body := bodyOf (m.description.map String.toList), defects := [] } := by
  unfold Rfc822.parse render
  rw [String.toList_ofList]
  exact render_parse_chars m hm

/-- what `expectedFields` is, spelled out for the header order of the current source -/
theorem expectedFields_explicit (m : Meta.Meta) :
    expectedFields m =
      ([("Metadata-Version".toList, "2.3".toList), ("Name".toList, m.name.toList), ("Version".toList, m.version.toList),
        ("Summary".toList, m.summary.toList)] ++
       fieldEntries m "License" ++ fieldEntries m "Keywords" ++ fieldEntries m "Author" ++
       fieldEntries m "Author-email" ++ fieldEntries m "Maintainer" ++ fieldEntries m "Maintainer-email" ++
       fieldEntries m "Requires-Python" ++ fieldEntries m "Classifier" ++ fieldEntries m "Provides-Extra" ++
       fieldEntries m "Requires-Dist" ++ fieldEntries m "Project-URL" ++
       fieldEntries m "Description-Content-Type").map (fun e => (e.1, lstripWS e.2)) := by
  simp [expectedFields, allEntries, baseEntries, optionalEntries, Gen.metadataHeaderOrder]

/-- a concrete record meets the guard and has every kind of field -/
def demo : Meta.Meta :=
  { name := "demo", version := "1.0", summary := "  A: <b>, c ", license := some "MIT\n\nRequires-Dist: evil\r\n x",
    keywords := "a,b", author := some "Zoë", authorEmail := some "z@example.org", maintainer := none,
    maintainerEmail := none, requiresPython := some ">=3.8", classifiers := ["Topic :: X"], providesExtra := ["b", "a"],
    requiresDist := ["foo (>=1)"], projectUrls := ["Homepage, https://e.org/"],
    descriptionContentType := some "text/markdown", description := some "From me\nName: other\n\n: x" }

example : NoLineBreakInSingleLineFields demo := guard_of_guardB demo (by decide)

/-- **The licence field never leaves its header**, whatever text it holds (no guard): after
`textwrap.indent(…, lambda line: True).strip()` every line end is followed by a blank, the value does not
end in a line end and does not start with a blank — so it is one header with continuation lines. -/
theorem license_never_leaves_its_header (l : String) :
    adjOk (licenseValue l.toList) = true ∧ noTrailNL (licenseValue l.toList) ∧
      lstripWS (licenseValue l.toList) = licenseValue l.toList :=
  licenseValue_ok l.toList

/-- **Injection, constructively** (`render_injection`): for every record satisfying the guard, every header
name `n` and single-line value `v`, putting a line break followed by `n: v` at the end of the Summary field
makes the parser see the additional header `(n, v)` right after Summary — all other fields unchanged.
(The same computation applies to every other single-line field; this is D7 for `[project].description`.) -/
theorem render_injection (m : Meta.Meta) (hm : NoLineBreakInSingleLineFields m) (n v : List Char)
    (hn : NameOk n) (hv : NoNL v) :
    (Rfc822.parse (render { m with summary := m.summary ++ "\n" ++ String.ofList n ++ ": " ++ String.ofList v })).headers =
      [("Metadata-Version".toList, "2.3".toList), ("Name".toList, lstripWS m.name.toList),
       ("Version".toList, lstripWS m.version.toList), ("Summary".toList, lstripWS m.summary.toList), (n, lstripWS v)] ++
      (optionalEntries m).map (fun e => (e.1, lstripWS e.2)) := by
  unfold Rfc822.parse render
  rw [String.toList_ofList, renderChars_eq]
  have hopt : optionalEntries { m with summary := m.summary ++ "\n" ++ String.ofList n ++ ": " ++ String.ofList v } =
      optionalEntries m := rfl
  -- the text written for the poisoned Summary is the text of two headers
  have htext : entriesText (allEntries { m with summary := m.summary ++ "\n" ++ String.ofList n ++ ": " ++ String.ofList v }) =
      entriesText ([("Metadata-Version".toList, "2.3".toList), ("Name".toList, m.name.toList),
        ("Version".toList, m.version.toList), ("Summary".toList, m.summary.toList), (n, v)] ++ optionalEntries m) := by
    simp only [allEntries, hopt, baseEntries, entriesText, entryText, String.toList_append, String.toList_ofList]
    have e1 : "\n".toList = ['\n'] := by decide
    have e2 : ": ".toList = [':', ' '] := by decide
    simp [e1, e2, entryText]
  rw [htext]
  have hok : ∀ e ∈ [("Metadata-Version".toList, "2.3".toList), ("Name".toList, m.name.toList),
      ("Version".toList, m.version.toList), ("Summary".toList, m.summary.toList), (n, v)] ++ optionalEntries m,
      EntryOk e := by
    intro e he
    have hall := allEntries_ok m hm
    simp only [List.mem_append, List.mem_cons, List.not_mem_nil, or_false] at he
    rcases he with (rfl | rfl | rfl | rfl | rfl) | he
    · exact hall _ (by simp [allEntries, baseEntries])
    · exact hall _ (by simp [allEntries, baseEntries])
    · exact hall _ (by simp [allEntries, baseEntries])
    · exact hall _ (by simp [allEntries, baseEntries])
    · exact ⟨hn, adjOk_of_noNL _ hv, noTrailNL_of_noNL _ hv⟩
    · exact hall _ (by simp [allEntries, he])
  rw [parse_entries _ _ hok]
  have e23 : List.dropWhile isWS "2.3".toList = "2.3".toList := by decide
  have emv : List.dropWhile isWS "Metadata-Version".toList = "Metadata-Version".toList := by decide
  simp [lstripWS]
  decide

example : NameOk "Requires-Dist".toList ∧ NoNL "evil-package".toList := by decide

/-- `demo` with `"\nRequires-Dist: evil-package"` appended to its summary -/
def poisoned : Meta.Meta :=
  { demo with summary := demo.summary ++ "\n" ++ String.ofList "Requires-Dist".toList ++ ": " ++
                          String.ofList "evil-package".toList }

/-- hence the unguarded statement is false: the poisoned record parses into one header more than it declares -/
theorem full_statement_fails_without_guard : ¬ C14_full_statement := by
  intro h
  have hm : NoLineBreakInSingleLineFields demo := guard_of_guardB demo (by decide)
  have hinj := render_injection demo hm "Requires-Dist".toList "evil-package".toList (by decide) (by decide)
  have hfull := h poisoned
  have hp : poisoned = { demo with summary := demo.summary ++ "\n" ++ String.ofList "Requires-Dist".toList ++ ": " ++
                          String.ofList "evil-package".toList } := rfl
  rw [← hp, hfull] at hinj
  have hlen := congrArg List.length hinj
  have hopt : optionalEntries poisoned = optionalEntries demo := rfl
  simp [expectedFields, allEntries, baseEntries, hopt] at hlen

/-! ### the exact condition (`render_injection_iff`)

`NoLineBreakInSingleLineFields` is sufficient but not necessary: a line end *followed by a blank or tab* inside a
single-line value is an RFC 822 folded header, and the parser gives the value back unchanged (`folded_value_is_harmless`).
The exact condition is `ValueOk`: every line end in the value is followed by a blank/tab (`\r` may be followed by
`\n`), and the value does not END in a line end.  A trailing line end is the dangerous silent case: nothing is
injected, but the blank line it leaves ends the header block, so every later header becomes part of the body. -/

/-- **whatever text it is given, the reference parser only returns fold-safe header values** -/
theorem parser_values_fold_safe (s : String) : ∀ kv ∈ (Rfc822.parse s).headers, ValueOk kv.2 :=
  parse_values_ok s.toList

/-- **`render_injection_iff`**: the rendered document parses into exactly the declared headers IF AND ONLY IF every
single-line field value is fold-safe.  For all records (arbitrary strings, lists, licence, description). -/
theorem render_injection_iff (m : Meta.Meta) :
    (Rfc822.parse (render m)).headers = expectedFields m ↔ ∀ v ∈ singleLineFieldValues m, ValueOk v := by
  unfold Rfc822.parse render
  rw [String.toList_ofList]
  exact render_parse_iff_chars m

/-- the same for the whole message: envelope line, headers, body, defects -/
theorem render_parse_iff (m : Meta.Meta) :
    Rfc822.parse (render m) =
        { unixFrom := none, headers := expectedFields m, body := bodyOf (m.description.map String.toList), defects := [] } ↔
      ∀ v ∈ singleLineFieldValues m, ValueOk v := by
  constructor
  · intro h
    exact (render_injection_iff m).1 (by rw [h])
  · intro h
    unfold Rfc822.parse render
    rw [String.toList_ofList]
    exact render_parse_full_of_valueOk m h

/-- **any line end that is not folded changes what is parsed**: if some single-line field contains a line end
followed by anything but a blank/tab (`\r\n` counting as one line end), or ends in a line end — i.e. is not
`ValueOk` — then the parsed header list is NOT the declared one (a header is added, cut or lost). -/
theorem unfolded_line_break_changes_headers (m : Meta.Meta) (v : List Char) (hv : v ∈ singleLineFieldValues m)
    (hbad : ¬ ValueOk v) : (Rfc822.parse (render m)).headers ≠ expectedFields m :=
  fun h => hbad ((render_injection_iff m).1 h v hv)

/-- `NoLineBreakInSingleLineFields` is the special case "no line end at all" -/
theorem guard_is_noNL (m : Meta.Meta) :
    NoLineBreakInSingleLineFields m ↔ ∀ v ∈ singleLineFieldValues m, NoNL v := guard_iff_noNL m

/-- the four shapes, decided: a trailing `\n`, a trailing `\r`, a trailing `\r\n`, a line end followed by text, and a
lone `\r` followed by text are NOT fold-safe; a line end followed by a blank (also `\r\n` + blank, `\r` + tab) is -/
example : ¬ ValueOk "a\n".toList ∧ ¬ ValueOk "a\r".toList ∧ ¬ ValueOk "a\r\n".toList ∧ ¬ ValueOk "a\nb: c".toList ∧
    ¬ ValueOk "a\rb".toList ∧ ¬ ValueOk "a\n\n b".toList ∧
    ValueOk "a\n b".toList ∧ ValueOk "a\r\n\tb".toList ∧ ValueOk "a\r b".toList ∧ ValueOk "".toList := by decide

/-- a folded line break is harmless (why the guard is not necessary): the record parses into its declared fields -/
def foldedDemo : Meta.Meta := { demo with summary := "first line\n  second line", keywords := "a,\r\n\tb" }

theorem folded_value_is_harmless :
    (Rfc822.parse (render foldedDemo)).headers = expectedFields foldedDemo ∧ ¬ NoLineBreakInSingleLineFields foldedDemo := by
  refine ⟨(render_injection_iff foldedDemo).2 (by decide), ?_⟩
  intro h
  exact absurd (h.summary '\n' (by decide)) (by decide)

/-- a trailing line break is not: e.g. `requires-python = ">=3.8\n"` -/
def trailingDemo : Meta.Meta := { demo with requiresPython := some ">=3.8\n" }

theorem trailing_line_break_changes_headers :
    (Rfc822.parse (render trailingDemo)).headers ≠ expectedFields trailingDemo :=
  unfolded_line_break_changes_headers trailingDemo ">=3.8\n".toList (by decide) (by decide)

/-! ### validation ⇒ guard ⇒ `render_parse`

`validateSingleLine` is the model of `Factory._validate_single_line_fields` applied to both tables (key lists and
the two forbidden characters regenerated from source; compared with the real method by the `validator` stream).
`Trusted` lists what that validator does NOT look at, i.e. the single-line headers that are safe for another reason:

* Version — `Version.to_string()` of the parsed version (C03: digits, dots, phase letters, `!`, `+`, alphanumeric local
  segments);
* Requires-Python — `[project].requires-python` is written VERBATIM and is not validated unless the source lists it
  (`validated_requires_python`; on a tree without that key `requires-python = ">=3.8\n"` is the finding
  `requires-python-trailing-newline`); the legacy form is the output of `format_python_constraint` (C15 printer);
* Provides-Extra — `canonicalize_name(extra)`: lower-casing and `[-_.]+ → -` keep a line break, so the names must be
  validated (`validated_extra_and_dependency_sources`; finding `extra-name-trailing-newline` otherwise);
* Requires-Dist — `Dependency.to_pep_508()`: for `[project]` dependencies the text is re-printed from the parsed
  PEP 508 requirement (C10); for `[tool.poetry.dependencies]` the name, url, branch, tag, rev, subdirectory and extras
  are printed verbatim and must be validated (finding `dependency-source-line-break` otherwise); paths are
  percent-encoded; version/python/platform/markers are parsed and re-printed (C13/C15);
* Project-URL from `[tool.poetry]` homepage / repository / documentation — schema `format: uri` (`^\w+:(\/?\/?)[^\s]+\Z`);
* the licence classifier name of an SPDX licence — the SPDX table;
* License (multi-line by design: `license_never_leaves_its_header`), derived Python classifiers and the content type
  derived from the readme suffix (constants of the source, proved single-line by `decide` inside `validated_guard`). -/

/-- **validation ⇒ guard**: if `_validate_single_line_fields` reports nothing for `[project]` and `[tool.poetry]`, then the
`Metadata` built from the configured package satisfies `NoLineBreakInSingleLineFields`, given `Trusted`. -/
theorem validation_implies_guard (proj : ProjectT) (tool : ToolT) (spdx : String → Option License) (stored : Option String)
    (extras rd texts : List String) (fp : String) (m : Meta.Meta)
    (hv : validateSingleLine proj tool = [])
    (hm : (configure proj tool spdx stored extras rd).toMeta texts fp = .ok m)
    (ht : Trusted proj tool spdx extras rd fp m) :
    NoLineBreakInSingleLineFields m :=
  validated_guard_full proj tool spdx stored extras rd texts fp m hv hm ht

/-- **the loop closed**: a validated pyproject (either table style, or both) renders to a document that parses into
exactly its declared fields and its readme -/
theorem validated_render_parse (proj : ProjectT) (tool : ToolT) (spdx : String → Option License) (stored : Option String)
    (extras rd texts : List String) (fp : String) (m : Meta.Meta)
    (hv : validateSingleLine proj tool = [])
    (hm : (configure proj tool spdx stored extras rd).toMeta texts fp = .ok m)
    (ht : Trusted proj tool spdx extras rd fp m) :
    Rfc822.parse (render m) =
      { unixFrom := none, headers := expectedFields m, body := bodyOf (m.description.map String.toList), defects := [] } :=
  render_parse m (validation_implies_guard proj tool spdx stored extras rd texts fp m hv hm ht)

/-! #### printers only

Since the source validates `requires-python`, the keys of both extras tables and the verbatim parts of
`[tool.poetry.dependencies]` (`Gen.singleLineScalarKeys / NameKeys / DependencyKeys`, regenerated every run), `Trusted`
shrinks to `Printers`: each field is a character-level fact "no CR, no LF in the output" about a printer or table owned
by another property —

| header | printer / table | owner | status here |
|---|---|---|---|
| Version | `Version.to_string()` of the parsed version | C03/C15 | PROVED: `version_text_single_line` (digits, a-z, `.`, `!`, `+`) |
| Requires-Python (legacy) | `format_python_constraint` | C02/C15 | union branch PROVED (`format_python_union_single_line`); range/version branch = `str(constraint)`, assumed (`Printers.formatPython`) |
| Provides-Extra | `canonicalize_name(key)` | C02 | `canonicalize_name` modelled and PROVED line-preserving (`canonicalize_name_single_line`); that every extra IS the canonical form of a validated key is `Printers.extrasCanonical` |
| Requires-Dist | `Dependency.to_pep_508()` | C10 (markers C13, constraints C15) | assumed, conditional on the validated verbatim parts (`Printers.requiresDist`) |
| Project-URL (legacy homepage/repository/documentation) | schema `format: uri` | fastjsonschema (trusted) | assumed (`Printers.toolLinks`) |
| Classifier (licence) | SPDX table names | SPDX data (trusted) | assumed (`Printers.spdxNames`) | -/

/-- **validation ⇒ guard, printers only** -/
theorem validation_implies_guard_printers (proj : ProjectT) (tool : ToolT) (spdx : String → Option License)
    (stored : Option String) (extras rd texts : List String) (fp : String) (m : Meta.Meta)
    (hv : validateSingleLine proj tool = [])
    (hm : (configure proj tool spdx stored extras rd).toMeta texts fp = .ok m)
    (hp : Printers proj tool spdx extras rd fp) :
    NoLineBreakInSingleLineFields m :=
  validated_guard_printers proj tool spdx stored extras rd texts fp m hv hm hp

/-- **the loop closed, printers only**: validated pyproject ⇒ METADATA parses into exactly the declared fields -/
theorem validated_render_parse_printers (proj : ProjectT) (tool : ToolT) (spdx : String → Option License)
    (stored : Option String) (extras rd texts : List String) (fp : String) (m : Meta.Meta)
    (hv : validateSingleLine proj tool = [])
    (hm : (configure proj tool spdx stored extras rd).toMeta texts fp = .ok m)
    (hp : Printers proj tool spdx extras rd fp) :
    Rfc822.parse (render m) =
      { unixFrom := none, headers := expectedFields m, body := bodyOf (m.description.map String.toList), defects := [] } :=
  render_parse m (validation_implies_guard_printers proj tool spdx stored extras rd texts fp m hv hm hp)

/-! #### no printer trusted (`Objects`)

The printers themselves are now PROVED line-free at the model level; `Printers` follows from `Objects`
(`printers_of_objects`), which only says that the OBJECTS handed to the printers hold line-free strings:

| header | printer | theorem | what `Objects` still assumes |
|---|---|---|---|
| Requires-Dist | `Dependency.to_pep_508()` (`Dep.toPep508`, C10 model) | `to_pep_508_single_line` | each line is the print of a dependency object with `DepLineFree` (name, extras, url/reference/subdirectory: validated; bounds: `constraint_parse_bounds_line_free`; marker leaves: `parse_marker` rejects white space in values — checked on the real objects by the harness) |
| Requires-Python (legacy) | `format_python_constraint` (`Dep02.formatPythonConstraint`), all branches | `format_python_single_line` | `fp` is the print of a constraint with line-free bounds (`pythonPrinted_of_parse` for a single-line `python` string) |
| — | `str(constraint)` (`VC.toStr`) | `constraint_text_single_line` | — |
| — | `str(marker)` (`M.toStr`), `create_nested_marker` | `marker_text_single_line` | — |
| Project-URL (legacy links) | schema `format: uri`, regular expression modelled and pinned to the vendored text | `uri_format_single_line` | the schema engine accepted the value |
| Classifier (licence) | SPDX names regenerated from licenses.json (`Gen.licenseFallbackNames`), `decide` | inside `validated_guard_printers` | `license_by_id` returns the table's entry |
| Provides-Extra | `canonicalize_name` | `canonicalize_name_single_line` | every extra is the canonical form of a validated key | -/

/-- **`to_pep_508()` emits no CR/LF** when the strings stored in the dependency object contain none -/
theorem to_pep_508_single_line (d : Dep.Dep) (s : String) (h : d.toPep508 = .ok s) (hd : DepLineFree d) : SingleLine s :=
  Dep.toPep508_singleLine d s h hd

/-- **`str(constraint)` emits no CR/LF** when the texts of its bounds contain none (every spelling: ranges, `==X.*`,
`!=V`, `!=X.*`, `||` joins) -/
theorem constraint_text_single_line (c : VC) (s : String) (h : c.toStr = .ok s) (hb : BoundsLineFree c) : SingleLine s :=
  Meta.VC.toStr_singleLine c s h hb

/-- the bounds of every constraint `parse_constraint` returns from a single-line string carry line-free texts -/
theorem constraint_parse_bounds_line_free (s : String) (c : VC) (hs : SingleLine s)
    (h : VParser.parseConstraint s = .ok c) : BoundsLineFree c :=
  parseConstraint_boundsLineFree s c hs h

/-- **`format_python_constraint` emits no CR/LF**, every branch (version of any precision, range, union) -/
theorem format_python_single_line (c : VC) (t : String) (h : Dep02.formatPythonConstraint c = .ok t)
    (hb : BoundsLineFree c) : SingleLine t :=
  formatPythonConstraint_singleLine c t h hb

/-- **`str(marker)` emits no CR/LF** when the strings in its leaves contain none -/
theorem marker_text_single_line (m : Marker.M) (s : String) (h : m.toStr = .ok s) (hg : Marker.M.Good LeafLineFree m) :
    SingleLine s :=
  Meta.M.toStr_singleLine m s h hg

/-- a value accepted by the schema format `uri` contains no line break -/
theorem uri_format_single_line (u : String) (h : uriFormatMatch u.toList = true) : SingleLine u :=
  uriFormat_singleLine u h

/-- **the loop closed, no printer trusted**: validated pyproject + line-free objects ⇒ METADATA parses into exactly the
declared fields -/
theorem validated_render_parse_objects (proj : ProjectT) (tool : ToolT) (spdx : String → Option License)
    (stored : Option String) (extras rd texts : List String) (fp : String) (m : Meta.Meta)
    (hv : validateSingleLine proj tool = [])
    (hm : (configure proj tool spdx stored extras rd).toMeta texts fp = .ok m)
    (ho : Objects proj tool spdx extras rd fp) :
    Rfc822.parse (render m) =
      { unixFrom := none, headers := expectedFields m, body := bodyOf (m.description.map String.toList), defects := [] } :=
  render_parse m (validated_guard_objects proj tool spdx stored extras rd texts fp m hv hm ho)

/-- Version: the normal-form text of every version the parser returns has no line break (indeed only digits, lower-case
letters, `.`, `!`, `+`) -/
theorem version_text_single_line (s : String) (v : Version) (h : Version.parse s = .ok v) : SingleLine v.toString :=
  parsed_version_toString_singleLine s v h

/-- Provides-Extra: `canonicalize_name` neither creates nor removes a line break -/
theorem canonicalize_name_single_line (s : String) (h : SingleLine s) : SingleLine (canonicalizeName s) :=
  canonicalizeName_singleLine s h

/-- Requires-Python, legacy, union case (`~2.7 || ^3.6` → `>=2.7, !=3.0.*, …`): only constants of the source are printed -/
theorem format_python_union_single_line (rs : List RC) (t : String)
    (h : Dep02.formatPythonConstraint (.union rs) = .ok t) : SingleLine t :=
  formatPython_union_singleLine rs t h

/-! ### no hidden state between builds (the `history` stream) -/

/-- **`render` is history free**: in a session of builds done back to back, the document rendered for a record is
`render` of that record, whatever was rendered before or after it -/
theorem render_history_free (before after : List Meta.Meta) (m : Meta.Meta) :
    (renderSession (before ++ m :: after))[before.length]? = some (render m) :=
  Meta.render_history_free before after m

/-- the whole pipeline (configure → `Metadata.from_package` → `get_metadata_content`) likewise: the same project
description gives the same METADATA in any two sessions, at any positions -/
theorem build_history_free (b₁ a₁ b₂ a₂ : List BuildInput) (i : BuildInput) :
    (buildSession (b₁ ++ i :: a₁))[b₁.length]? = (buildSession (b₂ ++ i :: a₂))[b₂.length]? :=
  build_history_free_two b₁ a₁ b₂ a₂ i

/-- the hypotheses are satisfiable: a two-author, licensed, URL-carrying project in the PEP 621 spelling validates -/
example : validateSingleLine Common.demo.toProject.1 Common.demo.toProject.2 = [] := by decide

/-- `[project].requires-python` leaves `Trusted` as soon as the source validates that key -/
theorem validated_requires_python (proj : ProjectT) (tool : ToolT) (hk : "requires-python" ∈ Gen.singleLineScalarKeys)
    (hv : validateSingleLine proj tool = []) : ∀ r, proj.requiresPython = some r → SingleLine r :=
  validated_requiresPython proj tool hk hv

/-- likewise the names of extras as written, and the verbatim parts of `[tool.poetry.dependencies]` entries -/
theorem validated_extra_and_dependency_sources (proj : ProjectT) (tool : ToolT) (hv : validateSingleLine proj tool = []) :
    ("optional-dependencies" ∈ Gen.singleLineNameKeys → ∀ n ∈ proj.optionalDependencyNames, SingleLine n) ∧
    ("extras" ∈ Gen.singleLineNameKeys → ∀ n ∈ tool.extraNames, SingleLine n) ∧
    (Gen.singleLineDependencyKeys ≠ [] → ∀ d ∈ tool.dependencies, SingleLine d.1 ∧ ∀ spec ∈ d.2,
      (∀ k ∈ Gen.singleLineDependencyKeys, ∀ v, spec.kvs.lookup k = some v → SingleLine v) ∧
      (∀ e ∈ spec.extras, SingleLine e)) :=
  ⟨(validated_extra_names proj tool hv).1, (validated_extra_names proj tool hv).2,
   fun hne => validated_dependency_sources proj tool hne hv⟩

/-- **Classifiers are sorted and free of duplicates** (dynamic classifiers, `Package.all_classifiers`): the result is
`A ++ python ++ B` where `A ++ B` is the strictly increasing (code-point order) list of the declared and
licence classifiers that are not Python-version classifiers, `A` sorts up to "Programming Language :: Python",
`B` after it, and the whole list has no duplicates; its members are exactly declared ∪ python ∪ licence. -/
theorem classifiers_sorted_nodup (declared py : List String) (lic : Option License) (hpy : py.Nodup) :
    (allClassifiersFrom declared py lic).Nodup ∧
    (∀ c, c ∈ allClassifiersFrom declared py lic ↔ c ∈ declared ∨ c ∈ py ∨ (∃ l, lic = some l ∧ c = l.classifier)) ∧
    ∃ A B, allClassifiersFrom declared py lic = A ++ py ++ B ∧
      (A ++ B).Pairwise (fun a b => leStr a b = true ∧ a ≠ b) ∧
      (∀ a ∈ A, leStr a Gen.pythonClassifierPrefix = true) ∧ (∀ b ∈ B, leStr b Gen.pythonClassifierPrefix = false) ∧
      (∀ x ∈ A ++ B, x ∉ py) :=
  ⟨allClassifiersFrom_nodup hpy, fun c => mem_allClassifiersFrom, allClassifiersFrom_shape declared py lic⟩

example : (["Programming Language :: Python :: 3", "Programming Language :: Python :: 3.9"] : List String).Nodup := by decide

/-- the classifier list of a package with dynamic classifiers has no duplicates, whatever is declared
(a declared classifier equal to a derived one appears once) -/
theorem package_classifiers_nodup (p : Pkg) (hd : p.dynamicClassifiers = true) (cs : List String)
    (h : p.allClassifiers = .ok cs) : cs.Nodup := allClassifiers_nodup hd h

/-- **Python classifiers come from the range**: `Programming Language :: Python :: X[.Y]` is emitted exactly for the
entries of AVAILABLE_PYTHONS whose target (`X.*` for a bare major, the version `X.Y` otherwise) the
project's Python constraint admits (`allows_any`); no duplicates. -/
theorem python_classifiers_from_range (pc : VC) (cs : List String) (h : pythonClassifiers pc = .ok cs) :
    cs.Nodup ∧ ∀ c, c ∈ cs ↔ ∃ v ∈ Gen.availablePythons, c = pythonClassifierOf v ∧
      ∃ t, pythonTarget v = .ok t ∧ pc.allowsAny t = .ok true :=
  ⟨pythonClassifiers_nodup h, fun c => pythonClassifiers_mem h c⟩

/-- the loop on an explicit version list (the full table is sorted by a well-founded merge sort, which the
kernel does not unfold; the complete computation is exercised by the `python-classifiers` stream of the check) -/
example : (match (do let pc ← VParser.parseConstraint ">=3.12"; pythonClassifiersLoop pc ["2", "3", "3.11", "3.12", "3.12"] []) with
    | .ok cs => cs == ["Programming Language :: Python :: 3", "Programming Language :: Python :: 3.12"]
    | .error _ => false) = true := by decide +kernel

/-- **PEP 621 and legacy style yield the same metadata** for everything both can express (name, version,
description, authors/maintainers in every name/e-mail form, licence, keywords, dynamic classifiers,
homepage/repository/documentation and custom URLs, Python range, readme path): the `[project]` spelling
(with `dynamic = ["classifiers"]`) and the `[tool.poetry]` spelling configure packages whose `Metadata`
are equal — provided the Python range is written in the spelling `format_python_constraint` prints. -/
theorem project_eq_legacy (c : Common) (spdx : String → Option License) (extras rd texts : List String) (fp : String)
    (hw : c.Wf) (hfp : ∀ r, c.python = some r → fp = r) :
    (configure c.toProject.1 c.toProject.2 spdx none extras rd).toMeta texts fp =
      (configure {} c.toLegacy spdx none extras rd).toMeta texts fp :=
  project_eq_legacy_meta' c spdx extras rd texts fp hw hfp

/-- **beyond the canonical-spelling hypothesis** (single plain ranges: `^3.8`, `~3.10`, `>=3.9`, `>=3.7,<3.12`, …):
with `format_python_constraint` modelled (`Pkg.toMetaM`, Model/Dep02), the legacy project declaring
`python = r` and the PEP 621 project declaring `requires-python = t`, where `t` is what poetry-core prints for the
range `r` parses to and `t` reads back as that range, have equal metadata — Requires-Python and the derived Python
classifiers included. -/
theorem project_eq_legacy_range_printed (c : Common) (spdx : String → Option License) (extras rd texts : List String)
    (r t : String) (R : VRange) (hw : c.Wf)
    (hr : VParser.parseConstraint r = .ok (.single (.rng R))) (hr' : r ≠ "*") (ht' : t ≠ "*")
    (hs : (VC.single (.rng R)).toStr = .ok t) (hrt : VParser.parseConstraint t = .ok (.single (.rng R))) :
    (configure ({c with python := some t} : Common).toProject.1 ({c with python := some t} : Common).toProject.2
        spdx none extras rd).toMetaM texts =
      (configure {} ({c with python := some r} : Common).toLegacy spdx none extras rd).toMetaM texts :=
  project_eq_legacy_range c spdx extras rd texts r t R hw hr hr' ht' hs hrt

/-- the read-back hypothesis is discharged by C15's text round trip for every well-formed, tidy, non-wildcard range -/
theorem project_eq_legacy_range_roundtrip (c : Common) (spdx : String → Option License) (extras rd texts : List String)
    (r : String) (R : VRange) (hw : c.Wf)
    (hr : VParser.parseConstraint r = .ok (.single (.rng R))) (hr' : r ≠ "*")
    (hwf : R.WF) (hne : R.NE) (htidy : R.Tidy) (ht : ∀ e ∈ R.bounds, TextOK e)
    (hp : R.isSingleWildcardRange = false) :
    ∃ t, (VC.single (.rng R)).toStr = .ok t ∧
      (t ≠ "*" →
        (configure ({c with python := some t} : Common).toProject.1 ({c with python := some t} : Common).toProject.2
            spdx none extras rd).toMetaM texts =
          (configure {} ({c with python := some r} : Common).toLegacy spdx none extras rd).toMetaM texts) :=
  project_eq_legacy_range' c spdx extras rd texts r R hw hr hr' hwf hne htidy ht hp

example : ∃ R t, VParser.parseConstraint "^3.8" = .ok (.single (.rng R)) ∧ (VC.single (.rng R)).toStr = .ok t ∧
    t = ">=3.8,<4.0" ∧ VParser.parseConstraint t = .ok (.single (.rng R)) :=
  ⟨_, _, rfl, by decide +kernel, rfl, by decide +kernel⟩

/-! #### unions and wildcard spellings: the printed text does NOT read back as the same constraint

`Pkg.toMetaF` is `Metadata.from_package` in source order (`format_python_constraint` is called only when
`requires_python == "*"`).  The read-back of what poetry-core prints may differ structurally (`==3.9.*` has upper end
`3.10.dev0`; `~2.7 || ^3.6` is printed `>=2.7, !=3.0.*, …` and read back as `>=2.7,<3.0.dev0 || >=3.6.dev0`); the
metadata agree as soon as both constraints admit the same `AVAILABLE_PYTHONS` targets. -/

/-- **any legacy range** (`cr`: a version, a range, a union): if the PEP 621 project declares the text `t` that
`format_python_constraint` prints for it, and `t` reads back to a constraint admitting the same AVAILABLE_PYTHONS
targets, the two spellings have equal metadata -/
theorem project_eq_legacy_printed_any (c : Common) (spdx : String → Option License) (extras rd texts : List String)
    (r t : String) (cr ct : VC) (hw : c.Wf)
    (hr : VParser.parseConstraint r = .ok cr) (hr' : r ≠ "*") (ht' : t ≠ "*")
    (hf : Dep02.formatPythonConstraint cr = .ok t) (hrt : VParser.parseConstraint t = .ok ct)
    (hagree : ∀ v ∈ Gen.availablePythons, ∀ tv, pythonTarget v = .ok tv → ct.allowsAny tv = cr.allowsAny tv) :
    (configure ({c with python := some t} : Common).toProject.1 ({c with python := some t} : Common).toProject.2
        spdx none extras rd).toMetaF texts =
      (configure {} ({c with python := some r} : Common).toLegacy spdx none extras rd).toMetaF texts :=
  project_eq_legacy_printedF c spdx extras rd texts r t cr ct hw hr hr' ht' hf hrt hagree

/-- **every range the printer spells `==X.*`** (C15 `wildcard_spelt_*`: `3.9.*`, `>=3.9.dev0,<3.10`, …): all
hypotheses of the previous theorem are discharged -/
theorem project_eq_legacy_wildcard_spelt (c : Common) (spdx : String → Option License) (extras rd texts : List String)
    (r : String) (mn mx : Version) (hw : c.Wf)
    (hr : VParser.parseConstraint r = .ok (.single (.rng ⟨some mn, some mx, true, false⟩))) (hr' : r ≠ "*")
    (hwf : (⟨some mn, some mx, true, false⟩ : VRange).WF)
    (hwc : isWildcardCandidate mn mx false = true) (hnp : mn.isPostrelease = false) :
    ∃ t, Dep02.formatPythonConstraint (.single (.rng ⟨some mn, some mx, true, false⟩)) = .ok t ∧
      ((configure ({c with python := some t} : Common).toProject.1 ({c with python := some t} : Common).toProject.2
          spdx none extras rd).toMetaF texts =
        (configure {} ({c with python := some r} : Common).toLegacy spdx none extras rd).toMetaF texts) := by
  obtain ⟨t, hf, _, h⟩ := project_eq_legacy_wildcard c spdx extras rd texts r mn mx hw hr hr' hwf hwc hnp
  exact ⟨t, hf, h⟩

/-- **the union `~2.7 || ^3.6`** (printed `>=2.7, !=3.0.*, …, !=3.5.*`), every hypothesis discharged by evaluation -/
theorem project_eq_legacy_union_27_36 (c : Common) (hw : c.Wf) (spdx : String → Option License)
    (extras rd texts : List String) :
    (configure ({c with python := some ">=2.7, !=3.0.*, !=3.1.*, !=3.2.*, !=3.3.*, !=3.4.*, !=3.5.*"} : Common).toProject.1
        ({c with python := some ">=2.7, !=3.0.*, !=3.1.*, !=3.2.*, !=3.3.*, !=3.4.*, !=3.5.*"} : Common).toProject.2
        spdx none extras rd).toMetaF texts =
      (configure {} ({c with python := some "~2.7 || ^3.6"} : Common).toLegacy spdx none extras rd).toMetaF texts :=
  Meta.project_eq_legacy_union_27_36F c hw spdx extras rd texts

/-- the agreement hypothesis is not vacuous, and the two styles really differ where it fails: legacy `python = "3"` (the
single version 3.0.0) is printed `>=3.0,<4.0`, which admits 3.4 … 3.13 — a PEP 621 project declaring that text gets those
classifiers, the legacy project only `Python :: 3` -/
theorem counterexample_single_component_python :
    (do let cr ← VParser.parseConstraint "3"; Dep02.formatPythonConstraint cr) = .ok ">=3.0,<4.0" ∧
    printedCheck "3" ">=3.0,<4.0" = false := printedCheck_version_3_fails

example : Common.demo.Wf :=
  { name_ne := by decide, version_ne := by decide, custom_not_special := by decide, custom_keys_nodup := by decide }

end Poetry.C14
